#!/usr/bin/env python3
"""setup_cmd: checks that the tools the checks need are present (nothing is built ahead of
time: every check recompiles from /repo's working tree)."""
import shutil
import sys
missing = [t for t in ("cbmc", "goto-cc", "goto-instrument", "g++", "python3") if not shutil.which(t)]
if missing:
    print("missing tools:", missing)
    sys.exit(1)
print("ok")
