#!/usr/bin/env python3
"""Mechanical slicing + lowering of functions from /repo (DESIGN.md 3.1/3.2).

Every request is must-fire: an anchor that is not found exactly once, or a required
lowering rule that fires zero times, raises ExtractionBroken (-> exit status 2, never a
VIOLATION).
"""
import hashlib
import os
import re

REPO = os.environ.get("VERIF_REPO", "/repo")


class ExtractionBroken(Exception):
    pass


class Source:
    """A repo file with a comment/string mask so that brace matching is syntax aware."""

    def __init__(self, relpath, text=None):
        self.relpath = relpath
        self.path = os.path.join(REPO, relpath)
        if text is not None:
            self.text = text
        else:
            try:
                with open(self.path, encoding="utf-8", errors="replace") as f:
                    self.text = f.read()
            except OSError as e:
                raise ExtractionBroken(f"{relpath}: cannot read ({e})")
        self.mask = _mask(self.text)

    # -- primitives -----------------------------------------------------------------
    def find_unique(self, regex, start=0, end=None, what=None):
        end = len(self.text) if end is None else end
        ms = [m for m in re.finditer(regex, self.text[start:end], re.M)
              if self.mask[start + m.start()] == "c"]
        if len(ms) != 1:
            raise ExtractionBroken(
                f"{self.relpath}: anchor {what or regex!r} found {len(ms)} times (need exactly 1)")
        m = ms[0]
        return start + m.start(), start + m.end()

    def match_brace(self, open_pos):
        """open_pos indexes '{' / '(' / '['; returns index just past the matching closer."""
        o = self.text[open_pos]
        c = {"{": "}", "(": ")", "[": "]"}[o]
        depth = 0
        i = open_pos
        n = len(self.text)
        while i < n:
            if self.mask[i] == "c":
                ch = self.text[i]
                if ch == o:
                    depth += 1
                elif ch == c:
                    depth -= 1
                    if depth == 0:
                        return i + 1
            i += 1
        raise ExtractionBroken(f"{self.relpath}: unbalanced {o} at offset {open_pos}")

    def next_code_char(self, pos, chars):
        i = pos
        n = len(self.text)
        while i < n:
            if self.mask[i] == "c" and self.text[i] in chars:
                return i
            i += 1
        raise ExtractionBroken(f"{self.relpath}: no {chars!r} after offset {pos}")

    def line_of(self, pos):
        return self.text.count("\n", 0, pos) + 1


def _mask(text):
    """'c' for code, 'x' for comment/string/char-literal characters."""
    out = []
    i = 0
    n = len(text)
    while i < n:
        ch = text[i]
        nx = text[i + 1] if i + 1 < n else ""
        if ch == "/" and nx == "/":
            j = text.find("\n", i)
            j = n if j < 0 else j
            out.append("x" * (j - i))
            i = j
        elif ch == "/" and nx == "*":
            j = text.find("*/", i + 2)
            j = n if j < 0 else j + 2
            out.append("x" * (j - i))
            i = j
        elif ch == '"':
            # raw strings are not used in the sliced files; plain string with escapes
            j = i + 1
            while j < n and text[j] != '"':
                if text[j] == "\\":
                    j += 1
                if j < n and text[j] == "\n":
                    break
                j += 1
            j = min(j + 1, n)
            out.append("c" + "x" * (j - i - 2) + "c" if j - i >= 2 else "c" * (j - i))
            i = j
        elif ch == "'":
            # char literal (not a digit separator: previous char is not alnum)
            prev = text[i - 1] if i else " "
            if prev.isalnum() or prev == "_":
                out.append("c")
                i += 1
                continue
            j = i + 1
            while j < n and text[j] != "'" and text[j] != "\n":
                if text[j] == "\\":
                    j += 1
                j += 1
            j = min(j + 1, n)
            out.append("c" + "x" * (j - i - 2) + "c" if j - i >= 2 else "c" * (j - i))
            i = j
        else:
            out.append("c")
            i += 1
    m = "".join(out)
    assert len(m) == n, (len(m), n)
    return m


class Slice:
    def __init__(self, name, src, start, end, text=None):
        self.name = name
        self.src = src
        self.start = start
        self.end = end
        self.text = src.text[start:end] if text is None else text
        self.orig_sha = hashlib.sha256(src.text[start:end].encode()).hexdigest()
        self.rules = {}

    def info(self):
        return {
            "slice": self.name,
            "file": self.src.relpath,
            "lines": [self.src.line_of(self.start), self.src.line_of(max(self.start, self.end - 1))],
            "bytes": [self.start, self.end],
            "sha256": self.orig_sha,
            "lowering": self.rules,
        }

    # -- lowering helpers --------------------------------------------------------
    def sub(self, rule, regex, repl, required=False, count=0, flags=re.M):
        new, n = re.subn(regex, repl, self.text, count=count, flags=flags)
        self.rules[rule] = self.rules.get(rule, 0) + n
        if required and n == 0:
            raise ExtractionBroken(
                f"slice {self.name}: required lowering rule {rule} ({regex!r}) fired 0 times")
        self.text = new
        return n

    def replace(self, rule, old, new, required=False):
        n = self.text.count(old)
        self.rules[rule] = self.rules.get(rule, 0) + n
        if required and n == 0:
            raise ExtractionBroken(
                f"slice {self.name}: required lowering rule {rule} ({old!r}) fired 0 times")
        self.text = self.text.replace(old, new)
        return n


def function(src, name, sig_regex, body_only=False, within=None):
    """Slice a function definition: from the start of the signature match to the matching
    closing brace of its body.  sig_regex must match exactly once (in code)."""
    lo, hi = within if within else (0, None)
    s, e = src.find_unique(sig_regex, lo, hi, what=name)
    # parameter list
    p = src.next_code_char(s, "(")
    pe = src.match_brace(p)
    b = src.next_code_char(pe, "{;")
    if src.text[b] == ";":
        raise ExtractionBroken(f"{src.relpath}: {name} matched a declaration, not a definition")
    be = src.match_brace(b)
    if body_only:
        return Slice(name, src, b, be)
    return Slice(name, src, s, be)


def region(src, name, start_regex, end_regex, include_end=False, within=None):
    lo, hi = within if within else (0, None)
    s, _ = src.find_unique(start_regex, lo, hi, what=name + ":start")
    es, ee = src.find_unique(end_regex, s, hi, what=name + ":end")
    return Slice(name, src, s, ee if include_end else es)


def _skip_ws(src, i):
    n = len(src.text)
    while i < n and (src.mask[i] == "x" or src.text[i] in " \t\r\n"):
        i += 1
    return i


def _statement_end(src, i):
    """i at the first char of a statement; returns index past it (block or simple stmt)."""
    i = _skip_ws(src, i)
    if src.text[i] == "{":
        return src.match_brace(i)
    if src.text.startswith("if", i) and not (src.text[i + 2].isalnum() or src.text[i + 2] == "_"):
        return _if_end(src, i)
    # simple statement: up to ';' at depth 0
    depth = 0
    n = len(src.text)
    while i < n:
        if src.mask[i] == "c":
            ch = src.text[i]
            if ch in "({[":
                depth += 1
            elif ch in ")}]":
                depth -= 1
            elif ch == ";" and depth == 0:
                return i + 1
        i += 1
    raise ExtractionBroken(f"{src.relpath}: unterminated statement")


def _if_end(src, i):
    p = src.next_code_char(i, "(")
    pe = src.match_brace(p)
    e = _statement_end(src, pe)
    j = _skip_ws(src, e)
    if src.text.startswith("else", j) and not (src.text[j + 4].isalnum() or src.text[j + 4] == "_"):
        return _statement_end(src, j + 4)
    return e


def if_chain(src, name, anchor_regex, within=None):
    """The complete if / else-if / else statement whose `if` is matched by anchor_regex."""
    lo, hi = within if within else (0, None)
    s, _ = src.find_unique(anchor_regex, lo, hi, what=name)
    if not src.text.startswith("if", s):
        raise ExtractionBroken(f"{name}: anchor must start at the `if` keyword")
    return Slice(name, src, s, _if_end(src, s))


def statement(src, name, anchor_regex, within=None):
    """One statement (simple, block, if-chain, for/while with body) starting at the anchor."""
    lo, hi = within if within else (0, None)
    s, _ = src.find_unique(anchor_regex, lo, hi, what=name)
    t = src.text
    m = re.match(r"(for|while|switch)\b", t[s:s + 8])
    if m:
        p = src.next_code_char(s, "(")
        pe = src.match_brace(p)
        return Slice(name, src, s, _statement_end(src, pe))
    return Slice(name, src, s, _statement_end(src, s))


def braced(src, name, head_regex, within=None):
    """Slice `head ... { ... }` (class/struct/namespace/enum): from head match to the
    matching brace (plus a trailing ';' if present)."""
    lo, hi = within if within else (0, None)
    s, e = src.find_unique(head_regex, lo, hi, what=name)
    b = src.next_code_char(e - 1 if src.text[e - 1] == "{" else e, "{")
    be = src.match_brace(b)
    j = be
    while j < len(src.text) and src.text[j] in " \t\n":
        j += 1
    if j < len(src.text) and src.text[j] == ";":
        be = j + 1
    return Slice(name, src, s, be)


def switch_clause(src, name, func_slice, case_label, stop_labels=None, occurrence=None):
    """Inside func_slice, the text from `case <label>:` (including directly stacked case
    labels *before* it) up to the next `case`/`default` at the same brace depth that
    follows a terminating `break;`/`return`.  Returns Slice of the statements."""
    text = src.text
    lo, hi = func_slice.start, func_slice.end
    if occurrence is None:
        s, e = src.find_unique(r"\bcase\s+" + re.escape(case_label) + r"\s*:", lo, hi,
                               what=f"{name}: case {case_label}")
    else:
        # the label also occurs in a nested switch: take the occurrence-th one (0 = the outer clause, which comes first)
        ms = [m for m in re.finditer(r"\bcase\s+" + re.escape(case_label) + r"\s*:", text[lo:hi]) if src.mask[lo + m.start()] == "c"]
        if len(ms) <= occurrence:
            raise ExtractionBroken(f"{src.relpath}: {name}: case {case_label} occurrence {occurrence} not found")
        s, e = lo + ms[occurrence].start(), lo + ms[occurrence].end()
    # extend backwards over stacked labels
    start = s
    while True:
        m = re.search(r"\bcase\s+[\w:]+\s*:\s*$", text[lo:start])
        if not m:
            break
        start = lo + m.start()
    # forward: find depth-0 terminator
    depth = 0
    i = e
    seen_stmt = False
    while i < hi:
        if src.mask[i] == "c":
            ch = text[i]
            if ch in "{(":
                depth += 1
            elif ch in "})":
                if depth == 0:
                    break
                depth -= 1
                if depth == 0 and ch == "}":
                    seen_stmt = True  # a braced clause body `case X: { ... }` is a complete statement
            elif depth == 0 and ch == ";":
                seen_stmt = True
            elif depth == 0 and seen_stmt and re.match(r"(case\s|default\s*:)", text[i:i + 12]) \
                    and not (text[i - 1].isalnum() or text[i - 1] == "_"):
                break
        i += 1
    return Slice(name, src, start, i)


def strip_labels(clause_text):
    """Remove the leading `case X:` labels from a switch-clause slice."""
    return re.sub(r"^\s*(case\s+[\w:]+\s*:\s*)+", "", clause_text)


def sha(text):
    return hashlib.sha256(text.encode()).hexdigest()


def lower_if_init(sl, required=True):
    """Rule L8: `if (D; C) S [else ...]` -> `{ D; if (C) S [else ...] }` (innermost first)."""
    count = 0
    while True:
        ts = Source("<slice:%s>" % sl.name, text=sl.text)
        found = None
        for m in re.finditer(r"\bif\s*\(", ts.text):
            if ts.mask[m.start()] != "c":
                continue
            p = m.end() - 1
            pe = ts.match_brace(p)
            inner = ts.text[p + 1:pe - 1]
            # top-level ';' inside the parentheses?
            depth = 0
            semi = None
            for i, ch in enumerate(inner):
                if ts.mask[p + 1 + i] != "c":
                    continue
                if ch in "([{":
                    depth += 1
                elif ch in ")]}":
                    depth -= 1
                elif ch == ";" and depth == 0:
                    semi = i
                    break
            if semi is not None:
                found = (m.start(), p, pe, inner[:semi], inner[semi + 1:])
        if not found:
            break
        s, p, pe, init, cond = found
        end = _if_end(ts, s)
        sl.text = ts.text[:s] + "{ " + init.strip() + "; if (" + cond.strip() + ")" + ts.text[pe:end] + " }" + ts.text[end:]
        count += 1
    sl.rules["L8:if-with-initialiser"] = sl.rules.get("L8:if-with-initialiser", 0) + count
    if required and count == 0:
        raise ExtractionBroken(f"slice {sl.name}: rule L8 fired 0 times")
    return sl


def rename_self_calls(sl, fname, pattern=None, minimum=1, rule="L12:self-call->contract"):
    """Rule L12: calls of `fname` inside the function body are renamed to fname__contract."""
    head, body = sl.text.split("{", 1)
    rx = pattern or (r"\b%s\(" % re.escape(fname))
    n = len(re.findall(rx, body))
    if n < minimum:
        raise ExtractionBroken(f"slice {sl.name}: expected >= {minimum} call(s) of {fname}, found {n}")
    body = re.sub(rx, lambda m: m.group(0).replace(fname, fname + "__contract"), body)
    sl.text = head + "{" + body
    sl.rules[rule + ":" + fname] = n
    return sl


def lower_range_for(sl, elem_type, required=False):
    """Rule L7: every `for ([const] auto[&] X : EXPR) BODY` -> iterator loop whose body starts with
    `[const] ELEM& X = *verif_it;` (the standard's own definition of range-for)."""
    count = 0
    while True:
        ts = Source("<slice:%s>" % sl.name, text=sl.text)
        m = None
        for mm in re.finditer(r"\bfor\s*\(\s*(const\s+)?(?:auto|%s)\s*(&?)\s*(\w+)\s*:\s*" % re.escape(elem_type), ts.text):
            if ts.mask[mm.start()] == "c":
                m = mm
                break
        if not m:
            break
        p = ts.text.index("(", m.start())
        pe = ts.match_brace(p)
        expr = ts.text[m.end():pe - 1].strip()
        body_end = _statement_end(ts, pe)
        body = ts.text[pe:body_end].strip()
        if body.startswith("{"):
            body = body[1:-1]
        const = "const " if m.group(1) else ""
        ref = "&" if m.group(2) else ""
        it = "verif_it%d" % count
        new = ("for (%s* %s = (%s).begin(); %s != (%s).end(); ++%s) { %s%s%s %s = *%s; %s }"
               % (elem_type, it, expr, it, expr, it, const, elem_type, ref, m.group(3), it, body))
        sl.text = ts.text[:m.start()] + new + ts.text[body_end:]
        count += 1
    sl.rules["L7:range-for->iterator loop"] = sl.rules.get("L7:range-for->iterator loop", 0) + count
    if required and count == 0:
        raise ExtractionBroken(f"slice {sl.name}: rule L7 fired 0 times")
    return sl


def static_helpers(src, exclude=()):
    """Top-level `static ...(...) {...}` function definitions of a file (helpers a refactoring may add),
    except those whose name is in `exclude`."""
    out = []
    for m in re.finditer(r"^static\s+[\w:<>\*&\s]+?\b(\w+)\s*\(", src.text, re.M):
        if src.mask[m.start()] != "c" or m.group(1) in exclude:
            continue
        p = src.text.index("(", m.start())
        pe = src.match_brace(p)
        b = src.next_code_char(pe, "{;")
        if src.text[b] != "{":
            continue
        out.append(Slice("static helper " + m.group(1), src, m.start(), src.match_brace(b)))
    return out


def yacc_rule(src, name):
    """Alternatives of a bison rule `name: alt | alt ... ;` as lists of items: ("sym", text) for grammar symbols
    (identifiers and character literals), ("act", text) for action blocks (braces included), ("prec", text)."""
    s, e = src.find_unique(r"^%s\s*:" % re.escape(name), what="rule " + name)
    i = e
    n = len(src.text)
    alts, cur = [], []
    while i < n:
        if src.mask[i] != "c":
            i += 1
            continue
        ch = src.text[i]
        if ch == "{":
            j = src.match_brace(i)
            cur.append(("act", src.text[i:j]))
            i = j
        elif ch == "'":
            j = i + 1
            while src.mask[j] != "c":
                j += 1
            cur.append(("sym", src.text[i:j + 1]))
            i = j + 1
        elif ch == "|":
            alts.append(cur); cur = []
            i += 1
        elif ch == ";":
            alts.append(cur)
            return Slice("rule " + name, src, s, i + 1), alts
        elif ch == "%":
            m = re.match(r"%prec\s+(\S+)", src.text[i:])
            if not m:
                raise ExtractionBroken(f"rule {name}: unexpected directive")
            cur.append(("prec", m.group(1)))
            i += m.end()
        elif ch.isalpha() or ch == "_":
            m = re.match(r"\w+", src.text[i:])
            cur.append(("sym", m.group(0)))
            i += m.end()
        else:
            i += 1
    raise ExtractionBroken(f"rule {name}: unterminated")


def lower_range_for_map(sl, key_type="auto", val_type="auto", required=False):
    """Rule L7m: `for ([const] auto[&] [K, V] : EXPR) BODY` -> a loop over the associative stub's accessors
    (verif_cap / verif_has / verif_key / verif_val): the standard's range-for over a map, entry by entry."""
    count = 0
    while True:
        ts = Source("<slice:%s>" % sl.name, text=sl.text)
        m = None
        for mm in re.finditer(r"\bfor\s*\(\s*(?:const\s+)?auto\s*&?\s*\[\s*(\w+)\s*,\s*(\w+)\s*\]\s*:\s*", ts.text):
            if ts.mask[mm.start()] == "c":
                m = mm
                break
        if not m:
            break
        p = ts.text.index("(", m.start())
        pe = ts.match_brace(p)
        expr = ts.text[m.end():pe - 1].strip()
        body_end = _statement_end(ts, pe)
        body = ts.text[pe:body_end].strip()
        if body.startswith("{"):
            body = body[1:-1]
        k = "verif_mk%d" % count
        new = ("for (int %s = 0; %s < (%s).verif_cap(); ++%s) { if (!(%s).verif_has(%s)) continue; %s %s = (%s).verif_key(%s); %s %s = (%s).verif_val(%s); %s }"
               % (k, k, expr, k, expr, k, key_type, m.group(1), expr, k, val_type, m.group(2), expr, k, body))
        sl.text = ts.text[:m.start()] + new + ts.text[body_end:]
        count += 1
    sl.rules["L7m:range-for over a map->accessor loop"] = sl.rules.get("L7m:range-for over a map->accessor loop", 0) + count
    if required and count == 0:
        raise ExtractionBroken(f"slice {sl.name}: rule L7m fired 0 times")
    return sl


def lower_local_lambdas(sl):
    """Rule L25: a local, non-returning lambda `[const] auto NAME = [captures](T p) { BODY };` whose uses are call
    statements `NAME(arg);` is expanded at each call: `{ T p = arg; BODY }` (captures by reference are the enclosing
    variables themselves).  CBMC's front end has no lambdas."""
    count = 0
    while True:
        ts = Source("<slice:%s>" % sl.name, text=sl.text)
        m = None
        for mm in re.finditer(r"(?:const\s+)?auto\s+(\w+)\s*=\s*\[[^\]]*\]\s*\(([^)]*)\)\s*(?:mutable\s*)?\{", ts.text):
            if ts.mask[mm.start()] == "c":
                m = mm
                break
        if not m:
            break
        b = m.end() - 1
        be = ts.match_brace(b)
        j = be
        while ts.text[j] in " \t\n":
            j += 1
        if ts.text[j] != ";":
            raise ExtractionBroken(f"slice {sl.name}: lambda {m.group(1)} is not a plain local definition")
        name, params, body = m.group(1), [p.strip() for p in m.group(2).split(",") if p.strip()], ts.text[b + 1:be - 1]
        if re.search(r"\breturn\b", body):
            raise ExtractionBroken(f"slice {sl.name}: lambda {name} returns a value (rule L25 covers statement lambdas only)")
        rest = ts.text[:m.start()] + ts.text[j + 1:]
        def expand(cm):
            args = [a.strip() for a in cm.group(1).split(",")] if cm.group(1).strip() else []
            if len(args) != len(params):
                raise ExtractionBroken(f"slice {sl.name}: call of lambda {name} with {len(args)} arguments")
            binds = " ".join("%s = %s;" % (p, a) for p, a in zip(params, args))
            return "{ " + binds + " " + body + " }"
        new, n = re.subn(r"\b%s\(([^;]*)\);" % re.escape(name), expand, rest)
        if n == 0 or re.search(r"\b%s\b" % re.escape(name), new):
            raise ExtractionBroken(f"slice {sl.name}: lambda {name} is used other than in call statements")
        sl.text = new
        count += 1
    sl.rules["L25:local statement lambda->expanded at its calls"] = sl.rules.get("L25:local statement lambda->expanded at its calls", 0) + count
    return sl


def lower_inline_lambdas(sl, prefix="verif_fn"):
    """Rule L25b: a lambda written as a call argument, `f(..., [a, &b](T x) { return E; })`, becomes an object of a functor
    struct hoisted in front of the slice: `struct P_k { A a; B& b; P_k(A a_, B& b_); R operator()(T x) const { return E; } };`
    and `P_k(a, b)` at the call.  The types of the captured names are read off their declarations in the slice
    (parameters or locals `T name`); the result type is `bool` when the body is one `return` of a comparison / logical
    expression, otherwise the extraction aborts.  CBMC's front end has no lambdas."""
    k = 0
    structs = []
    while True:
        ts = Source("<slice:%s>" % sl.name, text=sl.text)
        m = None
        for mm in re.finditer(r"(?<=[(,])\s*\[([^\]]*)\]\s*\(([^)]*)\)\s*(?:const\s*)?\{", ts.text):
            if ts.mask[mm.start() + len(mm.group(0)) - 1] == "c":
                m = mm
                break
        if not m:
            break
        b = m.end() - 1
        be = ts.match_brace(b)
        body = ts.text[b + 1:be - 1].strip()
        rm = re.fullmatch(r"return ([^;]+);", body)
        if not rm or not re.search(r"==|!=|<|>|&&|\|\||^!|\bis_\w+\(", rm.group(1)):
            raise ExtractionBroken(f"slice {sl.name}: inline lambda whose body is not one `return <predicate>;` (rule L25b)")
        caps = [c.strip() for c in m.group(1).split(",") if c.strip()]
        fields, ctor_p, ctor_i, args = [], [], [], []
        for c in caps:
            ref = c.startswith("&")
            nm = c.lstrip("&").strip()
            if not re.fullmatch(r"\w+", nm) or nm == "this":
                raise ExtractionBroken(f"slice {sl.name}: inline lambda capture {c!r} is not a plain name (rule L25b)")
            dm = re.search(r"(?:^|[(,;{]\s*)((?:const\s+)?[\w:]+(?:<[^<>]*>)?)\s*(&?)\s*%s\b\s*[,)=;]" % re.escape(nm), ts.text[:m.start()], re.M)
            if not dm:
                raise ExtractionBroken(f"slice {sl.name}: no declaration of the captured name {nm} in the slice (rule L25b)")
            ty = dm.group(1)
            fields.append(f"{ty}{'&' if ref else ''} {nm};")
            ctor_p.append(f"{ty}{'&' if ref else ''} {nm}_")
            ctor_i.append(f"{nm}({nm}_)")
            args.append(nm)
        name = f"{prefix}_{re.sub(r'[^A-Za-z0-9]', '_', sl.name)[:24]}_{k}"
        ctor = f"    {name}({', '.join(ctor_p)}): {', '.join(ctor_i)} {{}}\n" if caps else ""
        structs.append(f"struct {name}\n{{\n" + "".join(f"    {f}\n" for f in fields) + ctor +
                       f"    bool operator()({m.group(2)}) const {{ {body} }}\n}};\n")
        lead = m.group(0)[:len(m.group(0)) - len(m.group(0).lstrip())]
        sl.text = ts.text[:m.start()] + lead + f"{name}({', '.join(args)})" + ts.text[be:]
        k += 1
    if k:
        sl.text = "".join(structs) + sl.text
    sl.rules["L25b:inline predicate lambda->functor struct"] = sl.rules.get("L25b:inline predicate lambda->functor struct", 0) + k
    return sl


def lower_ternary_assign(sl):
    """Rule L20 (general form): a statement `X = C ? A : B;` becomes `if (C) X = A; else X = B;` (CBMC mis-types ?: over
    class objects)."""
    new, n = re.subn(r"(^|[;{}]\s*)([\w\.\->\[\]]+) = ([^;?]+?) \? ([^;:]+?) : ([^;]+?);", r"\1if (\3) \2 = \4; else \2 = \5;", sl.text, flags=re.M)
    sl.text = new
    sl.rules["L20:x = c ? a : b -> if/else"] = sl.rules.get("L20:x = c ? a : b -> if/else", 0) + n
    return sl


def lower_exceptions(sl, ret_default, kinds, flag="verif_exc"):
    """Rule L26: C++ exceptions as an explicit flag (CBMC's C++ front end has no throw / try / catch).
      throw K{...}; / throw K(...);          ->  { flag = <id of K>; return DEFAULT; }
      after every simple statement           ->  if (flag) return DEFAULT;             (propagation to the caller)
      try { B } catch (K& e) { H }           ->  { B with `if (flag) goto L;` after every simple statement } L: ;
                                                 if (flag == <id of K>) { flag = 0; K e; H }  if (flag) return DEFAULT;
    `kinds` maps exception class names to flag values; `ret_default` is the text returned on the exceptional path
    ("" for void functions).  Only the statement forms that occur in the sliced functions are handled; anything else
    (nested try, catch (...), rethrow) aborts the extraction."""
    ret = ("return %s;" % ret_default) if ret_default else "return;"
    n_throw = n_try = n_prop = 0

    def throw_repl(m):
        nonlocal n_throw
        k = m.group(1)
        if k not in kinds:
            raise ExtractionBroken(f"slice {sl.name}: throw of an exception class outside rule L26's table: {k}")
        n_throw += 1
        return "VERIF_L26_THROW_%d;" % kinds[k]
    text = sl.text
    # function body starts at the first '{'
    b0 = text.index("{")
    head, body = text[:b0 + 1], text[b0 + 1:]
    body = re.sub(r"\bthrow\s+([\w:]+)\s*(\{[^;]*\}|\([^;]*\))\s*;", throw_repl, body)
    tsb = Source("<body>", text=body)
    if any(tsb.mask[m.start()] == "c" for m in re.finditer(r"\bthrow\b", body)):
        raise ExtractionBroken(f"slice {sl.name}: a throw statement rule L26 cannot lower")

    def add_checks(seg, action):
        """after every ';' that ends a simple statement (paren depth 0, not inside a for-header) append the check"""
        nonlocal n_prop
        ts = Source("<seg>", text=seg)
        out, depth, i, n = [], 0, 0, len(seg)
        while i < n:
            ch = seg[i]
            out.append(ch)
            if ts.mask[i] == "c":
                if ch in "([":
                    depth += 1
                elif ch in ")]":
                    depth -= 1
                elif ch == ";" and depth == 0:
                    # do not touch `return ...;` produced by the throw lowering or plain returns: nothing runs after them
                    sofar = "".join(out)
                    stmt_start = max(sofar.rfind(c, 0, len(sofar) - 1) for c in ";{}")
                    stmt = sofar[stmt_start + 1:].strip()
                    follows_else = re.match(r"\s*else\b", seg[i + 1:]) is not None
                    if not re.match(r"(return\b|break\b|continue\b|goto\b|VERIF_L26_THROW_)", stmt) and not follows_else:
                        out.append(" " + action)
                        n_prop += 1
            i += 1
        return "".join(out)
    # try blocks
    parts = []
    k = 0
    while True:
        ts = Source("<body>", text=body)
        m = None
        for mm in re.finditer(r"\btry\s*\{", body):
            if ts.mask[mm.start()] == "c":
                m = mm
                break
        if not m:
            break
        tb = m.end() - 1
        te = ts.match_brace(tb)
        cm = re.match(r"\s*catch\s*\(\s*(?:const\s+)?([\w:]+)\s*&\s*(\w+)\s*\)\s*\{", body[te:])
        if not cm:
            raise ExtractionBroken(f"slice {sl.name}: try without a single typed catch clause (rule L26)")
        hb = te + cm.end() - 1
        he = ts.match_brace(hb)
        if re.match(r"\s*catch\b", body[he:]):
            raise ExtractionBroken(f"slice {sl.name}: several catch clauses (rule L26)")
        kname, var = cm.group(1), cm.group(2)
        if kname not in kinds:
            raise ExtractionBroken(f"slice {sl.name}: catch of a class outside rule L26's table: {kname}")
        inner = body[tb + 1:te - 1]
        if re.search(r"\btry\b", inner):
            raise ExtractionBroken(f"slice {sl.name}: nested try (rule L26)")
        label = "verif_catch_%s_%d" % (re.sub(r"\W+", "_", sl.name), k)  # unique across the TU: CBMC's C++ front end keeps labels in one table
        inner = re.sub(r"VERIF_L26_THROW_(\d+);", lambda tm: "{ %s = %s; goto %s; }" % (flag, tm.group(1), label), inner)
        inner = add_checks(inner, "if (%s) goto %s;" % (flag, label))
        handler = body[hb + 1:he - 1]
        before = add_checks(body[:m.start()], "if (%s) %s" % (flag, ret))
        parts.append(before + "{" + inner + "} " + label + ": ; if (%s == %d) { %s = 0; %s %s; %s } if (%s) %s" % (flag, kinds[kname], flag, kname, var, handler, flag, ret))
        body = body[he:]
        k += 1
        n_try += 1
    # the closing brace of the function stays last
    tail_end = body.rstrip().rfind("}")
    parts.append(add_checks(body[:tail_end], "if (%s) %s" % (flag, ret)) + body[tail_end:])
    sl.text = head + re.sub(r"VERIF_L26_THROW_(\d+);", lambda m: "{ %s = %s; %s }" % (flag, m.group(1), ret), "".join(parts))
    sl.rules["L26:throw->flag + return"] = sl.rules.get("L26:throw->flag + return", 0) + n_throw
    sl.rules["L26:try/catch->goto + flag test"] = sl.rules.get("L26:try/catch->goto + flag test", 0) + n_try
    sl.rules["L26:exception propagation checks"] = sl.rules.get("L26:exception propagation checks", 0) + n_prop
    return sl


def lower_structured_pair(sl, first_type, second_type, only_if=None):
    """Rule L2: `[const] auto[&] [a, b] = EXPR;` -> an explicit std::pair local and two typed locals (CBMC's front end has
    neither structured bindings nor `auto` over class types).  only_if: regex the initialiser must match."""
    count = 0

    def rep(m):
        nonlocal count
        if only_if and not re.search(only_if, m.group(4)):
            return m.group(0)
        k = count
        count += 1
        c = m.group(1) or ""
        return ("std::pair<%s, %s> verif_sb%d = %s; %s%s %s = verif_sb%d.first; %s%s %s = verif_sb%d.second;"
                % (first_type, second_type, k, m.group(4), c, first_type, m.group(2), k, c, second_type, m.group(3), k))
    sl.text = re.sub(r"\b(const\s+)?auto\s*&?\s*\[\s*(\w+)\s*,\s*(\w+)\s*\]\s*=\s*([^;]+);", rep, sl.text)
    sl.rules["L2:structured binding of a pair->explicit locals"] = sl.rules.get("L2:structured binding of a pair->explicit locals", 0) + count
    return sl


def hoist_enclosing_lambdas(src, fn_slice, sl):
    """A local lambda defined in the enclosing function before the slice and used inside it is copied in front of the slice
    (so that rule L25 can expand it at its calls)."""
    before = src.text[fn_slice.start:sl.start]
    ts = Source("<before>", text=before)
    n = 0
    pre = ""
    for m in re.finditer(r"(?:const\s+)?auto\s+(\w+)\s*=\s*\[[^\]]*\]\s*\([^)]*\)\s*(?:mutable\s*)?\{", before):
        if ts.mask[m.start()] != "c" or not re.search(r"\b%s\s*\(" % re.escape(m.group(1)), sl.text):
            continue
        be = ts.match_brace(m.end() - 1)
        j = be
        while before[j] in " \t\n":
            j += 1
        if before[j] != ";":
            continue
        pre += before[m.start():j + 1] + "\n"
        n += 1
    if n:
        sl.text = pre + sl.text
    sl.rules["L25a:lambda of the enclosing function used in the slice->copied in front of it"] = n
    return sl
