#!/bin/bash
# usage: tools/eval_seeded.sh <property-id> <worktree> <name>
# 1) confirms in the scratch worktree: tests pass with the change; demo fails with it and passes without it
# 2) stores patch/demo/meta under /verif/seeded/<name>/
# 3) applies the patch to /repo, runs the property's quick check, reverts /repo
set -u
ID=$1; WT=$2; NAME=$3
OUT=/verif/seeded/$NAME; mkdir -p $OUT
cp $WT/patch.diff $WT/demo.cpp $OUT/ 2>/dev/null; cp $WT/meta.json $OUT/agent_meta.json 2>/dev/null
B=$(mktemp -d /tmp/seedb.XXXXXX)
log=$OUT/confirm.log; : > $log
( cd $WT && git stash -q && git stash apply -q ) 2>/dev/null  # keep change applied, remember it
echo "== build+tests WITH change" >> $log
cmake -G Ninja -S $WT -B $B/with -DCMAKE_BUILD_TYPE=Debug >/dev/null 2>&1 && cmake --build $B/with -j16 >/dev/null 2>&1
ctest --test-dir $B/with -j8 2>&1 | tail -3 >> $log
TESTS_WITH=$(ctest --test-dir $B/with -j8 2>&1 | grep -c "100% tests passed")
LIB=$(find $B/with -name "libUTAP.*" | head -1)
g++ -std=c++17 -I$WT/include -I$WT/src $OUT/demo.cpp $LIB -lxml2 -ldl -Wl,-rpath,$(dirname $LIB) -o $B/demo_with >> $log 2>&1
( cd $B && timeout 120 ./demo_with >> $log 2>&1 ); DEMO_WITH=$?
echo "demo WITH change exit=$DEMO_WITH" >> $log
# without: original sources = /repo HEAD
git -C /repo worktree add -q --detach $B/orig HEAD
cmake -G Ninja -S $B/orig -B $B/without -DCMAKE_BUILD_TYPE=Debug -DUTAP_WITH_TESTS=OFF >/dev/null 2>&1 && cmake --build $B/without --target UTAP -j16 >/dev/null 2>&1
LIB2=$(find $B/without -name "libUTAP.*" | head -1)
g++ -std=c++17 -I$B/orig/include -I$B/orig/src $OUT/demo.cpp $LIB2 -lxml2 -ldl -Wl,-rpath,$(dirname $LIB2) -o $B/demo_without >> $log 2>&1
( cd $B && timeout 120 ./demo_without >> $log 2>&1 ); DEMO_WITHOUT=$?
echo "demo WITHOUT change exit=$DEMO_WITHOUT" >> $log
git -C /repo worktree remove --force $B/orig
# run the check on /repo with the patch
cd /repo && git apply $OUT/patch.diff && APPLIED=1 || APPLIED=0
cd /verif && bin/check $ID --tier quick > $OUT/check.log 2>&1; RC=$?
cd /repo && git checkout -- . 
rm -rf $B
echo "tests_pass_with_change=$TESTS_WITH demo_with=$DEMO_WITH demo_without=$DEMO_WITHOUT applied=$APPLIED check_exit=$RC"
grep -E "^VIOLATION|^UNDECIDED|^EXTRACTION|^SPURIOUS|^\[" $OUT/check.log | cut -c1-220 | head -8
