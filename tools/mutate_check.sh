#!/bin/bash
# usage: tools/mutate_check.sh <property> <file-relative-to-repo> <python-regex> <replacement> [label]
# Applies one textual mutation to a scratch worktree of /repo HEAD and runs the property's quick check against it
# (self-test of the detector; nothing in /repo or the committed evidence is touched).
set -u
ID=$1; FILE=$2; RX=$3; REPL=$4; LABEL=${5:-mut}
B=$(mktemp -d /tmp/mut.XXXXXX)
git -C /repo worktree add -q --detach $B/wt HEAD
python3 - "$B/wt/$FILE" "$RX" "$REPL" <<'PY'
import re,sys
p,rx,repl=sys.argv[1:4]
t=open(p).read()
n=len(re.findall(rx,t,re.M))
if n!=1:
    print("MUTATION-ANCHOR matched",n,"times"); sys.exit(3)
open(p,'w').write(re.sub(rx,repl,t,count=1,flags=re.M))
PY
rc=$?
if [ $rc -eq 0 ]; then
  (cd /verif && VERIF_REPO=$B/wt VERIF_OUT=$B/out bin/check $ID --tier quick > $B/log 2>&1); RC=$?
  echo "[$LABEL] exit=$RC $(grep -E '^VIOLATION|^UNDECIDED|^EXTRACTION|^SPURIOUS' $B/log | head -3 | cut -c1-200)"
fi
git -C /repo worktree remove --force $B/wt; rm -rf $B
