#!/bin/bash
# usage: tools/eval_seeded2.sh <property-id> <agent-worktree> <name>
# Like eval_seeded.sh, but the checks are pointed at a scratch worktree that carries the patch
# (VERIF_REPO/VERIF_OUT), so /repo and the committed evidence are not touched and several
# evaluations can run side by side.
#  1) confirms: tests pass with the change; demo fails with it and passes without it
#  2) stores patch/demo/meta under /verif/seeded/<name>/
#  3) runs the property's quick check against HEAD+patch
set -u
ID=$1; WT=$2; NAME=$3
OUT=/verif/seeded/$NAME; mkdir -p $OUT
cp $WT/patch.diff $WT/demo.cpp $OUT/ 2>/dev/null; cp $WT/meta.json $OUT/agent_meta.json 2>/dev/null
B=$(mktemp -d /tmp/seedb.XXXXXX)
log=$OUT/confirm.log; : > $log
git -C /repo worktree add -q --detach $B/with HEAD
( cd $B/with && git apply $OUT/patch.diff ) >> $log 2>&1; APPLIED=$?
echo "== build+tests WITH change (HEAD + patch.diff)" >> $log
cmake -G Ninja -S $B/with -B $B/bwith -DCMAKE_BUILD_TYPE=Debug >/dev/null 2>&1 && cmake --build $B/bwith -j8 >/dev/null 2>&1
ctest --test-dir $B/bwith -j8 2>&1 | tail -3 >> $log
TESTS_WITH=$(ctest --test-dir $B/bwith -j8 2>&1 | grep -c "100% tests passed")
LIB=$(find $B/bwith -name "libUTAP.*" | head -1)
g++ -std=c++17 -I/usr/include/libxml2 -I$B/with/include -I$B/with/src $OUT/demo.cpp $LIB -lxml2 -ldl -Wl,-rpath,$(dirname $LIB) -o $B/demo_with >> $log 2>&1
( cd $B && timeout 300 ./demo_with >> $log 2>&1 ); DEMO_WITH=$?
echo "demo WITH change exit=$DEMO_WITH" >> $log
git -C /repo worktree add -q --detach $B/orig HEAD
cmake -G Ninja -S $B/orig -B $B/without -DCMAKE_BUILD_TYPE=Debug -DUTAP_WITH_TESTS=OFF >/dev/null 2>&1 && cmake --build $B/without --target UTAP -j8 >/dev/null 2>&1
LIB2=$(find $B/without -name "libUTAP.*" | head -1)
g++ -std=c++17 -I/usr/include/libxml2 -I$B/orig/include -I$B/orig/src $OUT/demo.cpp $LIB2 -lxml2 -ldl -Wl,-rpath,$(dirname $LIB2) -o $B/demo_without >> $log 2>&1
( cd $B && timeout 300 ./demo_without >> $log 2>&1 ); DEMO_WITHOUT=$?
echo "demo WITHOUT change exit=$DEMO_WITHOUT" >> $log
git -C /repo worktree remove --force $B/orig
rm -rf $B/bwith $B/without
cd /verif && VERIF_REPO=$B/with VERIF_OUT=$B/out bin/check $ID --tier quick > $OUT/check.log 2>&1; RC=$?
git -C /repo worktree remove --force $B/with
rm -rf $B
echo "tests_pass_with_change=$TESTS_WITH demo_with=$DEMO_WITH demo_without=$DEMO_WITHOUT applied_rc=$APPLIED check_exit=$RC"
grep -E "^VIOLATION|^UNDECIDED|^EXTRACTION|^SPURIOUS|^KNOWN|^\[" $OUT/check.log | cut -c1-260 | head -8
