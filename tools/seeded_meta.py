#!/usr/bin/env python3
"""Writes /verif/seeded/<name>/meta.json from the agent's meta + our confirmation log + check log."""
import json, os, re, sys
name, prop, needs = sys.argv[1], sys.argv[2], (sys.argv[3] if len(sys.argv) > 3 else "")
note = sys.argv[4] if len(sys.argv) > 4 else ""
d = os.path.join("/verif/seeded", name)
agent = {}
try:
    agent = json.load(open(os.path.join(d, "agent_meta.json")))
except Exception:
    pass
chk = open(os.path.join(d, "check.log")).read() if os.path.exists(os.path.join(d, "check.log")) else ""
conf = open(os.path.join(d, "confirm.log")).read() if os.path.exists(os.path.join(d, "confirm.log")) else ""
vio = re.findall(r"failed obligation: (\S+) -- ([^\n]*?)  cex", chk)
meta = {
    "property": prop,
    "summary": agent.get("summary", ""),
    "needs_to_manifest": needs or agent.get("needs", ""),
    "source": "independent sub-agent given only the property text and a scratch worktree",
    "confirmed_by_us": {
        "tests_pass_with_change": "100% tests passed" in conf,
        "demo_fails_with_change": bool(re.search(r"demo WITH change exit=[1-9]", conf)),
        "demo_passes_without_change": "demo WITHOUT change exit=0" in conf,
        "how": "tools/eval_seeded%s.sh: scratch worktree HEAD + patch.diff, build + ctest; demo.cpp linked against the changed and the unchanged library" % ("2" if "HEAD + patch.diff" in conf else ""),
    },
    "check_run": {"cmd": (f"VERIF_REPO=<scratch worktree of /repo HEAD + seeded/{name}/patch.diff> VERIF_OUT=<scratch> bin/check {prop} --tier quick" if "HEAD + patch.diff" in conf
                          else f"git -C /repo apply seeded/{name}/patch.diff; bin/check {prop} --tier quick; git -C /repo checkout -- ."),
                  "detected": "VIOLATION property=" in chk,
                  "failed_obligations": [f"{a}: {b}" for a, b in vio][:8],
                  "natively_replayed": "VIOLATION property=" in chk and "no-failing-input-found" not in chk.split("VIOLATION property=")[1].split("\n")[0]},
}
if note:
    meta["note"] = note
json.dump(meta, open(os.path.join(d, "meta.json"), "w"), indent=1)
print(name, "detected" if meta["check_run"]["detected"] else "MISSED", meta["confirmed_by_us"])
