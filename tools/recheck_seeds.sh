#!/bin/bash
# usage: tools/recheck_seeds.sh [seed-name ...]      (default: every directory under seeded/)
# Regression run of the detection side: for each recorded seed, a scratch worktree of /repo HEAD + seeded/<name>/patch.diff
# is checked with the property's quick check (VERIF_REPO / VERIF_OUT), /repo and the committed evidence are not touched.
# Prints one line per seed: name, whether the patch still applies, the check's exit code (1 = detected).
set -u
cd /verif
NAMES=${@:-$(ls seeded)}
one() {
  n=$1; id=${n%%-*}
  B=$(mktemp -d /tmp/seedr.XXXXXX)
  git -C /repo worktree add -q --detach $B/with HEAD 2>/dev/null
  ( cd $B/with && git apply /verif/seeded/$n/patch.diff ) >/dev/null 2>&1; A=$?
  if [ $A -ne 0 ]; then ( cd $B/with && git apply -3 /verif/seeded/$n/patch.diff ) >/dev/null 2>&1; A=$?; fi
  RC=-; LINE=""
  if [ $A -eq 0 ]; then
    VERIF_REPO=$B/with VERIF_OUT=$B/out bin/check $id --tier quick > $B/log 2>&1; RC=$?
    LINE=$(grep -E "^VIOLATION|^UNDECIDED|^EXTRACTION" $B/log | head -1 | cut -c1-150)
  fi
  git -C /repo worktree remove --force $B/with; rm -rf $B
  echo "$n applies=$([ $A -eq 0 ] && echo yes || echo no) check_exit=$RC $LINE"
}
export -f one
printf "%s\n" $NAMES | xargs -P 4 -I{} bash -c 'one {}'
git -C /repo worktree prune
