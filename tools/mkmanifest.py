#!/usr/bin/env python3
"""Regenerates MANIFEST.json from the table below (single source of truth)."""
import json
import os

VERIF = os.path.dirname(os.path.dirname(os.path.abspath(__file__)))

CHECKS = {
    "C18": dict(
        category="proof",
        text="Every public operation of the real include/utap/range.h (lowered mechanically, compiled by CBMC's C++ front end) is enforced against a set-semantics contract with goto-instrument --dfcc on fully symbolic operands: a complete proof for the int8_t, int16_t(thorough), int32_t instantiations (32-bit multiplication: thorough tier only) and for the order-only operations on double (non-NaN).",
        design_ref="DESIGN.md section 4, C18",
        note="Trusted: CBMC 6.11 front end/dfcc/SAT; stubs/std (<limits> constants static_asserted against the real header in the replay build; std::min/max by value); lowering rules L1-L6,L11; double: std::nexttoward replaced by an assumed neighbour function, NaN excluded, + - * on double not under contract; make_empty() not under contract (front-end limit).",
        technique="CBMC function contracts (requires/ensures/assigns) enforced with goto-instrument --dfcc on extern-C wrappers around the real C++ header; ghost parameters for the universal quantifier; native replay of counterexamples",
    ),
    "C10": dict(
        category="proof",
        text="Inductive lemma over guard/invariant formula trees: for each connective (&&, ||, xor, !, <, <=, ==, !=, >=, >, forall, exists; imply via the grammar's NOT+OR desugaring) the REAL clause text of TypeChecker::checkExpression is executed once on symbolic operand types (all base kinds x all wrapper sets) and symbolic ghost summaries; obligations: integral result type => clock-free, guard/invariant result type => convex by the statement's syntactic rule; plus the REAL acceptance gates of visitEdge/visitLocation, atom typing and the conjunction converse. Unbounded in formula depth (induction step), loop-free apart from areEquivalent's record loop (width<=2).",
        design_ref="DESIGN.md section 4, C10",
        note="Trusted: flat type abstraction (lemma TYPE-IS), expression arena stub, induction over tree height as meta-step, children-first prologue checked textually, areEquivalent recursion/isSameScalarType answered by arbitrary-result contracts. Scope: operands of relational operators are integral terms, formulas, clock/difference/double/rate terms without hidden comparisons. Known finding C10-KF1 (comparisons outside the recognised clock shapes typed BOOL) is excluded by input class and re-checked to fail only there.",
        technique="one-level induction step per operator on the sliced real clause text, contract as assume/call/assert harness (mode H) in CBMC; ghost summaries for clock-freeness/convexity; native replay through parse_XTA",
    ),
    "C14": dict(
        category="proof",
        text="2-run symmetry harness on the REAL clause texts of checkExpression (PLUS, MULT/MIN/MAX group, EQ, NEQ, AND, OR, BIT_* group, INLINE_IF) and the REAL getInlineIfCommonType / areInlineIfCompatible / areAssignmentCompatible / areEqCompatible / areEquivalent (top level): for arbitrary flat operand types A,B the clause is executed on (A,B) and (B,A); obligations: same acceptance, same result base kind. Complete over all base kinds x wrapper sets; record width <= 2.",
        design_ref="DESIGN.md section 4, C14",
        note="Trusted: flat type abstraction (TYPE-IS); recursive calls of areEquivalent and isSameScalarType on sub-structures are answered by symmetric contracts (a symbolic symmetric matrix) - part (B) puts the REAL isSameScalarType on REAL type nodes (type.cpp members over a raw pointer) under contract: symmetric and transparent to a REF/CONSTANT/SYSTEM_META wrapper on either side (one level; recursion by a symmetric contract). 'Kind' is read as the stripped kind. Known finding C14-KF1 (bool/int inline-if takes the first branch's kind).",
        technique="relational (2-run) contract on sliced real clause text, assume/call/assert harness in CBMC; native replay of both operand orders through parse_XTA",
    ),
    "C17": dict(
        category="proof",
        text="Every member function of the REAL FeatureChecker (constructor, visitTemplateBefore, visitVariable, visitEdge, visitGuard, visitAssignment, visitLocation, isRateDisallowedInSymbolic, visitFrame) and the REAL expression_t::uses_fp/uses_hybrid/uses_clock are executed one level deep on symbolic nodes whose children carry arbitrary ghost summaries; postconditions are the statement's conditions (fp comparison anywhere in a guard/invariant, fp assignment without hybrid in any update-list element, fp clock initialiser, non-0/1 rate of a non-hybrid clock in any conjunct, dynamic templates, priorities, non-broadcast channels), plus monotonicity (flags are only ever cleared => order independence) and the uninstantiated-template gate. Unbounded in tree depth (induction step), arity <= 4.",
        design_ref="DESIGN.md section 4, C17",
        note="Trusted: flat type abstraction, expression arena stub (get_value/get_double_value carry the real asserts), induction over tree height, Document::accept's traversal (visitTemplate's gate checked structurally), DocumentVisitor dispatch. Arrays of clocks/channels are covered to nesting depth 1 (bounded in that dimension).",
        technique="one-level induction step per visitor on sliced real code with ghost summaries, assume/call/assert harness in CBMC; native replay through parse_XTA + get_supported_methods",
    ),
    "C11": dict(
        category="proof",
        text="(1) The REAL expression_t::collect_possible_writes / get_symbols / changes_any_variable / changes_variable (and the read-side twins) are executed one level deep on symbolic nodes whose children carry arbitrary ghost symbol sets: the result is exactly input U W(e), with W from the statement (15 assignment/increment kinds contribute the target's lvalue symbols; calls contribute the callee's summary and the arguments at non-const reference positions). (2) Each of the 19 `changes_any_variable()` gates of typechecker.cpp (guard, invariant, sync, probability, initialisers, IO/priority indices, LSC labels, instantiation argument, assert, quantifier bodies, property, checkPredicate, checkMonitoredExpr) is sliced as its real if-chain / function / clause and executed with the gated expression's W != {} ghost: an error must be recorded. (3) The REAL tail of TypeChecker::visitFunction: function_t::changes / depends are exactly what the body may write / read minus the function's own locals and parameters (arbitrary sets, arbitrary 'declared in the function's frame' ghost). Unbounded in tree depth (induction step).",
        design_ref="DESIGN.md section 4, C11",
        note="Trusted: bit-mask model of std::set<symbol_t> (8 symbols), flat type abstraction, stub TypeChecker environment (checkExpression / isCompileTimeComputable by ghost), induction meta-step. NOT under contract: the virtual dispatch that ties the statement visitors together, and that every context of the statement reaches a gate (traversal). Array sizes and range bounds have no side-effect gate of their own; they are protected only through the compile-time-computability check (C13).",
        technique="one-level induction steps with ghost set summaries + per-gate slices of the real if-chains, assume/call/assert harnesses in CBMC; native replay through parse_XTA",
    ),
    "C12": dict(
        category="proof",
        text="(1) Type-tree lemmas on the REAL class type_t (type.h) and the REAL members of type.cpp over a raw node pointer, one level each with ghost child summaries: TYPE-IS (is(K) = kind or looked-through prefix/RANGE/REF/LABEL, = the flat abstraction used by the clause proofs), is_prefix, is_mutable, is_constant, is(CONSTANT) => !is_mutable, constness survives get_sub()/get_sub(i) (prefix re-applied, REF/LABEL transparent), and the three binder sites (forall/exists/sum, iteration, select) force a constant, immutable type. (2) The REAL isModifiableLValue (one level): never true for an expression denoting / indexing / selecting into a constant (ghost dc), true for the mutable twins; the REAL write clauses (=, ten op=, four ++/--): dc(target) => error, mutable integer twin accepted; the REAL isParameterCompatible / checkParameterCompatible / FUN_CALL clause / visitInstance argument rule: a constant object is rejected for a non-const reference parameter of a function or template.",
        design_ref="DESIGN.md section 4, C12 and 4.0 item 1",
        note="Trusted: std::vector<child_t> as capacity-3 array, shared_ptr as raw pointer, make_shared as new; induction over tree height; flat type abstraction + stub TypeChecker environment for the clause-level jobs (areAssignmentCompatible / areEquivalent arbitrary). Type arity <= 3.",
        technique="one-level induction steps on sliced real code (type.cpp members, typechecker.cpp clauses) with ghost summaries, assume/call/assert harnesses in CBMC; native replay through parse_XTA",
    ),
    "C13": dict(
        category="proof",
        text="The REAL TypeChecker::isCompileTimeComputable (result <=> every symbol the expression may read is a function or in the computable set, and no random draw), the REAL CompileTimeComputableValues members (a variable enters the set iff its type is constant; an instance parameter iff const, non-reference, non-double), the REAL checkType RANGE branch (array sizes, integer ranges, scalar-set sizes: a non-computable bound is an error, computable integer bounds are accepted), the REAL initialiser chain of visitVariable, the REAL instantiation-argument rules (value / const-reference parameter needs a computable argument) and the REAL visitProcess (a free parameter in the restricted set is an error) are executed on symbolic inputs with the callee contracts as ghosts. Builder side: the REAL StatementBuilder::collectDependencies worklist is checked to return a set closed under `variable -> reads of its initialiser` (any chain length) - bounded stand-in over a universe of 4 symbols. Bounded as well: the REAL checkType as a whole with its real recursion over real type_t trees of 8 shapes (records of arrays, arrays of records, ranges in fields, ...): every non-computable size/bound anywhere in the tree is an error.",
        design_ref="DESIGN.md section 4, C13",
        note="Trusted: flat type abstraction, bit-mask std::set<symbol_t>, stub TypeChecker environment; collect_possible_reads by contract (its one-level proof is C11's c11_collect_reads). Bounded: collectDependencies (4 symbols), checkType's recursion (8 tree shapes of height <= 3; the one-level step assumes the recursion's contract). Not under contract: isDefaultInt.",
        technique="sliced real functions / switch clause / if-chains executed on symbolic inputs with ghost contracts in CBMC (assume/call/assert); one bounded unwinding stand-in; native replay through parse_XTA",
    ),
    "C19": dict(
        category="proof",
        text="The REAL struct expression_data, the node constructor and the thirteen create_* factories, clone, the three clone_deeper overloads, subst, equal (with ValueTypeEquality's comparison) and get_size of src/expression.cpp are executed one level deep on symbolic nodes (all kinds, all four value alternatives, arity <= 4; get_size: arity <= 8) whose children are answered by contracts over ghost tables. Obligations from the statement: a deep clone is a fresh node with the same kind/value/symbol/type/arity whose i-th child is the deep clone of the i-th child, it shares no node with the source, the source is unchanged, and clone and source are equal() in both directions; subst returns the substitute for exactly the identifiers of the symbol, rebuilds inner nodes from the substituted children in order, leaves the source unchanged, and subst(s, id(s)) is equal to the source; equal() is true iff kind, value alternative and value, symbol and arity agree and the children are pairwise equal in order, is reflexive, symmetric, transitive and total against the empty expression; get_size() never differs from the number of accessible children, and every (factory, kind) pair the grammar uses (generated from parser.y on every run, unary operators through the REAL ExpressionBuilder::expr_unary) passes get_size's own arity assertions.",
        design_ref="DESIGN.md section 4, C19",
        note="Trusted: stubs/expr_tree.h (std::vector as a fixed-capacity array, std::variant as a tagged struct with std::visit as 16-way dispatch, shared_ptr as raw pointer without reference counting, type_t/symbol_t/StringIndex/position_t as identities, frame_t::resolve as a table); induction over tree height (meta-step); children of parsed trees are never empty; double constants are not NaN. Not under contract: print/str ('equal implies equal text'), type_t::subst/rename, kinds built by callbacks other than expr_unary/binary/ternary/nary are covered by the general get_size statement only.",
        technique="one-level induction steps on sliced real code with ghost-table contracts for the recursive calls, assume/call/assert harnesses in CBMC (mode H); generated (factory, kind) table from parser.y; native replay of the laws on parsed expressions",
    ),
    "C06": dict(
        category="proof",
        text="Kernel of the statement: the position arithmetic between the lexer and error_t. (A, unbounded) position_index_t::find - both overloads - is extracted from src/position.cpp to C on every run, the loop invariant and decreases clause are injected at its loop, and the function contracts (the result r satisfies lines[r].position <= p < lines[r+1].position with the window borders as -inf/+inf; frame: nothing assigned; exception iff the table is empty) are enforced with goto-instrument --dfcc --apply-loop-contracts on a table of symbolic length <= 2^31; lemma: with a sorted table that entry is THE last one at or before p. (B) the REAL line_t, position_index_t::add (appends, refuses a smaller position, keeps the table sorted, earlier entries unchanged), PositionTracker::setPath (both), increment, newline, the YY_USER_ACTION text of lexer.l, ExpressionBuilder::add_position, AbstractBuilder::set_position, Document::add_position / find_position / add_error / add_warning and the operands of error_t::str are executed on arbitrary tracker states and arbitrary tables: each operation's effect on (line, offset, position, path) and on the table is exactly the statement's bookkeeping (token location = [position, position+yyleng); a new line registers its first character; a new block starts one position after everything of the previous block; start/end of a diagnostic are the table entries of the lines containing position.start/end; columns are offsets from the line starts, unknown iff a position precedes its line start). Composition (bounded): a token of a block, after an arbitrary history and followed by a later block, yields a diagnostic with that block's path, the token's line within the block and the token's columns, start <= end.",
        design_ref="DESIGN.md section 4, C06",
        note="Kernel only. NOT decided: that the generated flex scanner calls YY_USER_ACTION once per token and tracker.newline once per consumed line break (only the YY_USER_ACTION text is checked); XPath construction and per-block setPath calls in xmlreader.cpp (libxml2); that the type checker attaches the causing node's position to each diagnostic; the fault-injection half of the statement. Route C for find() rewrites the vector to pointer+size and the reference result to an index (rewrites logged). Part B: vectors of capacity 8 with <= 6 symbolic entries; block lemma bounded (<= 4 steps). tracker.position is assumed not to wrap (C15).",
        technique="CBMC function contracts + loop contracts (invariant, decreases) enforced by goto-instrument --dfcc on the C extraction of find(); assume/call/assert harnesses on the sliced C++ members; one bounded composition lemma; native replay through parse_XML_buffer",
    ),
    "C15": dict(
        category="proof",
        text="Kernel of the statement: per-call re-initialisation. The REAL parser globals and utap_lex (the %code block of parser.y), the REAL setStartToken, the REAL static entries parse_XTA(builder, newxta, part, xpath) / parseProperty(builder, xpath), the REAL PositionTracker::setPath and the REAL enums xta_part_t / syntax_t are executed with EVERY parser/lexer global holding an arbitrary value (= any history): the state the grammar is entered with (syntax mode, pending start token, current builder, tracker line/offset/path) is a function of the arguments only; setStartToken is total over xta_part_t x bool (2-run equality from two arbitrary histories), always leaves a token that the grammar's start production accepts (token list and start production generated from parser.y on every run), and distinct parts select distinct tokens; utap_lex delivers the pending start token exactly once; the entry's result is the grammar's verdict; the public wrappers are checked textually to add only buffer management. The one observable history dependence inside the kernel - the 32-bit global position counter wrapping - is stated as an obligation, fails exactly in the recorded class and is reported as known finding C15-KF1 (natively replayed by seeding UTAP::tracker.position).",
        design_ref="DESIGN.md section 4, C15",
        note="Kernel only: the whole-history statement (each call's full result equals the fresh-process result) is NOT decided. Outside the kernel and stated as assumptions: flex's buffer stack, bison's internal state, exceptions thrown from inside utap_parse, rootTransId (not re-initialised by the prologues; the grammar writes it before use), errno. Under contract since the seeded rounds: the global array-dimension counter `types` (rule actions of ArrayDecl/ArrayDecl2 parsed out of parser.y, 2-run equality) and flex's start condition (the BEGIN(...) rule actions of lexer.l extracted on every run, as a ghost: a scan that ends anywhere, incl. inside a comment, leaves INITIAL for the next parse through either entry). utap_parse and lexer_flex are stubs.",
        technique="sliced real prologue functions executed on arbitrary global state (havocked history) in CBMC, assume/call/assert harnesses, 2-run equality for history independence; generated token/start-production tables; native replay with a seeded position counter",
    ),
    "C02": dict(
        category="proof",
        text="Kernel of the statement. (i) The REAL ExpressionBuilder::ExpressionFragments and twenty REAL expression callbacks of ExpressionBuilder.cpp (expr_binary with isMITL/toMITLAtom, expr_assignment, expr_unary, expr_inline_if, expr_comma, expr_array, the four ++/--, expr_builtin_function1/2/3, expr_nary, expr_ternary, expr_nat/true/false/double/deadlock, make_constant) run over the REAL node factories of expression.cpp on a fragment stack of symbolic depth <= 6 with arbitrary operands: each pops exactly its operands, pushes one node of the prescribed kind whose children are the operands in source order, carries the builder's position, and leaves every fragment below untouched (frame); unary plus is the identity, unary minus becomes UNARY_MINUS, integer and floating literals are stored unchanged. (iii) Tables generated from parser.y on every run - the %left/%right declarations, the `Expression TOKEN Expression -> expr_binary(KIND)` productions, UnaryOp/AssignOp and the imply production - are decided against the UPPAAL operator table (contracts/C02/operator_table.json): relative precedence of every operator pair, associativity, node kind per token, aliases and/or/xor/not build the same kinds, assignments share the loosest right-associative level, inline-if sits between, imply is (not a) or b; production-level precedence (%prec on rules): the else-branch of an inline-if extends over a following assignment.",
        design_ref="DESIGN.md section 4, C02",
        note="Kernel only. NOT decided: that bison's LALR automaton realises the declared precedences (bison trusted; checked natively by the replay probe for all 23x23 operator pairs, which is a test, not a proof); the scanner's spelling->token map; literal conversion in lexer.l (atoi/snprintf/atof); identifier binding (C07); callbacks with type-dependent behaviour (expr_call_end, expr_dot, quantifiers). Stack depth <= 6, n-ary arity <= 6.",
        technique="sliced real callbacks executed on a symbolic fragment stack in CBMC with stack-effect/frame contracts as assume/call/assert harnesses; finite table identities over tables generated from parser.y; native replay through parse_XTA",
    ),
    "C07": dict(
        category="proof",
        text="Kernel of the statement. (1) The REAL struct symbol_data / frame_data and the REAL symbol_t / frame_t members of symbols.cpp (constructor, get_name, get_type, ==, add_symbol, add, get_index_of(name), resolve, get_parent, has_parent, create) on frames with arbitrary content: within one frame the LAST declaration of a name is what the name denotes (add_symbol rebinds exactly that name, every other binding and every earlier symbol unchanged); resolve returns the symbol of this frame if it declares the name WITHOUT consulting the enclosing frames, otherwise exactly the enclosing frame's answer (induction step over the parent chain), and reports failure - never a binding - when the outermost frame does not declare it. (2) Scope pairing on the REAL ExpressionBuilder callbacks over the REAL node factories: expr_forall/exists/sum_begin open exactly one scope nested in the current one that declares exactly the bound variable (binder's name, declared type made constant), inside it the name denotes the bound variable, the matching _end closes exactly that scope, builds the quantifier node over (bound variable, body), and afterwards the name denotes the outer declaration again or is unknown; the PROCESS_VAR branch of expr_dot leaves the temporarily entered template scope on every exit, including the exceptional one.",
        design_ref="DESIGN.md section 4, C07",
        note="Kernel only. NOT decided: which frame is on top at each use site across a whole parse (grammar-driven; statement/document builder push/pop sites other than the quantifier callbacks and expr_dot are not under contract), process-qualified names with P's arguments substituted (type_t::rename/subst), declaration-before-use as a property of the grammar's callback order. Trusted: names as identities, std::map as a last-writer table over 4 names, arena frames in part 2 (their behaviour is the contract proved in part 1), induction over the parent chain.",
        technique="one-level induction step on sliced real code with a ghost answer for the enclosing frame; scope-depth/frame contracts on sliced builder callbacks (assume/call/assert harnesses in CBMC); native replay through parse_XTA / parse_XML_buffer",
    ),
    "C08": dict(
        category="proof",
        text="Kernel of the statement: the REAL constructors of document.cpp - declarations_t::add_function, template_t::add_location / add_branchpoint / add_edge, Document::add_variable (three overloads), add_template, add_dynamic_template, add_instance - executed on documents with an arbitrary well-formed prefix. Each keeps the representation invariant: the new object is the user object of its own symbol (name, type, owning frame as given) - also on the duplicate-name path, where the constructor throws AFTER registering; duplicates are reported exactly when the name is already declared in that frame; location, branchpoint and edge numbers equal the previous container size (dense, source order) and earlier objects keep theirs; an edge gets exactly one source and one target, each the object of the given symbol and of the kind the symbol's type says, with the controllable flag and action name recorded; a template is its own template, has all parameters unbound, an instance type over its parameter frame (arity = unbound) and a local frame nested in the global frame that starts with the parameters; an instance lists its new unbound parameters first, then the instantiated template's, has a type whose arity equals its number of unbound parameters, maps exactly the bound parameters - each to its argument - and refers to the instantiated template.",
        design_ref="DESIGN.md section 4, C08",
        note="Kernel only. NOT decided: that nothing later overwrites uid/user pointers; that edge end points belong to the edge's own template (depends on resolve at the call site in the builders); add_process, add_LSC_instance; 'an accepted TA template has an initial location'; that every parse path goes through these constructors. Trusted: stand-in struct declarations for document.h (same member names), node-based list/deque stub (elements never move), arena frames/symbols (contracts of C07), type constructors over frames (arity = frame size at construction).",
        technique="sliced real constructors executed on symbolic well-formed documents in CBMC; representation-invariant postconditions as assume/call/assert harnesses; native replay through parse_XTA on valid and invalid models",
    ),
    "C20": dict(
        category="proof",
        text="Kernel of the statement: the REAL element/attribute wrappers and template-graph functions of xmlwriter.cpp (startElement ... writeAttribute, label, name, writeStateAttributes, location, init, source, target, selfLoop, nail, transition, labels, taTempl) run against a ghost trace of the libxml2 writer calls, with strings as origin-tagged values. A location yields exactly one well-nested location element whose id is id<nr>, whose name element carries the location's name, with invariant and rate labels carrying the text of the expressions (trivial text '1' omitted, a '1 && ' prefix stripped) and the committed/urgent marker; init yields exactly one reference to the initial location; a transition yields one well-nested element whose source/target references are id<src.nr>/id<dst.nr> and whose guard, synchronisation, assignment and first-select labels carry the edge's texts; a template yields its locations, then init, then one transition per edge in edge order; non-TA templates are skipped. Also the REAL range/array/label/typedef chain of type_t::print_declaration, reached from XMLWriter::declaration(): it must not hit get_value()'s assertion on non-literal range bounds (found failing and fixed). Four obligations of the statement fail in recorded input classes and are reported as known findings C20-KF1..KF4 (probability labels, selects beyond the first, the controllable attribute, null dereference for edges through branchpoints).",
        design_ref="DESIGN.md section 4, C20",
        note="Kernel only. Strings are abstract values, so 'text of the expression' means 'the value expr.str() returned' (printer correctness is C03); well-formedness/escaping of the file is libxml2's (assumed). NOT under contract: declaration() beyond print_declaration's chain, system_instantiation(), queries, file handling. <= 2 locations/edges/selects per template.",
        technique="sliced real writer functions executed against a ghost event trace of the libxml2 API in CBMC (assume/call/assert harnesses); known-finding classes excluded and re-checked to fail only there; native replay through write_XML_file",
    ),
    "C03": dict(
        category="proof",
        text="Kernel K1 of the statement (expressions only): the REAL expression_t::get_precedence (both overloads), the REAL embrace / embrace_strict and the REAL print clauses of the binary-operator group (31 kinds), INLINE_IF, UNARY_MINUS, NOT, pre/post increment and decrement, ARRAY and XOR are executed on a parent node with arbitrary operator or atom children (printing a child is answered by a contract that logs it). For every (parent, child, position): operands are printed in order, and a child printed WITHOUT parentheses is one the grammar groups the same way when the text is parsed again - the oracle is bison's own resolution rule evaluated on tables generated from parser.y on every run (precedence level of the child's production incl. %prec vs the parent's operator token, associativity on ties). One class fails and is reported as known finding C03-KF1 (an assignment or inline-if as the LEFT operand of an assignment is printed bare: '(a = b) = c' -> 'a = b = c').",
        design_ref="DESIGN.md section 4, C03",
        note="Kernel only, and a narrow one: the statement's parse(str(e)) == e is NOT decided. Outside: floating-point constants (printed at default stream precision - named in the statement, a property of operator<<(double)), quantifier binders printed through type_t::str(), every query form (Pr[...], E[...], simulate, control*, strategies, MITL) and their operand layout, operator spellings, 'string conversion never throws'. Trusted: logging ostream, bison's conflict-resolution rule, induction over tree height.",
        technique="sliced real printer clauses executed one level deep in CBMC with a logging ostream; oracle tables generated from parser.y; known-finding class excluded and re-checked to fail only there; native replay by parse/print/parse round trips",
    ),
}

NOT_APPLICABLE = {
    "C01": "Whole-pipeline memory safety/termination over libxml2 + flex + bison error recovery + ~12 kLoC C++17: outside CBMC's C++ front end (no libstdc++, no virtual dispatch, no try/catch); per-callback contracts cannot establish callers' stack-depth preconditions under bison error recovery (DESIGN 6).",
    "C04": "Relation between a libxml2 token stream and the whole Document; xmlreader.cpp is outside the verifier's language and libxml2 would have to be axiomatised wholesale (a model, not the code) (DESIGN 6).",
    "C05": "2-safety relation between two complete front ends (XML reader vs XTA grammar); no per-function contract expresses it (DESIGN 6).",
    "C09": "Relation between two whole parses through generated scanner/parser code; outside the verifier (DESIGN 6).",
    "C16": "Depends on bison error recovery and persistent builder stacks across a whole document; per-callback contracts are necessary but not sufficient (DESIGN 6).",
}
PENDING = "check not built yet (work in progress; DESIGN.md section 5 gives the order); will be claimed or given its final not-applicable reason"


def main():
    props = [json.loads(l) for l in open(os.path.join(VERIF, "properties.jsonl"))]
    checks = []
    na = []
    for p in props:
        pid = p["id"]
        if pid in CHECKS:
            c = CHECKS[pid]
            checks.append({
                "property_id": pid,
                "quick_cmd": f"bin/check {pid} --tier quick",
                "thorough_cmd": f"bin/check {pid} --tier thorough",
                "evidence_file": f"/verif/evidence/{pid}.json",
                "replay_cmd_template": f"bin/check {pid} --replay {{path}}",
                "engine": "cbmc-contracts",
                "level_claimed": {"category": c["category"], "text": c["text"], "design_ref": c["design_ref"]},
                "level_note": c["note"],
                "technique": c["technique"],
            })
        else:
            na.append({"property_id": pid, "reason": NOT_APPLICABLE.get(pid, PENDING)})
    m = {
        "version": 1,
        "setup_cmd": "python3 tools/selftest.py",
        "hooks": {"guard": "UTAP_VERIF", "enable": "no hooks: the checks slice the functions under contract from /repo's working tree on every run (tools/extract.py); nothing in /repo is instrumented",
                  "baseline_off_cmd": "cmake -G Ninja -B /repo/_build -S /repo && cmake --build /repo/_build && ctest --test-dir /repo/_build -j8 --timeout 900",
                  "source_commits": [], "add_only": True},
        "engines": [{"name": "cbmc-contracts", "path": "tools/driver.py", "serves_properties": sorted(CHECKS),
                     "kind_free_text": "CBMC 6.11 code contracts (goto-instrument --dfcc / assume-assert harnesses) on functions sliced from /repo each run"}],
        "checks": checks,
        "not_applicable": na,
        "notes": "exit 0 = all obligations discharged; exit 1 = VIOLATION (failed obligation, natively replayed where an input exists); exit 2 = undecided (extraction broken, front-end/solver limit, vacuous harness, spurious counterexample) - never reported as a violation.",
    }
    with open(os.path.join(VERIF, "MANIFEST.json"), "w") as f:
        json.dump(m, f, indent=1)


if __name__ == "__main__":
    main()
