#!/bin/bash
# usage: tools/run_all_on_patch.sh <patch.diff> <label> [property ...]
# Runs the quick checks (all claimed properties, or the ones named) against a scratch worktree of /repo HEAD + the patch
# (VERIF_REPO / VERIF_OUT); /repo and the committed evidence are not touched.  One line per property: exit code and the
# first VIOLATION / UNDECIDED / EXTRACTION line.  Used for behaviour-preserving refactorings (every check must stay 0).
set -u
PATCH=$(readlink -f "$1"); LABEL=$2; shift 2
PROPS=${@:-$(python3 -c "import json; print(' '.join(c['property_id'] for c in json.load(open('/verif/MANIFEST.json'))['checks']))")}
B=/tmp/allon.$LABEL
rm -rf "$B"; mkdir -p "$B"
git -C /repo worktree add -q --detach "$B/wt" HEAD
( cd "$B/wt" && git apply "$PATCH" ) || { echo "patch does not apply"; git -C /repo worktree remove --force "$B/wt"; exit 3; }
cd /verif
for p in $PROPS; do
  VERIF_REPO=$B/wt VERIF_OUT=$B/out timeout 2400 bin/check $p --tier quick > $B/$p.log 2>&1; rc=$?
  echo "$p exit=$rc $(grep -E '^VIOLATION|^UNDECIDED|^EXTRACTION|^SPURIOUS' $B/$p.log | head -1 | cut -c1-230)"
done
git -C /repo worktree remove --force "$B/wt"; git -C /repo worktree prune
rm -rf "$B/out"
