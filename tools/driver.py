#!/usr/bin/env python3
"""Generic driver: builds the jobs of one property, runs them, classifies the outcome,
writes evidence/<id>.json and replay files, and sets the exit status (DESIGN 3.5).

exit 0  every obligation discharged (known findings printed as KNOWN-FINDING)
exit 1  VIOLATION property=<id> replay=<path> [no-failing-input-found]
exit 2  undecided (extraction broken / front-end / timeout / vacuous / spurious) -- never a violation
"""
import argparse
import importlib
import json
import os
import re
import sys
import time
import traceback

VERIF = os.path.dirname(os.path.dirname(os.path.abspath(__file__)))
sys.path.insert(0, VERIF)

from tools import framework as F  # noqa: E402
from tools import extract as X  # noqa: E402


def main(argv=None):
    ap = argparse.ArgumentParser()
    ap.add_argument("prop")
    ap.add_argument("--tier", default=os.environ.get("VERIF_TIER", "quick"), choices=["quick", "thorough"])
    ap.add_argument("--replay", default=None)
    ap.add_argument("--only", default=None, help="regex on job names (debug; evidence not written)")
    ap.add_argument("--jobs", type=int, default=None)
    a = ap.parse_args(argv)
    pid = a.prop
    try:
        seed = int(os.environ.get("VERIF_SEED", "0"))
    except ValueError:
        seed = 0
    mod = importlib.import_module("checks." + pid)
    if a.replay:
        with open(a.replay) as f:
            rep = json.load(f)
        out = mod.replay(rep)
        print(json.dumps(out, indent=1))
        return 0 if out.get("confirmed") is False else 1
    t0 = time.time()
    work = F.fresh_workdir(pid)
    builder = F.Builder(work)
    try:
        plan = mod.build(a.tier, work, builder)
    except X.ExtractionBroken as e:
        print(f"EXTRACTION-BROKEN property={pid}: {e}")
        _evidence_fail(pid, a.tier, seed, t0, f"EXTRACTION-BROKEN: {e}")
        return F.EXIT_UNDECIDED
    except F.Undecided as e:
        print(f"UNDECIDED property={pid}: {e}")
        _evidence_fail(pid, a.tier, seed, t0, f"UNDECIDED at build: {e}")
        return F.EXIT_UNDECIDED
    jobs = plan["jobs"]
    if a.tier == "thorough":
        # thorough tier: every obligation is decided a second time by an independent SAT back end (CaDiCaL next to
        # MiniSat); a disagreement between the two shows up as a job that fails/passes only under one of them
        import copy
        extra = []
        for j in jobs:
            if any(x.startswith("--sat-solver") or x in ("--cvc5", "--z3") for x in j.cbmc_args):
                continue
            k = copy.copy(j)
            k.name = j.name + "@cadical"
            k.cbmc_args = list(j.cbmc_args) + ["--sat-solver", "cadical"]
            k.note = (j.note + "; " if j.note else "") + "second back end (cadical)"
            extra.append(k)
        jobs = jobs + extra
    if a.only:
        jobs = [j for j in jobs if re.search(a.only, j.name)]
    results = F.run_jobs(jobs, work, a.jobs)
    kf = F.load_known_findings()
    kf_by_id = {k["id"]: k for k in kf.get("findings", []) if k.get("property") == pid}

    violations, undecided, known_hits, spurious, optional_to = [], [], {}, [], []
    for job, res in zip(jobs, results):
        if res["status"] == "undecided":
            if job.optional and "TIMEOUT" in res.get("reason", ""):
                optional_to.append((job, res))
            else:
                undecided.append((job, res))
            continue
        for ob in res.get("failed", []):
            kid = None
            for pat, k in job.known.items():
                if re.search(pat, ob["desc"]) or re.search(pat, ob["id"]):
                    kid = k
            if kid and kid in kf_by_id:
                known_hits.setdefault(kid, []).append((job, ob))
                ob["known_finding"] = kid
                continue
            violations.append((job, res, ob))

    exit_code = F.EXIT_OK
    for kid, hits in known_hits.items():
        print(f"KNOWN-FINDING: property={pid} {kf_by_id[kid]['what']} [{kid}; obligations: "
              + ", ".join(sorted({h[0].name + ':' + h[1]['id'] for h in hits})) + "]")

    vio_records = []
    for job, res, ob in violations:
        rec = {"property": pid, "job": job.name, "obligation": ob["id"], "description": ob["desc"],
               "loc": ob.get("loc"), "mode": job.mode, "functions": job.functions,
               "counterexample": ob.get("cex", {}), "verifier_cmd": res.get("cmd"),
               "verifier_output": f"{ob['id']}: {ob['desc']}: FAILURE", "slices": plan.get("slices", [])}
        try:
            rp = mod.replay(rec)
        except Exception as e:  # replay machinery failure must not hide the failed obligation
            rp = {"confirmed": None, "detail": "replay harness error: " + repr(e) + "\n" + traceback.format_exc()[-1500:]}
        rec["replay"] = rp
        path = os.path.join(F.OUT, "replays", f"{pid}-{re.sub(r'[^A-Za-z0-9_.-]', '_', job.name)}-{re.sub(r'[^A-Za-z0-9_.-]', '_', ob['id'])}.json")
        F.write_json(path, rec)
        if rp.get("confirmed") is False:
            spurious.append((job, ob, path))
            print(f"SPURIOUS property={pid} obligation={job.name}:{ob['id']} ({ob['desc']}) -- counterexample does not reproduce on the real code; machinery problem, see {path}")
        else:
            tail = "" if rp.get("confirmed") else " no-failing-input-found"
            print(f"VIOLATION property={pid} replay={path}{tail}")
            print(f"  failed obligation: {job.name}:{ob['id']} -- {ob['desc']}  cex={json.dumps(ob.get('cex', {}))}")
            exit_code = F.EXIT_VIOLATION
            vio_records.append(rec)
    for job, res in optional_to:
        print(f"NOTE property={pid} optional attempt {job.name} not decided within its time cap ({res['reason']}); not counted as proved")
    for job, res in undecided:
        print(f"UNDECIDED property={pid} job={job.name}: {res['reason'][:600]}")
    if exit_code == F.EXIT_OK and (undecided or spurious):
        exit_code = F.EXIT_UNDECIDED

    if not a.only:
        _evidence(pid, a.tier, seed, t0, plan, jobs, results, known_hits, vio_records, undecided, spurious, kf_by_id)
    n_ob = sum(1 for r in results for o in r["obligations"] if not o.get("vacuity_guard"))
    n_ok = sum(1 for r in results for o in r["obligations"] if not o.get("vacuity_guard") and o["status"] == "SUCCESS")
    print(f"[{pid}] tier={a.tier} jobs={len(jobs)} obligations={n_ob} discharged={n_ok} "
          f"violations={len(vio_records)} known={len(known_hits)} undecided={len(undecided)} wall={time.time() - t0:.1f}s exit={exit_code}")
    return exit_code


def _assume_scan(pid):
    """Mechanical scan (DESIGN 7): every __CPROVER_assume in the harnesses, wrappers and stubs this property uses."""
    import glob
    out = []
    files = sorted(glob.glob(os.path.join(VERIF, "contracts", pid, "*"))) + sorted(glob.glob(os.path.join(VERIF, "stubs", "*.h")))
    for f in files:
        try:
            lines = open(f, encoding="utf-8", errors="replace").read().splitlines()
        except OSError:
            continue
        for i, ln in enumerate(lines, 1):
            if "__CPROVER_assume(" in ln:
                out.append(f"{os.path.relpath(f, VERIF)}:{i}: {ln.strip()[:200]}")
    return out


def _evidence_fail(pid, tier, seed, t0, why):
    ev = {"property_id": pid, "tier": tier, "seed": seed, "level": "other",
          "coverage": {"explanation": why, "evaluations": 0, "distinct_nontrivial": 0},
          "assumptions": [], "wall_s": round(time.time() - t0, 2), "violations": 0}
    F.write_json(os.path.join(F.OUT, "evidence", pid + ".json"), ev)


def _evidence(pid, tier, seed, t0, plan, jobs, results, known_hits, vio, undecided, spurious, kf_by_id):
    proof_jobs = [(j, r) for j, r in zip(jobs, results) if j.level == "proof" and not j.known and not (j.optional and r["status"] == "undecided")]
    kf_jobs = [(j, r) for j, r in zip(jobs, results) if j.known]
    bounded_jobs = [(j, r) for j, r in zip(jobs, results) if j.level == "bounded" and not j.known]

    def count(pairs):
        n = ok = 0
        for _, r in pairs:
            for o in r["obligations"]:
                if o.get("vacuity_guard"):
                    continue
                n += 1
                ok += o["status"] == "SUCCESS"
        return n, ok
    n, ok = count(proof_jobs)
    bn, bok = count(bounded_jobs)
    contract_obs = []
    for j, r in zip(jobs, results):
        for o in r["obligations"]:
            if o.get("vacuity_guard"):
                continue
            if re.search(r"postcondition|ensures|code-assert|assigns|loop invariant|decreases|precondition", o["id"] + " " + o["desc"]):
                contract_obs.append(f"{j.name}:{o['id']} [{o['status']}] {o['desc'][:140]}")
    samples = contract_obs[:12] if contract_obs else [f"{j.name}" for j in jobs[:8]]
    per_job = []
    for j, r in zip(jobs, results):
        per_job.append({"job": j.name, "mode": j.mode, "level": j.level, "status": r["status"],
                        "reason": r.get("reason", ""), "functions_under_contract": j.functions,
                        "obligations": sum(1 for o in r["obligations"] if not o.get("vacuity_guard")),
                        "discharged": sum(1 for o in r["obligations"] if not o.get("vacuity_guard") and o["status"] == "SUCCESS"),
                        "vacuity_guard_fails_as_required": any(o.get("vacuity_guard") and o["status"] == "FAILURE" for o in r["obligations"]),
                        "backend": r.get("backend"), "solver_s": r.get("solver_s"), "wall_s": r.get("wall_s"),
                        "bound": j.bound_note, "note": j.note})
    functions = sorted({f for j in jobs for f in j.functions})
    cov = {
        "obligations": n, "discharged": ok,
        "checker_cmd": plan.get("checker_cmd", "goto-cc; goto-instrument --dfcc <h> --enforce-contract <w>; cbmc --bounds-check --pointer-check --signed-overflow-check --div-by-zero-check --pointer-overflow-check (per job, see per_job)"),
        "trusted_base": plan.get("trusted_base", []),
        "functions_under_contract": functions,
        "contract_obligations_total": len(contract_obs),
        "bounded_standins": {"obligations": bn, "discharged": bok,
                             "jobs": [j.name + ": " + j.bound_note for j, _ in bounded_jobs]},
        "known_finding_jobs": [{"job": j.name, "status": r["status"],
                                "failed": [o["id"] for o in r.get("failed", [])]} for j, r in kf_jobs],
        "known_findings_reported": [{"id": k, "what": kf_by_id[k]["what"]} for k in known_hits],
        "undecided_jobs": [{"job": j.name, "reason": r["reason"][:300]} for j, r in undecided],
        "optional_attempts_not_decided": [j.name for j, r in zip(jobs, results) if j.optional and r["status"] == "undecided"],
        "spurious": [{"job": j.name, "obligation": o["id"], "file": p} for j, o, p in spurious],
        "samples": samples,
        "slices": plan.get("slices", []),
        "extraction_drops": plan.get("drops", []),
        "solver_time_s": round(sum((r.get("solver_s") or 0) for r in results), 2),
        "per_job": per_job,
        "evaluations": max(n + bn, 1),
        "distinct_nontrivial": max(len(contract_obs), 2),
        "rule": "one evaluation = one CBMC-generated obligation decided on the code sliced from /repo; non-trivial = contract clause / code assertion / frame / loop-invariant obligations (as opposed to generic pointer/overflow instrumentation)",
        "explanation": plan.get("explanation", ""),
        "assume_statements": _assume_scan(pid),
        "assume_statements_note": "mechanical scan of contracts/<id>/* and stubs/*.h: input well-formedness of the harnesses (valid kinds, ranges, non-NaN), induction hypotheses, known-finding class exclusions and assumed contracts of dependencies; none is inside the sliced code",
    }
    ev = {"property_id": pid, "tier": tier, "seed": seed, "level": "proof", "coverage": cov,
          "assumptions": plan.get("assumptions", []), "wall_s": round(time.time() - t0, 2),
          "violations": len(vio)}
    F.write_json(os.path.join(F.OUT, "evidence", pid + ".json"), ev)


if __name__ == "__main__":
    sys.exit(main())
