#!/usr/bin/env python3
"""Job orchestration for CBMC contract checks (DESIGN.md 3.4/3.5).

A *job* is one CBMC run: a C harness (entry point) linked with the extracted real code,
optionally instrumented by `goto-instrument --dfcc` (mode D), then decided by cbmc.
Every cbmc property of the job is an obligation.  Each harness ends in an expected-to-fail
`reach` assertion (vacuity guard): the job is VACUOUS unless that assertion FAILS.
"""
import concurrent.futures
import hashlib
import json
import os
import re
import resource
import shutil
import subprocess
import sys
import time

VERIF = os.path.dirname(os.path.dirname(os.path.abspath(__file__)))
STUBS = os.path.join(VERIF, "stubs")
# VERIF_OUT redirects everything a run writes (work files, evidence, replays) - used only when the
# checks are pointed at a scratch worktree (VERIF_REPO) to evaluate a seeded change without touching
# /repo or the committed evidence; the registered commands never set it.
OUT = os.environ.get("VERIF_OUT", VERIF)
WORK = os.path.join(OUT, ".work")

# --conversion-check is deliberately off: it reports well-defined signed->unsigned and
# implementation-defined narrowing conversions, which are not undefined behaviour in C++.
SAFETY_FLAGS = ["--bounds-check", "--pointer-check", "--signed-overflow-check",
                "--div-by-zero-check", "--pointer-overflow-check"]

EXIT_OK, EXIT_VIOLATION, EXIT_UNDECIDED = 0, 1, 2


class Undecided(Exception):
    """Tool limit / timeout / extraction problem: exit 2, never a violation."""


def _limits(mem_gb):
    def f():
        b = int(mem_gb * (1 << 30))
        resource.setrlimit(resource.RLIMIT_AS, (b, b))
        os.setsid()
    return f


def run(cmd, timeout, mem_gb=8, cwd=None):
    t0 = time.time()
    try:
        p = subprocess.run(cmd, stdout=subprocess.PIPE, stderr=subprocess.PIPE, timeout=timeout,
                           preexec_fn=_limits(mem_gb), cwd=cwd)
        return p.returncode, p.stdout.decode(errors="replace"), p.stderr.decode(errors="replace"), time.time() - t0
    except subprocess.TimeoutExpired as e:
        return -9, (e.stdout or b"").decode(errors="replace"), "TIMEOUT", time.time() - t0


class Job:
    def __init__(self, name, entry, objs, enforce=None, replace=(), loop_contracts=False,
                 cbmc_args=(), unwind=None, timeout=300, mem_gb=8, level="proof",
                 functions=(), note="", known=None, bound_note="", safety=True,
                 expect_fail=("reach",), object_bits=12, optional=False):
        self.name = name
        self.entry = entry
        self.objs = list(objs)
        self.enforce = enforce
        self.replace = list(replace)
        self.loop_contracts = loop_contracts
        self.cbmc_args = list(cbmc_args)
        self.unwind = unwind
        # a required job gets at least 15 min: a time-out is exit 2 (undecided), and the machine the checks run on may be
        # slower or busier than the one the caps were measured on (C14 hit a 300 s cap with a 281 s job once)
        self.timeout = timeout if optional else max(timeout, 900)
        self.mem_gb = mem_gb
        self.level = level            # 'proof' | 'bounded'
        self.functions = list(functions)   # real functions under contract in this job
        self.note = note
        self.known = known or {}      # regex on obligation description -> known finding id
        self.bound_note = bound_note
        self.safety = safety
        self.expect_fail = tuple(expect_fail)
        self.object_bits = object_bits
        self.optional = optional      # attempt only: a timeout is reported but does not affect the exit status
        self.mode = "D(dfcc)" if enforce else "H(harness assume/assert)"


class Builder:
    """Compiles sources to goto objects once per (source, flags)."""

    def __init__(self, workdir):
        self.workdir = workdir
        os.makedirs(workdir, exist_ok=True)
        self.cache = {}

    def cc(self, src, defines=(), includes=(), cpp=False, timeout=300):
        key = (src, tuple(defines), tuple(includes), cpp)
        if key in self.cache:
            return self.cache[key]
        h = hashlib.sha1(repr(key).encode()).hexdigest()[:10]
        obj = os.path.join(self.workdir, os.path.basename(src) + "." + h + ".o")
        cmd = ["goto-cc"]
        if cpp:
            cmd += ["-std=c++11", "-nostdinc", "-I", os.path.join(STUBS, "std"), "-I", STUBS]
        else:
            cmd += ["-I", STUBS]
        for i in includes:
            cmd += ["-I", i]
        for d in defines:
            cmd += ["-D" + d]
        cmd += ["-c", src, "-o", obj]
        rc, out, err, dt = run(cmd, timeout, mem_gb=8)
        if rc != 0:
            raise Undecided(f"FRONT-END goto-cc failed on {src} (rc={rc}):\n{(out + err)[-3000:]}")
        self.cache[key] = obj
        return obj


def run_job(job, workdir):
    """Returns a dict: status in {pass, fail, undecided}, obligations list, ..."""
    t0 = time.time()
    res = {"job": job.name, "entry": job.entry, "mode": job.mode, "level": job.level,
           "functions": job.functions, "obligations": [], "status": "undecided", "reason": "",
           "backend": "cbmc 6.11 SAT (minisat2)" if not any(a.startswith("--cvc5") or a.startswith("--z3") or a.startswith("--sat-solver") or a == "--external-sat-solver" for a in job.cbmc_args) else "cbmc 6.11 " + " ".join(job.cbmc_args),
           "bound_note": job.bound_note}
    base = os.path.join(workdir, re.sub(r"[^\w.-]", "_", job.name))
    gb = base + ".gb"
    rc, out, err, _ = run(["goto-cc", "--function", job.entry] + job.objs + ["-o", gb], 120)
    if rc != 0:
        res["reason"] = "LINK failed: " + (out + err)[-2000:]
        return res
    final = gb
    cmds = []
    if job.enforce or job.loop_contracts or job.replace:
        inst = base + ".i.gb"
        cmd = ["goto-instrument", "--dfcc", job.entry]
        if job.enforce:
            cmd += ["--enforce-contract", job.enforce]
        for r in job.replace:
            cmd += ["--replace-call-with-contract", r]
        if job.loop_contracts:
            cmd += ["--apply-loop-contracts"]
        cmd += [gb, inst]
        cmds.append(" ".join(cmd))
        rc, out, err, _ = run(cmd, job.timeout, job.mem_gb)
        if rc != 0:
            res["reason"] = "INSTRUMENT failed (rc=%d): %s" % (rc, (out + err)[-2000:])
            return res
        final = inst
    cmd = ["cbmc", final, "--json-ui", "--trace", "--verbosity", "8"]
    if job.safety:
        cmd += SAFETY_FLAGS
    if job.unwind is not None:
        cmd += ["--unwind", str(job.unwind), "--unwinding-assertions"]
    if job.object_bits:
        cmd += ["--object-bits", str(job.object_bits)]
    cmd += job.cbmc_args
    cmds.append(" ".join(cmd))
    res["cmd"] = " && ".join(cmds)
    rc, out, err, dt = run(cmd, job.timeout, job.mem_gb)
    res["solver_wall_s"] = round(dt, 2)
    if rc == -9:
        res["reason"] = f"TIMEOUT after {job.timeout}s"
        return res
    try:
        doc = json.loads(out)
    except Exception:
        res["reason"] = "cbmc output not JSON (rc=%d): %s" % (rc, (out[-1500:] + err[-1500:]))
        return res
    results = None
    msgs = []
    for item in doc:
        if "result" in item:
            results = item["result"]
        if "messageText" in item:
            msgs.append(item["messageText"])
    alltext = "\n".join(msgs)
    m = re.search(r"Runtime Solver: ([\d.e+-]+)s", alltext)
    if m:
        res["solver_s"] = float(m.group(1))
    if re.search(r"ignoring (forall|exists)", alltext):
        res["reason"] = "quantifier ignored by SAT back end"
        return res
    if results is None:
        res["reason"] = "no result section (rc=%d): %s" % (rc, alltext[-2000:])
        return res
    env_failed = []  # failed checks that belong to the environment (capacity of a stub, a modelling limit), not to /repo's code
    reach_failed = False
    reach_missed = []  # every `reach[:label]` point of a harness must be reachable (each must FAIL)
    unwinding_failed = False
    failed = []
    unknown = []
    for r in results:
        desc = r.get("description", "")
        ob = {"id": r.get("property", ""), "desc": desc, "status": r.get("status", "")}
        sl = r.get("sourceLocation") or {}
        if sl:
            ob["loc"] = "%s:%s" % (os.path.basename(sl.get("file", "")), sl.get("line", ""))
        is_reach = any(desc == x or desc.startswith(x + ":") for x in job.expect_fail)
        if is_reach:
            ob["vacuity_guard"] = True
            if ob["status"] == "FAILURE":
                reach_failed = True
            elif desc.startswith("reach:") and ob["id"].startswith(job.entry + "."):
                # labelled reach points inside the entry function guard against PARTIAL vacuity (an unreachable
                # branch of the harness); cbmc also lists the reach assertions of harness functions that are not
                # part of this job (unreachable from the entry), which must be ignored
                reach_missed.append(desc)
        elif ob["status"] == "FAILURE":
            if "unwinding assertion" in desc or "recursion unwinding" in desc:
                unwinding_failed = True
            elif not any(re.search(rx, desc) for rx in job.known) and _is_env_check(desc, ob["id"], sl.get("file", "")):
                env_failed.append("%s (%s)" % (desc, ob.get("loc", "")))
            else:
                ob["cex"] = _cex(r.get("trace", []), job.entry)
                failed.append(ob)
        elif ob["status"] != "SUCCESS":
            unknown.append(f"obligation {ob['id']} status {ob['status']}")
        res["obligations"].append(ob)
    # A dereference that fails ONLY as "dead object" (the sibling checks of the same expression - pointer NULL, invalid,
    # outside object bounds - hold) is a reference bound to a temporary: C++ extends the temporary's lifetime, CBMC's front
    # end does not.  That is a limit of the tool, not a defect of the code: the job is undecided (lower the declaration, L29).
    fdesc = {(o.get("loc", ""), o["desc"]) for o in failed}
    for o in failed:
        mm = re.match(r"dereference failure: dead object in (.*)$", o["desc"])
        if mm and not any((o.get("loc", ""), "dereference failure: %s in %s" % (k, mm.group(1))) in fdesc
                          for k in ("pointer NULL", "pointer invalid", "pointer outside object bounds", "deallocated dynamic object")):
            env_failed.append("CBMC front end: no lifetime extension for a temporary bound to a reference - %s (%s)" % (o["desc"], o.get("loc", "")))
            break
    res["wall_s"] = round(time.time() - t0, 2)
    # obligations left UNKNOWN by cbmc (paths cut behind an earlier failed check) make the job
    # undecided only when nothing was decided false; a decided failure is reported as such
    if unknown and not failed:
        res["reason"] = unknown[0]
        return res
    if unknown:
        res["unknown_obligations"] = len(unknown)
    if unwinding_failed:
        res["reason"] = "unwinding assertion failed (bound too small)"
        return res
    if env_failed:
        # the run left the envelope the stubs / harness model (a capacity, a construct that is not modelled): whatever else
        # failed may be a consequence of that, so nothing is reported as a violation
        res["reason"] = "ENVIRONMENT-LIMIT: " + "; ".join(env_failed[:3])
        return res
    if reach_failed and reach_missed and not failed:
        # (partial vacuity matters for a pass only: an obligation that was decided false stays a violation)
        res["status"] = "undecided"
        res["reason"] = "VACUOUS: reach point(s) not reachable: " + ", ".join(reach_missed[:5])
        return res
    if not reach_failed:
        res["status"] = "undecided"
        res["reason"] = "VACUOUS: reach assertion after the call did not fail (precondition unsatisfiable or call never returns)"
        return res
    n_real = sum(1 for o in res["obligations"] if not o.get("vacuity_guard"))
    if n_real == 0:
        res["reason"] = "VACUOUS: zero obligations"
        return res
    res["status"] = "fail" if failed else "pass"
    res["failed"] = failed
    return res


ENV_DESC = re.compile(r"^(stub|libc model|harness): .*(capacity|in range|modelled|outside the table|in the table|arena|inside the script|nesting depth|path depth|"
                      r"insert at end|takes .begin|used with the format|reads the text|looks for|log capacity)")
AUTO_CHECK = re.compile(r"[.](array_bounds|pointer_dereference|pointer_arithmetic|overflow|division-by-zero|undefined-shift|pointer_primitives|conversion)[.][0-9]+$")


def _is_env_check(desc, prop_id, file):
    """True for a failed check that guards the environment rather than /repo's code: a stub's capacity / modelling limit, or
    a construct the environment does not model - always an explicit, labelled assertion of the stub."""
    if ENV_DESC.search(desc):
        return True
    # (automatically generated safety checks - null dereference, array bounds - are NOT classified here, wherever they sit: in
    # an accessor of the glue they are the consequence of what the real code returned, e.g. an empty expression or a null uid)
    return False


def _cex(trace, entry):
    vals = {}
    for st in trace:
        if st.get("stepType") != "assignment":
            continue
        sl_ = st.get("sourceLocation") or {}
        fn = sl_.get("function", "")
        lhs = st.get("lhs", "")
        in_harness = fn == entry or os.path.basename(sl_.get("file", "")).startswith("h_")
        if not in_harness or not lhs or lhs.startswith("__") or "$" in lhs or "return_value" in lhs:
            continue
        if lhs.endswith("_wrapper"):
            continue
        v = st.get("value") or {}
        vals[lhs] = _decode(v)
    return vals


def _decode(v):
    """Exact decimal / hex-float rendering of a trace value."""
    import struct
    b = v.get("binary")
    name = v.get("name")
    ty = v.get("type", "")
    if b and name == "integer":
        n = int(b, 2)
        if not ("unsigned" in ty or ty in ("_Bool", "bool")) and b[0] == "1":
            n -= 1 << len(b)
        return str(n)
    if b and name == "float" and len(b) == 64:
        d = struct.unpack(">d", int(b, 2).to_bytes(8, "big"))[0]
        if d != d:
            return "nan"
        if d in (float("inf"), float("-inf")):
            return "inf" if d > 0 else "-inf"
        return d.hex()
    if "data" in v:
        return str(v["data"])
    if b:
        return "0b" + b
    return None


def run_jobs(jobs, workdir, nproc=None):
    nproc = nproc or max(1, (os.cpu_count() or 4))
    out = [None] * len(jobs)
    with concurrent.futures.ThreadPoolExecutor(max_workers=nproc) as ex:
        futs = {ex.submit(run_job, j, workdir): i for i, j in enumerate(jobs)}
        for f in concurrent.futures.as_completed(futs):
            out[futs[f]] = f.result()
    return out


def load_known_findings():
    p = os.path.join(VERIF, "known_findings.json")
    if not os.path.exists(p):
        return {"findings": [], "fixed": []}
    with open(p) as f:
        return json.load(f)


def fresh_workdir(pid):
    d = os.path.join(WORK, pid)
    shutil.rmtree(d, ignore_errors=True)
    os.makedirs(d)
    return d


def write_json(path, obj):
    os.makedirs(os.path.dirname(path), exist_ok=True)
    tmp = path + ".tmp"
    with open(tmp, "w") as f:
        json.dump(obj, f, indent=1, sort_keys=False)
    os.replace(tmp, path)
