#!/bin/sh
# Build /repo (or $1) with tests in a scratch directory outside /repo and /verif, run ctest, remove it.
SRC=${1:-/repo}
BD=$(mktemp -d /tmp/utap_tests.XXXXXX)
trap 'rm -rf "$BD"' EXIT
cmake -G Ninja -S "$SRC" -B "$BD" -DCMAKE_BUILD_TYPE=Debug >"$BD/cfg.log" 2>&1 || { tail -30 "$BD/cfg.log"; exit 3; }
cmake --build "$BD" -j16 >"$BD/build.log" 2>&1 || { tail -60 "$BD/build.log"; exit 3; }
ctest --test-dir "$BD" -j8 --timeout 900 2>&1 | tail -15
