/* C14 (A) harnesses, mode H.  Oracle (statement): swapping the operands of a commutative
   operator / the branches of an inline-if changes neither acceptance nor the kind of the
   result type.  "Kind" is the stripped (base) kind of the result type. */
#include "kinds.h"
#define REACH __CPROVER_assert(0, "reach")
/* input class of known finding C14-KF1: the two branches have different integral kinds */
#define INTEGRAL_K(k) ((k) == K_INT || (k) == K_BOOL || (k) == K_LOCATION || (k) == K_LOCATION_EXPR || (k) == K_PROCESS_VAR)
#define KF_CLASS_INLINE_IF (INTEGRAL_K(ka) && INTEGRAL_K(kb) && ka != kb)
void w_c14_swap(int op, int ka, unsigned wa, int kb, unsigned wb, int kc, unsigned wc,
                int* ret_ab, int* kind_ab, int* err_ab, int* ret_ba, int* kind_ba, int* err_ba);

static void swap(int op)
{
    int ka, kb, kc; unsigned wa, wb, wc;
    int ret_ab, kind_ab, err_ab, ret_ba, kind_ba, err_ba;
    __CPROVER_assume(VALID_BASE(ka) && VALID_BASE(kb) && VALID_BASE(kc) && wa <= 511 && wb <= 511 && wc <= 511);
#ifdef EXCLUDE_KF
    if (op == K_INLINE_IF) __CPROVER_assume(!KF_CLASS_INLINE_IF);
#endif
    w_c14_swap(op, ka, wa, kb, wb, kc, wc, &ret_ab, &kind_ab, &err_ab, &ret_ba, &kind_ba, &err_ba);
    __CPROVER_assert((ret_ab != 0) == (ret_ba != 0) && (err_ab > 0) == (err_ba > 0), "c14.swap.acceptance-is-symmetric");
    __CPROVER_assert(!(ret_ab && ret_ba && err_ab == 0 && err_ba == 0) || kind_ab == kind_ba, "c14.swap.result-kind-is-symmetric");
    REACH;
}
#define SWAP(OP) void h_c14_swap_##OP(void) { swap(K_##OP); }
/* the callee contract used by the modular inline-if job, proved on the real areEquivalent */
void w_c14_equiv(int ka, unsigned wa, int kb, unsigned wb, int* ab, int* ba, int* same_base, int* da, int* a_is_double);
void h_c14_equiv_contract(void)
{
    int ka, kb, ab, ba, sb, da, ad; unsigned wa, wb;
    __CPROVER_assume(VALID_BASE(ka) && VALID_BASE(kb) && wa <= 511 && wb <= 511);
    w_c14_equiv(ka, wa, kb, wb, &ab, &ba, &sb, &da, &ad);
    __CPROVER_assert((ab != 0) == (ba != 0), "c14.areEquivalent.(S)-symmetric");
    __CPROVER_assert(!ab || sb, "c14.areEquivalent.(K)-only-types-of-the-same-value-base-kind-are-equivalent");
    __CPROVER_assert(da == (ad ? 3 : 0), "c14.areEquivalent.(P)-the-primitive-double-is-equivalent-to-exactly-the-double-types");
    if (ab) __CPROVER_assert(0, "reach:equivalent");
    if (!ab) __CPROVER_assert(0, "reach:not-equivalent");
    REACH;
}
SWAP(PLUS) SWAP(MULT) SWAP(MIN) SWAP(MAX) SWAP(EQ) SWAP(NEQ) SWAP(AND) SWAP(OR) SWAP(BIT_AND) SWAP(BIT_OR) SWAP(BIT_XOR) SWAP(INLINE_IF)
