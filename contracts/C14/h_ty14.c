/* C14 (B): name-equivalence of scalar types is symmetric and ignores which side carries the
   reference / const / meta wrapper ("an argument is accepted for a reference parameter exactly
   when their types are equivalent, whichever of the two carries the reference or const wrapper"). */
#include "kinds.h"
#define REACH __CPROVER_assert(0, "reach")
void w_c14_same_scalar(int k1, int n1, int l1, int lo1, int hi1, int k2, int n2, int l2, int lo2, int hi2, unsigned m,
                       int* r12, int* r21, int* m13, int* m12, int* m32, int* m02, int* m03);
#define WRAPK(k) ((k) == K_REF || (k) == K_CONSTANT || (k) == K_SYSTEM_META)
#define SCALARISH(k) ((k) == K_SCALAR || (k) == K_LABEL || (k) == K_RANGE || WRAPK(k))
static void arity(int k, int n)
{
    __CPROVER_assume(!(WRAPK(k) || k == K_LABEL) || n == 1);
    __CPROVER_assume(k != K_RANGE || n == 3);
    __CPROVER_assume(k != K_SCALAR || n == 0);
}
void h_c14_same_scalar(void)
{
    int k1, n1, l1, lo1, hi1, k2, n2, l2, lo2, hi2, r12, r21, m13, m12, m32, m02, m03; unsigned m;
    __CPROVER_assume(SCALARISH(k1) && SCALARISH(k2) && n1 >= 0 && n1 <= 3 && n2 >= 0 && n2 <= 3 && m < (1u << 21));
    __CPROVER_assume(l1 >= 1 && l1 <= 2 && l2 >= 1 && l2 <= 2 && lo1 >= 0 && lo1 <= 1 && hi1 >= 2 && hi1 <= 3 && lo2 >= 0 && lo2 <= 1 && hi2 >= 2 && hi2 <= 3);
    arity(k1, n1); arity(k2, n2);
    w_c14_same_scalar(k1, n1, l1, lo1, hi1, k2, n2, l2, lo2, hi2, m, &r12, &r21, &m13, &m12, &m32, &m02, &m03);
    __CPROVER_assert((r12 != 0) == (r21 != 0), "c14.isSameScalarType.symmetric");
    /* a wrapper on one side only is transparent: the verdict is that of (unwrapped, other) */
    if (WRAPK(k1) && !WRAPK(k2)) __CPROVER_assert((r12 != 0) == (m12 != 0), "c14.isSameScalarType.wrapper-on-the-left-is-transparent");
    if (!WRAPK(k1) && WRAPK(k2)) __CPROVER_assert((r12 != 0) == (m03 != 0), "c14.isSameScalarType.wrapper-on-the-right-is-transparent");
    REACH;
}
