/* C14 (A): symmetry of the REAL commutative-operator clauses and of the REAL inline-if
   rule (getInlineIfCommonType, areInlineIfCompatible, areAssignmentCompatible,
   areEqCompatible, areEquivalent top level) over the flat type abstraction.
   Recursive callees are answered by SYMMETRIC contracts (a symbolic symmetric matrix over
   abstract sub-structure ids); that symmetry is itself the obligation of part (B). */
#define VERIF_TYPE_FLAT
#include "utap_abs.h"

extern "C" {
int verif_err_count, verif_warn_count, verif_last_err, verif_thrown;
}
namespace UTAP {
verif_node verif_nodes[VERIF_NNODES];
verif_sym verif_syms[VERIF_NSYM];
type_t verif_tpool[VERIF_NSID];
static bool verif_eq_matrix[VERIF_NSID][VERIF_NSID];   /* contract of areEquivalent on sub-structures   */
static bool verif_sc_matrix[VERIF_NSID][VERIF_NSID];   /* contract of isSameScalarType on sub-structures */

class TypeChecker
{
public:
    VERIF_HANDLERS
    bool areEqCompatible(type_t t1, type_t t2) const;
    bool areAssignmentCompatible(type_t lvalue, type_t rvalue, bool init = false) const;
    bool areInlineIfCompatible(type_t result_type, type_t thenArg, type_t elseArg) const;
    type_t getInlineIfCommonType(type_t t1, type_t t2) const;
    static bool areEquivalent(type_t, type_t);
    bool checkExpression_clauses(expression_t expr);
};
static bool areEquivalent__contract(type_t a, type_t b) { return verif_eq_matrix[a.self][b.self]; }
#ifdef C14_MODULAR
/* Contract of TypeChecker::areEquivalent at top level, used by its callers in the inline-if job (the callee's body is
   the obligation of c14_equiv_contract, which proves exactly these three facts on the real function):
     (S) symmetric;  (K) true only for two types of the same base kind, which is one of the nine value kinds (so never for
   the empty type);  (P) a bare primitive double is equivalent to
   exactly the types that are doubles.
   Operands are identified by their tag (1 = the primitive built by getInlineIfCommonType, 2/3 = the two branches). */
static bool verif_top_matrix[4][4];
static bool verif_value_kind(kind_t k) { return k == INT || k == BOOL || k == CLOCK || k == CHANNEL || k == RECORD || k == ARRAY || k == SCALAR || k == DOUBLE || k == STRING; }
static bool areEquivalent__top(type_t a, type_t b)
{
    __CPROVER_assert(a.tag >= 0 && a.tag <= 3 && b.tag >= 0 && b.tag <= 3, "contract areEquivalent: operand is one of the tagged top-level types");
    __CPROVER_assert((a.tag != 1 || (a.base == DOUBLE && a.wrap == 0)) && (b.tag != 1 || (b.base == DOUBLE && b.wrap == 0)), "contract areEquivalent: the only primitive built here is double");
    __CPROVER_assert((a.tag != 0 || a.unknown()) && (b.tag != 0 || b.unknown()), "contract areEquivalent: tag 0 is the empty type");
    if (a.tag == 1 && b.tag == 1) return true;
    if (a.tag == 1) return b.is_double();
    if (b.tag == 1) return a.is_double();
    bool r = verif_top_matrix[a.tag][b.tag];
    __CPROVER_assume(!r || (a.base == b.base && verif_value_kind(a.base)));
    return r;
}
#endif
static bool isSameScalarType__contract(type_t a, type_t b) { return verif_sc_matrix[a.self][b.self]; }
}  // namespace UTAP
using namespace UTAP;
using namespace Constants;

#include "helpers.inc"
#ifdef C14_MODULAR
#include "tc_funcs_mod.inc"
#else
#include "tc_funcs.inc"
#endif
#include "mini_ce.inc"

static void env_havoc()
{
    verif_tpool_havoc();
#define SYM(i, j) { bool e, s; verif_eq_matrix[i][j] = e; verif_eq_matrix[j][i] = e; verif_sc_matrix[i][j] = s; verif_sc_matrix[j][i] = s; }
    /* symmetric by construction; unrolled for VERIF_NSID == 4 */
    SYM(0, 0) SYM(1, 0) SYM(1, 1) SYM(2, 0) SYM(2, 1) SYM(2, 2) SYM(3, 0) SYM(3, 1) SYM(3, 2) SYM(3, 3)
}
static type_t mk(int k, unsigned w, int self)
{
    type_t t = type_t::verif_any_type();
    t.base = (kind_t)k; t.wrap = w; t.self = self;
    return t;
}
static void run(int op, int cond_k, unsigned cond_w, const type_t& A, const type_t& B, int* ret, int* kind, int* err)
{
    verif_err_count = 0;
    verif_nodes[1].kind = IDENTIFIER; verif_nodes[1].nsub = 0; verif_nodes[1].type = A;
    verif_nodes[2].kind = IDENTIFIER; verif_nodes[2].nsub = 0; verif_nodes[2].type = B;
    verif_nodes[3].kind = IDENTIFIER; verif_nodes[3].nsub = 0; verif_nodes[3].type = type_t((kind_t)cond_k, position_t(), 0);
    verif_nodes[3].type.wrap = cond_w;
    verif_nodes[0].kind = (kind_t)op;
    verif_nodes[0].type = type_t();
    if (op == INLINE_IF) {
        verif_nodes[0].nsub = 3; verif_nodes[0].sub[0] = 3; verif_nodes[0].sub[1] = 1; verif_nodes[0].sub[2] = 2;
    } else {
        verif_nodes[0].nsub = 2; verif_nodes[0].sub[0] = 1; verif_nodes[0].sub[1] = 2;
    }
    TypeChecker tc;
    *ret = tc.checkExpression_clauses(expression_t(0));
    *err = verif_err_count;
    *kind = verif_nodes[0].type.base;
}

/* the same two operand types in both orders (for INLINE_IF: the two branches; the negated
   condition has the same type class as the condition: `!c` of an integral/guard c) */
extern "C" void w_c14_swap(int op, int ka, unsigned wa, int kb, unsigned wb, int kc, unsigned wc,
                           int* ret_ab, int* kind_ab, int* err_ab, int* ret_ba, int* kind_ba, int* err_ba)
{
    env_havoc();
    type_t A = mk(ka, wa, 0), B = mk(kb, wb, 1);
    A.tag = 2; B.tag = 3;
#ifdef C14_MODULAR
    { bool e22, e23, e33, e00, e02, e03;
      verif_top_matrix[2][2] = e22; verif_top_matrix[2][3] = e23; verif_top_matrix[3][2] = e23; verif_top_matrix[3][3] = e33;
      verif_top_matrix[0][0] = e00; verif_top_matrix[0][2] = e02; verif_top_matrix[2][0] = e02; verif_top_matrix[0][3] = e03; verif_top_matrix[3][0] = e03; }
#endif
    run(op, kc, wc, A, B, ret_ab, kind_ab, err_ab);
    run(op, kc, wc, B, A, ret_ba, kind_ba, err_ba);
}
#ifndef C14_MODULAR
/* obligation of the callee: the real areEquivalent on two arbitrary flat types, and on the primitive double */
extern "C" void w_c14_equiv(int ka, unsigned wa, int kb, unsigned wb, int* ab, int* ba, int* same_base, int* da, int* a_is_double)
{
    env_havoc();
    type_t A = mk(ka, wa, 0), B = mk(kb, wb, 1);
    *ab = TypeChecker::areEquivalent(A, B);
    *ba = TypeChecker::areEquivalent(B, A);
    *same_base = A.base == B.base && (A.base == INT || A.base == BOOL || A.base == CLOCK || A.base == CHANNEL || A.base == RECORD || A.base == ARRAY || A.base == SCALAR || A.base == DOUBLE || A.base == STRING);
    type_t D = type_t(DOUBLE, position_t(), 0);
    *da = TypeChecker::areEquivalent(D, A) * 2 + TypeChecker::areEquivalent(A, D);
    *a_is_double = A.is_double();
}
#endif
