/* C14 (B): the REAL isSameScalarType (typechecker.cpp) on REAL type nodes (type.cpp members):
   symmetry and insensitivity to the REF / CONSTANT / SYSTEM_META wrapper on either side.
   Its recursive calls are answered by a SYMMETRIC contract over node identities. */
#define VERIF_TYPE_TREE
#include "utap_abs.h"

extern "C" {
int verif_err_count, verif_warn_count, verif_last_err, verif_thrown;
}
namespace UTAP {
verif_node verif_nodes[VERIF_NNODES];
verif_sym verif_syms[VERIF_NSYM];
}
using namespace UTAP;
using namespace Constants;
using std::string;
using std::vector;

#include "type_structs.inc"
bool type_t::is__contract(kind_t kind) const { return data != nullptr && (kind == data->g_base || (verif_wrap_bit(kind) & data->g_wrap) != 0); }
bool type_t::is_mutable__contract() const { return data != nullptr && data->g_mutable; }
bool type_t::is_constant__contract() const { return data != nullptr && data->g_constant; }
type_t type_t::get_sub__contract() const { type_t t; t.data = data->g_sub; return t; }
type_t type_t::get_sub__contract(uint32_t) const { type_t t; t.data = data->g_sub; return t; }
#include "type_members.inc"

#define NID 6
static bool M[NID][NID]; /* symmetric contract of isSameScalarType on (sub-)types, by node id */
static bool isSameScalarType__contract(type_t a, type_t b)
{
    int i = a.verif_data()->g_id, j = b.verif_data()->g_id;
    __CPROVER_assert(i >= 0 && i < NID && j >= 0 && j < NID, "stub: node ids in range");
    return M[i][j];
}
/* rule L19: x.get_range().first.equal(y.get_range().first) through named temporaries */
static bool verif_range_equal(type_t a, type_t b, bool first)
{
    std::pair<expression_t, expression_t> ra = a.get_range();
    std::pair<expression_t, expression_t> rb = b.get_range();
    return first ? ra.first.equal(rb.first) : ra.second.equal(rb.second);
}
#include "same_scalar.inc" /* REAL isSameScalarType (recursion by contract) */

/* node ids: 0 = t1 root, 1 = t1's child, 2 = t2 root, 3 = t2's child, 4/5 = range bound holders */
static type_t mk(int k, int n, int id, int child_id, int label_id, int lo, int hi)
{
    type_t t((kind_t)k, position_t(), (size_t)n);
    t.verif_data()->g_id = id;
    for (int i = 0; i < 3; i++)
        if (i < n) {
            type_t c(UNKNOWN, position_t(), 0);
            c.verif_data()->g_id = (i == 0) ? child_id : 4;
            c.verif_data()->expr = expression_t(i == 1 ? lo : hi); /* RANGE: children 1,2 hold the bound expressions */
            t.verif_data()->children[i].child = c;
        }
    if (n > 0) t.verif_data()->children[0].label = verif_lit(label_id, "lbl");
    return t;
}
extern "C" void w_c14_same_scalar(int k1, int n1, int l1, int lo1, int hi1, int k2, int n2, int l2, int lo2, int hi2, unsigned m,
                                  int* r12, int* r21, int* m13, int* m12, int* m32, int* m02, int* m03)
{
    /* symmetric matrix from the bits of m */
    int b = 0;
    for (int i = 0; i < NID; i++)
        for (int j = 0; j <= i; j++) { bool v = (m >> b) & 1; M[i][j] = v; M[j][i] = v; b++; }
    /* induction hypothesis on the contract: besides symmetry, transparency of a wrapper node (ids 0/2) w.r.t. its child (ids 1/3) */
#define WRAPK(k) ((k) == REF || (k) == CONSTANT || (k) == SYSTEM_META)
    for (int i = 0; i < NID; i++) {
        if (WRAPK(k1)) __CPROVER_assume(M[i][0] == M[i][1]);
        if (WRAPK(k2)) __CPROVER_assume(M[i][2] == M[i][3]);
    }
    type_t t1 = mk(k1, n1, 0, 1, l1, lo1, hi1), t2 = mk(k2, n2, 2, 3, l2, lo2, hi2);
    *r12 = isSameScalarType(t1, t2);
    *r21 = isSameScalarType(t2, t1);
    *m13 = M[1][3]; *m12 = M[1][2]; *m32 = M[3][2]; *m02 = M[0][2]; *m03 = M[0][3];
}
