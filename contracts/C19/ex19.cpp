/* C19: the REAL node constructors, clone / clone_deeper (3 overloads) / subst / equal /
   get_size of src/expression.cpp over the REAL struct expression_data (lowered), one level
   deep: recursive calls on children are answered by contracts (rule L12) stated over ghost
   tables.  Roots and children live in a pool; every observation goes through w19_obs. */
#include "expr_tree.h"

extern "C" {
int verif_frameA_has[4], verif_frameA_to[4], verif_frameB_has[4], verif_frameB_to[4];
}
using namespace UTAP;
using namespace Constants;
using std::vector;

#include "expr_data.inc"  /* REAL: struct expression_t::expression_data + expression_t(kind, pos) */

namespace UTAP {
inline bool verif_visit2(const verif_variant& a, const verif_variant& b);
}
#include "expr_value_eq.inc" /* REAL: ValueTypeEquality's comparison (rule L18: free function template) */
namespace UTAP {
inline bool verif_visit2(const verif_variant& a, const verif_variant& b)
{
    switch (a.tag * 4 + b.tag) {
    case 0: return ValueTypeEquality__call(a.i, b.i);
    case 1: return ValueTypeEquality__call(a.i, b.s);
    case 2: return ValueTypeEquality__call(a.i, b.d);
    case 3: return ValueTypeEquality__call(a.i, b.si);
    case 4: return ValueTypeEquality__call(a.s, b.i);
    case 5: return ValueTypeEquality__call(a.s, b.s);
    case 6: return ValueTypeEquality__call(a.s, b.d);
    case 7: return ValueTypeEquality__call(a.s, b.si);
    case 8: return ValueTypeEquality__call(a.d, b.i);
    case 9: return ValueTypeEquality__call(a.d, b.s);
    case 10: return ValueTypeEquality__call(a.d, b.d);
    case 11: return ValueTypeEquality__call(a.d, b.si);
    case 12: return ValueTypeEquality__call(a.si, b.i);
    case 13: return ValueTypeEquality__call(a.si, b.s);
    case 14: return ValueTypeEquality__call(a.si, b.d);
    default: return ValueTypeEquality__call(a.si, b.si);
    }
}
}  // namespace UTAP

#include "expr_funcs.inc" /* REAL functions, lowered */

/* ---- pool and ghost tables ------------------------------------------------------------ */
#ifndef NTREE
#define NTREE 3
#endif
#ifndef NKID
#define NKID 4
#endif
#define NPOOL (NTREE * NKID)
static expression_t the_subst_expr;
static expression_t::expression_data* kid[NPOOL];   /* children of root t: kid[t*4 .. t*4+3]      */
static expression_t::expression_data* kclone[NPOOL]; /* the node the clone_deeper contract returns  */
static expression_t::expression_data* ksubst[NPOOL]; /* fresh node a subst on the child may return  */
static int g_class[3 * NPOOL + 1];                        /* equal(): equivalence class of kid/kclone/ksubst */
static int g_subst_mode[NPOOL];                       /* what subst(child) returns: 0 child itself, 1 the substitute, 2 fresh node */
static expression_t root[NTREE];
static expression_t result[4];
static int g_calls_clone, g_calls_subst, g_calls_equal; /* how often the contracts were used   */
static symbol_t g_from, g_to;

static int pool_index(const expression_t::expression_data* p)
{
    for (int i = 0; i < NPOOL; i++) {
        if (p == kid[i]) return i;
    }
    for (int i = 0; i < NPOOL; i++) {
        if (p == kclone[i]) return NPOOL + i;
    }
    for (int i = 0; i < NPOOL; i++) {
        if (p == ksubst[i]) return 2 * NPOOL + i;
    }
    if (p == the_subst_expr.data) return 3 * NPOOL;
    return -1;
}

namespace UTAP {
expression_t expression_t::clone_deeper__contract() const
{
    int i = pool_index(data);
    __CPROVER_assert(i >= 0 && i < NPOOL, "contract: clone_deeper is called on a child of the node");
    g_calls_clone++;
    expression_t r;
    r.data = kclone[i];
    return r;
}
expression_t expression_t::clone_deeper__contract(symbol_t from, symbol_t to) const
{
    __CPROVER_assert(from == g_from && to == g_to, "contract: clone_deeper(from, to) passes its arguments down unchanged");
    return clone_deeper__contract();
}
static frame_t g_frame, g_select;
expression_t expression_t::clone_deeper__contract(frame_t frame, frame_t select) const
{
    __CPROVER_assert(frame == g_frame && select == g_select, "contract: clone_deeper(frame, select) passes its arguments down unchanged");
    return clone_deeper__contract();
}
static symbol_t g_sym;
expression_t expression_t::subst__contract(symbol_t s, expression_t e) const
{
    int i = pool_index(data);
    __CPROVER_assert(i >= 0 && i < NPOOL, "contract: subst is called on a child of the node");
    __CPROVER_assert(s == g_sym && e.data == the_subst_expr.data, "contract: subst passes its arguments down unchanged");
    g_calls_subst++;
    expression_t r;
    if (g_subst_mode[i] == 0) r.data = kid[i];
    else if (g_subst_mode[i] == 1) r.data = the_subst_expr.data;
    else r.data = ksubst[i];
    return r;
}
bool expression_t::equal__contract(const expression_t& o) const
{
    g_calls_equal++;
    if (data == o.data) return true;
    int i = pool_index(data), j = pool_index(o.data);
    __CPROVER_assert(i >= 0 && j >= 0, "contract: equal recurses on children only");
    return g_class[i] == g_class[j];
}
size_t expression_t::get_size__contract() const { return data == nullptr ? 0 : data->sub.size(); }
const symbol_t expression_t::get_symbol__contract() const
{
    __CPROVER_assert(0, "contract: get_symbol does not recurse when called from subst (the node is an IDENTIFIER)");
    return symbol_t();
}
}  // namespace UTAP

static expression_t verif_frag0; /* fragments[0]: the operand on top of the builder's stack */
static position_t position;      /* ExpressionBuilder::position */
#include "builder_unary.inc"     /* REAL: ExpressionBuilder::expr_unary */

static void set_value(expression_t::expression_data* d, int vtag, int ival, int sval, double dval, long long sival)
{
    if (vtag == 0) d->value = (int32_t)ival;
    else if (vtag == 1) d->value = (synchronisation_t)sval;
    else if (vtag == 2) d->value = dval;
    else d->value = (StringIndex)sival;
}

extern "C" {
/* allocate the pool: leaves with arbitrary content (the contracts never look inside) */
void w19_init(void)
{
    for (int i = 0; i < NPOOL; i++) {
#ifdef VERIF_SMALL_POOL
        /* get_size jobs only count children: one shared leaf keeps the pointer value sets small */
        kid[i] = i == 0 ? new expression_t::expression_data(position_t(), IDENTIFIER, 0) : kid[0];
#else
        kid[i] = new expression_t::expression_data(position_t(), IDENTIFIER, 0);
#endif
#ifndef VERIF_SMALL_POOL
        kclone[i] = new expression_t::expression_data(position_t(), IDENTIFIER, 0);
        ksubst[i] = new expression_t::expression_data(position_t(), IDENTIFIER, 0);
#endif
    }
    the_subst_expr.data = new expression_t::expression_data(position_t(), CONSTANT, 0);
    g_calls_clone = g_calls_subst = g_calls_equal = 0;
}
void w19_ghost_subst_class(int cls) { g_class[3 * NPOOL] = cls; }
void w19_set_subst_identifier(int sym) { the_subst_expr = expression_t::create_identifier(symbol_t(sym)); }
void w19_root_identifier(int t, int sym, int pos) { root[t] = expression_t::create_identifier(symbol_t(sym), position_t(pos)); }
/* the children are arbitrary nodes: in particular their kinds are (a clone must not treat some kinds of children differently) */
void w19_kid_kind(int idx, int kind) { kid[idx]->kind = (kind_t)kind; }
void w19_ghost(int idx, int cls_kid, int cls_clone, int cls_subst, int subst_mode)
{
    g_class[idx] = cls_kid; g_class[NPOOL + idx] = cls_clone; g_class[2 * NPOOL + idx] = cls_subst; g_subst_mode[idx] = subst_mode;
}
/* root t: an arbitrary node over the children kid[t*4 ..] */
void w19_build(int t, int kind, int vtag, int ival, int sval, double dval, long long sival, int sym, int type, int nsub, int pos)
{
    expression_t::expression_data* d = new expression_t::expression_data(position_t(pos), (kind_t)kind, 0);
    set_value(d, vtag, ival, sval, dval, sival);
    d->symbol = symbol_t(sym);
    d->type = type_t(type);
    for (int i = 0; i < nsub && i < NKID; i++) {
        expression_t c;
        c.data = kid[t * NKID + i];
        d->sub.push_back(c);
    }
    root[t].data = d;
}
void w19_alias(int t, int u) { root[t] = root[u]; }
void w19_empty(int t) { root[t] = expression_t(); }
/* share child i of tree t with child j of tree u (same node in both) */
void w19_share_child(int t, int i, int u, int j) { root[t].data->sub[i] = root[u].data->sub[j]; }

void w19_clone(int t, int slot) { result[slot] = root[t].clone(); }
void w19_clone_deeper(int t, int slot) { result[slot] = root[t].clone_deeper(); }
void w19_clone_deeper_sym(int t, int slot, int from, int to)
{
    g_from = symbol_t(from); g_to = symbol_t(to);
    result[slot] = root[t].clone_deeper(g_from, g_to);
}
void w19_clone_deeper_frame(int t, int slot, int frame, int select)
{
    g_frame = frame_t(frame); g_select = frame_t(select);
    result[slot] = root[t].clone_deeper(g_frame, g_select);
}
void w19_subst(int t, int slot, int sym)
{
    g_sym = symbol_t(sym);
    result[slot] = root[t].subst(g_sym, the_subst_expr);
}
int w19_equal(int t, int u) { return root[t].equal(root[u]); }
int w19_equal_result(int t, int slot) { return root[t].equal(result[slot]); }
int w19_result_equal(int slot, int t) { return result[slot].equal(root[t]); }
unsigned long w19_get_size(int t) { return root[t].get_size(); }
int w19_calls(int which) { return which == 0 ? g_calls_clone : which == 1 ? g_calls_subst : g_calls_equal; }

/* identity of a node pointer: -1 null, 0..11 kid, 12..23 clone-contract result, 24..35 subst-contract result,
   100+t root t, 200 the substitute expression, 999 any other (fresh) node */
static int ident(const expression_t::expression_data* p)
{
    if (p == nullptr) return -1;
    if (p == the_subst_expr.data) return 200;
    int i = pool_index(p);
    if (i >= 0) return i;
    for (int t = 0; t < NTREE; t++) {
        if (p == root[t].data) return 100 + t;
    }
    if (p == the_subst_expr.data) return 200;
    return 999;
}
/* observations: where 0 = root[t], 1 = result[t] */
int w19_obs(int where, int t, int what, int i)
{
    expression_t::expression_data* d = where == 0 ? root[t].data : result[t].data;
    switch (what) {
    case 0: return ident(d);
    case 1: return (int)d->kind;
    case 2: return d->value.tag;
    case 3: return d->value.i;
    case 4: return (int)d->value.s;
    case 5: return d->symbol.id;
    case 6: return d->type.id;
    case 7: return (int)d->sub.size();
    case 8: return ident(d->sub[i].data);
    case 9: return d->position.v;
    default: return 0;
    }
}
double w19_obs_d(int where, int t) { return (where == 0 ? root[t].data : result[t].data)->value.d; }
long long w19_obs_si(int where, int t) { return (where == 0 ? root[t].data : result[t].data)->value.si; }

/* factories: result[slot] = create_*(...) over the pool children kid[0..] */
void w19_create(int which, int slot, int kind, int n, int ival, double dval, long long sival, int sval, int sym, int type, int pos)
{
    expression_t a, b, c;
    a.data = kid[0]; b.data = kid[1]; c.data = kid[2];
    position_t p(pos);
    type_t ty(type);
    switch (which) {
    case 0: result[slot] = expression_t::create_constant(ival, p); break;
    case 1: result[slot] = expression_t::create_var_index(ival, p); break;
    case 2: result[slot] = expression_t::create_exit(p); break;
    case 3: result[slot] = expression_t::create_double(dval, p); break;
    case 4: result[slot] = expression_t::create_string((StringIndex)sival, p); break;
    case 5: result[slot] = expression_t::create_identifier(symbol_t(sym), p); break;
    case 6: {
        vector<expression_t> v;
        for (int i = 0; i < n && i < NKID; i++) {
            expression_t x;
            x.data = kid[i];
            v.push_back(x);
        }
        result[slot] = expression_t::create_nary((kind_t)kind, v, p, ty);
        break;
    }
    case 7: result[slot] = expression_t::create_unary((kind_t)kind, a, p, ty); break;
    case 8: result[slot] = expression_t::create_binary((kind_t)kind, a, b, p, ty); break;
    case 9: result[slot] = expression_t::create_ternary((kind_t)kind, a, b, c, p, ty); break;
    case 10: result[slot] = expression_t::create_dot(a, ival, p, ty); break;
    case 11: result[slot] = expression_t::create_sync(a, (synchronisation_t)sval, p); break;
    default: result[slot] = expression_t::create_deadlock(p); break;
    }
}
/* the grammar's unary operators go through the REAL ExpressionBuilder::expr_unary */
void w19_expr_unary(int slot, int kind, int pos)
{
    verif_frag0.data = kid[0];
    position = position_t(pos);
    verif_expr_unary((kind_t)kind);
    result[slot] = verif_frag0;
}
unsigned long w19_result_get_size(int slot) { return result[slot].get_size(); }
}
