/* C19 harnesses (mode H).  Oracle = the property statement:
   - a deep clone is structurally equal to e, shares no node with it, and neither is changed by the other;
   - subst replaces exactly the identifier occurrences of the symbol, leaves e unchanged, subst(s, id(s)) is the identity;
   - equal is an equivalence relation and distinguishes trees that differ in any kind, operand order, symbol or constant;
   - get_size() equals the number of accessible children.
   Children are answered by contracts over ghost tables (induction hypothesis); see ex19.cpp. */
#include "kinds.h"
#include "arity_table.h"
#define REACH __CPROVER_assert(0, "reach")
#ifndef NKID
#define NKID 4
#endif
#ifndef NTREE
#define NTREE 3
#endif

void w19_init(void);
void w19_ghost(int idx, int cls_kid, int cls_clone, int cls_subst, int subst_mode);
void w19_kid_kind(int idx, int kind);
void w19_ghost_subst_class(int cls);
void w19_set_subst_identifier(int sym);
void w19_root_identifier(int t, int sym, int pos);
void w19_build(int t, int kind, int vtag, int ival, int sval, double dval, long long sival, int sym, int type, int nsub, int pos);
void w19_alias(int t, int u);
void w19_empty(int t);
void w19_share_child(int t, int i, int u, int j);
void w19_clone(int t, int slot);
void w19_clone_deeper(int t, int slot);
void w19_clone_deeper_sym(int t, int slot, int from, int to);
void w19_clone_deeper_frame(int t, int slot, int frame, int select);
void w19_subst(int t, int slot, int sym);
int w19_equal(int t, int u);
int w19_equal_result(int t, int slot);
int w19_result_equal(int slot, int t);
unsigned long w19_get_size(int t);
int w19_calls(int which);
int w19_obs(int where, int t, int what, int i);
double w19_obs_d(int where, int t);
long long w19_obs_si(int where, int t);
void w19_create(int which, int slot, int kind, int n, int ival, double dval, long long sival, int sval, int sym, int type, int pos);
unsigned long w19_result_get_size(int slot);
void w19_expr_unary(int slot, int kind, int pos);
extern int verif_frameA_has[4], verif_frameA_to[4], verif_frameB_has[4], verif_frameB_to[4];

enum { O_ID = 0, O_KIND, O_TAG, O_IVAL, O_SVAL, O_SYM, O_TYPE, O_NSUB, O_SUB, O_POS };
#define ROOT 0
#define RES 1

struct node { int kind, vtag, ival, sval, sym, type, nsub, pos; double dval; long long sival; };
static struct node any_node(void)
{
    struct node n;
    __CPROVER_assume(VALID_KIND(n.kind) && n.vtag >= 0 && n.vtag <= 3 && n.sval >= 0 && n.sval <= 2 && n.nsub >= 0 && n.nsub <= NKID);
    __CPROVER_assume(n.sym >= -1 && n.sym < 4 && n.dval == n.dval /* not NaN */);
    /* well-formed leaves */
    __CPROVER_assume(!(n.kind == K_IDENTIFIER || n.kind == K_CONSTANT) || n.nsub == 0);
    return n;
}
static void build(int t, struct node n) { w19_build(t, n.kind, n.vtag, n.ival, n.sval, n.dval, n.sival, n.sym, n.type, n.nsub, n.pos); }
static int value_equal(struct node a, struct node b)
{
    if (a.vtag != b.vtag) return 0;
    if (a.vtag == 0) return a.ival == b.ival;
    if (a.vtag == 1) return a.sval == b.sval;
    if (a.vtag == 2) return a.dval == b.dval;
    return a.sival == b.sival;
}
/* the fields of node `n` as observed at (where, t) */
static int same_fields(int where, int t, struct node n, int sym)
{
    struct node o;
    o.vtag = w19_obs(where, t, O_TAG, 0); o.ival = w19_obs(where, t, O_IVAL, 0); o.sval = w19_obs(where, t, O_SVAL, 0);
    o.dval = w19_obs_d(where, t); o.sival = w19_obs_si(where, t);
    return w19_obs(where, t, O_KIND, 0) == n.kind && value_equal(o, n) && w19_obs(where, t, O_SYM, 0) == sym &&
           w19_obs(where, t, O_TYPE, 0) == n.type && w19_obs(where, t, O_NSUB, 0) == n.nsub && w19_obs(where, t, O_POS, 0) == n.pos;
}
static int source_unchanged(int t, struct node n)
{
    if (!same_fields(ROOT, t, n, n.sym)) return 0;
    for (int i = 0; i < NKID; i++)
        if (i < n.nsub && w19_obs(ROOT, t, O_SUB, i) != t * NKID + i) return 0;
    return 1;
}
static void any_kid_kinds(void)
{
    for (int i = 0; i < NTREE * NKID; i++) { int k; __CPROVER_assume(VALID_KIND(k)); w19_kid_kind(i, k); }
}
static void ghosts_clone_hypothesis(void)
{
    any_kid_kinds();
    /* induction hypothesis: the clone of a child is equal to the child (same class); subst results arbitrary */
    for (int i = 0; i < NTREE * NKID; i++) {
        int c, s, m;
        __CPROVER_assume(m >= 0 && m <= 2);
        w19_ghost(i, c, c, s, m);
    }
}

void h_c19_clone(void)
{
    w19_init(); ghosts_clone_hypothesis();
    struct node n = any_node(); build(0, n);
    w19_clone(0, 0);
    __CPROVER_assert(w19_obs(RES, 0, O_ID, 0) == 999, "c19.clone.result-is-a-fresh-node");
    __CPROVER_assert(same_fields(RES, 0, n, n.sym), "c19.clone.kind-value-symbol-type-arity-are-copied");
    for (int i = 0; i < NKID; i++)
        if (i < n.nsub) __CPROVER_assert(w19_obs(RES, 0, O_SUB, i) == i, "c19.clone.children-are-the-same-handles-in-order");
    __CPROVER_assert(source_unchanged(0, n), "c19.clone.source-node-unchanged");
    REACH;
}

static void check_deep(struct node n, int want_sym)
{
    __CPROVER_assert(w19_obs(RES, 0, O_ID, 0) == 999, "c19.clone_deeper.result-is-a-fresh-node");
    __CPROVER_assert(same_fields(RES, 0, n, want_sym), "c19.clone_deeper.kind-value-symbol-type-arity-are-copied");
    for (int i = 0; i < NKID; i++)
        if (i < n.nsub) __CPROVER_assert(w19_obs(RES, 0, O_SUB, i) == NTREE * NKID + i, "c19.clone_deeper.child-i-is-the-deep-clone-of-child-i-(no-node-shared)");
    __CPROVER_assert(w19_calls(0) == n.nsub, "c19.clone_deeper.every-child-is-cloned-exactly-once");
    __CPROVER_assert(source_unchanged(0, n), "c19.clone_deeper.source-node-unchanged");
}
void h_c19_clone_deeper(void)
{
    w19_init(); ghosts_clone_hypothesis();
    struct node n = any_node(); build(0, n);
    w19_clone_deeper(0, 0);
    check_deep(n, n.sym);
    __CPROVER_assert(w19_equal_result(0, 0) == 1, "c19.clone_deeper.clone-is-structurally-equal-to-the-source");
    __CPROVER_assert(w19_result_equal(0, 0) == 1, "c19.clone_deeper.source-is-structurally-equal-to-the-clone");
    REACH;
}
void h_c19_clone_deeper_sym(void)
{
    w19_init(); ghosts_clone_hypothesis();
    struct node n = any_node(); build(0, n);
    int from, to;
    __CPROVER_assume(from >= -1 && from < 4 && to >= -1 && to < 4);
    w19_clone_deeper_sym(0, 0, from, to);
    check_deep(n, n.sym == from ? to : n.sym);
    REACH;
}
void h_c19_clone_deeper_frame(void)
{
    w19_init(); ghosts_clone_hypothesis();
    struct node n = any_node(); build(0, n);
    int select;
    __CPROVER_assume(select == 0 || select == 2);
    for (int i = 0; i < 4; i++) {
        int a, b, c, d;
        __CPROVER_assume((a == 0 || a == 1) && (c == 0 || c == 1) && b >= 0 && b < 4 && d >= 0 && d < 4);
        verif_frameA_has[i] = a; verif_frameA_to[i] = b; verif_frameB_has[i] = c; verif_frameB_to[i] = d;
    }
    /* precondition (the real function asserts it): the symbol's name resolves in frame, or else in select */
    __CPROVER_assume(n.sym == -1 || verif_frameA_has[n.sym] || (select == 2 && verif_frameB_has[n.sym]));
    w19_clone_deeper_frame(0, 0, 1, select);
    int want = n.sym == -1 ? -1 : verif_frameA_has[n.sym] ? verif_frameA_to[n.sym] : verif_frameB_to[n.sym];
    check_deep(n, want);
    REACH;
}

static void ghosts_any(void)
{
    any_kid_kinds();
    for (int i = 0; i < NTREE * NKID; i++) {
        int c, d, s, m;
        __CPROVER_assume(m >= 0 && m <= 2);
        w19_ghost(i, c, d, s, m);
    }
    int sc;
    w19_ghost_subst_class(sc);
}
void h_c19_subst(void)
{
    w19_init();
    any_kid_kinds();
    int modes[NKID];
    for (int i = 0; i < NTREE * NKID; i++) {
        int c, d, s, m;
        __CPROVER_assume(m >= 0 && m <= 2);
        w19_ghost(i, c, d, s, m);
        if (i < NKID) modes[i] = m;
    }
    struct node n = any_node();
    int empty, s;
    __CPROVER_assume((empty == 0 || empty == 1) && s >= -1 && s < 4);
    if (empty) w19_empty(0); else build(0, n);
    w19_subst(0, 0, s);
    int id = w19_obs(RES, 0, O_ID, 0);
    if (empty) {
        __CPROVER_assert(id == -1, "c19.subst.empty-expression-stays-empty");
    } else if (n.kind == K_IDENTIFIER && n.sym == s) {
        __CPROVER_assert(id == 200, "c19.subst.identifier-of-the-symbol-is-replaced-by-the-substitute");
    } else if (n.nsub == 0) {
        __CPROVER_assert(id == 100, "c19.subst.other-leaf-is-returned-unchanged");
    } else {
        /* sharing the node is allowed only when no child changes (a copy-on-write implementation is fine) */
        int all_same = 1;
        for (int i = 0; i < NKID; i++) if (i < n.nsub && modes[i] != 0) all_same = 0;
        __CPROVER_assert(id == 999 || (id == 100 && all_same), "c19.subst.inner-node-is-rebuilt-as-a-fresh-node-(or-shared-when-no-child-changes)");
        __CPROVER_assert(same_fields(RES, 0, n, n.sym), "c19.subst.kind-value-symbol-type-arity-are-kept");
        for (int i = 0; i < NKID; i++)
            if (i < n.nsub) {
                int want = modes[i] == 0 ? i : modes[i] == 1 ? 200 : 2 * NTREE * NKID + i;
                __CPROVER_assert(w19_obs(RES, 0, O_SUB, i) == want, "c19.subst.child-i-is-the-substitution-of-child-i-(in-order)");
            }
        __CPROVER_assert(w19_calls(1) >= n.nsub, "c19.subst.every-child-is-substituted");
    }
    if (!empty) __CPROVER_assert(source_unchanged(0, n), "c19.subst.source-expression-unchanged");
    REACH;
}
void h_c19_subst_identity(void)
{
    w19_init();
    int s, sc, base;
    __CPROVER_assume(s >= 0 && s < 4 && (base == 0 || base == 1));
    w19_set_subst_identifier(s);
    w19_ghost_subst_class(sc);
    any_kid_kinds();
    /* induction hypothesis: substituting id(s) for s in a child yields something equal to the child */
    for (int i = 0; i < NTREE * NKID; i++) {
        int c, d, m;
        __CPROVER_assume(m >= 0 && m <= 2);
        if (m == 1) __CPROVER_assume(c == sc);
        w19_ghost(i, c, d, c, m);
    }
    struct node n = any_node();
    if (base) {
        int sym, pos;
        __CPROVER_assume(sym >= -1 && sym < 4);
        w19_root_identifier(0, sym, pos); /* an identifier node as the parser builds it */
    } else {
        build(0, n);
        __CPROVER_assume(n.kind != K_IDENTIFIER);
    }
    w19_subst(0, 0, s);
    __CPROVER_assert(w19_equal_result(0, 0) == 1, "c19.subst.substituting-a-symbol-by-itself-is-the-identity");
    REACH;
}

static int oracle_equal(struct node a, struct node b, const int* clsA, const int* clsB, int shared_mask)
{
    if (a.kind != b.kind || !value_equal(a, b) || a.sym != b.sym || a.nsub != b.nsub) return 0;
    for (int i = 0; i < NKID; i++)
        if (i < a.nsub && !((shared_mask >> i) & 1) && clsA[i] != clsB[i]) return 0;
    return 1;
}
void h_c19_equal_spec(void)
{
    w19_init();
    any_kid_kinds();
    int cls[NTREE * NKID];
    for (int i = 0; i < NTREE * NKID; i++) {
        int c, d, s2, m;
        __CPROVER_assume(m >= 0 && m <= 2);
        w19_ghost(i, c, d, s2, m);
        cls[i] = c;
    }
    struct node a = any_node(), b = any_node();
    build(0, a); build(1, b);
    int alias, share;
    __CPROVER_assume((alias == 0 || alias == 1) && share >= 0 && share < (1 << NKID));
    for (int i = 0; i < NKID; i++)
        if (((share >> i) & 1) && i < a.nsub && i < b.nsub) w19_share_child(1, i, 0, i); else share &= ~(1 << i);
    if (alias) w19_alias(1, 0);
    int r = w19_equal(0, 1);
    if (alias) __CPROVER_assert(r == 1, "c19.equal.same-node-is-equal");
    else __CPROVER_assert(r == oracle_equal(a, b, &cls[0], &cls[NKID], share),
                          "c19.equal.true-iff-kind-value-symbol-arity-agree-and-children-are-pairwise-equal-in-order");
    REACH;
}
void h_c19_equal_equivalence(void)
{
    w19_init(); ghosts_any();
    struct node a = any_node(), b = any_node(), c = any_node();
    build(0, a); build(1, b); build(2, c);
    int ab = w19_equal(0, 1), ba = w19_equal(1, 0), bc = w19_equal(1, 2), ac = w19_equal(0, 2), aa = w19_equal(0, 0);
    __CPROVER_assert(aa == 1, "c19.equal.reflexive");
    __CPROVER_assert(ab == ba, "c19.equal.symmetric");
    __CPROVER_assert(!(ab && bc) || ac, "c19.equal.transitive");
    REACH;
}
void h_c19_equal_total(void)
{
    w19_init(); ghosts_any();
    struct node a = any_node();
    build(0, a);
    w19_empty(1);
    int r = w19_equal(0, 1);
    __CPROVER_assert(r == 0, "c19.equal.an-expression-is-not-equal-to-the-empty-expression");
    int r2 = w19_equal(1, 0);
    __CPROVER_assert(r2 == 0, "c19.equal.the-empty-expression-is-not-equal-to-an-expression");
    w19_empty(0);
    __CPROVER_assert(w19_equal(0, 1) == 1, "c19.equal.two-empty-expressions-are-equal");
    REACH;
}

void h_c19_factories(void)
{
    w19_init(); ghosts_any();
    int which, kind, n, ival, sval, sym, type, pos; double dval; long long sival;
    __CPROVER_assume(which >= 0 && which <= 12 && VALID_KIND(kind) && n >= 0 && n <= NKID && sval >= 0 && sval <= 2 && sym >= -1 && sym < 4 && dval == dval);
    w19_create(which, 0, kind, n, ival, dval, sival, sval, sym, type, pos);
    __CPROVER_assert(w19_obs(RES, 0, O_ID, 0) == 999, "c19.create.result-is-a-fresh-node");
    __CPROVER_assert(w19_obs(RES, 0, O_POS, 0) == pos, "c19.create.position-is-recorded");
    int k = w19_obs(RES, 0, O_KIND, 0), tag = w19_obs(RES, 0, O_TAG, 0), ns = w19_obs(RES, 0, O_NSUB, 0), ty = w19_obs(RES, 0, O_TYPE, 0);
    int want_kind = which == 0 ? K_CONSTANT : which == 1 ? K_VAR_INDEX : which == 2 ? K_EXIT : which == 3 ? K_CONSTANT : which == 4 ? K_CONSTANT :
                    which == 5 ? K_IDENTIFIER : which == 10 ? K_DOT : which == 11 ? K_SYNC : which == 12 ? K_DEADLOCK : kind;
    int want_n = which <= 5 ? 0 : which == 6 ? n : which == 7 ? 1 : which == 8 ? 2 : which == 9 ? 3 : which == 12 ? 0 : 1;
    __CPROVER_assert(k == want_kind, "c19.create.kind");
    __CPROVER_assert(ns == want_n, "c19.create.number-of-children");
    for (int i = 0; i < NKID; i++)
        if (i < want_n) __CPROVER_assert(w19_obs(RES, 0, O_SUB, i) == i, "c19.create.children-are-the-operands-in-order");
    if (which == 0 || which == 1 || which == 10) __CPROVER_assert(tag == 0 && w19_obs(RES, 0, O_IVAL, 0) == ival, "c19.create.integer-value");
    if (which == 3) __CPROVER_assert(tag == 2 && w19_obs_d(RES, 0) == dval, "c19.create.double-value");
    if (which == 4) __CPROVER_assert(tag == 3 && w19_obs_si(RES, 0) == sival, "c19.create.string-value");
    if (which == 11) __CPROVER_assert(tag == 1 && w19_obs(RES, 0, O_SVAL, 0) == sval, "c19.create.sync-value");
    if (which == 6) __CPROVER_assert(tag == 0 && w19_obs(RES, 0, O_IVAL, 0) == n, "c19.create_nary.value-is-the-number-of-children");
    if (which == 5) {
        __CPROVER_assert(w19_obs(RES, 0, O_SYM, 0) == sym, "c19.create_identifier.symbol");
        __CPROVER_assert(ty == (sym == -1 ? 0 : 2000 + sym), "c19.create_identifier.type-is-the-symbol's-type");
    }
    if (which >= 6 && which <= 10) __CPROVER_assert(ty == type, "c19.create.type");
    if (which == 0 || which == 1) __CPROVER_assert(ty == 1000 + K_INT, "c19.create.constant-is-int");
    if (which == 3) __CPROVER_assert(ty == 1000 + K_DOUBLE, "c19.create.double-is-double");
    if (which == 4) __CPROVER_assert(ty == 1000 + K_STRING, "c19.create.string-is-string");
    REACH;
}

void h_c19_get_size_grammar(void)
{
    w19_init(); ghosts_any();
    int which, idx, n, type, pos;
    __CPROVER_assume(which >= 6 && which <= 9 && n >= 0 && n <= NKID);
    int kind;
    if (which == 7) { __CPROVER_assume(idx >= 0 && idx < N_UNARY); kind = KINDS_UNARY[idx]; }
    else if (which == 8) { __CPROVER_assume(idx >= 0 && idx < N_BINARY); kind = KINDS_BINARY[idx]; }
    else if (which == 9) { __CPROVER_assume(idx >= 0 && idx < N_TERNARY); kind = KINDS_TERNARY[idx]; }
    else { __CPROVER_assume(idx >= 0 && idx < N_NARY); kind = KINDS_NARY[idx]; }
    if (which == 7) w19_expr_unary(0, kind, pos); /* through the REAL ExpressionBuilder::expr_unary (unary plus builds no node) */
    else w19_create(which, 0, kind, n, 0, 0.0, 0, 0, 0, type, pos);
    if (which == 7 && w19_obs(RES, 0, O_ID, 0) != 999) {
        __CPROVER_assert(kind == K_PLUS && w19_obs(RES, 0, O_ID, 0) == 0, "c19.expr_unary.only-unary-plus-leaves-the-operand-as-it-is");
        return;
    }
    unsigned long sz = w19_result_get_size(0); /* the asserts inside get_size are obligations here */
    __CPROVER_assert(sz == (unsigned long)w19_obs(RES, 0, O_NSUB, 0), "c19.get_size.equals-the-number-of-children-for-every-node-the-grammar-builds");
    REACH;
}
#define IS_NARY_KIND(k) ((k) == K_FUN_CALL || (k) == K_FUN_CALL_EXT || (k) == K_LIST || (k) == K_SIMULATE || (k) == K_SIMULATEREACH || (k) == K_SPAWN)
void h_c19_get_size_spec(void)
{
    /* this object is compiled with assert(c) := assume(c): "whenever get_size's own checks pass ..." */
    w19_init();
    struct node n = any_node();
    int empty;
    __CPROVER_assume(empty == 0 || empty == 1);
    /* n-ary kinds: value is the child count (postcondition of create_nary, kept by clone / clone_deeper / subst) */
    __CPROVER_assume(!IS_NARY_KIND(n.kind) || (n.vtag == 0 && n.ival == n.nsub));
    if (empty) w19_empty(0); else build(0, n);
    unsigned long sz = w19_get_size(0);
    __CPROVER_assert(sz == (empty ? 0 : (unsigned long)n.nsub), "c19.get_size.never-differs-from-the-number-of-accessible-children");
    REACH;
}
