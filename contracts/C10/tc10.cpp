/* C10: the REAL checkExpression clauses (AND OR XOR NOT LT/LE EQ NEQ GE/GT FORALL EXISTS),
   the REAL type.h predicates and typechecker.cpp helpers, and the REAL guard / invariant
   acceptance gates of visitEdge / visitLocation, over the flat type abstraction.
   *.inc files are generated from /repo on every run (checks/C10.py). */
#define VERIF_TYPE_FLAT
#include "utap_abs.h"

extern "C" {
int verif_err_count, verif_warn_count, verif_last_err, verif_thrown;
}
namespace UTAP {
verif_node verif_nodes[VERIF_NNODES];
verif_sym verif_syms[VERIF_NSYM];
type_t verif_tpool[VERIF_NSID];

struct CompileTimeComputableValues
{
    void add_symbol(symbol_t) {}
};
struct RateDecomposer
{
    expression_t costRate, invariant;
    bool hasStrictInvariant, hasClockRates;
    size_t countCostRates;
    RateDecomposer(): hasStrictInvariant(false), hasClockRates(false), countCostRates(0) {}
    void decompose(expression_t e, bool inforall = false) { invariant = e; }
};
struct Document
{
    void record_stop_watch() {}
    void record_strict_invariant() {}
};
struct edge_t
{
    expression_t guard;
};
struct location_t
{
    expression_t invariant, cost_rate;
};
class TypeChecker
{
public:
    Document document;
    CompileTimeComputableValues compileTimeComputableValues;
    VERIF_HANDLERS
    void checkType(type_t, bool initialisable = false, bool inStruct = false) {} /* not part of C10 */
    bool areEqCompatible(type_t t1, type_t t2) const;
    static bool areEquivalent(type_t, type_t);
    bool checkExpression_clauses(expression_t expr);
    void gate_guard(edge_t& edge);
    void gate_invariant(location_t& loc);
};
/* contracts standing for callees of areEquivalent (rule L12): arbitrary results */
static bool areEquivalent__contract(type_t, type_t) { bool b; return b; }
static bool isSameScalarType__contract(type_t, type_t) { bool b; return b; }
}  // namespace UTAP
using namespace UTAP;
using namespace Constants;

#include "helpers.inc"      /* REAL typechecker.cpp static helper predicates            */
#include "tc_funcs.inc"     /* REAL channelCapability, areEquivalent (L12), areEqCompatible */
#include "mini_ce.inc"      /* REAL clause texts + REAL epilogue of checkExpression      */
#include "gates.inc"        /* REAL acceptance gates                                     */

static type_t mk_type(int k, unsigned w) { type_t t; t.base = (kind_t)k; t.wrap = w; return t; }
static void type_nondet_deep(type_t& t)
{
    type_t d = type_t::verif_any_type();
    kind_t k = t.base; unsigned w = t.wrap;
    t = d; t.base = k; t.wrap = w;
}

#define PREDS(t, P)                                                \
    do {                                                           \
        P[0] = (t).is_integral();                                  \
        P[1] = (t).is_guard();                                     \
        P[2] = (t).is_invariant() || (t).is(INVARIANT_WR);         \
        P[3] = (t).is_formula() || (t).is(INVARIANT_WR);           \
    } while (0)

/* one node of kind `op` over two children of arbitrary (flat) types; runs the real clause */
extern "C" void w_c10_step(int op, int k0, unsigned w0, int k1, unsigned w1, int changes1,
                           int* c0p, int* c1p, int* ret, int* nerr, int* rp, int* rkind, unsigned* rwrap)
{
    verif_err_count = 0;
    verif_tpool_havoc();
    verif_nodes[1].kind = IDENTIFIER; verif_nodes[1].nsub = 0; verif_nodes[1].symbol = symbol_t(0);
    verif_nodes[1].type = mk_type(k0, w0); type_nondet_deep(verif_nodes[1].type);
    verif_nodes[2].kind = IDENTIFIER; verif_nodes[2].nsub = 0; verif_nodes[2].symbol = symbol_t(1);
    verif_nodes[2].type = mk_type(k1, w1); type_nondet_deep(verif_nodes[2].type);
    verif_nodes[2].g_changes = changes1 != 0;
    verif_nodes[0].kind = (kind_t)op;
    verif_nodes[0].nsub = (op == NOT) ? 1 : 2;
    verif_nodes[0].sub[0] = 1; verif_nodes[0].sub[1] = 2;
    verif_nodes[0].type = type_t();
    PREDS(verif_nodes[1].type, c0p);
    PREDS(verif_nodes[2].type, c1p);
    TypeChecker tc;
    *ret = tc.checkExpression_clauses(expression_t(0));
    *nerr = verif_err_count;
    type_t r = verif_nodes[0].type;
    PREDS(r, rp);
    *rkind = r.base; *rwrap = r.wrap;
}

extern "C" void w_c10_gate_guard(int k, unsigned w, int changes, int* is_guard_, int* nerr)
{
    verif_err_count = 0;
    verif_nodes[0].kind = AND; verif_nodes[0].nsub = 0;
    verif_nodes[0].type = mk_type(k, w); verif_nodes[0].g_changes = changes != 0;
    edge_t edge; edge.guard = expression_t(0);
    *is_guard_ = verif_nodes[0].type.is_guard();
    TypeChecker tc;
    tc.gate_guard(edge);
    *nerr = verif_err_count;
}
extern "C" void w_c10_gate_invariant(int k, unsigned w, int changes, int* is_invwr, int* nerr)
{
    verif_err_count = 0;
    verif_nodes[0].kind = AND; verif_nodes[0].nsub = 0;
    verif_nodes[0].type = mk_type(k, w); verif_nodes[0].g_changes = changes != 0;
    location_t loc; loc.invariant = expression_t(0);
    *is_invwr = verif_nodes[0].type.is_invariant() || verif_nodes[0].type.is(INVARIANT_WR);
    TypeChecker tc;
    tc.gate_invariant(loc);
    *nerr = verif_err_count;
}
