/* C10 harnesses (mode H): contract = assume(requires); call; assert(ensures_i).
   Oracle (from the property statement): the syntactic predicate ok(e) -- clock comparisons
   occur only under &&, forall, or || with a clock-free side.  Ghosts per operand:
   cf (no clock occurs), cc (contains a clock comparison), ok.                            */
#include "kinds.h"
#define REACH __CPROVER_assert(0, "reach")

void w_c10_step(int op, int k0, unsigned w0, int k1, unsigned w1, int changes1,
                int* c0p, int* c1p, int* ret, int* nerr, int* rp, int* rkind, unsigned* rwrap);
void w_c10_gate_guard(int k, unsigned w, int changes, int* is_guard_, int* nerr);
void w_c10_gate_invariant(int k, unsigned w, int changes, int* is_invwr, int* nerr);

/* p[0]=is_integral p[1]=is_guard p[2]=isInvariantWR p[3]=formula-typed (as computed by the
   REAL predicates inside the wrapper) */
#define INV(p, cf, cc, ok) ((!p[0] || cf) && (!(p[1] || p[2]) || ok) && (!cf || ok) && (!cf || !cc) && (p[3] || !cc))

static _Bool is_rel(int op) { return op == K_LT || op == K_LE || op == K_EQ || op == K_NEQ || op == K_GE || op == K_GT; }

/* in-scope operand of a relational operator: an integral term/formula, a formula, or a
   term of kind clock / clock difference / double / rate. */
static _Bool term_in_scope(int k, const int* p) { return p[0] || p[3] || k == K_CLOCK || k == K_DIFF || k == K_DOUBLE || k == K_RATE; }

/* Input class of known finding C10-KF1 (known_findings.json): comparisons that involve
   clocks but fall outside the shapes the clauses recognise, and are therefore typed as
   plain booleans.  With -DEXCLUDE_KF the class is excluded and every obligation must be
   discharged; without it the same harness is expected to fail only inside the class. */
#define CLK(k) ((k) == K_CLOCK || (k) == K_DIFF || (k) == K_RATE)
#define NONINT_INTEGRAL(k) ((k) == K_BOOL || (k) == K_LOCATION || (k) == K_LOCATION_EXPR || (k) == K_PROCESS_VAR)
#define KF1_CLASS ((k0 == K_DIFF && (k1 == K_DIFF || k1 == K_CLOCK)) || (k0 == K_CLOCK && k1 == K_DIFF) || \
                   (CLK(k0) && NONINT_INTEGRAL(k1)) || (NONINT_INTEGRAL(k0) && CLK(k1)) ||                    \
                   (k0 == K_DOUBLE && !cf0) || (k1 == K_DOUBLE && !cf1) ||                                      \
                   ((op == K_GE || op == K_GT) && ((k0 == K_DIFF && k1 == K_DOUBLE) || (k0 == K_DOUBLE && k1 == K_DIFF))) || \
                   (op == K_NEQ && ((CLK(k0) && k1 == K_DOUBLE) || (k0 == K_DOUBLE && CLK(k1)))))

static void step(int op)
{
    int k0, k1, ch1;
    unsigned w0, w1;
    _Bool cf0, cc0, ok0, cf1, cc1, ok1;
    int c0p[4], c1p[4], rp[4], ret, nerr, rkind;
    unsigned rwrap;
    __CPROVER_assume(VALID_BASE(k0) && VALID_BASE(k1) && w0 <= 511 && w1 <= 511);
    w_c10_step(op, k0, w0, k1, w1, ch1, c0p, c1p, &ret, &nerr, rp, &rkind, &rwrap);
    _Bool quant = (op == K_FORALL || op == K_EXISTS);
    /* induction hypothesis on the operands */
    if (!quant) __CPROVER_assume(INV(c0p, cf0, cc0, ok0));
    if (op != K_NOT) __CPROVER_assume(INV(c1p, cf1, cc1, ok1));
    _Bool cf, cc, ok;
    if (is_rel(op)) {
        __CPROVER_assume(term_in_scope(k0, c0p) && term_in_scope(k1, c1p));
        /* a clock-typed or difference-typed term is not clock-free */
        __CPROVER_assume(!((k0 == K_CLOCK || k0 == K_DIFF || k0 == K_RATE) && cf0));
        __CPROVER_assume(!((k1 == K_CLOCK || k1 == K_DIFF || k1 == K_RATE) && cf1));
#ifdef EXCLUDE_KF
        __CPROVER_assume(!KF1_CLASS);
#endif
        cf = cf0 && cf1;
        cc = !cf;
        ok = cf || (!cc0 && !cc1 && op != K_NEQ);
    } else if (op == K_AND) { cf = cf0 && cf1; cc = cc0 || cc1; ok = ok0 && ok1; }
    else if (op == K_OR) { cf = cf0 && cf1; cc = cc0 || cc1; ok = ok0 && ok1 && (cf0 || cf1); }
    else if (op == K_XOR) { cf = cf0 && cf1; cc = cc0 || cc1; ok = cf0 && cf1; }
    else if (op == K_NOT) { cf = cf0; cc = cc0; ok = cf0; }
    else if (op == K_FORALL) { cf = cf1; cc = cc1; ok = ok1; }
    else { cf = cf1; cc = cc1; ok = cf1; } /* EXISTS */
    __CPROVER_assert(ret || nerr > 0, "c10.step.reject-records-error");
    if (ret && nerr == 0) {
        __CPROVER_assert(!rp[0] || cf, "c10.step.integral-type-implies-clock-free");
        __CPROVER_assert(!(rp[1] || rp[2]) || ok, "c10.step.guard-or-invariant-type-implies-convex");
        __CPROVER_assert(rp[3] || rp[0], "c10.step.result-is-formula-typed");
    }
    REACH;
}
#define STEP(OP) void h_c10_step_##OP(void) { step(K_##OP); }
STEP(AND) STEP(OR) STEP(XOR) STEP(NOT) STEP(LT) STEP(LE) STEP(EQ) STEP(NEQ) STEP(GE) STEP(GT) STEP(FORALL) STEP(EXISTS)

/* atoms: clock or clock difference against an integer / clock against clock, both orders:
   never integral; a guard exactly for < <= == >= >; != is never a guard */
static void atom(int op)
{
    int k0, k1, ch1; unsigned w0, w1;
    int c0p[4], c1p[4], rp[4], ret, nerr, rkind; unsigned rwrap;
    __CPROVER_assume(w0 <= 511 && w1 <= 511);
    __CPROVER_assume((k0 == K_CLOCK && (k1 == K_INT || k1 == K_CLOCK)) || (k0 == K_DIFF && k1 == K_INT) ||
                     (k0 == K_INT && (k1 == K_CLOCK || k1 == K_DIFF)));
    w_c10_step(op, k0, w0, k1, w1, ch1, c0p, c1p, &ret, &nerr, rp, &rkind, &rwrap);
    __CPROVER_assert(!(ret && nerr == 0) || !rp[0], "c10.atom.never-integral");
    if (op == K_NEQ) __CPROVER_assert(!(ret && nerr == 0) || !(rp[1] || rp[2]), "c10.atom.neq-is-never-a-guard-or-invariant");
    else __CPROVER_assert(ret && nerr == 0 && rp[1], "c10.atom.accepted-as-guard");
    REACH;
}
#define ATOM(OP) void h_c10_atom_##OP(void) { atom(K_##OP); }
ATOM(LT) ATOM(LE) ATOM(EQ) ATOM(NEQ) ATOM(GE) ATOM(GT)

/* converse: a conjunction of two accepted guards (invariants) is an accepted guard (invariant) */
void h_c10_conj(void)
{
    int k0, k1, ch1; unsigned w0, w1;
    int c0p[4], c1p[4], rp[4], ret, nerr, rkind; unsigned rwrap;
    __CPROVER_assume(VALID_BASE(k0) && VALID_BASE(k1) && w0 <= 511 && w1 <= 511);
    w_c10_step(K_AND, k0, w0, k1, w1, ch1, c0p, c1p, &ret, &nerr, rp, &rkind, &rwrap);
    if (c0p[1] && c1p[1]) __CPROVER_assert(ret && nerr == 0 && rp[1], "c10.conj.guards-give-guard");
    if (c0p[2] && c1p[2]) __CPROVER_assert(ret && nerr == 0 && rp[2], "c10.conj.invariants-give-invariant");
    REACH;
}

void h_c10_gate_guard(void)
{
    int k, ch, g, nerr; unsigned w;
    __CPROVER_assume(VALID_BASE(k) && w <= 511);
    w_c10_gate_guard(k, w, ch, &g, &nerr);
    __CPROVER_assert(g || nerr > 0, "c10.gate.guard.non-guard-type-is-rejected");
    __CPROVER_assert(!(g && !ch) || nerr == 0, "c10.gate.guard.side-effect-free-guard-is-accepted");
    REACH;
}
void h_c10_gate_invariant(void)
{
    int k, ch, g, nerr; unsigned w;
    __CPROVER_assume(VALID_BASE(k) && w <= 511);
    w_c10_gate_invariant(k, w, ch, &g, &nerr);
    __CPROVER_assert(g || nerr > 0, "c10.gate.invariant.non-invariant-type-is-rejected");
    __CPROVER_assert(!(g && !ch) || nerr == 0, "c10.gate.invariant.side-effect-free-invariant-is-accepted");
    REACH;
}
