/* Type-tree lemma harnesses (mode H).  Well-formed type nodes: kinds that type constructors
   produce (the non-prefix kinds listed in type.h's documentation + the prefixes URGENT
   COMMITTED BROADCAST CONSTANT HYBRID SYSTEM_META).                                          */
#include "kinds.h"
#define REACH __CPROVER_assert(0, "reach")
void w_ty_node(int which, int k, int n, int gb0, unsigned gw0, int gm0, int gc0, int gb1, unsigned gw1, int gm1, int gc1, int gm2, int gc2,
               int K, int sub_k, int sub_mutable, int* res, int* res2, int* res_kind);
void w_ty_binder(int site, int k, int n, int gb0, unsigned gw0, int gm0, int gc0, int* is_const, int* is_mut);

#define IS_PREFIX_K(k) ((k) == K_URGENT || (k) == K_COMMITTED || (k) == K_BROADCAST || (k) == K_CONSTANT || (k) == K_HYBRID || (k) == K_SYSTEM_META)
#define CHAIN(k) (IS_PREFIX_K(k) || (k) == K_RANGE || (k) == K_REF || (k) == K_LABEL)
#define NONPREFIX_TYPE_K(k) ((k) == K_FRACTION || (k) == K_UNKNOWN || (k) == K_VOID_TYPE || (k) == K_CLOCK || (k) == K_INT || (k) == K_DOUBLE || (k) == K_BOOL || \
    (k) == K_STRING || (k) == K_SCALAR || (k) == K_LOCATION || (k) == K_LOCATION_EXPR || (k) == K_BRANCHPOINT || (k) == K_CHANNEL || (k) == K_COST ||      \
    (k) == K_INVARIANT || (k) == K_INVARIANT_WR || (k) == K_GUARD || (k) == K_DIFF || (k) == K_CONSTRAINT || (k) == K_FORMULA || (k) == K_ARRAY ||           \
    (k) == K_RECORD || (k) == K_PROCESS || (k) == K_PROCESS_SET || (k) == K_FUNCTION || (k) == K_FUNCTION_EXTERNAL || (k) == K_INSTANCE || (k) == K_RANGE || \
    (k) == K_REF || (k) == K_TYPEDEF || (k) == K_LABEL || (k) == K_RATE || (k) == K_INSTANCE_LINE || (k) == K_MESSAGE || (k) == K_CONDITION ||               \
    (k) == K_UPDATE || (k) == K_LSC_INSTANCE || (k) == K_PROCESS_VAR || (k) == K_DOUBLE_INV_GUARD)
#define TYPE_K(k) (NONPREFIX_TYPE_K(k) || IS_PREFIX_K(k))
#define WRAPBIT(K) ((K) == K_URGENT ? 1 : (K) == K_COMMITTED ? 2 : (K) == K_BROADCAST ? 4 : (K) == K_CONSTANT ? 8 : (K) == K_HYBRID ? 16 : (K) == K_SYSTEM_META ? 32 : \
                    (K) == K_RANGE ? 64 : (K) == K_REF ? 128 : (K) == K_LABEL ? 256 : 0)

struct in { int k, n, gb0, gm0, gc0, gb1, gm1, gc1, gm2, gc2, K, sk, sm; unsigned gw0, gw1; };
static struct in nondet_in(void)
{
    struct in x;
    __CPROVER_assume(TYPE_K(x.k) && x.n >= 0 && x.n <= 3 && VALID_BASE(x.gb0) && VALID_BASE(x.gb1) && x.gw0 <= 511 && x.gw1 <= 511 && VALID_KIND(x.K) && TYPE_K(x.sk));
    __CPROVER_assume((x.gm0 == 0 || x.gm0 == 1) && (x.gc0 == 0 || x.gc0 == 1) && (x.gm1 == 0 || x.gm1 == 1) && (x.gc1 == 0 || x.gc1 == 1) &&
                     (x.gm2 == 0 || x.gm2 == 1) && (x.gc2 == 0 || x.gc2 == 1) && (x.sm == 0 || x.sm == 1));
    /* constructors: prefixes and LABEL/REF have one child, RANGE three, ARRAY two, primitives none */
    __CPROVER_assume(!(IS_PREFIX_K(x.k) || x.k == K_LABEL || x.k == K_REF) || x.n == 1);
    __CPROVER_assume(x.k != K_RANGE || x.n == 3);
    __CPROVER_assume(x.k != K_ARRAY || x.n == 2);
    return x;
}
static void call(int which, struct in x, int* r, int* r2, int* rk)
{
    w_ty_node(which, x.k, x.n, x.gb0, x.gw0, x.gm0, x.gc0, x.gb1, x.gw1, x.gm1, x.gc1, x.gm2, x.gc2, x.K, x.sk, x.sm, r, r2, rk);
}
#define CHILD0_IS(x, K) ((K) == (x).gb0 || (WRAPBIT(K) & (x).gw0) != 0)

/* TYPE-IS: t.is(K) <=> K is t's kind, or t is a prefix / RANGE / REF / LABEL node and its child is(K);
   nothing is looked through below PROCESS_VAR and DOUBLE_INV_GUARD.  Equivalently: the flat abstraction. */
void h_ty_is(void)
{
    struct in x = nondet_in(); int r, r2, rk;
    call(0, x, &r, &r2, &rk);
    _Bool want = (x.k == K_PROCESS_VAR || x.k == K_DOUBLE_INV_GUARD) ? (x.K == x.k) : (x.K == x.k || (CHAIN(x.k) && CHILD0_IS(x, x.K)));
    __CPROVER_assert((r != 0) == want, "type.is.kind-or-looked-through-wrapper");
    /* the flat abstraction of stubs/utap_abs.h: base = child's base, wrap = child's wrap + this wrapper */
    if (CHAIN(x.k)) {
        unsigned fw = x.gw0 | WRAPBIT(x.k);
        _Bool flat = (x.K == x.gb0) || (WRAPBIT(x.K) & fw) != 0;
        __CPROVER_assert((r != 0) == flat, "type.is.agrees-with-the-flat-abstraction(wrapper)");
    } else {
        __CPROVER_assert((r != 0) == (x.K == x.k), "type.is.agrees-with-the-flat-abstraction(base)");
    }
    REACH;
}
void h_ty_is_prefix(void)
{
    struct in x = nondet_in(); int r, r2, rk;
    __CPROVER_assume(x.k != K_PROCESS_VAR && x.k != K_DOUBLE_INV_GUARD); /* special-cased by is() before is_prefix() is consulted */
    call(6, x, &r, &r2, &rk);
    __CPROVER_assert((r != 0) == IS_PREFIX_K(x.k), "type.is_prefix.exactly-the-six-prefix-kinds(among type kinds)");
    REACH;
}
/* IS-MUTABLE / IS-CONSTANT (type.h: "all elements of the type are mutable / constant") */
void h_ty_is_mutable(void)
{
    struct in x = nondet_in(); int r, r2, rk;
    call(1, x, &r, &r2, &rk);
    _Bool fixed = x.k == K_FUNCTION || x.k == K_FUNCTION_EXTERNAL || x.k == K_PROCESS || x.k == K_INSTANCE || x.k == K_LSC_INSTANCE;
    _Bool allm = (x.n < 1 || x.gm0) && (x.n < 2 || x.gm1) && (x.n < 3 || x.gm2);
    _Bool want = !fixed && x.k != K_CONSTANT && (x.k == K_RECORD ? allm : (x.n == 0 || x.gm0));
    __CPROVER_assert((r != 0) == want, "type.is_mutable.no-const-anywhere-on-the-way-to-the-elements");
    REACH;
}
void h_ty_is_constant(void)
{
    struct in x = nondet_in(); int r, r2, rk;
    call(2, x, &r, &r2, &rk);
    _Bool fixed = x.k == K_FUNCTION || x.k == K_FUNCTION_EXTERNAL || x.k == K_PROCESS || x.k == K_INSTANCE || x.k == K_LSC_INSTANCE;
    _Bool allc = (x.n < 1 || x.gc0) && (x.n < 2 || x.gc1) && (x.n < 3 || x.gc2);
    _Bool want = !fixed && (x.k == K_CONSTANT || (x.k == K_RECORD ? allc : (x.n > 0 && x.gc0)));
    __CPROVER_assert((r != 0) == want, "type.is_constant.const-on-the-way-to-every-element");
    REACH;
}
/* lemma: a type that is(CONSTANT) is not mutable (induction step; hypothesis on the child) */
void h_ty_const_not_mutable(void)
{
    struct in x = nondet_in(); int r, r2, rk;
    __CPROVER_assume(!(CHILD0_IS(x, K_CONSTANT)) || !x.gm0); /* induction hypothesis */
    call(3, x, &r, &r2, &rk);
    __CPROVER_assert(!r || !r2, "type.is(CONSTANT)-implies-not-is_mutable");
    REACH;
}
/* constness survives indexing (get_sub()) and field selection (get_sub(i)):
   hypothesis: the child's get_sub result is immutable whenever the child is(CONSTANT) */
static void sub(int which)
{
    struct in x = nondet_in(); int r, r2, rk;
    _Bool root_const = x.k == K_CONSTANT || (CHAIN(x.k) && CHILD0_IS(x, K_CONSTANT));
    if (which == 4) __CPROVER_assume(x.k == K_ARRAY || ((IS_PREFIX_K(x.k) || x.k == K_REF || x.k == K_LABEL) && CHILD0_IS(x, K_ARRAY)));
    else __CPROVER_assume(x.k == K_RECORD || ((IS_PREFIX_K(x.k) || x.k == K_REF || x.k == K_LABEL) && CHILD0_IS(x, K_RECORD)));
    __CPROVER_assume(!(x.k == K_RECORD) || x.n >= 1);
    __CPROVER_assume(!(CHAIN(x.k) && CHILD0_IS(x, K_CONSTANT)) || !x.sm); /* induction hypothesis on child0.get_sub() */
    /* mutability ghost of a leaf follows its kind: a CONSTANT node is immutable */
    __CPROVER_assume(x.sk != K_CONSTANT || !x.sm);
    call(which, x, &r, &r2, &rk);
    __CPROVER_assert(!root_const || !r, "type.get_sub.constness-of-the-container-reaches-the-element");
    if (x.k == K_REF || x.k == K_LABEL) __CPROVER_assert(r2, "type.get_sub.ref-and-label-are-transparent");
    if (IS_PREFIX_K(x.k)) __CPROVER_assert(rk == x.k, "type.get_sub.prefix-is-re-applied-to-the-element");
    REACH;
}
void h_ty_get_sub_array(void) { sub(4); }
void h_ty_get_sub_record(void) { sub(5); }

/* binder sites: the symbol's type is(CONSTANT) and is not mutable, whatever type was written */
static void binder(int site)
{
    struct in x = nondet_in(); int c, m;
    __CPROVER_assume(!(CHILD0_IS(x, K_CONSTANT)) || !x.gm0);
    w_ty_binder(site, x.k, x.n, x.gb0, x.gw0, x.gm0, x.gc0, &c, &m);
    __CPROVER_assert(c, "binder.type-is-constant");
    __CPROVER_assert(!m, "binder.type-is-not-mutable");
    REACH;
}
void h_ty_binder_forall(void) { binder(0); }
void h_ty_binder_iteration(void) { binder(1); }
void h_ty_binder_select(void) { binder(2); }
