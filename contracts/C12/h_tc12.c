/* C12 part 2 harnesses.  Ghost dc(e): "e denotes, indexes or selects into a constant object".
   Oracle (statement): identifiers of a const-carrying type are dc; a[i] and e.f inherit from
   the base; (c ? t : e) is dc if either branch is; (a, b) follows b.  Contracts of the
   recursive calls: ml_i = isModifiableLValue(child i), with the induction hypothesis ml_i => !dc_i. */
#include "kinds.h"
#define REACH __CPROVER_assert(0, "reach")
void w_c12_lvalue(int which, int kind, int nsub, int root_mut, int c0_is_process, int equiv, int ml0, int ml1, int ml2, int lv0, int lv1, int lv2, int ur0, int ur1, int ur2, int ctc1, int* res);
void w_c12_write(int op, int ml_lhs, int lhs_k, unsigned lhs_w, int rhs_k, unsigned rhs_w, int* ret, int* nerr, int* lhs_err);
int w_c12_param(int pk, unsigned pw, int pconst, int ak, unsigned aw, int ml_arg);
void w_c12_call(int pk, unsigned pw, int pconst, int ak, unsigned aw, int ml_arg, int* ret, int* nerr);
void w_c12_instance_arg(int pk, unsigned pw, int pconst, int ak, unsigned aw, int ml_arg, int ur_arg, int ctc_arg, int* nerr);

#define IS_ASSIGN_KIND(k) ((k) == K_ASSIGN || (k) == K_ASS_PLUS || (k) == K_ASS_MINUS || (k) == K_ASS_DIV || (k) == K_ASS_MOD || (k) == K_ASS_MULT || \
                           (k) == K_ASS_AND || (k) == K_ASS_OR || (k) == K_ASS_XOR || (k) == K_ASS_LSHIFT || (k) == K_ASS_RSHIFT)
#define BOOLV(x) ((x) == 0 || (x) == 1)
#define VW_REF 128

void h_c12_modifiable_lvalue(void)
{
    int kind, nsub, rm, c0p, eq, ml0, ml1, ml2, lv0, lv1, lv2, ur0, ur1, ur2, ctc1, res;
    _Bool dc0, dc1, dc2;
    __CPROVER_assume(VALID_KIND(kind) && nsub >= 0 && nsub <= 3 && BOOLV(rm) && BOOLV(c0p) && BOOLV(eq) && BOOLV(ml0) && BOOLV(ml1) && BOOLV(ml2));
    __CPROVER_assume(BOOLV(lv0) && BOOLV(lv1) && BOOLV(lv2) && BOOLV(ur0) && BOOLV(ur1) && BOOLV(ur2) && BOOLV(ctc1));
    /* well-formed arities */
    __CPROVER_assume(kind != K_INLINE_IF || nsub == 3);
    __CPROVER_assume(!(kind == K_COMMA || kind == K_ARRAY || IS_ASSIGN_KIND(kind)) || nsub == 2);
    __CPROVER_assume(!(kind == K_DOT || kind == K_PRE_INCREMENT || kind == K_PRE_DECREMENT) || nsub == 1);
    __CPROVER_assume(kind != K_IDENTIFIER || nsub == 0);
    /* induction hypothesis */
    __CPROVER_assume((!ml0 || !dc0) && (!ml1 || !dc1) && (!ml2 || !dc2));
    w_c12_lvalue(0, kind, nsub, rm, c0p, eq, ml0, ml1, ml2, lv0, lv1, lv2, ur0, ur1, ur2, ctc1, &res);
    _Bool dc;
    if (kind == K_IDENTIFIER) dc = !rm;                   /* its type is not mutable (lemma: is(CONSTANT) => !is_mutable) */
    else if (kind == K_DOT || kind == K_ARRAY) dc = dc0;
    else if (kind == K_INLINE_IF) dc = dc1 || dc2;
    else if (kind == K_COMMA) dc = dc1;
    else if (IS_ASSIGN_KIND(kind) || kind == K_PRE_INCREMENT || kind == K_PRE_DECREMENT) {
        /* the node itself passed its own write clause: its target was a modifiable lvalue */
        __CPROVER_assume(ml0);
        dc = dc0;
    } else dc = 0; /* not an lvalue at all: the function must say false */
    __CPROVER_assert(!res || !dc, "c12.isModifiableLValue.never-true-for-an-expression-denoting-a-constant");
    if (!(kind == K_IDENTIFIER || kind == K_DOT || kind == K_ARRAY || kind == K_INLINE_IF || kind == K_COMMA || IS_ASSIGN_KIND(kind) ||
          kind == K_PRE_INCREMENT || kind == K_PRE_DECREMENT))
        __CPROVER_assert(!res, "c12.isModifiableLValue.false-for-non-lvalue-kinds");
    /* converse: the same forms over mutable objects are modifiable */
    if (kind == K_IDENTIFIER && rm) __CPROVER_assert(res, "c12.isModifiableLValue.mutable-identifier-is-modifiable");
    if (kind == K_ARRAY && ml0) __CPROVER_assert(res, "c12.isModifiableLValue.element-of-modifiable-array-is-modifiable");
    if (kind == K_DOT && ml0 && !c0p) __CPROVER_assert(res, "c12.isModifiableLValue.field-of-modifiable-record-is-modifiable");
    REACH;
}
/* every write form with a constant-denoting target records an error; with a modifiable integer target it is accepted */
static void write(int op)
{
    int ml, lk, rk, ret, nerr, lerr; unsigned lw, rw; _Bool dc;
    __CPROVER_assume(BOOLV(ml) && VALID_BASE(lk) && VALID_BASE(rk) && lw <= 511 && rw <= 511);
    __CPROVER_assume(!ml || !dc);
    w_c12_write(op, ml, lk, lw, rk, rw, &ret, &nerr, &lerr);
    __CPROVER_assert(!dc || nerr > 0, "c12.write.target-denoting-a-constant-is-rejected");
    if (op != K_ASSIGN && ml && lk == K_INT && rk == K_INT)
        __CPROVER_assert(nerr == 0 && ret, "c12.write.same-operation-on-a-mutable-integer-is-accepted");
    REACH;
}
#define WRITE(OP) void h_c12_write_##OP(void) { write(K_##OP); }
WRITE(ASSIGN) WRITE(ASS_PLUS) WRITE(ASS_MINUS) WRITE(ASS_DIV) WRITE(ASS_MOD) WRITE(ASS_MULT) WRITE(ASS_AND) WRITE(ASS_OR) WRITE(ASS_XOR)
WRITE(ASS_LSHIFT) WRITE(ASS_RSHIFT) WRITE(POST_INCREMENT) WRITE(PRE_INCREMENT) WRITE(POST_DECREMENT) WRITE(PRE_DECREMENT)

void h_c12_param(void)
{
    int pk, pc, ak, ml; unsigned pw, aw; _Bool dc;
    __CPROVER_assume(VALID_BASE(pk) && VALID_BASE(ak) && pw <= 511 && aw <= 511 && BOOLV(pc) && BOOLV(ml) && (!ml || !dc));
    int r = w_c12_param(pk, pw, pc, ak, aw, ml);
    __CPROVER_assert(!((pw & VW_REF) && !pc && dc) || !r, "c12.param.constant-object-is-not-compatible-with-a-non-const-reference-parameter");
    REACH;
}
void h_c12_call(void)
{
    int pk, pc, ak, ml, ret, nerr; unsigned pw, aw; _Bool dc;
    __CPROVER_assume(VALID_BASE(pk) && VALID_BASE(ak) && pw <= 511 && aw <= 511 && BOOLV(pc) && BOOLV(ml) && (!ml || !dc));
    w_c12_call(pk, pw, pc, ak, aw, ml, &ret, &nerr);
    __CPROVER_assert(!((pw & VW_REF) && !pc && dc) || (nerr > 0 && !ret), "c12.call.constant-object-passed-to-non-const-reference-parameter-is-rejected");
    REACH;
}
void h_c12_instance_arg(void)
{
    int pk, pc, ak, ml, ur, ctc, nerr; unsigned pw, aw; _Bool dc;
    __CPROVER_assume(VALID_BASE(pk) && VALID_BASE(ak) && pw <= 511 && aw <= 511 && BOOLV(pc) && BOOLV(ml) && BOOLV(ur) && BOOLV(ctc) && (!ml || !dc));
    w_c12_instance_arg(pk, pw, pc, ak, aw, ml, ur, ctc, &nerr);
    __CPROVER_assert(!((pw & VW_REF) && !pc && dc) || nerr > 0, "c12.instance.constant-object-bound-to-non-const-reference-template-parameter-is-rejected");
    REACH;
}
