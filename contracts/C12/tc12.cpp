/* C12 part 2: the REAL isModifiableLValue / isLValue / isUniqueReference (one level),
   isParameterCompatible / checkParameterCompatible, the REAL write clauses of
   checkExpression (ASSIGN, ASS_PLUS, ASS_* group, ++/-- group, FUN_CALL) and the REAL
   reference-argument rule of visitInstance, in the stub TypeChecker environment. */
#define VERIF_REAL_C12
#include "tc_env.h"
#include "helpers.inc"
#include "lvalue_funcs.inc" /* REAL functions (recursion by contract) */
#include "gates.inc"        /* REAL clauses + the visitInstance argument region */

static void node(int i, int kind, int nsub, int ml, int lv, int ur, int ctc, int mut)
{
    verif_nodes[i].kind = (kind_t)kind; verif_nodes[i].nsub = nsub; verif_nodes[i].type = type_t::verif_any_type();
    verif_nodes[i].type.mut = mut != 0;
    verif_nodes[i].g_a = ml != 0; verif_nodes[i].g_c = lv != 0; verif_nodes[i].g_d = ur != 0; verif_nodes[i].g_f = ctc != 0;
    verif_nodes[i].g_e = true; verif_nodes[i].g_changes = false; verif_nodes[i].symbol = symbol_t(0);
}
/* root node 0 (kind, type mutability, process-typed child0) with children 1..3 carrying ghosts */
extern "C" void w_c12_lvalue(int which, int kind, int nsub, int root_mut, int c0_is_process, int equiv,
                             int ml0, int ml1, int ml2, int lv0, int lv1, int lv2, int ur0, int ur1, int ur2, int ctc1, int* res)
{
    verif_tpool_havoc();
    node(0, kind, nsub, 0, 0, 0, 0, root_mut);
    node(1, IDENTIFIER, 0, ml0, lv0, ur0, 0, 1); node(2, IDENTIFIER, 0, ml1, lv1, ur1, ctc1, 1); node(3, IDENTIFIER, 0, ml2, lv2, ur2, 0, 1);
    verif_nodes[0].sub[0] = 1; verif_nodes[0].sub[1] = 2; verif_nodes[0].sub[2] = 3;
    if (c0_is_process) verif_nodes[1].type.base = PROCESS; else if (verif_nodes[1].type.base == PROCESS) verif_nodes[1].type.base = INT;
    TypeChecker tc;
    expression_t e(0);
    *res = which == 0 ? tc.isModifiableLValue(e) : which == 1 ? tc.isLValue(e) : tc.isUniqueReference(e);
}
/* write clause: root kind `op` over lhs (node 1) and rhs (node 2) */
extern "C" void w_c12_write(int op, int ml_lhs, int lhs_k, unsigned lhs_w, int rhs_k, unsigned rhs_w, int* ret, int* nerr, int* lhs_err)
{
    verif_err_count = 0; verif_last_err = 0;
    verif_tpool_havoc();
    node(0, op, (op == POST_INCREMENT || op == PRE_INCREMENT || op == POST_DECREMENT || op == PRE_DECREMENT) ? 1 : 2, 0, 0, 0, 0, 1);
    node(1, IDENTIFIER, 0, ml_lhs, 1, 1, 0, 1); node(2, IDENTIFIER, 0, 0, 0, 0, 0, 1);
    verif_nodes[1].type.base = (kind_t)lhs_k; verif_nodes[1].type.wrap = lhs_w;
    verif_nodes[2].type.base = (kind_t)rhs_k; verif_nodes[2].type.wrap = rhs_w;
    verif_nodes[0].sub[0] = 1; verif_nodes[0].sub[1] = 2;
    TypeChecker tc;
    *ret = tc.checkExpression_clauses(expression_t(0));
    *nerr = verif_err_count; *lhs_err = MSG_IS_LHS_EXPECTED(verif_last_err);
}
/* isParameterCompatible(paramType, arg): param (kind, wrappers, constant), argument ghost ml */
extern "C" int w_c12_param(int pk, unsigned pw, int pconst, int ak, unsigned aw, int ml_arg)
{
    verif_tpool_havoc();
    node(1, IDENTIFIER, 0, ml_arg, 1, 1, 0, 1);
    verif_nodes[1].type.base = (kind_t)ak; verif_nodes[1].type.wrap = aw;
    type_t p = type_t::verif_any_type(); p.base = (kind_t)pk; p.wrap = pw; p.konst = pconst != 0;
    TypeChecker tc;
    return tc.isParameterCompatible(p, expression_t(1));
}
/* function call clause: callee (node 1) of function type with one parameter; argument node 2 */
extern "C" void w_c12_call(int pk, unsigned pw, int pconst, int ak, unsigned aw, int ml_arg, int* ret, int* nerr)
{
    verif_err_count = 0;
    verif_tpool_havoc();
    node(0, FUN_CALL, 2, 0, 0, 0, 0, 1); node(1, IDENTIFIER, 0, 0, 0, 0, 0, 1); node(2, IDENTIFIER, 0, ml_arg, 1, 1, 0, 1);
    verif_nodes[0].sub[0] = 1; verif_nodes[0].sub[1] = 2;
    verif_nodes[2].type.base = (kind_t)ak; verif_nodes[2].type.wrap = aw;
    verif_nodes[1].type.base = FUNCTION; verif_nodes[1].type.wrap = 0; verif_nodes[1].type.nchild = 2;
    verif_nodes[1].type.sid0 = 0; verif_nodes[1].type.sid1 = 1;
    verif_tpool[1].base = (kind_t)pk; verif_tpool[1].wrap = pw; verif_tpool[1].konst = pconst != 0;
    TypeChecker tc;
    *ret = tc.checkExpression_clauses(expression_t(0));
    *nerr = verif_err_count;
}
/* template instantiation argument rule (visitInstance) */
extern "C" void w_c12_instance_arg(int pk, unsigned pw, int pconst, int ak, unsigned aw, int ml_arg, int ur_arg, int ctc_arg, int* nerr)
{
    verif_err_count = 0;
    verif_tpool_havoc();
    node(1, IDENTIFIER, 0, ml_arg, 1, ur_arg, ctc_arg, 1);
    verif_nodes[1].type.base = (kind_t)ak; verif_nodes[1].type.wrap = aw;
    verif_syms[0].type = type_t::verif_any_type(); verif_syms[0].type.base = (kind_t)pk; verif_syms[0].type.wrap = pw; verif_syms[0].type.konst = pconst != 0;
    TypeChecker tc;
    tc.gate_instance_reference_rule(symbol_t(0), expression_t(1));
    *nerr = verif_err_count;
}
