/* Type-tree lemmas (TYPE-IS, IS-MUTABLE, IS-CONSTANT, constness survives get_sub, binder
   sites): the REAL class type_t (type.h) and the REAL members of src/type.cpp over a raw
   node pointer; recursive self-calls are answered by contracts reading the child's ghost
   summary (rule L12, ghost fields G1). */
#define VERIF_TYPE_TREE
#include "utap_abs.h"

extern "C" {
int verif_err_count, verif_warn_count, verif_last_err, verif_thrown;
}
namespace UTAP {
verif_node verif_nodes[VERIF_NNODES];
verif_sym verif_syms[VERIF_NSYM];
}
using namespace UTAP;
using namespace Constants;
using std::string;
using std::vector;

#include "type_structs.inc" /* REAL: struct child_t, struct type_t::type_data (+ ghost fields G1) */

/* contracts of the recursive members on a child node */
bool type_t::is__contract(kind_t kind) const { return data != nullptr && (kind == data->g_base || (verif_wrap_bit(kind) & data->g_wrap) != 0); }
bool type_t::is_mutable__contract() const { return data != nullptr && data->g_mutable; }
bool type_t::is_constant__contract() const { return data != nullptr && data->g_constant; }
type_t type_t::get_sub__contract() const { type_t t; t.data = data->g_sub; return t; }
type_t type_t::get_sub__contract(uint32_t) const { type_t t; t.data = data->g_sub; return t; }

#include "type_members.inc" /* REAL members of src/type.cpp (lowered; recursion by contract) */
#include "binder_sites.inc" /* REAL `if (!type.is(CONSTANT)) type = type.create_prefix(CONSTANT);` of the three binder sites */

/* a leaf standing for an arbitrary sub-type: only its ghost summary matters */
static type_t leaf(int gb, unsigned gw, int gm, int gc, type_t::type_data* gsub)
{
    type_t t(UNKNOWN, position_t(), 0);
    t.verif_data()->g_base = (kind_t)gb; t.verif_data()->g_wrap = gw;
    t.verif_data()->g_mutable = gm != 0; t.verif_data()->g_constant = gc != 0; t.verif_data()->g_sub = gsub;
    return t;
}
/* root of kind k with n children (<= 3), child i = leaf with ghost (gb_i, gw_i, gm_i, gc_i) */
static type_t root(int k, int n, const int* gb, const unsigned* gw, const int* gm, const int* gc, type_t::type_data* gsub0)
{
    type_t t((kind_t)k, position_t(), (size_t)n);
    for (int i = 0; i < 3; i++)
        if (i < n) t.verif_data()->children[i].child = leaf(gb[i], gw[i], gm[i], gc[i], i == 0 ? gsub0 : (type_t::type_data*)0);
    return t;
}
extern "C" void w_ty_node(int which, int k, int n, int gb0, unsigned gw0, int gm0, int gc0, int gb1, unsigned gw1, int gm1, int gc1, int gm2, int gc2,
                          int K, int sub_k, int sub_mutable, int* res, int* res2, int* res_kind)
{
    int gb[3] = {gb0, gb1, UNKNOWN}; unsigned gw[3] = {gw0, gw1, 0}; int gm[3] = {gm0, gm1, gm2}; int gc[3] = {gc0, gc1, gc2};
    /* what the contract of child0.get_sub() returns: a node of kind sub_k with ghost mutability */
    /* a REAL node: `const int` when immutable, `int` otherwise; its ghost summary says the same */
    type_t sub = sub_mutable ? type_t::create_primitive(INT) : type_t::create_primitive(INT).create_prefix(CONSTANT);
    sub.verif_data()->g_base = INT; sub.verif_data()->g_wrap = sub_mutable ? 0 : VW_CONSTANT;
    sub.verif_data()->g_mutable = sub_mutable != 0; sub.verif_data()->g_constant = !sub_mutable; sub.verif_data()->g_sub = 0;
    type_t t = root(k, n, gb, gw, gm, gc, sub.verif_data());
    *res = 0; *res2 = 0; *res_kind = -1;
    if (which == 0) *res = t.is((kind_t)K);
    else if (which == 1) *res = t.is_mutable();
    else if (which == 2) *res = t.is_constant();
    else if (which == 3) { *res = t.is(CONSTANT); *res2 = t.is_mutable(); }
    else if (which == 4) { type_t s = t.get_sub(); *res = s.is_mutable(); *res_kind = s.get_kind(); *res2 = (s.verif_data() == sub.verif_data()); }
    else if (which == 5) { type_t s = t.get_sub(0); *res = s.is_mutable(); *res_kind = s.get_kind(); *res2 = (s.verif_data() == sub.verif_data()); }
    else if (which == 6) { *res = t.is_prefix(); }
    else if (which == 7) { type_t s = t.strip(); *res_kind = s.get_kind(); }
}
extern "C" void w_ty_binder(int site, int k, int n, int gb0, unsigned gw0, int gm0, int gc0, int* is_const, int* is_mut)
{
    int gb[3] = {gb0, UNKNOWN, UNKNOWN}; unsigned gw[3] = {gw0, 0, 0}; int gm[3] = {gm0, 1, 1}; int gc[3] = {gc0, 0, 0};
    type_t type = root(k, n, gb, gw, gm, gc, 0);
    if (site == 0) verif_binder_expr_forall_begin(type);
    else if (site == 1) verif_binder_iteration_begin(type);
    else verif_binder_addSelectSymbolToFrame(type);
    *is_const = type.is(CONSTANT);
    *is_mut = type.is_mutable();
}
