/* C02 part (ii), bounded: the integer-literal action of src/lexer.l (the `{num}` rule), extracted on every run into
   lex_num_action.inc, executed on every digit string of length <= 12.  The libc functions it may use are replaced by
   precise models (TRUSTED: C standard / glibc behaviour): atoi = (int)strtol, strtol saturates at LONG_MAX and sets
   errno = ERANGE, snprintf("%d") renders the decimal text, strcmp compares bytes. */
#include <stdint.h>
#include <stddef.h>
#define REACH __CPROVER_assert(0, "reach")
enum { T_NAT = 300, T_POS_NEG_MAX, T_ERROR, T_FLOATING };
#define ERANGE 34
static int verif_errno;
#define errno verif_errno
static int yyerror_calls;
static void yyerror(const char* m) { (void)m; yyerror_calls++; }
static void utap_error(const char* m) { (void)m; yyerror_calls++; }
static struct { int number; double floating; } utap_lval;
static const char* utap_text;
#define nullptr 0
#define NULL 0
#define MAXD 13

/* ---- assumed contracts of the C library on decimal text (TRUSTED) -----------------------------------------------
   VAL is the natural number the digit string denotes.  It is not computed (no back end here decides decimal<->binary
   conversion over 12 digits); it is an arbitrary number constrained by the three facts the argument needs:
     (A1) VAL <= INT_MAX      iff  the stripped text has < 10 digits, or 10 digits and is <= "2147483647" lexicographically
     (A2) VAL == 2147483648   iff  the stripped text is "2147483648";   VAL == 0 iff the stripped text is empty
     (A3) the canonical decimal text of a non-negative int n equals the stripped text iff n == VAL
   atoi(p) = (int)strtol(p), strtol(p) = VAL (saturating at LONG_MAX; 12 digits never saturate), snprintf("%d", n)
   writes the canonical text of n.                                                                                   */
static unsigned long VAL;
static const char* STRIPPED; /* first non-zero digit of the token text */
static long verif_strtol(const char* s, char** end, int base)
{
    (void)base; (void)end;
    __CPROVER_assert(s == STRIPPED || s == utap_text, "libc model: conversion is applied to the token text (with or without leading zeros)");
    return (long)VAL;
}
static int verif_atoi(const char* s) { return (int)verif_strtol(s, 0, 10); }
static int verif_strcmp(const char* a, const char* b)
{
    for (int i = 0; i < 16; i++) {
        if (a[i] != b[i]) return (unsigned char)a[i] < (unsigned char)b[i] ? -1 : 1;
        if (a[i] == 0) return 0;
    }
    return 0;
}
static int verif_snprintf_d(char* buf, size_t n, int v)
{
    __CPROVER_assert(n >= 12, "libc model: buffer holds any int");
    if (v >= 0 && (unsigned long)v == VAL && VAL != 0) { /* (A3) the text of VAL is the stripped token text */
        int i = 0;
        for (; i < 13 && STRIPPED[i]; i++) buf[i] = STRIPPED[i];
        buf[i] = 0;
        return i;
    }
    /* any other int: some text that differs from the stripped token text */
    for (int i = 0; i < 12; i++) { char c; buf[i] = c; }
    buf[11] = 0;
    __CPROVER_assume(verif_strcmp(buf, STRIPPED) != 0);
    return 11;
}
#define strtol verif_strtol
#define strtoll verif_strtol
#define atoi verif_atoi
#define atol(s) verif_strtol(s, 0, 10)
#define strcmp verif_strcmp
#define snprintf(buf, n, fmt, v) verif_snprintf_d(buf, n, v)

static int lex_num_action(void)
{
#include "lex_num_action.inc" /* REAL action block of the {num} rule */
    return -1; /* falling off the action = no token: never for this rule */
}

static int lex_le(const char* s, const char* lit)
{
    for (int i = 0; i < 10; i++) { if (s[i] != lit[i]) return s[i] < lit[i]; }
    return 1;
}
void h_c02_lex_num(void)
{
    char text[MAXD + 1];
    int len;
    __CPROVER_assume(len >= 1 && len <= 12);
    for (int i = 0; i < MAXD + 1; i++) {
        if (i < len) __CPROVER_assume(text[i] >= '0' && text[i] <= '9');
        else text[i] = 0;
    }
    int z = 0;
    for (int i = 0; i < MAXD; i++) if (z == i && text[i] == '0') z = i + 1;
    STRIPPED = &text[z];
    int slen = len - z;
    unsigned long any_value; /* VAL is arbitrary up to the facts A1-A3 */
    VAL = any_value;
    int fits = slen < 10 || (slen == 10 && lex_le(STRIPPED, "2147483647"));
    int is_min = slen == 10 && verif_strcmp(STRIPPED, "2147483648") == 0;
    __CPROVER_assume((VAL <= 2147483647UL) == fits);            /* (A1) */
    __CPROVER_assume((VAL == 2147483648UL) == is_min);           /* (A2) */
    __CPROVER_assume((VAL == 0) == (slen == 0));
    __CPROVER_assume(VAL < 1000000000000UL);
    utap_text = text; yyerror_calls = 0; verif_errno = 0;
    int tok = lex_num_action();
    if (fits) {
        if (slen > 0) __CPROVER_assert(0, "reach:non-zero literal within int range");
        __CPROVER_assert(tok == T_NAT && utap_lval.number == (int)VAL && yyerror_calls == 0, "c02.lexer.integer-literal-within-int-range-is-represented-exactly");
    } else if (is_min) {
        __CPROVER_assert(0, "reach:2147483648");
        __CPROVER_assert(tok == T_POS_NEG_MAX && yyerror_calls == 0, "c02.lexer.2147483648-is-the-special-token-for-INT_MIN");
    } else {
        __CPROVER_assert(0, "reach:literal beyond int range");
        __CPROVER_assert(tok == T_ERROR && yyerror_calls >= 1, "c02.lexer.integer-literal-beyond-int-range-is-rejected-with-a-diagnostic-(never-silently-changed)");
    }
    REACH;
}
