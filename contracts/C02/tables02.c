/* C02 part (iii): the grammar's precedence declarations and Expression productions (grammar_tables.h, generated from
   src/parser.y on every run) against the UPPAAL operator table (operator_table.json).  Finite identities. */
#include "grammar_tables.h"
#define REACH __CPROVER_assert(0, "reach")
/* bison: a LATER %left/%right line binds TIGHTER; the operator table counts level 1 as tightest */
void h_c02_tables(void)
{
    int i, j;
    __CPROVER_assume(i >= 0 && i < N_WANT && j >= 0 && j < N_WANT);
    int ti = W_TOK[i], tj = W_TOK[j];
    __CPROVER_assert(G_LEVEL[ti] != 0, "c02.tables.every-binary-operator-of-the-table-has-a-declared-precedence");
    __CPROVER_assert(G_ASSOC[ti] == W_ASSOC[i], "c02.tables.associativity-matches-the-operator-table");
    /* relative order of any two operators */
    __CPROVER_assert(!(W_LEVEL[i] < W_LEVEL[j]) || G_LEVEL[ti] > G_LEVEL[tj], "c02.tables.tighter-in-the-table-means-tighter-in-the-grammar");
    __CPROVER_assert(!(W_LEVEL[i] == W_LEVEL[j]) || G_LEVEL[ti] == G_LEVEL[tj], "c02.tables.same-level-in-the-table-means-same-level-in-the-grammar");
    /* production -> callback kind: some production  Expression TOKEN Expression  builds the prescribed kind */
    int found = 0;
    for (int p = 0; p < N_GPROD; p++)
        if (G_PROD_TOK[p] == ti && G_PROD_KIND[p] == W_KIND[i]) found = 1;
    __CPROVER_assert(found, "c02.tables.the-operator's-production-builds-the-prescribed-node-kind-(aliases-build-the-same-kind)");
    /* and no production of that token builds anything else */
    for (int p = 0; p < N_GPROD; p++)
        __CPROVER_assert(G_PROD_TOK[p] != ti || G_PROD_KIND[p] == W_KIND[i], "c02.tables.no-production-of-the-operator-builds-another-kind");
    /* unary operators bind tighter than every binary operator, assignments looser, inline-if between */
    __CPROVER_assert(G_LEVEL[TOK_UNARY_LEVEL_TOKEN] > G_LEVEL[ti] && G_ASSOC[TOK_UNARY_LEVEL_TOKEN] == 2, "c02.tables.unary-operators-bind-tighter-than-binary-ones-and-are-right-associative");
    __CPROVER_assert(G_LEVEL[TOK_ASSIGN_LEVEL_TOKEN] < G_LEVEL[ti] && G_ASSOC[TOK_ASSIGN_LEVEL_TOKEN] == 2, "c02.tables.assignment-binds-loosest-and-is-right-associative");
    __CPROVER_assert(G_LEVEL[TOK_INLINE_IF_TOKEN] < G_LEVEL[ti] && G_LEVEL[TOK_INLINE_IF_TOKEN] > G_LEVEL[TOK_ASSIGN_LEVEL_TOKEN] && G_ASSOC[TOK_INLINE_IF_TOKEN] == 2,
                     "c02.tables.inline-if-sits-between-assignment-and-the-binary-operators-and-is-right-associative");
    int u, a;
    __CPROVER_assume(u >= 0 && u < N_WUN && a >= 0 && a < N_WAS);
    __CPROVER_assert(WU_PRESENT[u], "c02.tables.unary-operator-token-maps-to-the-prescribed-kind");
    /* the scanner (lexer.l rules and the keyword table of keywords.cpp, read on every run) gives every operator spelling its own token */
    __CPROVER_assert(WUS_OK[u] && WAS_OK[a], "c02.tables.scanner-maps-each-unary/assignment-operator-spelling-to-its-token");
    { int w; __CPROVER_assume(w >= 0 && w < N_WANT); __CPROVER_assert(WS_OK[w], "c02.tables.scanner-maps-each-binary-operator-spelling-to-its-token"); }
    __CPROVER_assert(WA_PRESENT[a], "c02.tables.assignment-operator-token-maps-to-the-prescribed-kind");
    __CPROVER_assert(G_LEVEL[WA_TOK[a]] == G_LEVEL[TOK_ASSIGN_LEVEL_TOKEN], "c02.tables.all-assignment-operators-share-one-level");
    __CPROVER_assert(G_IMPLY_IS_NOT_OR, "c02.tables.imply-is-built-as-(not-a)-or-b");
    /* b ? x : y = 1  is  b ? x : (y = 1): when '=' follows the else-branch bison compares the inline-if PRODUCTION's level
       with the assignment token's level and must shift, i.e. the production sits on the (right-associative) assignment level */
    __CPROVER_assert(G_INLINE_IF_RULE_LEVEL == G_LEVEL[TOK_ASSIGN_LEVEL_TOKEN] && G_ASSIGN_RULE_LEVEL == G_LEVEL[TOK_ASSIGN_LEVEL_TOKEN],
                     "c02.tables.the-else-branch-of-an-inline-if-extends-over-a-following-assignment-(production-level-=-assignment-level)");
    REACH;
}
