/* C02 part (i): the REAL ExpressionBuilder::ExpressionFragments (ExpressionBuilder.hpp) and the REAL expression
   callbacks of src/ExpressionBuilder.cpp (expr_binary with isMITL/toMITLAtom, expr_assignment, expr_unary,
   expr_inline_if, expr_comma, expr_array, the four ++/--, expr_builtin_function1/2/3, expr_nary, expr_ternary,
   expr_nat, expr_true, expr_false, expr_double, expr_deadlock, make_constant) over the REAL node factories of
   src/expression.cpp (as in C19).  Trusted: stubs/expr_tree.h, the class frame below. */
#ifndef VERIF_VEC_CAP
#define VERIF_VEC_CAP 8
#endif
#define VERIF_TYPE_CALL
#include "expr_tree.h"

extern "C" {
int verif_frameA_has[4], verif_frameA_to[4], verif_frameB_has[4], verif_frameB_to[4];
int verif_errors;
}
using namespace UTAP;
using namespace Constants;
using std::vector;

#include "expr_data.inc"
namespace UTAP { inline bool verif_visit2(const verif_variant& a, const verif_variant& b) { return a.tag == b.tag; } }
#include "expr_funcs.inc"
namespace UTAP {
/* contracts of recursive members: not reached by the callbacks */
expression_t expression_t::clone_deeper__contract() const { __CPROVER_assert(0, "unreachable from builder callbacks"); return *this; }
expression_t expression_t::clone_deeper__contract(symbol_t, symbol_t) const { __CPROVER_assert(0, "unreachable from builder callbacks"); return *this; }
expression_t expression_t::clone_deeper__contract(frame_t, frame_t) const { __CPROVER_assert(0, "unreachable from builder callbacks"); return *this; }
expression_t expression_t::subst__contract(symbol_t, expression_t) const { __CPROVER_assert(0, "unreachable from builder callbacks"); return *this; }
bool expression_t::equal__contract(const expression_t&) const { __CPROVER_assert(0, "unreachable from builder callbacks"); return false; }
size_t expression_t::get_size__contract() const { return data == nullptr ? 0 : data->sub.size(); }
const symbol_t expression_t::get_symbol__contract() const { return symbol_t(); }

struct TypeException { int id; };
/* ---- callee types (expr_call_end): identities 5000..5999 are callable; kind and arity are functions of the identity -------
   id % 4: 0 FUNCTION, 1 FUNCTION_EXTERNAL, 2 PROCESS_SET, 3 not callable;  (id / 4) % 5: size() (functions: result + parameters;
   process sets: unbound parameters).  A process type has identity 900000; an array over it one dimension deeper is 10000 less,
   so that the stub's get_sub() (identity + 10000) undoes create_array. */
kind_t type_t::get_kind() const { if (id < 5000 || id >= 6000) return INT; return id % 4 == 0 ? FUNCTION : id % 4 == 1 ? FUNCTION_EXTERNAL : id % 4 == 2 ? PROCESS_SET : INT; }
size_t type_t::size() const { return (id >= 5000 && id < 6000) ? (size_t)((id / 4) % 5) : 0; }
type_t type_t::operator[](uint32_t i) const { return type_t(id + 20000 + (int)i); }
type_t type_t::create_process(const frame_t&) { return type_t(900000); }
type_t type_t::create_array(type_t sub, type_t) { return type_t(sub.id - 10000); }
struct verif_params { symbol_t operator[](size_t i) const { return symbol_t((int)i); } };
struct template_t;
struct instance_t { size_t unbound; verif_params parameters; template_t* templ; };
struct template_t : public instance_t { frame_t frame; };
static template_t g_templ;
static instance_t g_inst;
void* symbol_t::get_data() const { return (void*)&g_inst; }
class ExpressionBuilder
{
public:
#include "fragments_class.inc" /* REAL: class ExpressionFragments */
    ExpressionFragments fragments;
    position_t position;
    void handle_error(const TypeException&) { verif_errors++; }
    expression_t make_constant(int value) const;
    void expr_true();
    void expr_false();
    void expr_double(double);
    void expr_deadlock();
    void expr_nat(int32_t);
    void expr_array();
    void expr_post_increment();
    void expr_pre_increment();
    void expr_post_decrement();
    void expr_pre_decrement();
    void expr_builtin_function1(kind_t);
    void expr_builtin_function2(kind_t);
    void expr_builtin_function3(kind_t);
    void expr_assignment(kind_t);
    void expr_unary(kind_t);
    void expr_binary(kind_t);
    void expr_nary(kind_t, uint32_t num);
    void expr_ternary(kind_t, bool firstMissing);
    void expr_inline_if();
    void expr_comma();
    void expr_call_end(uint32_t n);
};
}  // namespace UTAP
#include "builder_funcs.inc" /* REAL callbacks */

static ExpressionBuilder eb;
#define NOPER 8
static expression_t::expression_data* oper[NOPER]; /* operands pushed by the harness, oper[0] pushed first */

extern "C" {
/* stack of depth d: operands with arbitrary kinds and type identities */
void w02_init(int d, int k0, int k1, int k2, int k3, int k4, int k5, int t0, int t1, int t2, int t3, int t4, int t5, int pos)
{
    int k[6] = {k0, k1, k2, k3, k4, k5}, t[6] = {t0, t1, t2, t3, t4, t5};
    verif_errors = 0;
    eb.position = position_t(pos);
    for (int i = 0; i < 6; i++) {
        oper[i] = new expression_t::expression_data(position_t(), (kind_t)k[i], 0);
        oper[i]->type = type_t(t[i]);
        if (i < d) {
            expression_t e;
            e.data = oper[i];
            eb.fragments.push(e);
        }
    }
}
/* the callee of a process-set lookup is an instance with `unbound` free parameters */
void w02_instance(int unbound) { g_inst.unbound = (size_t)unbound; g_inst.templ = &g_templ; g_templ.templ = &g_templ; }
void w02_call_end(int n) { eb.expr_call_end((uint32_t)n); }
/* the ARRAY chain of a process-set lookup, from the top: level j (0 = outermost): what 0 kind, 1 identity of the index operand
   (child 1), 2 identity of child 0 when it is an operand (else 999), 3 type id */
int w02_chain(int j, int what)
{
    expression_t e = eb.fragments[0];
    for (int k = 0; k < 4; k++) { if (k < j) e = e.data->sub[0]; }
    if (what == 0) return (int)e.data->kind;
    if (what == 3) return e.data->type.id;
    if (what == 1) return e.data->sub.size() == 2 ? ident(e.data->sub[1].data) : -2;
    return e.data->sub.size() >= 1 ? ident(e.data->sub[0].data) : -2;
}
int w02_depth(void) { return (int)eb.fragments.size(); }
static int ident(const expression_t::expression_data* p)
{
    if (p == nullptr) return -1;
    for (int i = 0; i < 6; i++) {
        if (p == oper[i]) return i;
    }
    return 999;
}
/* stack slot `idx` counted from the top (0 = top): what 0 identity (0..5 operand i, 999 new node), 1 kind, 2 nsub,
   3 type id, 4 value tag, 5 int value, 6 position, 10+i identity of child i, 20+i kind of child i, 30+i: identity of grandchild 0 of child i */
int w02_top(int idx, int what)
{
    expression_t e = eb.fragments[idx];
    if (what == 0) return ident(e.data);
    if (what == 1) return (int)e.data->kind;
    if (what == 2) return (int)e.data->sub.size();
    if (what == 3) return e.data->type.id;
    if (what == 4) return e.data->value.tag;
    if (what == 5) return e.data->value.i;
    if (what == 6) return e.data->position.v;
    if (what >= 30) return ident(e.data->sub[what - 30].data->sub[0].data);
    if (what >= 20) return (int)e.data->sub[what - 20].data->kind;
    return ident(e.data->sub[what - 10].data);
}
double w02_top_d(int idx) { return eb.fragments[idx].data->value.d; }
void w02_call(int which, int kind, int num, int flag, int ival, double dval)
{
    switch (which) {
    case 0: eb.expr_binary((kind_t)kind); break;
    case 1: eb.expr_assignment((kind_t)kind); break;
    case 2: eb.expr_unary((kind_t)kind); break;
    case 3: eb.expr_inline_if(); break;
    case 4: eb.expr_comma(); break;
    case 5: eb.expr_array(); break;
    case 6: eb.expr_post_increment(); break;
    case 7: eb.expr_pre_increment(); break;
    case 8: eb.expr_post_decrement(); break;
    case 9: eb.expr_pre_decrement(); break;
    case 10: eb.expr_builtin_function1((kind_t)kind); break;
    case 11: eb.expr_builtin_function2((kind_t)kind); break;
    case 12: eb.expr_builtin_function3((kind_t)kind); break;
    case 13: eb.expr_nary((kind_t)kind, (uint32_t)num); break;
    case 14: eb.expr_ternary((kind_t)kind, flag != 0); break;
    case 15: eb.expr_nat(ival); break;
    case 16: eb.expr_true(); break;
    case 17: eb.expr_false(); break;
    case 18: eb.expr_double(dval); break;
    default: eb.expr_deadlock(); break;
    }
}
}
