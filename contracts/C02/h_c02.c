/* C02 part (i) harness (mode H): every expression callback of the builder pops its operands in source order,
   builds the node kind the operator table prescribes, and leaves the rest of the fragment stack untouched. */
#include "kinds.h"
#define REACH __CPROVER_assert(0, "reach")
void w02_init(int d, int k0, int k1, int k2, int k3, int k4, int k5, int t0, int t1, int t2, int t3, int t4, int t5, int pos);
int w02_depth(void);
int w02_top(int idx, int what);
double w02_top_d(int idx);
void w02_call(int which, int kind, int num, int flag, int ival, double dval);
extern int verif_errors;
enum { T_ID = 0, T_KIND, T_NSUB, T_TYPE, T_TAG, T_IVAL, T_POS };
#define IS_MITL(k) ((k) == K_MITL_FORMULA || (k) == K_MITL_RELEASE || (k) == K_MITL_UNTIL || (k) == K_MITL_CONJ || (k) == K_MITL_DISJ || \
                    (k) == K_MITL_NEXT || (k) == K_MITL_ATOM || (k) == K_MITL_EXISTS || (k) == K_MITL_FORALL)

struct st { int d, k[6], t[6], pos; };
static struct st any_stack(int need)
{
    struct st s;
    __CPROVER_assume(s.d >= need && s.d <= 6);
    for (int i = 0; i < 6; i++) __CPROVER_assume(VALID_KIND(s.k[i]) && s.t[i] >= 0 && s.t[i] < 5000);
    w02_init(s.d, s.k[0], s.k[1], s.k[2], s.k[3], s.k[4], s.k[5], s.t[0], s.t[1], s.t[2], s.t[3], s.t[4], s.t[5], s.pos);
    return s;
}
/* after popping k operands and pushing one node: depth, frame of the rest of the stack */
static void frame(struct st s, int k, const char* unused)
{
    (void)unused;
    __CPROVER_assert(w02_depth() == s.d - k + 1, "c02.callback.stack-depth-is-old-depth-minus-operands-plus-one");
    for (int j = 1; j < 6; j++)
        if (j <= s.d - k) __CPROVER_assert(w02_top(j, T_ID) == s.d - k - j, "c02.callback.fragments-below-the-operands-are-untouched");
}
/* the new node's children are the k popped operands in source order (first pushed = first child) */
static void children_in_order(struct st s, int k)
{
    __CPROVER_assert(w02_top(0, T_ID) == 999, "c02.callback.a-new-node-is-pushed");
    __CPROVER_assert(w02_top(0, T_NSUB) == k, "c02.callback.node-has-one-child-per-operand");
    for (int i = 0; i < 6; i++)
        if (i < k) __CPROVER_assert(w02_top(0, 10 + i) == s.d - k + i, "c02.callback.children-are-the-operands-in-source-order");
    __CPROVER_assert(w02_top(0, T_POS) == s.pos, "c02.callback.node-carries-the-builder's-current-position");
}

/* f(a1, ..., an) / P(a1, ..., an): the callee is the fragment below its n arguments.  A function call is one FUN_CALL /
   FUN_CALL_EXT node whose children are the callee and the arguments in source order; a process-set lookup is the ARRAY
   chain (...((P[a1])[a2])...)[an] - the FIRST argument indexes first - typed one array dimension shallower per argument. */
void w02_instance(int unbound);
void w02_call_end(int n);
int w02_chain(int j, int what);
void h_c02_call_end(void)
{
    int n, ct;
    __CPROVER_assume(n >= 0 && n <= 3 && ct >= 5000 && ct < 5020);
    struct st s;
    __CPROVER_assume(s.d >= n + 1 && s.d <= 6);
    for (int i = 0; i < 6; i++) __CPROVER_assume(VALID_KIND(s.k[i]) && s.t[i] >= 0 && s.t[i] < 5000);
    s.k[s.d - n - 1] = K_IDENTIFIER; s.t[s.d - n - 1] = ct;  /* the callee: an identifier of a callable (or not callable) type */
    w02_init(s.d, s.k[0], s.k[1], s.k[2], s.k[3], s.k[4], s.k[5], s.t[0], s.t[1], s.t[2], s.t[3], s.t[4], s.t[5], s.pos);
    int arity = (ct / 4) % 5, cls = ct % 4;
    w02_instance(arity);
    w02_call_end(n);
    frame(s, n + 1, "");
    if (cls == 0 || cls == 1) {
        children_in_order(s, n + 1);
        __CPROVER_assert(w02_top(0, T_KIND) == (cls == 0 ? K_FUN_CALL : K_FUN_CALL_EXT), "c02.expr_call_end.a-call-of-a-function-is-a-FUN_CALL-(external:-FUN_CALL_EXT)-node");
        __CPROVER_assert(w02_top(0, T_TYPE) == ct + 20000, "c02.expr_call_end.the-call-has-the-function's-result-type");
        __CPROVER_assert(verif_errors == (n + 1 != arity), "c02.expr_call_end.a-wrong-number-of-arguments-is-reported");
        if (n == 3) __CPROVER_assert(0, "reach:function-call-with-three-arguments");
    } else if (cls == 2) {
        __CPROVER_assert(verif_errors == (n != arity), "c02.expr_call_end.a-wrong-number-of-process-arguments-is-reported");
        if (n == arity) {
            for (int j = 0; j < 3; j++) {
                if (j < n) {
                    __CPROVER_assert(w02_chain(j, 0) == K_ARRAY, "c02.expr_call_end.process-set-lookup:one-ARRAY-node-per-argument");
                    __CPROVER_assert(w02_chain(j, 1) == s.d - 1 - j, "c02.expr_call_end.process-set-lookup:the-first-argument-indexes-first-(outermost-node-=-last-argument)");
                    __CPROVER_assert(w02_chain(j, 3) == 900000 - 10000 * j, "c02.expr_call_end.process-set-lookup:each-index-removes-one-array-dimension");
                }
            }
            __CPROVER_assert(w02_chain(n, 0) == K_IDENTIFIER && (n == 0 || w02_chain(n - 1, 2) == s.d - n - 1), "c02.expr_call_end.process-set-lookup:the-innermost-operand-is-the-process-set");
            if (n == 3) __CPROVER_assert(0, "reach:lookup-with-three-arguments");
        }
    } else {
        __CPROVER_assert(verif_errors == 1 && w02_top(0, T_KIND) == K_CONSTANT, "c02.expr_call_end.calling-something-that-is-neither-function-nor-process-set-is-reported");
    }
    REACH;
}
void h_c02_binary(void)
{
    struct st s = any_stack(2);
    int kind; __CPROVER_assume(VALID_KIND(kind));
    int kl = s.k[s.d - 2], kr = s.k[s.d - 1];
    w02_call(0, kind, 0, 0, 0, 0.0);
    frame(s, 2, "");
    if (!IS_MITL(kl) && !IS_MITL(kr)) {
        children_in_order(s, 2);
        __CPROVER_assert(w02_top(0, T_KIND) == kind, "c02.expr_binary.kind-is-the-operator's-kind");
    } else {
        __CPROVER_assert(w02_top(0, T_ID) == 999 && w02_top(0, T_NSUB) == 2, "c02.expr_binary.mitl:binary-node");
        __CPROVER_assert(w02_top(0, T_KIND) == (kind == K_AND ? K_MITL_CONJ : K_MITL_DISJ), "c02.expr_binary.mitl:conjunction-or-disjunction");
        /* each child is the operand itself (already MITL) or its MITL_ATOM wrapper, in source order */
        int c0 = w02_top(0, 10), c1 = w02_top(0, 11);
        __CPROVER_assert(IS_MITL(kl) ? c0 == s.d - 2 : (c0 == 999 && w02_top(0, 20) == K_MITL_ATOM && w02_top(0, 30) == s.d - 2), "c02.expr_binary.mitl:left-operand-stays-left");
        __CPROVER_assert(IS_MITL(kr) ? c1 == s.d - 1 : (c1 == 999 && w02_top(0, 21) == K_MITL_ATOM && w02_top(0, 31) == s.d - 1), "c02.expr_binary.mitl:right-operand-stays-right");
    }
    REACH;
}
void h_c02_assignment(void)
{
    struct st s = any_stack(2);
    int kind; __CPROVER_assume(VALID_KIND(kind));
    w02_call(1, kind, 0, 0, 0, 0.0);
    frame(s, 2, ""); children_in_order(s, 2);
    __CPROVER_assert(w02_top(0, T_KIND) == kind, "c02.expr_assignment.kind-is-the-assignment-operator's-kind");
    __CPROVER_assert(w02_top(0, T_TYPE) == s.t[s.d - 2], "c02.expr_assignment.type-is-the-target's-type");
    REACH;
}
void h_c02_unary(void)
{
    struct st s = any_stack(1);
    int kind; __CPROVER_assume(VALID_KIND(kind));
    w02_call(2, kind, 0, 0, 0, 0.0);
    if (kind == K_PLUS) {
        __CPROVER_assert(w02_depth() == s.d && w02_top(0, T_ID) == s.d - 1, "c02.expr_unary.unary-plus-is-the-identity");
        for (int j = 1; j < 6; j++) if (j < s.d) __CPROVER_assert(w02_top(j, T_ID) == s.d - 1 - j, "c02.callback.fragments-below-the-operands-are-untouched");
    } else {
        frame(s, 1, ""); children_in_order(s, 1);
        __CPROVER_assert(w02_top(0, T_KIND) == (kind == K_MINUS ? K_UNARY_MINUS : kind), "c02.expr_unary.kind-(minus-becomes-unary-minus)");
        __CPROVER_assert(w02_top(0, T_TYPE) == s.t[s.d - 1], "c02.expr_unary.type-is-the-operand's-type");
    }
    REACH;
}
void h_c02_inline_if(void)
{
    struct st s = any_stack(3);
    w02_call(3, 0, 0, 0, 0, 0.0);
    frame(s, 3, ""); children_in_order(s, 3);
    __CPROVER_assert(w02_top(0, T_KIND) == K_INLINE_IF, "c02.expr_inline_if.kind");
    REACH;
}
void h_c02_comma(void)
{
    struct st s = any_stack(2);
    w02_call(4, 0, 0, 0, 0, 0.0);
    frame(s, 2, ""); children_in_order(s, 2);
    __CPROVER_assert(w02_top(0, T_KIND) == K_COMMA && w02_top(0, T_TYPE) == s.t[s.d - 1], "c02.expr_comma.kind-and-type-of-the-last-element");
    REACH;
}
void h_c02_array(void)
{
    struct st s = any_stack(2);
    w02_call(5, 0, 0, 0, 0, 0.0);
    frame(s, 2, ""); children_in_order(s, 2);
    int tv = s.t[s.d - 2];
    __CPROVER_assert(w02_top(0, T_KIND) == K_ARRAY, "c02.expr_array.kind");
    __CPROVER_assert(w02_top(0, T_TYPE) == ((tv >= 3000 && tv < 4000) ? tv + 10000 : 0), "c02.expr_array.type-is-the-element-type-of-an-array-(else-unknown)");
    REACH;
}
static void incdec(int which, int kind, int typed)
{
    struct st s = any_stack(1);
    w02_call(which, 0, 0, 0, 0, 0.0);
    frame(s, 1, ""); children_in_order(s, 1);
    __CPROVER_assert(w02_top(0, T_KIND) == kind, "c02.expr_incdec.kind");
    if (typed) __CPROVER_assert(w02_top(0, T_TYPE) == s.t[s.d - 1], "c02.expr_pre_incdec.type-is-the-operand's-type");
    REACH;
}
void h_c02_post_increment(void) { incdec(6, K_POST_INCREMENT, 0); }
void h_c02_pre_increment(void) { incdec(7, K_PRE_INCREMENT, 1); }
void h_c02_post_decrement(void) { incdec(8, K_POST_DECREMENT, 0); }
void h_c02_pre_decrement(void) { incdec(9, K_PRE_DECREMENT, 1); }
static void builtin(int which, int n)
{
    struct st s = any_stack(n);
    int kind; __CPROVER_assume(VALID_KIND(kind));
    w02_call(which, kind, 0, 0, 0, 0.0);
    frame(s, n, ""); children_in_order(s, n);
    __CPROVER_assert(w02_top(0, T_KIND) == kind, "c02.expr_builtin_function.kind");
    REACH;
}
void h_c02_builtin1(void) { builtin(10, 1); }
void h_c02_builtin2(void) { builtin(11, 2); }
void h_c02_builtin3(void) { builtin(12, 3); }
void h_c02_nary(void)
{
    int num; __CPROVER_assume(num >= 0 && num <= 6);
    struct st s = any_stack(num);
    int kind; __CPROVER_assume(VALID_KIND(kind));
    w02_call(13, kind, num, 0, 0, 0.0);
    frame(s, num, ""); children_in_order(s, num);
    __CPROVER_assert(w02_top(0, T_KIND) == kind, "c02.expr_nary.kind");
    __CPROVER_assert(w02_top(0, T_TAG) == 0 && w02_top(0, T_IVAL) == num, "c02.expr_nary.value-is-the-operand-count");
    REACH;
}
void h_c02_ternary(void)
{
    int missing; __CPROVER_assume(missing == 0 || missing == 1);
    struct st s = any_stack(missing ? 2 : 3);
    int kind; __CPROVER_assume(VALID_KIND(kind));
    w02_call(14, kind, 0, missing, 0, 0.0);
    frame(s, missing ? 2 : 3, "");
    __CPROVER_assert(w02_top(0, T_ID) == 999 && w02_top(0, T_NSUB) == 3 && w02_top(0, T_KIND) == kind, "c02.expr_ternary.kind-and-arity");
    if (missing) {
        __CPROVER_assert(w02_top(0, 10) == 999 && w02_top(0, 20) == K_CONSTANT, "c02.expr_ternary.missing-first-operand-defaults-to-a-constant");
        __CPROVER_assert(w02_top(0, 11) == s.d - 2 && w02_top(0, 12) == s.d - 1, "c02.callback.children-are-the-operands-in-source-order");
    } else {
        children_in_order(s, 3);
    }
    REACH;
}
void h_c02_literals(void)
{
    struct st s = any_stack(0);
    __CPROVER_assume(s.d <= 5);
    int which, ival; double dval;
    __CPROVER_assume(which >= 15 && which <= 19 && dval == dval);
    w02_call(which, 0, 0, 0, ival, dval);
    frame(s, 0, "");
    __CPROVER_assert(w02_top(0, T_ID) == 999 && w02_top(0, T_NSUB) == 0, "c02.literal.a-new-leaf-is-pushed");
    if (which == 15) __CPROVER_assert(w02_top(0, T_KIND) == K_CONSTANT && w02_top(0, T_TAG) == 0 && w02_top(0, T_IVAL) == ival && w02_top(0, T_TYPE) == 1000 + K_INT, "c02.expr_nat.integer-literal-is-represented-exactly");
    if (which == 16) __CPROVER_assert(w02_top(0, T_KIND) == K_CONSTANT && w02_top(0, T_TAG) == 0 && w02_top(0, T_IVAL) == 1 && w02_top(0, T_TYPE) == 1000 + K_BOOL, "c02.expr_true.constant-1-of-type-bool");
    if (which == 17) __CPROVER_assert(w02_top(0, T_KIND) == K_CONSTANT && w02_top(0, T_TAG) == 0 && w02_top(0, T_IVAL) == 0 && w02_top(0, T_TYPE) == 1000 + K_BOOL, "c02.expr_false.constant-0-of-type-bool");
    if (which == 18) __CPROVER_assert(w02_top(0, T_KIND) == K_CONSTANT && w02_top(0, T_TAG) == 2 && w02_top_d(0) == dval && w02_top(0, T_TYPE) == 1000 + K_DOUBLE, "c02.expr_double.floating-literal-is-stored-unchanged");
    if (which == 19) __CPROVER_assert(w02_top(0, T_KIND) == K_DEADLOCK, "c02.expr_deadlock.kind");
    REACH;
}
