/* C08 kernel harness (mode H): the constructors keep the structural invariants clients rely on - each object is the user
   data of its own symbol (also when a duplicate name makes the constructor throw after registering), numbers are dense and
   in source order, an edge has exactly one source and one target of the kind its symbol says, an instance lists its
   unbound parameters first, its type has arity = unbound, and exactly its bound parameters are mapped to the arguments. */
#include "kinds.h"
#define REACH __CPROVER_assert(0, "reach")
#define TCODE_PROCESS_V 3
#define TCODE_PROCESS_SET_V 4
extern int verif_thrown;
void w08_init(int nloc, int nbp, int nedge, int dup_name);
int w08_add_location(int name);
int w08_add_branchpoint(int name);
int w08_loc(int what, int i);
int w08_bp(int what, int i);
int w08_add_edge(int src, int dst, int control, int act);
int w08_edge(int what, int i);
int w08_add_function(int name, int type, int* dup);
int w08_fun(int what, int i);
int w08_add_variable(int which, int name, int type);
int w08_var(int tmpl, int what, int i);
int w08_add_template(int name, int nparams, int is_ta, int dynamic);
int w08_templ(int dynamic, int what, int i);
int w08_param_count(int dynamic, int i);
int w08_add_instance(int name, int nfree, int nargs, int src_arguments, int pre_mapped, int src_kind, int ns);
int w08_inst(int what, int i);
int w08_mapped_count(int i);
int w08_src_mapped_count(void);
int w08_src_keeps(int k);

void h_c08_location(void)
{
    int nloc, nbp, name;
    __CPROVER_assume(nloc >= 0 && nloc <= 2 && nbp >= 0 && nbp <= 1 && name >= 9 && name <= 22);
    w08_init(nloc, nbp, 0, 0);
    int dup = (name == 10 && nloc >= 1) || (name == 11 && nloc >= 2) || (name == 20 && nbp >= 1);
    int k = w08_add_location(name);
    __CPROVER_assert(verif_thrown == dup, "c08.add_location.duplicate-name-is-reported-(by-exception)-and-only-then");
    __CPROVER_assert(w08_loc(0, 0) == nloc + 1 && k == nloc, "c08.add_location.location-is-appended");
    __CPROVER_assert(w08_loc(1, k) == nloc, "c08.add_location.numbers-are-dense-and-in-source-order");
    __CPROVER_assert(w08_loc(3, k), "c08.add_location.the-location-is-the-user-object-of-its-own-symbol-(also-on-the-duplicate-path)");
    __CPROVER_assert(w08_loc(4, k) == name && w08_loc(5, k) == K_LOCATION && w08_loc(6, k), "c08.add_location.symbol-has-the-name,-type-LOCATION-and-lives-in-the-template's-frame");
    for (int i = 0; i < 2; i++) if (i < nloc) __CPROVER_assert(w08_loc(1, i) == i && w08_loc(3, i), "c08.add_location.earlier-locations-keep-number-and-symbol-link");
    REACH;
}
void h_c08_branchpoint(void)
{
    int nloc, nbp, name;
    __CPROVER_assume(nloc >= 0 && nloc <= 2 && nbp >= 0 && nbp <= 1 && name >= 9 && name <= 22);
    w08_init(nloc, nbp, 0, 0);
    int dup = (name == 10 && nloc >= 1) || (name == 11 && nloc >= 2) || (name == 20 && nbp >= 1);
    int k = w08_add_branchpoint(name);
    __CPROVER_assert(verif_thrown == dup, "c08.add_branchpoint.duplicate-name-is-reported-and-only-then");
    __CPROVER_assert(w08_bp(0, 0) == nbp + 1 && k == nbp && w08_bp(1, k) == nbp, "c08.add_branchpoint.appended-with-dense-number");
    __CPROVER_assert(w08_bp(3, k), "c08.add_branchpoint.the-branchpoint-is-the-user-object-of-its-own-symbol");
    __CPROVER_assert(w08_bp(4, k) == name && w08_bp(5, k) == K_BRANCHPOINT && w08_bp(6, k), "c08.add_branchpoint.symbol-name-type-frame");
    REACH;
}
void h_c08_edge(void)
{
    w08_init(2, 1, 0, 0);
    int n, s[3], d[3], c[3], a[3];
    __CPROVER_assume(n >= 1 && n <= 3);
    for (int i = 0; i < 3; i++) __CPROVER_assume(s[i] >= 0 && s[i] <= 2 && d[i] >= 0 && d[i] <= 2 && (c[i] == 0 || c[i] == 1));
    for (int i = 0; i < 3; i++) {
        if (i < n) {
            int k = w08_add_edge(s[i], d[i], c[i], a[i]);
            __CPROVER_assert(k == i, "c08.add_edge.edge-is-appended");
        }
    }
    __CPROVER_assert(w08_edge(0, 0) == n, "c08.add_edge.one-edge-per-call");
    for (int i = 0; i < 3; i++) {
        if (i < n) {
            __CPROVER_assert(w08_edge(1, i) == i, "c08.add_edge.numbers-are-dense-and-in-source-order");
            int src = w08_edge(2, i), srcb = w08_edge(3, i), dst = w08_edge(4, i), dstb = w08_edge(5, i);
            __CPROVER_assert((src == -1) != (srcb == -1) && (dst == -1) != (dstb == -1), "c08.add_edge.exactly-one-source-and-exactly-one-target");
            __CPROVER_assert(s[i] < 2 ? src == s[i] : srcb == 0, "c08.add_edge.source-is-the-object-of-the-source-symbol");
            __CPROVER_assert(d[i] < 2 ? dst == d[i] : dstb == 0, "c08.add_edge.target-is-the-object-of-the-target-symbol");
            __CPROVER_assert(w08_edge(6, i) == c[i] && w08_edge(7, i) == a[i], "c08.add_edge.controllable-flag-and-action-name-recorded");
        }
    }
    REACH;
}
void h_c08_function(void)
{
    w08_init(0, 0, 0, 0);
    int n1, t1, n2, t2, d1, d2;
    __CPROVER_assume(n1 >= 60 && n1 <= 62 && n2 >= 60 && n2 <= 62);
    int k1 = w08_add_function(n1, t1, &d1);
    int k2 = w08_add_function(n2, t2, &d2);
    __CPROVER_assert(k1 == 0 && k2 == 1 && w08_fun(0, 0) == 2, "c08.add_function.functions-are-appended");
    __CPROVER_assert(d1 == 0 && d2 == (n1 == n2), "c08.add_function.duplicate-name-is-reported-and-only-then");
    __CPROVER_assert(w08_fun(3, 0) && w08_fun(3, 1), "c08.add_function.the-function-is-the-user-object-of-its-own-symbol-(stable-address)");
    __CPROVER_assert(w08_fun(4, 1) == n2 && w08_fun(5, 1) == t2, "c08.add_function.symbol-name-and-type");
    REACH;
}
void h_c08_variable(void)
{
    w08_init(0, 0, 0, 0);
    int which, n1, t1, n2, t2;
    __CPROVER_assume(which >= 0 && which <= 2 && n1 >= 60 && n1 <= 62 && n2 >= 60 && n2 <= 62);
    int tm = which == 1;
    int k1 = w08_add_variable(which, n1, t1);
    int thrown1 = verif_thrown;
    int k2 = w08_add_variable(which, n2, t2);
    __CPROVER_assert(thrown1 == 0 && verif_thrown == (n1 == n2), "c08.add_variable.duplicate-name-is-reported-and-only-then");
    __CPROVER_assert(k1 == 0 && k2 == 1 && w08_var(tm, 0, 0) == 2, "c08.add_variable.variables-are-appended");
    __CPROVER_assert(w08_var(tm, 3, 0) && w08_var(tm, 3, 1), "c08.add_variable.the-variable-is-the-user-object-of-its-own-symbol-(also-on-the-duplicate-path)");
    __CPROVER_assert(w08_var(tm, 4, 1) == n2 && w08_var(tm, 5, 1) == t2 && w08_var(tm, 6, 1), "c08.add_variable.symbol-name-type-and-frame-of-the-context");
    if (which != 2) __CPROVER_assert(w08_var(tm, 7, 0), "c08.add_variable.initialiser-recorded");
    REACH;
}
void h_c08_template(void)
{
    w08_init(0, 0, 0, 0);
    int name, np, ta, dyn;
    __CPROVER_assume(name >= 101 && name <= 103 && np >= 0 && np <= 2 && (ta == 0 || ta == 1) && (dyn == 0 || dyn == 1));
    int base = dyn ? 0 : 1; /* w08_init already added one static template */
    int k = w08_add_template(name, np, ta, dyn);
    __CPROVER_assert(k == base && w08_templ(dyn, 0, 0) == base + 1, "c08.add_template.template-is-appended");
    __CPROVER_assert(w08_templ(dyn, 3, k), "c08.add_template.the-template-is-the-user-object-of-its-own-symbol");
    __CPROVER_assert(w08_templ(dyn, 4, k) == name, "c08.add_template.symbol-name");
    __CPROVER_assert(w08_templ(dyn, 6, k) == np && w08_templ(dyn, 7, k) == 0 && w08_param_count(dyn, k) == np, "c08.add_template.all-parameters-are-unbound,-no-arguments");
    __CPROVER_assert(w08_templ(dyn, 11, k) && w08_templ(dyn, 5, k) == ((dyn || ta) ? 1 : 2), "c08.add_template.type-is-an-instance-type-over-its-parameters-(arity-=-unbound)");
    __CPROVER_assert(w08_templ(dyn, 8, k), "c08.add_template.a-template-is-its-own-template");
    __CPROVER_assert(w08_templ(dyn, 9, k) && w08_templ(dyn, 10, k) == np, "c08.add_template.local-frame-is-nested-in-the-global-frame-and-starts-with-the-parameters");
    __CPROVER_assert(w08_templ(dyn, 13, k) == dyn && (!dyn || w08_templ(dyn, 14, k) == k), "c08.add_template.dynamic-flag-and-index");
    REACH;
}
void w08_use_lsc(int on);
int w08_add_process(void);
int w08_proc(int what);
static void instance_body(void);
int w08_builder_process(int what);
/* a template named in the system line counts as instantiated (FeatureChecker and the other analyses look at used templates only),
   whether or not the process still has unbound parameters */
void h_c08_process_marks_template(void)
{
    int np, nfree, nargs, name, pre;
    __CPROVER_assume(np >= 0 && np <= 2 && nfree >= 0 && nfree <= 1 && name >= 70 && name <= 72 && nargs >= 0 && nargs <= np && pre >= 0 && pre < 4);
    w08_use_lsc(0);
    w08_init(0, 0, np, 0);
    w08_add_instance(name, nfree, nargs, 0, pre, 0, 0);
    w08_builder_process(0);
    __CPROVER_assert(w08_builder_process(1) == 1, "c08.process.the-template-of-a-process-named-in-the-system-line-is-marked-as-instantiated");
    __CPROVER_assert(w08_builder_process(2) == 1, "c08.process.the-process-is-added-to-the-document");
    if (nfree == 1) __CPROVER_assert(0, "reach:partial-instance");
    REACH;
}
void h_c08_instance(void) { w08_use_lsc(0); instance_body(); REACH; }
void h_c08_lsc_instance(void) { w08_use_lsc(1); instance_body(); REACH; }
/* a process is a COPY of the instance under a NEW symbol of the same name whose user object is the process itself; its type is
   a process type over the template's frame when no parameter is left unbound, otherwise a process set over the instance's type */
void h_c08_process(void)
{
    int np, nfree, nargs, name, pre;
    __CPROVER_assume(np >= 0 && np <= 2 && nfree >= 0 && nfree <= 1 && name >= 70 && name <= 72 && nargs >= 0 && nargs <= np && pre >= 0 && pre < 4);
    w08_use_lsc(0);
    w08_init(0, 0, np, 0);
    w08_add_instance(name, nfree, nargs, 0, pre, 0, 0);
    int n = w08_add_process();
    __CPROVER_assert(n == 1 && w08_proc(0) == 1, "c08.add_process.one-process-is-appended");
    __CPROVER_assert(w08_proc(1) && w08_proc(2) && w08_proc(3), "c08.add_process.the-process-is-the-user-object-of-its-own-new-symbol,-named-like-the-instance,-in-the-global-frame");
    __CPROVER_assert(w08_proc(4) == (nfree == 0 ? TCODE_PROCESS_V : TCODE_PROCESS_SET_V) && w08_proc(5), "c08.add_process.process-type-over-the-template's-frame,-or-a-process-set-while-parameters-are-unbound");
    __CPROVER_assert(w08_proc(6) && w08_proc(7), "c08.add_process.the-process-carries-the-instance's-parameters,-counts,-template-and-bindings");
    __CPROVER_assert(w08_proc(8), "c08.add_process.the-instance-keeps-its-own-symbol");
    if (nfree == 1) __CPROVER_assert(0, "reach:process-set");
    REACH;
}
static void instance_body(void)
{
    int np, nfree, nargs, name, srcargs, pre, kind, ns;
    __CPROVER_assume(np >= 0 && np <= 2 && nfree >= 0 && nfree <= 1 && name >= 70 && name <= 72);
    /* the instantiated instance is arbitrary: template 0 itself (kind 0, np parameters named 30, 31) or a partial instance of
       it with ns parameters of its own (kind 1, named 80, 81); it may have passed any number of arguments itself and may
       carry inherited bindings for parameters it does not rebind now */
    __CPROVER_assume(srcargs >= 0 && srcargs <= 2 && pre >= 0 && pre < 4 && (kind == 0 || kind == 1) && ns >= 0 && ns <= 2);
    int nsrc = kind == 0 ? np : ns;     /* number of parameters of the instantiated instance */
    int base = kind == 0 ? 30 : 80;
    __CPROVER_assume(nargs >= 0 && nargs <= nsrc);
    w08_init(0, 0, np, 0);
    int k = w08_add_instance(name, nfree, nargs, srcargs, pre, kind, ns);
    __CPROVER_assert(k == 0 && w08_inst(0, 0) == 1, "c08.add_instance.instance-is-appended");
    __CPROVER_assert(w08_inst(3, k) && w08_inst(4, k) == name, "c08.add_instance.the-instance-is-the-user-object-of-its-own-symbol");
    __CPROVER_assert(w08_inst(6, k) == nfree && w08_inst(7, k) == nargs, "c08.add_instance.unbound-and-argument-counts");
    __CPROVER_assert(w08_inst(30, k), "c08.add_instance.type-is-an-instance-type-whose-arity-equals-the-number-of-unbound-parameters");
    __CPROVER_assert(w08_inst(9, k) == nfree + nsrc, "c08.add_instance.parameters-are-the-new-unbound-ones-followed-by-the-instantiated-instance's");
    for (int i = 0; i < 3; i++) {
        if (i < nfree) __CPROVER_assert(w08_inst(10 + i, k) == 40 + i, "c08.add_instance.unbound-parameters-come-first");
        else if (i < nfree + nsrc) __CPROVER_assert(w08_inst(10 + i, k) == base + (i - nfree), "c08.add_instance.then-the-instantiated-instance's-parameters-in-order");
    }
    int inherited = 0;
    for (int i = 0; i < 2; i++) {
        if (i < nsrc) {
            int want = i < nargs ? 1 : ((pre >> i) & 1) ? 3 : 0;
            if (want == 3) inherited++;
            __CPROVER_assert(w08_inst(20 + i, k) == want, "c08.add_instance.newly-bound-parameters-map-to-their-arguments,-inherited-bindings-are-kept,-nothing-else-is-mapped");
        }
    }
    __CPROVER_assert(w08_mapped_count(k) == nargs + inherited, "c08.add_instance.the-mapping-is-exactly-the-inherited-bindings-plus-the-new-ones");
    __CPROVER_assert(w08_inst(8, k), "c08.add_instance.instance-refers-to-the-instantiated-template");
    /* the instantiated instance may be instantiated again (Q1 = P(1); Q2 = P(2);): it keeps its own bindings */
    {
        int kept = 0;
        for (int i = 0; i < 2; i++) if (i < nsrc && ((pre >> i) & 1)) { kept++; __CPROVER_assert(w08_src_keeps(i), "c08.add_instance.the-instantiated-instance-keeps-its-own-bindings"); }
        __CPROVER_assert(w08_src_mapped_count() == kept, "c08.add_instance.the-instantiated-instance-is-left-unchanged");
    }
    if (kind == 1 && nargs > 0) __CPROVER_assert(0, "reach:partial-instance-instantiated-with-arguments");
    if (inherited > 0) __CPROVER_assert(0, "reach:inherited-binding");
}
