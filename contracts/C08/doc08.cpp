/* C08 kernel: the REAL constructors of src/document.cpp - declarations_t::add_function, template_t::add_location /
   add_branchpoint / add_edge, Document::add_variable (3 overloads), add_template, add_dynamic_template, add_instance,
   add_process - over the arena environment (stubs/scope_env.h).  The struct frames below are TRUSTED stand-ins for the
   declarations of include/utap/document.h: same member names, only the members the constructors touch. */
#define VERIF_NFRAMES 12
#define VERIF_NSYMS 12
#define VERIF_FRAME_CAP 6
#include "scope_env.h"
extern "C" {
int verif_frameA_has[4], verif_frameA_to[4], verif_frameB_has[4], verif_frameB_to[4];
int verif_thrown;
}
namespace UTAP {
verif_symrec verif_symtab[VERIF_NSYMS];
int verif_nsyms;
verif_framerec verif_frames[VERIF_NFRAMES];
int verif_nframes;
}
using namespace UTAP;
using namespace Constants;
using std::vector;
#include "expr_data.inc"
namespace UTAP { inline bool verif_visit2(const verif_variant& a, const verif_variant& b) { return a.tag == b.tag; } }
#include "expr_funcs.inc"
namespace UTAP {
expression_t expression_t::clone_deeper__contract() const { return *this; }
expression_t expression_t::clone_deeper__contract(symbol_t, symbol_t) const { return *this; }
expression_t expression_t::clone_deeper__contract(frame_t, frame_t) const { return *this; }
expression_t expression_t::subst__contract(symbol_t, expression_t) const { return *this; }
bool expression_t::equal__contract(const expression_t&) const { return false; }
size_t expression_t::get_size__contract() const { return data == nullptr ? 0 : data->sub.size(); }
const symbol_t expression_t::get_symbol__contract() const { return symbol_t(); }
}

#ifndef VERIF_LIST_CAP
#define VERIF_LIST_CAP 4
#endif
namespace std {
/* std::list / std::deque: node based - every element is its own heap object and never moves (the pointer-stability
   property the real containers are chosen for) */
template <typename T>
class list
{
public:
    T* ptr[VERIF_LIST_CAP];
    size_t n;
    list(): n(0) {}
    T& emplace_back() { __CPROVER_assert(n < VERIF_LIST_CAP, "stub: list capacity"); ptr[n] = new T(); n++; return *ptr[n - 1]; }
    T& emplace_back(const T& v) { __CPROVER_assert(n < VERIF_LIST_CAP, "stub: list capacity"); ptr[n] = new T(v); n++; return *ptr[n - 1]; }
    T& back() { __CPROVER_assert(n > 0, "stub: back() on a non-empty list"); return *ptr[n - 1]; }
    size_t size() const { return n; }
    bool empty() const { return n == 0; }
    T& at(size_t i) { __CPROVER_assert(i < n, "stub: list index"); return *ptr[i]; }
    int index_of(const T* p) const { for (size_t i = 0; i < VERIF_LIST_CAP; i++) { if (i < n && ptr[i] == p) return (int)i; } return -1; }
};
#define deque list
/* std::map<symbol_t, expression_t> */
struct verif_symexpr_map
{
    bool has[VERIF_NSYMS];
    UTAP::expression_t val[VERIF_NSYMS];
    verif_symexpr_map() { for (int i = 0; i < VERIF_NSYMS; i++) has[i] = false; }
    verif_symexpr_map(const verif_symexpr_map& o) { for (int i = 0; i < VERIF_NSYMS; i++) { has[i] = o.has[i]; val[i] = o.val[i]; } }
    verif_symexpr_map& operator=(const verif_symexpr_map& o) { for (int i = 0; i < VERIF_NSYMS; i++) { has[i] = o.has[i]; val[i] = o.val[i]; } return *this; }
    UTAP::expression_t& operator[](const UTAP::symbol_t& s) { __CPROVER_assert(s.id >= 0 && s.id < VERIF_NSYMS, "stub: symbol id in range"); has[s.id] = true; return val[s.id]; }
    /* emplace / insert of a (key, value): keeps an existing entry (std::map semantics); the result is not used as a value */
    void emplace(const UTAP::symbol_t& s, const UTAP::expression_t& e) { __CPROVER_assert(s.id >= 0 && s.id < VERIF_NSYMS, "stub: symbol id in range"); if (!has[s.id]) { has[s.id] = true; val[s.id] = e; } }
};
}  // namespace std
/* a moved-from std::map is in a valid but unspecified state (rule L23b): its content is arbitrary afterwards */
inline void verif_moved_from(std::verif_symexpr_map& m) { for (int i = 0; i < VERIF_NSYMS; i++) { bool h; m.has[i] = h; } }

namespace UTAP {
typedef int verif_str; /* identity of a string value */
struct template_t;
struct variable_t { symbol_t uid; expression_t init; };
struct function_t { symbol_t uid; std::list<variable_t> variables; };
struct location_t { symbol_t uid; expression_t invariant; expression_t exp_rate; int32_t nr; };
struct branchpoint_t { symbol_t uid; int32_t bpNr; };
struct edge_t
{
    int nr;
    bool control;
    verif_str actname;
    location_t* src;
    branchpoint_t* srcb;
    location_t* dst;
    branchpoint_t* dstb;
#ifdef C04_BUILDER
    frame_t select;
    expression_t guard, assign, sync, prob;
#endif
};
struct declarations_t
{
    frame_t frame;
    std::list<variable_t> variables;
    std::list<function_t> functions;
    bool add_function(type_t type, verif_name name, position_t pos, function_t*& fun);
};
struct instance_t
{
    symbol_t uid;
    frame_t parameters;
    std::verif_symexpr_map mapping;
    size_t arguments;
    size_t unbound;
    template_t* templ;
    instance_t(): arguments(0), unbound(0), templ(nullptr) {}
};
/* real: struct template_t : instance_t, declarations_t.  CBMC's front end mislays members of a second base class, so the
   stand-in inherits instance_t (needed for the (instance_t*) cast) and carries the declarations_t members directly */
struct template_t : public instance_t
{
    frame_t frame;
    std::list<variable_t> variables;
    std::list<function_t> functions;
    std::deque<location_t> locations;
    std::deque<branchpoint_t> branchpoints;
    std::deque<edge_t> edges;
    bool is_TA, dynamic, is_defined;
    bool is_instantiated; /* the template is used in the system */
#ifdef C04_BUILDER
    symbol_t init;
#endif
    int dyn_index;
    verif_str type, mode;
    location_t& add_location(verif_name name, expression_t inv, expression_t er, position_t pos);
    branchpoint_t& add_branchpoint(verif_name name, position_t pos);
    edge_t& add_edge(symbol_t src, symbol_t dst, bool control, verif_str actname);
};
class Document
{
public:
    declarations_t global;
    std::list<template_t> templates;
    std::list<template_t> dyn_templates;
    std::list<instance_t> instances;
    std::list<instance_t> lsc_instances;
    std::list<instance_t> processes;
    template_t& add_template(verif_name name, frame_t params, position_t position, const bool is_TA, verif_str typeLSC, verif_str mode);
    template_t& add_dynamic_template(verif_name name, frame_t params, position_t pos);
    instance_t& add_instance(verif_name name, instance_t& inst, frame_t params, const std::vector<expression_t>& arguments, position_t pos);
    instance_t& add_LSC_instance(verif_name name, instance_t& inst, frame_t params, const std::vector<expression_t>& arguments, position_t pos);
    void add_process(instance_t& instance, position_t pos);
    variable_t* add_variable(declarations_t* context, type_t type, verif_name name, expression_t initial, position_t pos);
    variable_t* add_variable_to_function(function_t* function, frame_t frame, type_t type, verif_name name, expression_t initial, position_t pos);
    variable_t* add_variable(std::list<variable_t>& variables, frame_t frame, type_t type, verif_name name, position_t pos);
};
}  // namespace UTAP
/* type constructors over frames (type.cpp): the arity of the result is the size of the frame it is built over */
#define TCODE_INSTANCE 1
#define TCODE_LSC 2
#define TCODE_PROCESS 3
#define TCODE_PROCESS_SET 4
#define VERIF_TYPE_CTORS \
    static type_t create_instance(frame_t f) { return type_t(); }
namespace UTAP {
inline type_t verif_create_instance(frame_t f) { return type_t::verif_over_frame(TCODE_INSTANCE, f.which, (int)f.get_size()); }
inline type_t verif_create_LSC_instance(frame_t f) { return type_t::verif_over_frame(TCODE_LSC, f.which, (int)f.get_size()); }
inline type_t verif_create_process(frame_t f) { return type_t::verif_over_frame(TCODE_PROCESS, f.which, (int)f.get_size()); }
inline type_t verif_create_process_set(type_t t) { return type_t(20000 + t.id); }
inline type_t verif_create_primitive(kind_t k) { return type_t::create_primitive(k); }
}
#include "document_ctors.inc" /* REAL functions, lowered */
#ifndef C04_BUILDER /* (the C04 kernel brings its own, larger DocumentBuilder) */
namespace UTAP {
/* the part of the builder DocumentBuilder::process touches after it resolved the name */
class DocumentBuilder
{
public:
    Document& document;
    position_t position;
    DocumentBuilder(Document& d): document(d) {}
    void process_tail(symbol_t symbol);
};
}
#include "builder_process.inc" /* REAL: DocumentBuilder::process from the resolved instance on */
#endif

static Document doc;
static template_t* T;
extern "C" {
void w08_init(int nloc, int nbp, int nedge, int dup_name)
{
    verif_thrown = 0; verif_nsyms = 0; verif_nframes = 0;
    doc.global.frame = frame_t::create(frame_t());
    doc.templates.n = 0; doc.instances.n = 0; doc.processes.n = 0; doc.dyn_templates.n = 0;
    doc.global.variables.n = 0; doc.global.functions.n = 0;
    frame_t params = frame_t::create(frame_t());
    for (int i = 0; i < 2; i++) { if (i < nedge) params.add_symbol(30 + i, type_t(0), position_t()); } /* nedge = number of parameters of template 0 */
    T = &doc.add_template(100, params, position_t(), true, 0, 0);
    /* an arbitrary well-formed prefix: nloc locations, nbp branchpoints built by the same constructors */
    for (int i = 0; i < 2; i++) { if (i < nloc) T->add_location(10 + i, expression_t(), expression_t(), position_t()); }
    for (int i = 0; i < 1; i++) { if (i < nbp) T->add_branchpoint(20 + i, position_t()); }
    (void)dup_name;
    verif_thrown = 0;
}
int w08_add_location(int name) { location_t& l = T->add_location(name, expression_t(), expression_t(), position_t()); return T->locations.index_of(&l); }
int w08_add_branchpoint(int name) { branchpoint_t& b = T->add_branchpoint(name, position_t()); return T->branchpoints.index_of(&b); }
/* what: 0 count, 1 nr of element i, 2 uid of element i, 3 user data of that symbol points to element i, 4 symbol name, 5 symbol type kind, 6 symbol frame is the template's */
int w08_loc(int what, int i)
{
    if (what == 0) return (int)T->locations.size();
    location_t& l = T->locations.at(i);
    if (what == 1) return l.nr;
    if (what == 2) return l.uid.id;
    if (what == 3) return verif_symtab[l.uid.id].user == (void*)&l;
    if (what == 4) return verif_symtab[l.uid.id].name;
    if (what == 5) return verif_symtab[l.uid.id].type >> 1;
    return verif_symtab[l.uid.id].frame == T->frame.which;
}
int w08_bp(int what, int i)
{
    if (what == 0) return (int)T->branchpoints.size();
    branchpoint_t& b = T->branchpoints.at(i);
    if (what == 1) return b.bpNr;
    if (what == 2) return b.uid.id;
    if (what == 3) return verif_symtab[b.uid.id].user == (void*)&b;
    if (what == 4) return verif_symtab[b.uid.id].name;
    if (what == 5) return verif_symtab[b.uid.id].type >> 1;
    return verif_symtab[b.uid.id].frame == T->frame.which;
}
/* endpoints: 0..1 = location i, 2 = branchpoint 0 */
static symbol_t endpoint(int e) { if (e < 2) return T->locations.at(e).uid; return T->branchpoints.at(0).uid; }
int w08_add_edge(int src, int dst, int control, int act)
{
    edge_t& e = T->add_edge(endpoint(src), endpoint(dst), control != 0, act);
    return T->edges.index_of(&e);
}
/* what: 0 count, 1 nr, 2 src is location k (k in 0..1) else -1, 3 srcb is branchpoint 0, 4 dst location index, 5 dstb, 6 control, 7 actname */
int w08_edge(int what, int i)
{
    if (what == 0) return (int)T->edges.size();
    edge_t& e = T->edges.at(i);
    if (what == 1) return e.nr;
    if (what == 2) return e.src == nullptr ? -1 : T->locations.index_of(e.src);
    if (what == 3) return e.srcb == nullptr ? -1 : T->branchpoints.index_of(e.srcb);
    if (what == 4) return e.dst == nullptr ? -1 : T->locations.index_of(e.dst);
    if (what == 5) return e.dstb == nullptr ? -1 : T->branchpoints.index_of(e.dstb);
    if (what == 6) return e.control;
    return e.actname;
}
int w08_add_function(int name, int type, int* dup)
{
    function_t* f = nullptr;
    bool ok = doc.global.add_function(type_t(type), name, position_t(), f);
    *dup = !ok;
    return f == nullptr ? -1 : doc.global.functions.index_of(f);
}
int w08_fun(int what, int i)
{
    if (what == 0) return (int)doc.global.functions.size();
    function_t& f = doc.global.functions.at(i);
    if (what == 2) return f.uid.id;
    if (what == 3) return verif_symtab[f.uid.id].user == (void*)&f;
    if (what == 4) return verif_symtab[f.uid.id].name;
    return verif_symtab[f.uid.id].type;
}
int w08_add_variable(int which, int name, int type)
{
    variable_t* v;
    expression_t init = expression_t::create_constant(7);
    if (which == 0) v = doc.add_variable(&doc.global, type_t(type), name, init, position_t());
    else if (which == 1) { v = doc.add_variable(T->variables, T->frame, type_t(type), name, position_t()); if (v) v->init = init; } /* template-local: the list overload on the template's own containers (no base-class pointer adjustment in the harness) */
    else v = doc.add_variable(doc.global.variables, doc.global.frame, type_t(type), name, position_t());
    if (v == nullptr) return -1;
    if (which == 1) return T->variables.index_of(v);
    return doc.global.variables.index_of(v);
}
int w08_var(int tmpl, int what, int i)
{
    std::list<variable_t>* vsp; if (tmpl) vsp = &T->variables; else vsp = &doc.global.variables;
    std::list<variable_t>& vs = *vsp;
    if (what == 0) return (int)vs.size();
    variable_t& v = vs.at(i);
    if (what == 2) return v.uid.id;
    if (what == 3) return verif_symtab[v.uid.id].user == (void*)&v;
    if (what == 4) return verif_symtab[v.uid.id].name;
    if (what == 5) return verif_symtab[v.uid.id].type;
    if (what == 6) { int fw = doc.global.frame.which; if (tmpl) fw = T->frame.which; return verif_symtab[v.uid.id].frame == fw; }
    return !v.init.empty();
}
/* templates */
int w08_add_template(int name, int nparams, int is_ta, int dynamic)
{
    frame_t params = frame_t::create(frame_t());
    for (int i = 0; i < 2; i++) { if (i < nparams) params.add_symbol(30 + i, type_t(0), position_t()); }
    if (dynamic) { template_t& t = doc.add_dynamic_template(name, params, position_t()); return doc.dyn_templates.index_of(&t); }
    template_t& t = doc.add_template(name, params, position_t(), is_ta != 0, 1, 2);
    return doc.templates.index_of(&t);
}
/* what: 0 count, 2 uid, 3 user data is the template (as instance_t*), 4 name, 5 type code, 6 unbound, 7 arguments, 8 templ == itself, 9 frame's parent is the global frame,
   10 number of symbols in its frame, 11 type is built over its parameter frame, 12 is_TA, 13 dynamic, 14 dyn_index */
int w08_templ(int dynamic, int what, int i)
{
    std::list<template_t>* tsp; if (dynamic) tsp = &doc.dyn_templates; else tsp = &doc.templates;
    std::list<template_t>& ts = *tsp;
    if (what == 0) return (int)ts.size();
    template_t& t = ts.at(i);
    int ty = verif_symtab[t.uid.id].type;
    switch (what) {
    case 2: return t.uid.id;
    case 3: return verif_symtab[t.uid.id].user == (void*)static_cast<instance_t*>(&t);
    case 4: return verif_symtab[t.uid.id].name;
    case 5: return (ty - 10000) / 1024;
    case 6: return (int)t.unbound;
    case 7: return (int)t.arguments;
    case 8: return t.templ == &t;
    case 9: return verif_frames[t.frame.which - 1].parent == doc.global.frame.which;
    case 10: return verif_frames[t.frame.which - 1].nsym;
    case 11: return ((ty - 10000) % 1024) / 16 == t.parameters.which && (ty - 10000) % 16 == (int)t.unbound;
    case 12: return t.is_TA;
    case 13: return t.dynamic;
    default: return t.dyn_index;
    }
}
int w08_param_count(int dynamic, int i) { if (dynamic) return (int)doc.dyn_templates.at(i).parameters.get_size(); return (int)doc.templates.at(i).parameters.get_size(); }
/* instances: a partial instantiation of template 0 (which has nparams0 parameters): nargs arguments bind its first parameters,
   nfree new unbound parameters are declared */
static expression_t args_[2];
static expression_t pre_[2];
/* the instantiated object is an ARBITRARY instance: either template 0 itself (src_kind 0: its parameters are the template's)
   or a separate partial instance of template 0 (src_kind 1) with its own parameter frame - ns parameters named 80+i that
   are NOT the template's symbols - its own `arguments` count, and inherited bindings (pre_mapped: bit i = its parameter i
   is bound already, bits 2/3 = template parameter 0/1 is bound already) */
static instance_t src_;
static int g_lsc; /* 1: the harness exercises add_LSC_instance / lsc_instances instead of add_instance / instances */
static symbol_t src_param_[2];
static int src_kind_, src_ns_;
int w08_add_instance(int name, int nfree, int nargs, int src_arguments, int pre_mapped, int src_kind, int ns)
{
    template_t& t0 = doc.templates.at(0);
    src_kind_ = src_kind; src_ns_ = ns;
    instance_t* src = &t0;
    if (src_kind == 1) {
        frame_t sp = frame_t::create(frame_t());
        for (int i = 0; i < 2; i++) { if (i < ns) sp.add_symbol(80 + i, type_t(0), position_t()); }
        src_.parameters = sp; src_.templ = &t0; src_.unbound = (size_t)ns;
        src = &src_;
    }
    src->arguments = (size_t)src_arguments;
    for (int i = 0; i < 2; i++) {
        src_param_[i] = i < (int)src->parameters.get_size() ? src->parameters[i] : symbol_t();
        if (i < (int)src->parameters.get_size() && ((pre_mapped >> i) & 1)) { pre_[i] = expression_t::create_constant(60 + i); src->mapping[src->parameters[i]] = pre_[i]; }
    }
    frame_t params = frame_t::create(frame_t());
    for (int i = 0; i < 2; i++) { if (i < nfree) params.add_symbol(40 + i, type_t(0), position_t()); }
    std::vector<expression_t> a;
    for (int i = 0; i < 2; i++) { if (i < nargs) { args_[i] = expression_t::create_constant(50 + i); a.push_back(args_[i]); } }
    src_ptr_ = src;
    if (g_lsc) { instance_t& li = doc.add_LSC_instance(name, *src, params, a, position_t()); return doc.lsc_instances.index_of(&li); }
    instance_t& inst = doc.add_instance(name, *src, params, a, position_t());
    return doc.instances.index_of(&inst);
}
void w08_use_lsc(int on) { g_lsc = on; }
/* what: 0 count, 2 uid, 3 user data, 4 name, 6 unbound, 7 arguments, 8 templ is template 0, 9 number of parameters, 10+k: name of parameter k,
   20+k: parameter k of the INSTANTIATED INSTANCE is mapped to argument k (1), mapped to something else (2), unmapped (0); 30: type is INSTANCE over the free-parameter frame (arity == unbound) */
int w08_inst(int what, int i)
{
    std::list<instance_t>* lp; if (g_lsc) lp = &doc.lsc_instances; else lp = &doc.instances;
    if (what == 0) return (int)lp->size();
    instance_t& in = lp->at(i);
    template_t& t0 = doc.templates.at(0);
    if (what == 2) return in.uid.id;
    if (what == 3) return verif_symtab[in.uid.id].user == (void*)&in;
    if (what == 4) return verif_symtab[in.uid.id].name;
    if (what == 6) return (int)in.unbound;
    if (what == 7) return (int)in.arguments;
    if (what == 8) return in.templ == &t0;
    if (what == 9) return (int)in.parameters.get_size();
    if (what >= 10 && what < 20) return verif_symtab[in.parameters[what - 10].id].name;
    if (what >= 20 && what < 30) {
        symbol_t p = src_param_[what - 20]; /* parameter k of the instantiated instance */
        if (!in.mapping.has[p.id]) return 0;
        if (in.mapping.val[p.id].data == args_[what - 20].data) return 1;
        return in.mapping.val[p.id].data == pre_[what - 20].data ? 3 : 2; /* 3 = the inherited binding */
    }
    int ty = verif_symtab[in.uid.id].type;
    return (ty - 10000) / 1024 == (g_lsc ? TCODE_LSC : TCODE_INSTANCE) && (ty - 10000) % 16 == (int)in.unbound;
}
/* the instantiated instance after the call: number of bindings it still carries, and whether binding k is still its own */
static instance_t* src_ptr_;
int w08_src_mapped_count(void) { int c = 0; for (int k = 0; k < VERIF_NSYMS; k++) c += src_ptr_->mapping.has[k]; return c; }
int w08_src_keeps(int k) { symbol_t p = src_param_[k]; return p.id >= 0 && src_ptr_->mapping.has[p.id] && src_ptr_->mapping.val[p.id].data == pre_[k].data; }
int w08_mapped_count(int i) { std::list<instance_t>* lp; if (g_lsc) lp = &doc.lsc_instances; else lp = &doc.instances; int c = 0; for (int k = 0; k < VERIF_NSYMS; k++) c += lp->at(i).mapping.has[k]; return c; }
/* add_process on instance 0 (built by w08_add_instance); what: 0 count, 1 its symbol is new (not the instance's), 2 user data is the
   process object, 3 name is the instance's name, 4 type code, 5 type arity/frame ok, 6 copies unbound/arguments/templ/parameters,
   7 copies the mapping, 8 the instance still owns its own symbol */
int w08_add_process(void) { instance_t& in = doc.instances.at(0); doc.add_process(in, position_t()); return (int)doc.processes.size(); }
#ifndef C04_BUILDER
/* DocumentBuilder::process on the symbol of instance 0; before it no template is marked as used.  what: 0 run, 1 template 0 is
   marked, 2 number of processes */
int w08_builder_process(int what)
{
    template_t& t0 = doc.templates.at(0);
    if (what == 0) {
        t0.is_instantiated = false;
        DocumentBuilder b(doc);
        b.process_tail(doc.instances.at(0).uid);
        return 0;
    }
    if (what == 1) return t0.is_instantiated ? 1 : 0;
    return (int)doc.processes.size();
}
#endif
int w08_proc(int what)
{
    instance_t& in = doc.instances.at(0);
    if (what == 0) return (int)doc.processes.size();
    instance_t& p = doc.processes.at(doc.processes.size() - 1);
    int ty = verif_symtab[p.uid.id].type;
    switch (what) {
    case 1: return p.uid.id != in.uid.id && p.uid.id >= 0;
    case 2: return verif_symtab[p.uid.id].user == (void*)&p;
    case 3: return verif_symtab[p.uid.id].name == verif_symtab[in.uid.id].name && verif_symtab[p.uid.id].frame == doc.global.frame.which;
    case 4: return ty >= 20000 ? TCODE_PROCESS_SET : (ty - 10000) / 1024;
    case 5: return ty >= 20000 ? ty == 20000 + verif_symtab[in.uid.id].type : ((ty - 10000) % 1024) / 16 == p.templ->frame.which;
    case 6: return p.unbound == in.unbound && p.arguments == in.arguments && p.templ == in.templ && p.parameters.which == in.parameters.which;
    case 7: { for (int k = 0; k < VERIF_NSYMS; k++) { if (p.mapping.has[k] != in.mapping.has[k] || (p.mapping.has[k] && p.mapping.val[k].data != in.mapping.val[k].data)) return 0; } return 1; }
    default: return verif_symtab[in.uid.id].user == (void*)&in;
    }
}
}
#ifdef C04_BUILDER
#include "builder04.inc" /* C04 kernel K2 on top of this environment */
#endif
