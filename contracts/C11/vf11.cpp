/* C11 part 4: the tail of the REAL TypeChecker::visitFunction (typechecker.cpp) that computes function_t::changes and
   function_t::depends - what a call to the function may write / read - from the statement walkers' result: everything the
   body may write, minus the function's local variables, minus its parameters.  The walkers over the body are answered by
   their contracts (c11_stmt_* / c11_collect_*): they add the body's ghost sets. */
#define VERIF_TYPE_FLAT
#include "utap_abs.h"
extern "C" {
int verif_err_count, verif_warn_count, verif_last_err, verif_thrown;
}
namespace UTAP {
verif_node verif_nodes[VERIF_NNODES];
verif_sym verif_syms[VERIF_NSYM];
type_t verif_tpool[VERIF_NSID];
struct variable_t { symbol_t uid; };
class frame_t
{
public:
    symbol_t syms[4];
    int n;
    symbol_t operator[](uint32_t i) const { __CPROVER_assert(i < (uint32_t)n, "stub: frame index < get_size()"); return syms[i]; }
    unsigned declared; /* ghost: the symbols declared in this frame itself (not in enclosing frames) */
    bool contains(const symbol_t& s) const { return s.id >= 0 && s.id < VERIF_NSYM && ((declared >> s.id) & 1); }
};
static frame_t verif_scope_frame; /* the frame the function itself is declared in */
frame_t symbol_t::get_frame() const { return verif_scope_frame; }
struct CollectChangesVisitor { verif_symset& set; CollectChangesVisitor(verif_symset& s): set(s) {} };
struct CollectDependenciesVisitor { verif_symset& set; CollectDependenciesVisitor(verif_symset& s): set(s) {} };
struct BodyStatement
{
    frame_t frame;
    unsigned g_writes, g_reads; /* ghost: what the statement walkers collect from the body (their contracts) */
    int visited_w, visited_r;
    frame_t get_frame() { return frame; }
    int32_t accept(CollectChangesVisitor* v) { v->set.mask |= g_writes; visited_w++; return 0; }
    int32_t accept(CollectDependenciesVisitor* v) { v->set.mask |= g_reads; visited_r++; return 0; }
};
struct verif_varlist
{
    variable_t v[3];
    int n;
    variable_t* begin() { return &v[0]; }
    variable_t* end() { return &v[0] + n; }
};
struct function_t
{
    symbol_t uid;
    verif_symset changes, depends;
    verif_varlist variables;
    BodyStatement* body;
};
/* the document as the type checker sees it: its global declarations own a frame that declares an arbitrary set of symbols */
struct verif_globals { frame_t frame; };
struct verif_document { verif_globals g; verif_globals& get_globals() { return g; } };
class TypeChecker
{
public:
    verif_document document;
    void visitFunction_tail(function_t& fun);
};
}
using namespace UTAP;
using namespace Constants;
#include "visit_function_tail.inc" /* REAL: the tail of TypeChecker::visitFunction */

static function_t fun;
static BodyStatement body;
extern "C" void w_c11_scope(unsigned declared_in_scope) { verif_scope_frame.n = 0; verif_scope_frame.declared = declared_in_scope; }
static unsigned verif_global_declared;
extern "C" void w_c11_globals(unsigned declared_globally) { verif_global_declared = declared_globally; }
extern "C" void w_c11_visit_function(unsigned w, unsigned r, unsigned ch_in, unsigned dep_in, int nparams, int nframe, int f0, int f1, int f2, int f3,
                                     int nloc, int l0, int l1, int l2, unsigned* ch_out, unsigned* dep_out, int* vw, int* vr)
{
    int fs[4] = {f0, f1, f2, f3}, ls[3] = {l0, l1, l2};
    body.g_writes = w; body.g_reads = r; body.visited_w = 0; body.visited_r = 0;
    body.frame.n = nframe;
    for (int i = 0; i < 4; i++) body.frame.syms[i] = symbol_t(fs[i]);
    fun.variables.n = nloc;
    for (int i = 0; i < 3; i++) fun.variables.v[i].uid = symbol_t(ls[i]);
    fun.body = &body;
    fun.uid = symbol_t(0);
    type_t ft = type_t::verif_any_type();
    ft.base = FUNCTION; ft.nchild = nparams + 1; /* [0] return type, then one child per parameter */
    verif_syms[0].type = ft;
    fun.changes.mask = ch_in; fun.depends.mask = dep_in;
    TypeChecker tc;
    tc.document.g.frame.n = 0; tc.document.g.frame.declared = verif_global_declared;
    tc.visitFunction_tail(fun);
    *ch_out = fun.changes.mask; *dep_out = fun.depends.mask; *vw = body.visited_w; *vr = body.visited_r;
}
