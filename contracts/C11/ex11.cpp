/* C11 part 1 (+ C13's read side): the REAL expression_t::get_symbols, collect_possible_writes,
   collect_possible_reads, changes_variable, changes_any_variable, depends_on from
   src/expression.cpp, one level each (children answered by their contracts = ghost
   symbol sets, rule L12); std::set<symbol_t> is a bit mask over symbol ids (L17). */
#define VERIF_TYPE_FLAT
#include "utap_abs.h"

extern "C" {
int verif_err_count, verif_warn_count, verif_last_err, verif_thrown;
}
namespace UTAP {
verif_node verif_nodes[VERIF_NNODES];
verif_sym verif_syms[VERIF_NSYM];
type_t verif_tpool[VERIF_NSID];
struct function_t
{
    symbol_t uid;
    verif_symset changes;
    verif_symset depends;
};
}  // namespace UTAP
using namespace UTAP;
using namespace Constants;
using std::min;

#include "expr_sets.inc" /* REAL functions, lowered */

static function_t the_fun;

/* root = node 0, children nodes 1..4 with ghost sets (writes/reads/lv); child 0's symbol is symbol 0 */
extern "C" void w_c11_node(int which, int empty, int kind, int nsub, int rootsym,
                           unsigned w0, unsigned w1, unsigned w2, unsigned w3,     /* ghost W / R of the children   */
                           unsigned l0, unsigned l1, unsigned l2, unsigned l3,     /* ghost LV of the children      */
                           unsigned rnd,                                           /* ghost random marker bits      */
                           int fsym_kind, unsigned fsym_wrap, int has_data, unsigned fset, int fsize,
                           unsigned refmask, unsigned constmask,                   /* parameter i is REF / constant */
                           unsigned s_in, unsigned query, int collect_random,
                           unsigned* s_out, int* null_out, int* bres)
{
    unsigned w[4] = {w0, w1, w2, w3}, l[4] = {l0, l1, l2, l3};
    verif_nodes[0].kind = (kind_t)kind; verif_nodes[0].nsub = nsub; verif_nodes[0].symbol = symbol_t(rootsym);
    for (int i = 0; i < 4; i++) {
        verif_nodes[0].sub[i] = i + 1;
        verif_nodes[i + 1].nsub = 0; verif_nodes[i + 1].kind = IDENTIFIER;
        verif_nodes[i + 1].g_writes = w[i]; verif_nodes[i + 1].g_reads = w[i]; verif_nodes[i + 1].g_lv = l[i];
        verif_nodes[i + 1].g_rnd = (rnd >> i) & 1;
        verif_nodes[i + 1].symbol = symbol_t(1);
    }
    verif_nodes[0].g_writes = w0; verif_nodes[0].g_reads = w0; /* the root's own summary (contract of the walker on *this) */
    /* the callee of a call node: child 0 is an identifier of symbol 0 */
    verif_nodes[1].symbol = symbol_t(0);
    verif_tpool_havoc();
    type_t ft = type_t::verif_any_type();
    ft.base = (kind_t)fsym_kind; ft.wrap = fsym_wrap; ft.nchild = fsize;
    ft.sid0 = 0; ft.sid1 = 1; ft.sid2 = 2; ft.sid3 = 3;
    /* parameter i (type child i) lives in pool slot i: REF wrapper and constness from the masks */
    verif_tpool[1].wrap = (verif_tpool[1].wrap & ~(unsigned)VW_REF) | ((refmask & 2) ? VW_REF : 0); verif_tpool[1].konst = (constmask & 2) != 0;
    verif_tpool[2].wrap = (verif_tpool[2].wrap & ~(unsigned)VW_REF) | ((refmask & 4) ? VW_REF : 0); verif_tpool[2].konst = (constmask & 4) != 0;
    verif_tpool[3].wrap = (verif_tpool[3].wrap & ~(unsigned)VW_REF) | ((refmask & 8) ? VW_REF : 0); verif_tpool[3].konst = (constmask & 8) != 0;
    verif_syms[0].type = ft;
    the_fun.uid = symbol_t(0); the_fun.changes.mask = fset; the_fun.depends.mask = fset;
    verif_syms[0].data = has_data ? (void*)&the_fun : (void*)0;
    verif_syms[1].type = type_t::verif_any_type();
    expression_t e;
    if (!empty) e = expression_t(0);
    verif_symset S; S.mask = s_in;
    verif_symset Q; Q.mask = query;
    *bres = 0;
    if (which == 0) e.get_symbols(S);
    else if (which == 1) e.collect_possible_writes(S);
    else if (which == 2) e.collect_possible_reads(S, collect_random != 0);
    else if (which == 3) *bres = e.changes_any_variable_real();
    else if (which == 4) *bres = e.changes_variable(Q);
    else *bres = e.depends_on(Q);
    *s_out = S.mask; *null_out = S.has_null;
}
