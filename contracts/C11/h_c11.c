/* C11 part 1 harnesses (mode H).  Oracle (property statement): the set W(e) of variables an
   expression can modify: every assignment (=, op=), increment/decrement contributes the
   variables its target may denote; a call contributes what the function changes (its own
   summary, transitively closed by construction of function_t::changes) and the variables
   passed to non-constant reference parameters; everything else only forwards its children. */
#include "kinds.h"
#define REACH __CPROVER_assert(0, "reach")
#define NSYM 8
void w_c11_node(int which, int empty, int kind, int nsub, int rootsym, unsigned w0, unsigned w1, unsigned w2, unsigned w3,
                unsigned l0, unsigned l1, unsigned l2, unsigned l3, unsigned rnd, int fsym_kind, unsigned fsym_wrap, int has_data,
                unsigned fset, int fsize, unsigned refmask, unsigned constmask, unsigned s_in, unsigned query, int collect_random,
                unsigned* s_out, int* null_out, int* bres);

#define IS_ASSIGN_KIND(k) ((k) == K_ASSIGN || (k) == K_ASS_PLUS || (k) == K_ASS_MINUS || (k) == K_ASS_DIV || (k) == K_ASS_MOD || (k) == K_ASS_MULT || \
                           (k) == K_ASS_AND || (k) == K_ASS_OR || (k) == K_ASS_XOR || (k) == K_ASS_LSHIFT || (k) == K_ASS_RSHIFT)
#define IS_INCDEC(k) ((k) == K_POST_INCREMENT || (k) == K_POST_DECREMENT || (k) == K_PRE_INCREMENT || (k) == K_PRE_DECREMENT)
#define IS_CALL(k) ((k) == K_FUN_CALL || (k) == K_FUN_CALL_EXT)

struct in {
    int empty, kind, nsub, rootsym, fk, has_data, fsize, cr;
    unsigned w[4], l[4], rnd, fw, fset, refmask, constmask, s_in, query;
};
static struct in nondet_in(void)
{
    struct in x;
    __CPROVER_assume((x.empty == 0 || x.empty == 1) && VALID_KIND(x.kind) && x.nsub >= 0 && x.nsub <= 4 && x.rootsym >= 0 && x.rootsym < NSYM);
    __CPROVER_assume(x.w[0] < 256 && x.w[1] < 256 && x.w[2] < 256 && x.w[3] < 256 && x.l[0] < 256 && x.l[1] < 256 && x.l[2] < 256 && x.l[3] < 256);
    __CPROVER_assume(x.rnd < 16 && VALID_BASE(x.fk) && x.fw <= 511 && (x.has_data == 0 || x.has_data == 1) && x.fset < 256 && x.fsize >= 0 && x.fsize <= 4);
    __CPROVER_assume(x.refmask < 16 && x.constmask < 16 && x.s_in < 256 && x.query < 256 && (x.cr == 0 || x.cr == 1));
    /* well-formed nodes (arity from expression_t::get_size, property C19): assignments are binary, ++/-- unary, calls have a callee */
    __CPROVER_assume(!IS_ASSIGN_KIND(x.kind) || x.nsub == 2);
    __CPROVER_assume(!IS_INCDEC(x.kind) || x.nsub == 1);
    __CPROVER_assume(!IS_CALL(x.kind) || x.nsub >= 1);
    __CPROVER_assume(x.kind != K_INLINE_IF || x.nsub == 3);
    __CPROVER_assume(!(x.kind == K_COMMA || x.kind == K_ARRAY) || x.nsub == 2);
    __CPROVER_assume(!(x.kind == K_DOT || x.kind == K_SYNC) || x.nsub == 1);
    return x;
}
static void call(int which, struct in x, unsigned* s_out, int* null_out, int* bres)
{
    w_c11_node(which, x.empty, x.kind, x.nsub, x.rootsym, x.w[0], x.w[1], x.w[2], x.w[3], x.l[0], x.l[1], x.l[2], x.l[3], x.rnd, x.fk, x.fw,
               x.has_data, x.fset, x.fsize, x.refmask, x.constmask, x.s_in, x.query, x.cr, s_out, null_out, bres);
}
static unsigned kids(struct in x, const unsigned* a)
{
    return (x.nsub > 0 ? a[0] : 0) | (x.nsub > 1 ? a[1] : 0) | (x.nsub > 2 ? a[2] : 0) | (x.nsub > 3 ? a[3] : 0);
}
/* oracle W(e), one level */
static unsigned oracle_W(struct in x)
{
    if (x.empty) return 0;
    unsigned W = kids(x, x.w);
    if (IS_ASSIGN_KIND(x.kind) || IS_INCDEC(x.kind)) W |= x.l[0];
    if (IS_CALL(x.kind) && (x.fk == K_FUNCTION || x.fk == K_FUNCTION_EXTERNAL) && x.has_data) {
        W |= x.fset;
        for (int i = 1; i < 4; i++)
            if (i < x.nsub && i < x.fsize && ((x.refmask >> i) & 1) && !((x.constmask >> i) & 1)) W |= x.l[i];
    }
    return W;
}
/* oracle LV(e): the variables e may denote as an assignment target */
static unsigned oracle_LV(struct in x)
{
    if (x.empty) return 0;
    int k = x.kind;
    if (k == K_IDENTIFIER) return 1u << x.rootsym;
    if (k == K_DOT || k == K_ARRAY || k == K_PRE_INCREMENT || k == K_PRE_DECREMENT || IS_ASSIGN_KIND(k) || k == K_SYNC) return x.l[0];
    if (k == K_INLINE_IF) return x.l[1] | x.l[2];
    if (k == K_COMMA) return x.l[1];
    return 0;
}
void h_c11_get_symbols(void)
{
    struct in x = nondet_in(); unsigned s; int n, b;
    call(0, x, &s, &n, &b);
    __CPROVER_assert(s == (x.s_in | oracle_LV(x)), "c11.get_symbols.result-is-input-plus-lvalue-symbols");
    REACH;
}
void h_c11_collect_writes(void)
{
    struct in x = nondet_in(); unsigned s; int n, b;
    call(1, x, &s, &n, &b);
    __CPROVER_assert((s & oracle_W(x)) == oracle_W(x), "c11.collect_possible_writes.every-possible-write-is-collected");
    __CPROVER_assert(s == (x.s_in | oracle_W(x)), "c11.collect_possible_writes.result-is-exactly-input-plus-W");
    REACH;
}
void h_c11_changes_any(void)
{
    struct in x = nondet_in(); unsigned s; int n, b;
    /* the root's own contract: its ghost W is child-0's slot in this harness (collect_possible_writes__contract on *this) */
    call(3, x, &s, &n, &b);
    __CPROVER_assert((b != 0) == (!x.empty && x.w[0] != 0), "c11.changes_any_variable.true-iff-W-nonempty");
    REACH;
}
void h_c11_changes_variable(void)
{
    struct in x = nondet_in(); unsigned s; int n, b;
    call(4, x, &s, &n, &b);
    __CPROVER_assert((b != 0) == (!x.empty && (x.w[0] & x.query) != 0), "c11.changes_variable.true-iff-W-meets-the-query-set");
    REACH;
}
/* read side (used by C13): R(e) one level */
void h_c11_collect_reads(void)
{
    struct in x = nondet_in(); unsigned s; int n, b;
    call(2, x, &s, &n, &b);
    unsigned R = x.empty ? 0 : kids(x, x.w);
    if (!x.empty && x.kind == K_IDENTIFIER) R |= 1u << x.rootsym;
    if (!x.empty && x.kind == K_FUN_CALL && (x.fk == K_FUNCTION || x.fk == K_FUNCTION_EXTERNAL) && x.has_data) R |= x.fset;
    __CPROVER_assert(s == (x.s_in | R), "c11.collect_possible_reads.result-is-exactly-input-plus-R");
    REACH;
}
void h_c11_depends_on(void)
{
    struct in x = nondet_in(); unsigned s; int n, b;
    call(5, x, &s, &n, &b);
    __CPROVER_assert((b != 0) == (!x.empty && (x.w[0] & x.query) != 0), "c11.depends_on.true-iff-R-meets-the-query-set");
    REACH;
}
