/* C11 part 3 harness: every statement form hands ALL its expression fields to the collector
   and visits ALL its sub-statements ("inside any statement form" of the property). */
#define REACH __CPROVER_assert(0, "reach")
void w_c11_stmt(int which, int e1_empty, int e2_empty, int e3_empty, int has_false, int nstats, int nvars, unsigned has_data, unsigned* seen_expr, unsigned* seen_stat);
void w_c11_collector(int which, unsigned w, unsigned s_in, unsigned* s_out);

static void stmt(int which)
{
    int e1, e2, e3, hf, ns, nv; unsigned hd, se, ss;
    __CPROVER_assume((e1 == 0 || e1 == 1) && (e2 == 0 || e2 == 1) && (e3 == 0 || e3 == 1) && (hf == 0 || hf == 1));
    __CPROVER_assume(ns >= 0 && ns <= 3 && nv >= 0 && nv <= 3 && hd < 8);
    w_c11_stmt(which, e1, e2, e3, hf, ns, nv, hd, &se, &ss);
    unsigned want_e = 0, want_s = 0;
    /* oracle: the expression fields (nodes 1..3) and sub-statements (ids 0..2) each statement class of statement.h has */
    if (which == 0 || which == 1 || which == 6) want_e = e1 ? 0 : 2;                       /* expr / assert / return: one expression */
    if (which == 2) { want_e = (e1 ? 0 : 2) | (e2 ? 0 : 4) | (e3 ? 0 : 8); want_s = 1; }   /* for: init, cond, step + body */
    if (which == 3 || which == 4) { want_e = e1 ? 0 : 2; want_s = 1; }                     /* while / do-while: cond + body */
    if (which == 5) { want_e = e1 ? 0 : 2; want_s = hf ? 3 : 1; }                          /* if: cond + both branches */
    if (which == 7) want_s = 1;                                                            /* iteration: body */
    if (which >= 8) {
        if (which == 9 || which == 10) want_e = e1 ? 0 : 2;                                 /* switch / case: cond */
        for (int i = 0; i < 3; i++) {
            if (i < nv && ((hd >> i) & 1)) want_e |= 1u << (4 + i);                         /* initialisers of local variables */
            if (i < ns) want_s |= 1u << i;                                                  /* all statements of the block */
        }
    }
    __CPROVER_assert((se & want_e) == want_e, "c11.stmt.every-expression-field-is-collected");
    __CPROVER_assert((ss & want_s) == want_s, "c11.stmt.every-sub-statement-is-visited");
    REACH;
}
#define STMT(name, n) void h_c11_stmt_##name(void) { stmt(n); }
STMT(expr, 0) STMT(assert, 1) STMT(for, 2) STMT(while, 3) STMT(dowhile, 4) STMT(if, 5) STMT(return, 6) STMT(iteration, 7)
STMT(block, 8) STMT(switch, 9) STMT(case, 10) STMT(default, 11)

void h_c11_collect_changes(void)
{
    unsigned w, s, o;
    __CPROVER_assume(w < 256 && s < 256);
    w_c11_collector(0, w, s, &o);
    __CPROVER_assert(o == (s | w), "c11.collector.changes-accumulates-the-possible-writes");
    REACH;
}
void h_c11_collect_dependencies(void)
{
    unsigned w, s, o;
    __CPROVER_assume(w < 256 && s < 256);
    w_c11_collector(1, w, s, &o);
    __CPROVER_assert(o == (s | w), "c11.collector.dependencies-accumulates-the-possible-reads");
    REACH;
}

/* part 4: function_t::changes / depends = what the body may write / read, minus locals, minus parameters */
void w_c11_visit_function(unsigned w, unsigned r, unsigned ch_in, unsigned dep_in, int nparams, int nframe, int f0, int f1, int f2, int f3,
                          int nloc, int l0, int l1, int l2, unsigned* ch_out, unsigned* dep_out, int* vw, int* vr);
void w_c11_scope(unsigned declared_in_scope);
void w_c11_globals(unsigned declared_globally);
void h_c11_visit_function(void)
{
    unsigned w, r, ci, di, co, dO, scope, glob; int np, nf, f[4], nl, l[3], vw, vr;
    /* the frame the function is declared in (global or template-local) declares an arbitrary set of the symbols */
    __CPROVER_assume(scope < 256);
    w_c11_scope(scope);
    /* ... and so does the document's global frame */
    __CPROVER_assume(glob < 256);
    w_c11_globals(glob);
    __CPROVER_assume(w < 256 && r < 256 && ci < 256 && di < 256 && np >= 0 && np <= 3 && nf >= np && nf <= 4 && nl >= 0 && nl <= 3);
    for (int i = 0; i < 4; i++) __CPROVER_assume(f[i] >= 1 && f[i] < 8);
    for (int i = 0; i < 3; i++) __CPROVER_assume(l[i] >= 1 && l[i] < 8);
    w_c11_visit_function(w, r, ci, di, np, nf, f[0], f[1], f[2], f[3], nl, l[0], l[1], l[2], &co, &dO, &vw, &vr);
    unsigned own = 0; /* the function's own variables: its parameters (the first np symbols of the body's frame) and its locals */
    for (int i = 0; i < 4; i++) if (i < np) own |= 1u << f[i];
    for (int i = 0; i < 3; i++) if (i < nl) own |= 1u << l[i];
    __CPROVER_assert(vw == 1 && vr == 1, "c11.visitFunction.the-whole-body-is-walked-once-for-writes-and-once-for-reads");
    __CPROVER_assert(co == ((ci | w) & ~own), "c11.visitFunction.changes-is-everything-the-body-may-write-except-the-function's-own-locals-and-parameters");
    __CPROVER_assert(dO == ((di | r) & ~own), "c11.visitFunction.depends-is-everything-the-body-may-read-except-the-function's-own-locals-and-parameters");
    REACH;
}
