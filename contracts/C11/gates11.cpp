/* C11 part 2: every side-effect gate of typechecker.cpp as a sliced if-chain / clause /
   function (gates.inc, generated), run in the stub TypeChecker environment. */
#include "tc_env.h"
#include "helpers.inc"
/* free helper predicates of typechecker.cpp that a gate slice may mention: arbitrary verdicts */
static bool hasStrictLowerBound(expression_t) { bool b; return b; }
static bool hasStrictUpperBound(expression_t) { bool b; return b; }
#include "gates.inc"

/* node 0 = the gated expression X: arbitrary kind/type, ghost `changes`; if array_node it is an
   ARRAY node a[i] whose base (node 1) may again be an ARRAY node (index chain of length <= 2) */
static void setup_X(int changes, int array_node)
{
    verif_err_count = 0; verif_side_effect_errors = 0;
    verif_tpool_havoc();
    for (int i = 0; i < 4; i++) {
        kind_t k; bool ok, ctc, ch;
        __CPROVER_assume(k >= 0 && k <= DOUBLE_INV_GUARD);
        verif_nodes[i].kind = k; verif_nodes[i].type = type_t::verif_any_type(); verif_nodes[i].nsub = 0;
        verif_nodes[i].g_e = ok; verif_nodes[i].g_f = ctc; verif_nodes[i].g_changes = ch;
        verif_nodes[i].symbol = symbol_t(0);
    }
    verif_nodes[0].g_changes = changes != 0;
    if (array_node) {
        verif_nodes[0].kind = ARRAY; verif_nodes[0].nsub = 2; verif_nodes[0].sub[0] = 1; verif_nodes[0].sub[1] = 2;
        bool deeper;
        if (deeper) { verif_nodes[1].kind = ARRAY; verif_nodes[1].nsub = 2; verif_nodes[1].sub[0] = 3; verif_nodes[1].sub[1] = 2; __CPROVER_assume(verif_nodes[3].kind != ARRAY); }
        else __CPROVER_assume(verif_nodes[1].kind != ARRAY);
    } else {
        /* X.get(0) is used by the sync/message gates */
        verif_nodes[0].nsub = 1; verif_nodes[0].sub[0] = 1;
    }
    verif_syms[0].type = type_t::verif_any_type();
}
/* quantifier / query clauses: root node 0 of kind K; the expression that can write is child `which`
   among the children the clause must guard */
static void setup_clause(kind_t K, int changes, int which)
{
    verif_err_count = 0; verif_side_effect_errors = 0;
    verif_tpool_havoc();
    for (int i = 0; i < 8; i++) {
        kind_t k; bool ok, ctc;
        __CPROVER_assume(k >= 0 && k <= DOUBLE_INV_GUARD);
        verif_nodes[i].kind = k; verif_nodes[i].type = type_t::verif_any_type(); verif_nodes[i].nsub = 0;
        verif_nodes[i].g_e = ok; verif_nodes[i].g_f = ctc; verif_nodes[i].g_changes = false;
        verif_nodes[i].symbol = symbol_t(0); verif_nodes[i].value = 0;
    }
    verif_nodes[0].kind = K;
    for (int i = 0; i < 6; i++) verif_nodes[0].sub[i] = i + 1;
    int guarded; /* index of the child that carries the write */
    if (K == FORALL || K == EXISTS || K == SUM) { verif_nodes[0].nsub = 2; guarded = 1; }
    else if (K == SIMULATE) { int n; __CPROVER_assume(n >= 4 && n <= 6); verif_nodes[0].nsub = n; guarded = 3 + which; __CPROVER_assume(guarded < n); }
    else if (K == MIN_EXP) { int n; __CPROVER_assume(n >= 4 && n <= 6); verif_nodes[0].nsub = n; guarded = 3 + which; __CPROVER_assume(guarded < n); }
    else { /* SUP_VAR: expr[1] is a LIST of integral expressions or clocks */
        verif_nodes[0].nsub = 2; verif_nodes[2].kind = LIST;
        int n; __CPROVER_assume(n >= 1 && n <= 3); verif_nodes[2].nsub = n;
        verif_nodes[2].sub[0] = 3; verif_nodes[2].sub[1] = 4; verif_nodes[2].sub[2] = 5;
        guarded = 3 + which; __CPROVER_assume(which < n);
        guarded = guarded - 1; /* nodes are numbered from 0: child list element `which` is node 3+which */
        guarded = guarded + 1;
        verif_nodes[3 + which].g_changes = changes != 0;
        return;
    }
    verif_nodes[guarded + 1].g_changes = changes != 0;
}
#include "gate_wrappers.inc"
