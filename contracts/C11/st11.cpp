/* C11 part 3: the REAL ExpressionVisitor / AbstractStatementVisitor members (src/statement.cpp)
   over flattened statement structs (no virtual dispatch: the override table of statement.h is
   taken as given).  `sub->accept(this)` is answered by its contract: it marks the sub-statement
   as visited (induction hypothesis: visiting a statement visits everything below it).
   visitExpression records which expression field was handed to the collector. */
#define VERIF_TYPE_FLAT
#include "utap_abs.h"

extern "C" {
int verif_err_count, verif_warn_count, verif_last_err, verif_thrown;
}
namespace UTAP {
verif_node verif_nodes[VERIF_NNODES];
verif_sym verif_syms[VERIF_NSYM];
type_t verif_tpool[VERIF_NSID];

struct variable_t { symbol_t uid; expression_t init; };
class frame_t
{
public:
    symbol_t syms[3];
    int n;
    symbol_t* begin() { return &syms[0]; }
    symbol_t* end() { return &syms[0] + n; }
};
class AbstractStatementVisitor;
struct Statement
{
    int id;
    int32_t accept(AbstractStatementVisitor* v);
};
struct EmptyStatement : Statement {};
struct ExprStatement : Statement { expression_t expr; };
struct AssertStatement : Statement { expression_t expr; };
struct ForStatement : Statement { expression_t init, cond, step; Statement* stat; };
struct IterationStatement : Statement { symbol_t symbol; Statement* stat; };
struct WhileStatement : Statement { expression_t cond; Statement* stat; };
struct DoWhileStatement : Statement { Statement* stat; expression_t cond; };
struct BlockStatement : Statement
{
    Statement* stats[3];
    int nstats;
    frame_t frame;
    frame_t get_frame() { return frame; }
    Statement** begin() { return &stats[0]; }
    Statement** end() { return &stats[0] + nstats; }
};
struct SwitchStatement : BlockStatement { expression_t cond; };
struct CaseStatement : BlockStatement { expression_t cond; };
struct DefaultStatement : BlockStatement {};
struct IfStatement : Statement { expression_t cond; Statement* trueCase; Statement* falseCase; };
struct BreakStatement : Statement {};
struct ContinueStatement : Statement {};
struct ReturnStatement : Statement { expression_t value; };

class AbstractStatementVisitor
{
public:
    unsigned seen_expr; /* bit i: expression node i was handed to visitExpression */
    unsigned seen_stat; /* bit i: sub-statement with id i was visited (accept contract) */
    AbstractStatementVisitor(): seen_expr(0), seen_stat(0) {}
    int32_t visitStatement(Statement* stat);
    int32_t visitEmptyStatement(EmptyStatement* stat);
    int32_t visitExprStatement(ExprStatement* stat);
    int32_t visitAssertStatement(AssertStatement* stat);
    int32_t visitForStatement(ForStatement* stat);
    int32_t visitIterationStatement(IterationStatement* stat);
    int32_t visitWhileStatement(WhileStatement* stat);
    int32_t visitDoWhileStatement(DoWhileStatement* stat);
    int32_t visitBlockStatement(BlockStatement* stat);
    int32_t visitSwitchStatement(SwitchStatement* stat);
    int32_t visitCaseStatement(CaseStatement* stat);
    int32_t visitDefaultStatement(DefaultStatement* stat);
    int32_t visitIfStatement(IfStatement* stat);
    int32_t visitBreakStatement(BreakStatement* stat);
    int32_t visitContinueStatement(ContinueStatement* stat);
    int32_t visitReturnStatement(ReturnStatement* stat);
};
inline int32_t Statement::accept(AbstractStatementVisitor* v)
{
    v->seen_stat |= 1u << id;
    return 0;
}
class ExpressionVisitor : public AbstractStatementVisitor
{
public:
    void visitExpression(expression_t e)
    {
        if (!e.empty()) seen_expr |= 1u << (unsigned)(e.data - &verif_nodes[0]);
    }
    int32_t visitExprStatement(ExprStatement* stat);
    int32_t visitAssertStatement(AssertStatement* stat);
    int32_t visitForStatement(ForStatement* stat);
    int32_t visitWhileStatement(WhileStatement* stat);
    int32_t visitDoWhileStatement(DoWhileStatement* stat);
    int32_t visitBlockStatement(BlockStatement* stat);
    int32_t visitSwitchStatement(SwitchStatement* stat);
    int32_t visitCaseStatement(CaseStatement* stat);
    int32_t visitDefaultStatement(DefaultStatement* stat);
    int32_t visitIfStatement(IfStatement* stat);
    int32_t visitReturnStatement(ReturnStatement* stat);
};
class CollectChangesVisitor
{
public:
    verif_symset& changes;
    explicit CollectChangesVisitor(verif_symset& c): changes(c) {}
    void visitExpression(expression_t);
};
class CollectDependenciesVisitor
{
public:
    verif_symset& dependencies;
    explicit CollectDependenciesVisitor(verif_symset& d): dependencies(d) {}
    void visitExpression(expression_t);
};
}  // namespace UTAP
using namespace UTAP;
using namespace Constants;

#include "stmt_visitors.inc" /* REAL statement.cpp members (lowered: L7 range-for, L8, unique_ptr -> raw pointer) */

static Statement subs[4];
static variable_t vars[3];

/* which: statement kind to visit; the node's expression fields are expression nodes 1..3 (some may be empty),
   its sub-statements have ids 0..2; block: nstats statements, nvars frame symbols of which has_data(bit) carry a variable */
extern "C" void w_c11_stmt(int which, int e1_empty, int e2_empty, int e3_empty, int has_false, int nstats, int nvars, unsigned has_data,
                           unsigned* seen_expr, unsigned* seen_stat)
{
    for (int i = 0; i < 4; i++) subs[i].id = i;
    expression_t e1, e2, e3;
    if (!e1_empty) e1 = expression_t(1);
    if (!e2_empty) e2 = expression_t(2);
    if (!e3_empty) e3 = expression_t(3);
    ExpressionVisitor v;
    if (which == 0) { ExprStatement s; s.expr = e1; v.visitExprStatement(&s); }
    else if (which == 1) { AssertStatement s; s.expr = e1; v.visitAssertStatement(&s); }
    else if (which == 2) { ForStatement s; s.init = e1; s.cond = e2; s.step = e3; s.stat = &subs[0]; v.visitForStatement(&s); }
    else if (which == 3) { WhileStatement s; s.cond = e1; s.stat = &subs[0]; v.visitWhileStatement(&s); }
    else if (which == 4) { DoWhileStatement s; s.cond = e1; s.stat = &subs[0]; v.visitDoWhileStatement(&s); }
    else if (which == 5) { IfStatement s; s.cond = e1; s.trueCase = &subs[0]; s.falseCase = has_false ? &subs[1] : (Statement*)0; v.visitIfStatement(&s); }
    else if (which == 6) { ReturnStatement s; s.value = e1; v.visitReturnStatement(&s); }
    else if (which == 7) { IterationStatement s; s.stat = &subs[0]; v.visitIterationStatement(&s); }
    else {
        /* block-like statements: 8 block, 9 switch, 10 case, 11 default (no struct assignment: CBMC cannot
           synthesise operator= for classes with array members) */
#define FILL(B)                                                                                         \
    do {                                                                                                \
        (B).nstats = nstats; (B).stats[0] = &subs[0]; (B).stats[1] = &subs[1]; (B).stats[2] = &subs[2];  \
        (B).frame.n = nvars;                                                                            \
        (B).frame.syms[0] = symbol_t(0); (B).frame.syms[1] = symbol_t(1); (B).frame.syms[2] = symbol_t(2); \
    } while (0)
        vars[0].init = expression_t(4); vars[1].init = expression_t(5); vars[2].init = expression_t(6); /* initialisers: nodes 4..6 */
        /* the local symbols have arbitrary types (scalars, arrays, records, ...); the ones that carry a variable_t are the
           block's variables, whatever their type */
        verif_syms[0].type = type_t::verif_any_type(); verif_syms[1].type = type_t::verif_any_type(); verif_syms[2].type = type_t::verif_any_type();
        verif_syms[0].data = (has_data & 1) ? (void*)&vars[0] : (void*)0;
        verif_syms[1].data = (has_data & 2) ? (void*)&vars[1] : (void*)0;
        verif_syms[2].data = (has_data & 4) ? (void*)&vars[2] : (void*)0;
        if (which == 8) { BlockStatement b; FILL(b); v.visitBlockStatement(&b); }
        else if (which == 9) { SwitchStatement s; FILL(s); s.cond = e1; v.visitSwitchStatement(&s); }
        else if (which == 10) { CaseStatement c; FILL(c); c.cond = e1; v.visitCaseStatement(&c); }
        else { DefaultStatement d; FILL(d); v.visitDefaultStatement(&d); }
    }
    *seen_expr = v.seen_expr; *seen_stat = v.seen_stat;
}
/* the collectors: one expression handed over => its possible writes / reads are added to the set */
extern "C" void w_c11_collector(int which, unsigned w, unsigned s_in, unsigned* s_out)
{
    verif_nodes[0].g_writes = w; verif_nodes[0].g_reads = w; verif_nodes[0].g_rnd = false;
    verif_symset S; S.mask = s_in;
    if (which == 0) { CollectChangesVisitor c(S); c.visitExpression(expression_t(0)); }
    else { CollectDependenciesVisitor c(S); c.visitExpression(expression_t(0)); }
    *s_out = S.mask;
}
