/* C07 harness for type_t::subst / type_t::rename (one level; induction over the type tree). */
#include "kinds.h"
#define REACH __CPROVER_assert(0, "reach")
void w07t_make(int k, int n, int l0, int l1, int l2, int has_expr);
void w07t_subst(int sym, int by);
void w07t_rename(int from, int to);
int w07t_get(int which, int what);
static void unchanged_source(int k, int n, const int* l, int he)
{
    __CPROVER_assert(w07t_get(1, 0) == k && w07t_get(1, 1) == n && w07t_get(1, 3) == (he ? 1 : -1), "c07.type.the-source-type-is-unchanged");
    for (int i = 0; i < 3; i++) if (i < n) __CPROVER_assert(w07t_get(1, 10 + i) == i + 1 && w07t_get(1, 20 + i) == l[i], "c07.type.the-source-type's-children-and-labels-are-unchanged");
}
void h_c07_type_subst(void)
{
    int k, n, l[3], he, sym, by;
    __CPROVER_assume(VALID_KIND(k) && n >= 0 && n <= 3 && (he == 0 || he == 1) && sym >= 0 && sym < 8 && by >= 2 && by <= 3);
    for (int i = 0; i < 3; i++) __CPROVER_assume(l[i] >= 0 && l[i] < 6);
    w07t_make(k, n, l[0], l[1], l[2], he);
    w07t_subst(sym, by);
    __CPROVER_assert(w07t_get(0, 2) && w07t_get(0, 0) == k && w07t_get(0, 1) == n, "c07.type.subst:a-fresh-node-of-the-same-kind-and-arity");
    for (int i = 0; i < 3; i++) if (i < n) __CPROVER_assert(w07t_get(0, 10 + i) == 1000 + i + 1 && w07t_get(0, 20 + i) == l[i], "c07.type.subst:child-i-is-the-substituted-child-i,-under-its-old-label");
    __CPROVER_assert(w07t_get(0, 3) == (he ? 1 + 4 : -1), "c07.type.subst:the-node's-own-expression-(range-bound,-array-size,-...)-is-substituted-too");
    __CPROVER_assert(w07t_get(0, 4), "c07.type.subst:children-and-expression-are-substituted-for-the-same-symbol-by-the-same-expression");
    unchanged_source(k, n, l, he);
    if (he && n == 3) __CPROVER_assert(0, "reach:expression-and-three-children");
    REACH;
}
void h_c07_type_rename(void)
{
    int k, n, l[3], he, from, to;
    __CPROVER_assume(VALID_KIND(k) && n >= 0 && n <= 3 && (he == 0 || he == 1) && from >= 1 && from < 6 && to >= 1 && to < 6);
    for (int i = 0; i < 3; i++) __CPROVER_assume(l[i] >= 0 && l[i] < 6);
    __CPROVER_assume(k != K_LABEL || n >= 1); /* type invariant: a LABEL node wraps exactly one type (type_t::create_label) */
    w07t_make(k, n, l[0], l[1], l[2], he);
    w07t_rename(from, to);
    __CPROVER_assert(w07t_get(0, 2) && w07t_get(0, 0) == k && w07t_get(0, 1) == n, "c07.type.rename:a-fresh-node-of-the-same-kind-and-arity");
    for (int i = 0; i < 3; i++) {
        if (i < n) {
            int want = (k == K_LABEL && i == 0 && l[0] == from) ? to : l[i];
            __CPROVER_assert(w07t_get(0, 10 + i) == 2000 + i + 1, "c07.type.rename:child-i-is-the-renamed-child-i");
            __CPROVER_assert(w07t_get(0, 20 + i) == want, "c07.type.rename:labels-are-kept,-except-that-a-LABEL-node-carrying-the-old-qualifier-gets-the-new-one");
        }
    }
    __CPROVER_assert(w07t_get(0, 3) == (he ? 1 : -1), "c07.type.rename:the-node's-expression-is-kept");
    __CPROVER_assert(w07t_get(0, 4), "c07.type.rename:children-are-renamed-with-the-same-qualifiers");
    unchanged_source(k, n, l, he);
    if (k == K_LABEL && n > 0 && l[0] == from) __CPROVER_assert(0, "reach:qualifier-replaced");
    REACH;
}
