/* C07 part 1 harness (mode H): within one frame the LAST declaration of a name wins; resolve() returns the symbol of
   the NEAREST frame on the parent chain that declares the name (induction step: the parent's answer is a ghost), and
   reports failure iff none does. */
#define REACH __CPROVER_assert(0, "reach")
extern int verif_thrown;
void w07_setup(int with_parent, int n, int n0, int n1, int n2, int t0, int t1, int t2);
void w07_parent_answer(int found, int name, int answer_type);
void w07_add_symbol(int name, int type);
void w07_add_existing(int i);
int w07_size(void);
int w07_index_of(int name, int* has);
int w07_resolve(int name);
int w07_out_ident(void);
int w07_sym_at(int i);
int w07_last_added(int what);
int w07_parent_calls(void);
int w07_has_parent(void);
int w07_parent_is_P(void);

struct fr { int wp, n, nm[3], ty[3]; };
static struct fr any_frame(void)
{
    struct fr f;
    __CPROVER_assume((f.wp == 0 || f.wp == 1) && f.n >= 0 && f.n <= 3);
    for (int i = 0; i < 3; i++) __CPROVER_assume(f.nm[i] >= 0 && f.nm[i] <= 3);
    w07_setup(f.wp, f.n, f.nm[0], f.nm[1], f.nm[2], f.ty[0], f.ty[1], f.ty[2]);
    return f;
}
/* oracle: index of the last symbol of frame f named `name` (names other than the empty one), -1 if none */
static int last_index(struct fr f, int name)
{
    int r = -1;
    if (name == 0) return -1;
    for (int i = 0; i < 3; i++) if (i < f.n && f.nm[i] == name) r = i;
    return r;
}
void h_c07_index_of(void)
{
    struct fr f = any_frame();
    int name, has; __CPROVER_assume(name >= 0 && name <= 3);
    int idx = w07_index_of(name, &has);
    int want = last_index(f, name);
    __CPROVER_assert(has == (want >= 0), "c07.get_index_of.found-iff-the-frame-declares-the-name");
    __CPROVER_assert(!has || idx == want, "c07.get_index_of.a-later-declaration-of-the-same-name-in-the-frame-wins");
    REACH;
}
void h_c07_add_symbol(void)
{
    struct fr f = any_frame();
    __CPROVER_assume(f.n <= 3);
    int name, type, other, has; __CPROVER_assume(name >= 0 && name <= 3 && other >= 0 && other <= 3);
    w07_add_symbol(name, type);
    __CPROVER_assert(w07_size() == f.n + 1 && w07_sym_at(f.n) == 10, "c07.add_symbol.symbol-is-appended");
    __CPROVER_assert(w07_last_added(0) == name, "c07.add_symbol.symbol-carries-its-name");
    __CPROVER_assert(w07_last_added(1) == type, "c07.add_symbol.symbol-carries-its-type");
    __CPROVER_assert(w07_last_added(2), "c07.add_symbol.symbol-points-back-to-its-frame");
    for (int i = 0; i < 3; i++) if (i < f.n) __CPROVER_assert(w07_sym_at(i) == i, "c07.add_symbol.earlier-symbols-unchanged");
    int idx = w07_index_of(other, &has);
    if (other == name && name != 0) __CPROVER_assert(has && idx == f.n, "c07.add_symbol.the-new-declaration-is-what-its-name-now-denotes-in-this-frame");
    else __CPROVER_assert(has == (last_index(f, other) >= 0) && (!has || idx == last_index(f, other)), "c07.add_symbol.other-names-keep-their-binding");
    REACH;
}
void h_c07_resolve(void)
{
    struct fr f = any_frame();
    int name, pfound, ptype; __CPROVER_assume(name >= 0 && name <= 3 && (pfound == 0 || pfound == 1));
    w07_parent_answer(pfound, name, ptype);
    int r = w07_resolve(name);
    int here = last_index(f, name);
    if (here >= 0) {
        __CPROVER_assert(r == 1 && w07_out_ident() == here, "c07.resolve.a-declaration-in-this-frame-wins-over-every-enclosing-frame");
        __CPROVER_assert(w07_parent_calls() == 0, "c07.resolve.the-enclosing-frames-are-not-consulted");
    } else if (f.wp) {
        __CPROVER_assert(r == pfound && (!pfound || w07_out_ident() == 20), "c07.resolve.otherwise-the-answer-is-the-enclosing-frame's");
    } else {
        __CPROVER_assert(r == 0 && w07_out_ident() == -1, "c07.resolve.unknown-name-in-the-outermost-frame-is-reported-not-bound");
    }
    __CPROVER_assert(verif_thrown == 0, "c07.resolve.no-exception");
    REACH;
}
void w07_setup_G(int m, int g0, int g1, int g2);
void w07_add_frame(void);
void w07_move_to(void);
int w07_G_size(void);
int w07_G_index_of(int name, int* has);
int w07_F_sym_is_G(int i, int j);
int w07_G_sym_is(int i, int j);
int w07_gsym_frame_is_F(int j);
int w07_gsym_frame_is_G(int j);
static int last_index_g(int m, const int* gn, int name)
{
    int r = -1;
    if (name == 0) return -1;
    for (int i = 0; i < 3; i++) if (i < m && gn[i] == name) r = i;
    return r;
}
/* F.add(G) (add all symbols of another frame) and G.move_to(F) (move them, leaving G empty and reusable) */
static void add_or_move(int move)
{
    struct fr f = any_frame();
    __CPROVER_assume(f.n <= 2);
    int m, gn[3], name, has;
    __CPROVER_assume(m >= 0 && m <= 3 && name >= 0 && name <= 3);
    for (int i = 0; i < 3; i++) __CPROVER_assume(gn[i] >= 0 && gn[i] <= 3);
    w07_setup_G(m, gn[0], gn[1], gn[2]);
    if (move) w07_move_to(); else w07_add_frame();
    __CPROVER_assert(w07_size() == f.n + m, "c07.add(frame).all-symbols-are-appended");
    for (int i = 0; i < 3; i++) if (i < f.n) __CPROVER_assert(w07_sym_at(i) == i, "c07.add(frame).earlier-symbols-unchanged");
    for (int j = 0; j < 3; j++) if (j < m) __CPROVER_assert(w07_F_sym_is_G(f.n + j, j), "c07.add(frame).symbols-keep-their-order");
    int idx = w07_index_of(name, &has);
    int lg = last_index_g(m, gn, name), lf = last_index(f, name);
    __CPROVER_assert(has == (lg >= 0 || lf >= 0), "c07.add(frame).a-name-is-bound-iff-one-of-the-two-frames-declares-it");
    __CPROVER_assert(!has || idx == (lg >= 0 ? f.n + lg : lf), "c07.add(frame).the-added-frame's-declaration-shadows-an-earlier-one-of-the-same-name;-other-names-keep-their-binding");
    if (move) {
        int gh;
        w07_G_index_of(name, &gh);
        __CPROVER_assert(w07_G_size() == 0 && gh == 0, "c07.move_to.the-source-frame-is-left-empty:-no-symbols-and-NO-names-(it-is-reused-for-the-next-parameter-list)");
        for (int j = 0; j < 3; j++) if (j < m) __CPROVER_assert(w07_gsym_frame_is_F(j), "c07.move_to.moved-symbols-point-back-to-their-new-frame");
    } else {
        int gh, gi = w07_G_index_of(name, &gh);
        __CPROVER_assert(w07_G_size() == m && gh == (lg >= 0) && (!gh || gi == lg), "c07.add(frame).the-added-frame-itself-is-unchanged");
        for (int j = 0; j < 3; j++) if (j < m) __CPROVER_assert(w07_G_sym_is(j, j) && w07_gsym_frame_is_G(j), "c07.add(frame).its-symbols-still-point-back-to-it");
    }
    REACH;
}
void h_c07_add_frame(void) { add_or_move(0); }
void h_c07_move_to(void) { add_or_move(1); }
void h_c07_create(void)
{
    struct fr f = any_frame();
    __CPROVER_assert(w07_has_parent() == f.wp, "c07.create.parent-link-as-requested");
    if (f.wp) __CPROVER_assert(w07_parent_is_P() && verif_thrown == 0, "c07.create.parent-is-the-given-frame");
    REACH;
}
