/* C07 part 3: scope callbacks of the REAL StatementBuilder (iteration_begin/end, block_begin/end, get_block) over the
   arena environment.  Trusted: the statement classes below (no virtual functions: only what the callbacks touch),
   addVariable (declares the name in the innermost scope, as Document::add_variable does - C08). */
#ifndef VERIF_VEC_CAP
#define VERIF_VEC_CAP 6
#endif
#include "scope_env.h"
extern "C" {
int verif_frameA_has[4], verif_frameA_to[4], verif_frameB_has[4], verif_frameB_to[4];
int verif_errors, verif_thrown;
}
namespace UTAP {
verif_symrec verif_symtab[VERIF_NSYMS];
int verif_nsyms;
verif_framerec verif_frames[VERIF_NFRAMES];
int verif_nframes;
}
using namespace UTAP;
using namespace Constants;
using std::vector;
namespace UTAP {
/* expression_t is only passed through here */
expression_t::expression_t(Constants::kind_t, const position_t&): data(nullptr) {}
struct variable_t { symbol_t uid; };
struct Statement { int tag; Statement(): tag(0) {} };
struct BlockStatement : public Statement
{
    frame_t frame;
    Statement* stats[6];
    int n;
    explicit BlockStatement(frame_t f): frame(f), n(0) { tag = 1; }
    frame_t get_frame() { return frame; }
    void push_stat(Statement* s) { __CPROVER_assert(n < 6, "stub: block capacity"); stats[n] = s; n++; }
    Statement* pop_stat() { __CPROVER_assert(n > 0, "stub: pop_stat() on a non-empty block"); n--; return stats[n]; }
    Statement* back() { __CPROVER_assert(n > 0, "stub: back() on a non-empty block"); return stats[n - 1]; }
    bool empty() const { return n == 0; }
};
struct IterationStatement : public Statement
{
    symbol_t symbol;
    frame_t frame;
    Statement* stat;
    IterationStatement(symbol_t s, frame_t f, Statement* st): symbol(s), frame(f), stat(st) { tag = 2; }
};
struct function_t { BlockStatement* body; };
class StatementBuilder
{
public:
#include "typefragments_class.inc" /* REAL: class TypeFragments */
    TypeFragments typeFragments;
    std::stack<frame_t> frames;
    vector<BlockStatement*> blocks; /* real: std::vector<std::unique_ptr<BlockStatement>> */
    function_t* currentFun;
    variable_t the_var;
    void push_frame(frame_t);
    void popFrame();
    BlockStatement& get_block();
    variable_t* addVariable(type_t type, verif_name name, expression_t, position_t)
    {
        the_var.uid = frames.top().add_symbol(name, type, position_t(), &the_var);
        return &the_var;
    }
    void iteration_begin(verif_name name);
    void iteration_end(verif_name name);
    void block_begin();
    void block_end();
};
}
#include "stmt_scope_funcs.inc" /* REAL callbacks, lowered */

static StatementBuilder sb;
static function_t fun;
static Statement body_stat;
static int g_depth0, g_top0;
extern "C" {
/* frame stack of depth d (nested chain); the function body block lives in the frame at level body_level (< d), and nblocks
   (0/1) open nested blocks whose frame is the one at level blk_level */
void w07b_init(int d, int body_level, int nblocks, int blk_level, int type_id)
{
    verif_nsyms = 0; verif_nframes = 0; verif_errors = 0; verif_thrown = 0;
    sb.frames.n = 0; sb.blocks.n = 0;
    frame_t f = frame_t::create(frame_t());
    frame_t chain[4];
    for (int i = 0; i < 4; i++) {
        if (i < d) { if (i > 0) f = frame_t::create(f); chain[i] = f; sb.push_frame(f); }
    }
    fun.body = new BlockStatement(chain[body_level]);
    sb.currentFun = &fun;
    if (nblocks) sb.blocks.push_back(new BlockStatement(chain[blk_level]));
    sb.typeFragments.push(type_t(type_id));
    g_depth0 = (int)sb.frames.size(); g_top0 = sb.frames.top().which;
}
void w07b_call(int which, int name)
{
    if (which == 0) sb.iteration_begin(name);
    else if (which == 1) sb.iteration_end(name);
    else if (which == 2) sb.block_begin();
    else sb.block_end();
}
void w07b_push_body(void) { sb.get_block().push_stat(&body_stat); }
int w07b_depth(void) { return (int)sb.frames.size(); }
int w07b_top(void) { return sb.frames.top().which; }
int w07b_top_parent(void) { return verif_frames[sb.frames.top().which - 1].parent; }
int w07b_top_nsym(void) { return verif_frames[sb.frames.top().which - 1].nsym; }
int w07b_top_sym(int what) { int s = verif_frames[sb.frames.top().which - 1].sym[0]; return what == 0 ? s : what == 1 ? verif_symtab[s].name : verif_symtab[s].type; }
int w07b_depth0(void) { return g_depth0; }
int w07b_top0(void) { return g_top0; }
int w07b_nblocks(void) { return (int)sb.blocks.size(); }
int w07b_innermost_block_frame(void) { return sb.get_block().get_frame().which; }
/* the statement on top of the innermost block: 0 tag, 1 iteration frame, 2 iteration symbol, 3 iteration body is the pushed body, 4 block frame */
int w07b_last_stat(int what)
{
    Statement* s = sb.get_block().back();
    if (what == 0) return s->tag;
    if (what == 4) return static_cast<BlockStatement*>(s)->frame.which;
    IterationStatement* it = static_cast<IterationStatement*>(s);
    if (what == 1) return it->frame.which;
    if (what == 2) return it->symbol.id;
    return it->stat == &body_stat;
}
int w07b_block_count(void) { return sb.get_block().n; }
}
