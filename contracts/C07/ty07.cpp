/* C07, process-qualified names: the REAL type_t::subst and type_t::rename (src/type.cpp) on a real type node, one level deep.
   The recursive calls on the children and expression_t::subst on the node's expression are answered by contracts that tag
   their result ("the substituted / renamed version of child i"), so that by induction over the type tree every occurrence
   inside a type is rewritten. */
#define VERIF_TYPE_TREE
#include "utap_abs.h"
extern "C" {
int verif_err_count, verif_warn_count, verif_last_err, verif_thrown;
}
namespace UTAP {
verif_node verif_nodes[VERIF_NNODES];
verif_sym verif_syms[VERIF_NSYM];
}
using namespace UTAP;
using namespace Constants;
using std::string;
using std::vector;
#include "type_structs.inc" /* REAL: struct child_t, struct type_t::type_data (+ ghost fields G1) */
bool type_t::is__contract(kind_t) const { return false; }
bool type_t::is_mutable__contract() const { return false; }
bool type_t::is_constant__contract() const { return false; }
type_t type_t::get_sub__contract() const { return type_t(); }
type_t type_t::get_sub__contract(uint32_t) const { return type_t(); }
/* index of an expression node (no pointer subtraction: cbmc's symex rejects it on this array) */
static int node_index(const verif_node* p) { for (int i = 0; i < VERIF_NNODES; i++) { if (p == &verif_nodes[i]) return i; } return -1; }
static int g_sym, g_by; /* the substitution asked for: symbol id, replacing expression node */
static int g_from, g_to; /* the renaming asked for: identities of the two qualifier strings */
static bool g_args_ok = true;
/* contracts: the rewritten child is a fresh leaf tagged with what it was made from */
type_t type_t::subst__contract(symbol_t symbol, expression_t expr) const
{
    if (symbol.id != g_sym || node_index(expr.data) != g_by) g_args_ok = false;
    type_t t(UNKNOWN, position_t(), 0);
    t.data->g_id = 1000 + (data == nullptr ? 0 : data->g_id);
    return t;
}
type_t type_t::rename__contract(const std::string& from, const std::string& to) const
{
    if (from.id != g_from || to.id != g_to) g_args_ok = false;
    type_t t(UNKNOWN, position_t(), 0);
    t.data->g_id = 2000 + (data == nullptr ? 0 : data->g_id);
    return t;
}
/* expression_t::subst on the node's expression (contract proved in C19: c19_subst): node e becomes node e + 4 */
static expression_t verif_expr_subst(const expression_t& e, symbol_t symbol, expression_t by)
{
    if (symbol.id != g_sym || node_index(by.data) != g_by) g_args_ok = false;
    return expression_t(node_index(e.data) + 4);
}
#include "type_subst_members.inc" /* REAL members (lowered; recursion by contract) */

static type_t src_;
extern "C" {
/* a node of kind k with n children (<= 3) labelled l0..l2 (string identities) and - optionally - expression node 1 */
void w07t_make(int k, int n, int l0, int l1, int l2, int has_expr)
{
    src_ = type_t((kind_t)k, position_t(), (size_t)n);
    int l[3] = {l0, l1, l2};
    for (int i = 0; i < 3; i++) {
        if (i < n) {
            type_t c(UNKNOWN, position_t(), 0);
            c.verif_data()->g_id = i + 1;
            src_.verif_data()->children[i].child = c;
            std::string s; s.id = l[i];
            src_.verif_data()->children[i].label = s;
        }
    }
    if (has_expr) src_.verif_data()->expr = expression_t(1);
    g_args_ok = true;
}
static type_t res_;
void w07t_subst(int sym, int by) { g_sym = sym; g_by = by; res_ = src_.subst(symbol_t(sym), expression_t(by)); }
void w07t_rename(int from, int to) { g_from = from; g_to = to; std::string f, t; f.id = from; t.id = to; res_ = src_.rename(f, t); }
/* which 0 = result, 1 = source; what 0 kind, 1 arity, 2 fresh (result node is not the source node), 3 expression node index (-1 empty),
   4 contracts were called with the arguments of this call, 10+i tag of child i, 20+i label of child i */
int w07t_get(int which, int what)
{
    type_t* tp = &src_; if (which == 0) tp = &res_;
    type_t& t = *tp;
    if (what == 0) return (int)t.get_kind();
    if (what == 1) return (int)t.size();
    if (what == 2) return res_.verif_data() != src_.verif_data() && res_.verif_data() != nullptr;
    if (what == 3) return t.verif_data()->expr.empty() ? -1 : node_index(t.verif_data()->expr.data);
    if (what == 4) return g_args_ok;
    if (what >= 10 && what < 13) return t.verif_data()->children[what - 10].child.verif_data()->g_id;
    return t.verif_data()->children[what - 20].label.id;
}
}
