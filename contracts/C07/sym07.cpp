/* C07 part 1: the REAL struct symbol_data / frame_data and the REAL symbol_t / frame_t members of
   src/symbols.cpp (constructor, get_name, get_type, ==, add_symbol, add, get_index_of(name), resolve,
   get_parent, has_parent, create) over a trusted environment: names are small identities (0 = the empty
   name), std::map<string,int32_t> is a last-writer table over names, std::vector<symbol_t> has fixed
   capacity, shared_ptr is a raw pointer. */
#include <cstdint>
#include <cassert>
extern "C" {
int verif_thrown;
}
#define NNAMES 4
#ifndef VERIF_VEC_CAP
#define VERIF_VEC_CAP 5
#endif
namespace std {
struct string
{
    int id; /* identity of the spelling; 0 = "" */
    string(): id(0) {}
    explicit string(int i): id(i) {}
    bool empty() const { return id == 0; }
    bool operator==(const string& o) const { return id == o.id; }
};
template <typename T> inline T move(T x) { return x; }
template <typename T>
class vector
{
public:
    T elems[VERIF_VEC_CAP];
    size_t n;
    vector(): n(0) {}
    vector(const vector& o): n(o.n) { for (size_t i = 0; i < VERIF_VEC_CAP; i++) elems[i] = o.elems[i]; }
    vector& operator=(const vector& o) { n = o.n; for (size_t i = 0; i < VERIF_VEC_CAP; i++) elems[i] = o.elems[i]; return *this; }
    size_t size() const { return n; }
    bool empty() const { return n == 0; }
    void push_back(const T& x) { __CPROVER_assert(n < VERIF_VEC_CAP, "stub: vector capacity"); elems[n] = x; n++; }
    void clear() { n = 0; }
    T* begin() { return &elems[0]; }
    T* end() { return &elems[0] + n; }
    /* insert(end(), b, e): append a range */
    void insert(T* pos, T* b, T* e)
    {
        __CPROVER_assert(pos == end(), "stub: insert at end() only");
        for (int i = 0; i < VERIF_VEC_CAP; i++) { if (b + i < e) push_back(b[i]); }
    }
    T& operator[](size_t i) { __CPROVER_assert(i < n, "stub: vector index < size()"); return elems[i]; }
    const T& operator[](size_t i) const { __CPROVER_assert(i < n, "stub: vector index < size()"); return elems[i]; }
};
/* std::map<string, int32_t>: one slot per name identity; operator[] creates, find/end look up */
struct verif_map_entry
{
    int name;
    int32_t second;
};
typedef verif_map_entry* verif_map_it; /* iterator = pointer to the entry, end() = null */
struct verif_name_map
{
    bool has[NNAMES];
    verif_map_entry ent[NNAMES];
    verif_name_map() { for (int i = 0; i < NNAMES; i++) { has[i] = false; ent[i].name = i; ent[i].second = 0; } }
    int32_t& operator[](const string& k) { __CPROVER_assert(k.id >= 0 && k.id < NNAMES, "stub: name identity in range"); has[k.id] = true; return ent[k.id].second; }
    verif_map_it end() { return (verif_map_it)0; }
    verif_map_it find(const string& k)
    {
        if (k.id >= 0 && k.id < NNAMES && has[k.id]) return &ent[k.id];
        return (verif_map_it)0;
    }
    void clear() { for (int i = 0; i < NNAMES; i++) has[i] = false; }
    /* iteration (rule L7m: `for ([const] auto& [k, v] : map)` -> a loop over these accessors) */
    int verif_cap() const { return NNAMES; }
    bool verif_has(int i) const { return has[i]; }
    string verif_key(int i) const { return string(i); }
    int32_t verif_val(int i) const { return ent[i].second; }
};
/* std::optional<uint32_t> */
struct verif_opt_u32
{
    bool has;
    uint32_t v;
    verif_opt_u32(): has(false), v(0) {}
    verif_opt_u32& operator=(uint32_t x) { has = true; v = x; return *this; }
    verif_opt_u32& operator=(int32_t x) { has = true; v = (uint32_t)x; return *this; }
    bool operator!() const { return !has; }
    uint32_t operator*() const { __CPROVER_assert(has, "stub: optional has a value when dereferenced"); return v; }
};
}  // namespace std
using std::string;
using std::vector;

namespace UTAP {
struct position_t { int v; position_t(): v(0) {} };
class type_t
{
public:
    int id;
    type_t(): id(0) {}
    explicit type_t(int i): id(i) {}
};
class frame_t;
class symbol_t
{
public:
    struct symbol_data;
    symbol_data* data; /* real: std::shared_ptr<symbol_data> data{nullptr} */
    symbol_t(frame_t* frame, type_t type, string name, position_t position, void* user);
    symbol_t(): data(nullptr) {}
    bool operator==(const symbol_t&) const;
    bool operator!=(const symbol_t&) const;
    type_t get_type() const;
    const string& get_name() const;
};
class frame_t
{
public:
    struct frame_data;
    frame_data* data; /* real: std::shared_ptr<frame_data> data */
    explicit frame_t(frame_data*);
    frame_t(): data(nullptr) {}
    uint32_t get_size() const;
    symbol_t add_symbol(const string& name, type_t, position_t, void* user = nullptr);
    void add(symbol_t);
    void add(frame_t);
    void move_to(frame_t);
    symbol_t* begin();
    symbol_t* end();
    std::verif_opt_u32 get_index_of(const string& name) const;
    bool resolve(const string& name, symbol_t& symbol) const;
    frame_t get_parent() const;
    bool has_parent() const;
    static frame_t create();
    static frame_t create(const frame_t& parent);
    /* contract of resolve on the parent frame (rule L12): ghost answer */
    bool resolve__contract(const string& name, symbol_t& symbol) const;
};
}  // namespace UTAP
using namespace UTAP;
#include "symbols_funcs.inc" /* REAL structs and members, lowered */

static symbol_t g_parent_answer;
static int g_parent_found, g_parent_calls;
static frame_t::frame_data* g_parent_frame;
static int g_parent_name;
namespace UTAP {
bool frame_t::resolve__contract(const string& name, symbol_t& symbol) const
{
    __CPROVER_assert(data == g_parent_frame, "contract: resolve recurses on the parent frame");
    __CPROVER_assert(name.id == g_parent_name, "contract: resolve passes the name on unchanged");
    g_parent_calls++;
    if (g_parent_found) symbol = g_parent_answer;
    return g_parent_found != 0;
}
}

static frame_t F, P;
static symbol_t pre[VERIF_VEC_CAP];
static symbol_t last_added, out_sym;

extern "C" {
/* frame F (optionally with parent P) holding n arbitrary symbols with names nm[i]; the mapping is the last-writer
   table of those names = the representation invariant every add keeps (obligation c07.add_symbol.invariant) */
void w07_setup(int with_parent, int n, int n0, int n1, int n2, int t0, int t1, int t2)
{
    int nm[3] = {n0, n1, n2}, ty[3] = {t0, t1, t2};
    verif_thrown = 0; g_parent_calls = 0;
    P = frame_t::create();
    F = with_parent ? frame_t::create(P) : frame_t::create();
    g_parent_frame = P.data;
    for (int i = 0; i < 3; i++) {
        if (i < n) pre[i] = F.add_symbol(string(nm[i]), type_t(ty[i]), position_t());
    }
}
void w07_parent_answer(int found, int name, int answer_type)
{
    g_parent_found = found; g_parent_name = name;
    g_parent_answer = P.add_symbol(string(3), type_t(answer_type), position_t());
}
void w07_add_symbol(int name, int type) { last_added = F.add_symbol(string(name), type_t(type), position_t()); }
void w07_add_existing(int i) { F.add(pre[i]); }
int w07_size(void) { return (int)F.get_size(); }
/* a second frame G with m symbols (names gn[i]); F.add(G) / G.move_to(F) */
static frame_t G;
static symbol_t gsym[3];
void w07_setup_G(int m, int g0, int g1, int g2)
{
    int gn[3] = {g0, g1, g2};
    G = frame_t::create();
    for (int i = 0; i < 3; i++) { if (i < m) gsym[i] = G.add_symbol(string(gn[i]), type_t(100 + i), position_t()); }
}
void w07_add_frame(void) { F.add(G); }
void w07_move_to(void) { G.move_to(F); }
int w07_G_size(void) { return (int)G.get_size(); }
int w07_G_index_of(int name, int* has) { std::verif_opt_u32 r = G.get_index_of(string(name)); *has = r.has; return (int)r.v; }
int w07_F_sym_is_G(int i, int j) { return F.data->symbols[i] == gsym[j]; }
int w07_G_sym_is(int i, int j) { return G.data->symbols[i] == gsym[j]; }
int w07_gsym_frame_is_F(int j) { return gsym[j].data->frame == F.data; }
int w07_gsym_frame_is_G(int j) { return gsym[j].data->frame == G.data; }
int w07_index_of(int name, int* has) { std::verif_opt_u32 r = F.get_index_of(string(name)); *has = r.has; return (int)r.v; }
int w07_resolve(int name) { out_sym = symbol_t(); return F.resolve(string(name), out_sym); }
/* identity of a symbol: 0..2 = pre[i], 10 = last_added, 20 = the parent's answer, -1 = null, 99 = other */
static int ident(const symbol_t& s)
{
    if (s.data == nullptr) return -1;
    for (int i = 0; i < 3; i++) {
        if (s == pre[i]) return i;
    }
    if (s == last_added) return 10;
    if (s == g_parent_answer) return 20;
    return 99;
}
int w07_out_ident(void) { return ident(out_sym); }
int w07_sym_at(int i) { return ident(F.data->symbols[i]); }
int w07_last_added(int what)
{
    /* no ?: here: CBMC mis-types conditional expressions over member calls returning class objects */
    if (what == 0) { string s = last_added.get_name(); return s.id; }
    if (what == 1) { type_t t = last_added.get_type(); return t.id; }
    return last_added.data->frame == F.data;
}
int w07_parent_calls(void) { return g_parent_calls; }
int w07_has_parent(void) { return F.has_parent(); }
int w07_parent_is_P(void) { frame_t q = F.get_parent(); return q.data == P.data; }
}
