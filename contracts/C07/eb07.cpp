/* C07 part 2: scope callbacks of the REAL ExpressionBuilder (push_frame, popFrame, resolve, expr_forall_begin/end,
   expr_exists_begin/end, expr_sum_begin/end, expr_false, make_constant, and the PROCESS_VAR branch of expr_dot) over
   the arena environment stubs/scope_env.h + the REAL node factories of expression.cpp. */
#ifndef VERIF_VEC_CAP
#define VERIF_VEC_CAP 8
#endif
#define VERIF_TYPE_PROCESS
#include "scope_env.h"

extern "C" {
int verif_frameA_has[4], verif_frameA_to[4], verif_frameB_has[4], verif_frameB_to[4];
int verif_errors, verif_thrown, verif_no_member;
}
namespace UTAP {
verif_symrec verif_symtab[VERIF_NSYMS];
int verif_nsyms;
verif_framerec verif_frames[VERIF_NFRAMES];
int verif_nframes;
}
using namespace UTAP;
using namespace Constants;
using std::vector;

#include "expr_data.inc"
namespace UTAP { inline bool verif_visit2(const verif_variant& a, const verif_variant& b) { return a.tag == b.tag; } }
#include "expr_funcs.inc"
namespace UTAP {
expression_t expression_t::clone_deeper__contract() const { return *this; }
expression_t expression_t::clone_deeper__contract(symbol_t, symbol_t) const { return *this; }
expression_t expression_t::clone_deeper__contract(frame_t, frame_t) const { return *this; }
expression_t expression_t::subst__contract(symbol_t, expression_t) const { return *this; }
bool expression_t::equal__contract(const expression_t&) const { return false; }
size_t expression_t::get_size__contract() const { return data == nullptr ? 0 : data->sub.size(); }
const symbol_t expression_t::get_symbol__contract() const { return symbol_t(); }

struct TypeException { int id; };
struct HasNoMemberError { int name; HasNoMemberError(verif_name n): name(n) {} };
/* ---- process types: members and derived types (ghost) ------------------------------------------------------------- */
#define NMEM 3
static int mem_name[NMEM], mem_type[NMEM], n_mem;
#define NDER 8
struct verif_derived { int op; int base; int a, b; const void* e; }; /* op 1 rename(a -> b), op 2 subst(symbol a, expression e) */
static verif_derived der[NDER];
static int n_der;
#define DERIVED_BASE 40000
type_t::verif_optidx type_t::find_index_of(int member_name) const
{
    verif_optidx r; r.has = false; r.v = 0;
    for (int i = 0; i < NMEM; i++) { if (!r.has && i < n_mem && mem_name[i] == member_name) { r.has = true; r.v = (uint32_t)i; } }
    return r;
}
type_t type_t::get_sub(uint32_t i) const { __CPROVER_assert(i < (uint32_t)n_mem, "stub: member index in range"); return type_t(mem_type[i]); }
static type_t derive(int op, int base, int a, int b, const void* e)
{
    __CPROVER_assert(n_der < NDER, "stub: derived-type arena capacity");
    der[n_der].op = op; der[n_der].base = base; der[n_der].a = a; der[n_der].b = b; der[n_der].e = e;
    n_der++;
    return type_t(DERIVED_BASE + n_der - 1);
}
type_t type_t::rename(int from_qualifier, int to_qualifier) const { return derive(1, id, from_qualifier, to_qualifier, nullptr); }
type_t type_t::subst(const symbol_t& s, const expression_t& e) const { return derive(2, id, s.id, 0, e.data); }
/* "<name>::" : the qualifier of a name identity */
inline int verif_qual(verif_name n) { return 500 + n; }
/* std::map<symbol_t, expression_t> */
struct verif_symexpr_map
{
    bool has[VERIF_NSYMS];
    expression_t val[VERIF_NSYMS];
    int verif_cap() const { return VERIF_NSYMS; }
    bool verif_has(int k) const { return has[k]; }
    symbol_t verif_key(int k) const { return symbol_t(k); }
    expression_t verif_val(int k) const { return val[k]; }
};
struct template_t;
struct instance_t { symbol_t uid; verif_symexpr_map mapping; template_t* templ; };
struct template_t : public instance_t {};
#define VERIF_THROW do { verif_thrown = 1; return; } while (0)
/* std::map<std::string, frame_t> dynamicFrames: one optional frame per name identity */
struct verif_dynframes
{
    bool has[4];
    frame_t fr[4];
    int end() const { return -1; }
    int find(verif_name n) const { return (n >= 0 && n < 4 && has[n]) ? n : -1; }
    frame_t& operator[](verif_name n) { __CPROVER_assert(n >= 0 && n < 4, "stub: name identity in range"); has[n] = true; return fr[n]; }
};
inline vector<expression_t> verif_vec2(const expression_t& a, const expression_t& b) { vector<expression_t> v; v.push_back(a); v.push_back(b); return v; }
inline type_t verif_select_type(bool c, type_t a, type_t b) { if (c) return a; return b; }

class ExpressionBuilder
{
public:
#include "fragments_class.inc"      /* REAL: class ExpressionFragments */
#include "typefragments_class.inc"  /* REAL: class TypeFragments */
    ExpressionFragments fragments;
    TypeFragments typeFragments;
    std::stack<frame_t> frames;
    verif_dynframes dynamicFrames;
    position_t position;
    void handle_error(const TypeException&) { verif_errors++; }
    void handle_error(const HasNoMemberError&) { verif_errors++; verif_no_member++; }
    void expr_dot_process(verif_name id, expression_t& expr, type_t type); /* the is_process() branch of expr_dot */
    expression_t make_constant(int value) const;
    void push_frame(frame_t);
    void popFrame();
    bool resolve(verif_name, symbol_t&) const;
    void expr_false();
    void expr_forall_begin(verif_name);
    void expr_forall_end(verif_name);
    void expr_exists_begin(verif_name);
    void expr_exists_end(verif_name);
    void expr_sum_begin(verif_name);
    void expr_sum_end(verif_name);
    void expr_dot_process_var(verif_name id, expression_t& expr); /* the PROCESS_VAR branch of expr_dot */
};
}  // namespace UTAP
#include "scope_funcs.inc" /* REAL callbacks, lowered */

static ExpressionBuilder eb;
static expression_t::expression_data* body;
static expression_t::expression_data* pvar;
static int g_depth0, g_top0;

extern "C" {
/* builder with a frame stack of depth d (a chain of nested frames), one body expression on the fragment stack and
   one type on the type stack; frame 1 (outermost) declares the name `outer_name` */
void w07s_init(int d, int type_id, int outer_name, int outer_type, int pos)
{
    verif_errors = 0; verif_thrown = 0; verif_nsyms = 0; verif_nframes = 0;
    eb.frames.n = 0; eb.position = position_t(pos);
    for (int i = 0; i < 4; i++) eb.dynamicFrames.has[i] = false;
    frame_t f = frame_t::create(frame_t());
    f.add_symbol(outer_name, type_t(outer_type), position_t());
    eb.push_frame(f);
    for (int i = 1; i < 4; i++) {
        if (i < d) { f = frame_t::create(f); eb.push_frame(f); }
    }
    body = new expression_t::expression_data(position_t(), CONSTANT, 0);
    expression_t b; b.data = body;
    eb.fragments.push(b);
    eb.typeFragments.push(type_t(type_id));
    g_depth0 = (int)eb.frames.size(); g_top0 = eb.frames.top().which;
}
void w07s_call(int which, int name)
{
    switch (which) {
    case 0: eb.expr_forall_begin(name); break;
    case 1: eb.expr_forall_end(name); break;
    case 2: eb.expr_exists_begin(name); break;
    case 3: eb.expr_exists_end(name); break;
    case 4: eb.expr_sum_begin(name); break;
    default: eb.expr_sum_end(name); break;
    }
}
int w07s_depth(void) { return (int)eb.frames.size(); }
int w07s_top_frame(void) { return eb.frames.top().which; }
int w07s_top_parent(void) { return verif_frames[eb.frames.top().which - 1].parent; }
int w07s_top_nsym(void) { return verif_frames[eb.frames.top().which - 1].nsym; }
int w07s_sym(int id, int what) { return what == 0 ? verif_symtab[id].name : what == 1 ? verif_symtab[id].type : verif_symtab[id].frame; }
int w07s_top_sym0(void) { return verif_frames[eb.frames.top().which - 1].sym[0]; }
int w07s_resolve(int name, int* sym) { symbol_t s; bool r = eb.resolve(name, s); *sym = s.id; return r; }
/* fragment on top: what 0 = is it the original body, 1 kind, 2 nsub, 3 child0 kind, 4 child0 symbol, 5 child1 is body */
int w07s_frag(int what)
{
    expression_t e = eb.fragments[0];
    if (what == 0) return e.data == body;
    if (what == 1) return (int)e.data->kind;
    if (what == 2) return (int)e.data->sub.size();
    if (what == 3) return (int)e.data->sub[0].data->kind;
    if (what == 4) return e.data->sub[0].data->symbol.id;
    return e.data->sub[1].data == body;
}
int w07s_nfrag(void) { return (int)eb.fragments.size(); }
/* expr_dot on a PROCESS_VAR expression whose symbol is named pname; the dynamic template's frame (if registered)
   declares `member_name` */
void w07s_dot_process_var(int registered, int pname, int member_name, int member_type, int id)
{
    frame_t outer = eb.frames.top();
    symbol_t ps = outer.add_symbol(pname, type_t::create_primitive(PROCESS_VAR), position_t());
    if (registered) {
        frame_t tf = frame_t::create(frame_t());
        tf.add_symbol(member_name, type_t(member_type), position_t());
        eb.dynamicFrames[pname] = tf;
    }
    expression_t e = expression_t::create_identifier(ps, position_t());
    eb.fragments[0] = e;
    g_depth0 = (int)eb.frames.size(); g_top0 = eb.frames.top().which;
    eb.expr_dot_process_var(id, e);
}
/* expr_dot on a process expression: the process type has nmem members (names mn, types mt); its instance maps the
   parameter symbols in `mapped` (bit k = symbol k of the parameter frame) to expressions; tn / pn = names of the
   template and of the process */
static instance_t proc_;
static template_t templ_;
static expression_t marg_[3];
static expression_t::expression_data* pexpr_;
static symbol_t psym_[3];
void w07s_dot_process(int nmem, const int* mn, const int* mt, int mapped, int tn, int pn, int id)
{
    n_mem = nmem; n_der = 0; verif_no_member = 0;
    for (int i = 0; i < NMEM; i++) { mem_name[i] = mn[i]; mem_type[i] = mt[i]; }
    frame_t outer = eb.frames.top();
    frame_t pf = frame_t::create(frame_t());
    for (int k = 0; k < VERIF_NSYMS; k++) proc_.mapping.has[k] = false;
    for (int k = 0; k < 3; k++) {
        psym_[k] = pf.add_symbol(60 + k, type_t(0), position_t());
        if ((mapped >> k) & 1) { marg_[k] = expression_t::create_constant(70 + k); proc_.mapping.has[psym_[k].id] = true; proc_.mapping.val[psym_[k].id] = marg_[k]; }
    }
    templ_.uid = outer.add_symbol(tn, type_t(0), position_t(), (void*)&templ_);
    templ_.templ = &templ_;
    proc_.templ = &templ_;
    proc_.uid = outer.add_symbol(pn, type_t::create_primitive(PROCESS), position_t(), (void*)&proc_);
    expression_t e = expression_t::create_identifier(proc_.uid, position_t());
    pexpr_ = e.data;
    eb.fragments[0] = e;
    eb.expr_dot_process(id, e, e.get_type());
    eb.fragments[0] = e;
}
/* the resulting fragment: what 0 = still the process expression itself, 1 kind, 2 index, 3 child is the process expression,
   4 type id; derived-type chain of the result type: 10 = length, 11 = innermost derivation is rename(template:: -> process::),
   12 = number of renames, 13 = base type of the chain, 20+k = number of substitutions of parameter k, 30+k = that
   substitution carries parameter k's argument, 40 = substitutions of symbols that are not mapped parameters */
int w07s_dot_result(int what)
{
    expression_t e = eb.fragments[0];
    if (what == 0) return e.data == pexpr_;
    if (what == 1) return (int)e.data->kind;
    if (what == 2) return e.data->value.i;
    if (what == 3) return e.data->sub.size() == 1 && e.data->sub[0].data == pexpr_;
    int ty = e.data->type.id;
    if (what == 4) return ty;
    int len = 0, renames = 0, inner_is_rename = 0, base = ty, other = 0, cnt[3] = {0, 0, 0}, ok[3] = {0, 0, 0};
    for (int step = 0; step < NDER; step++) {
        if (base >= DERIVED_BASE && base < DERIVED_BASE + NDER) {
            const verif_derived& d = der[base - DERIVED_BASE];
            len++;
            if (d.op == 1) { renames++; inner_is_rename = (d.base < DERIVED_BASE) && d.a == verif_qual(verif_symtab[templ_.uid.id].name) && d.b == verif_qual(verif_symtab[proc_.uid.id].name); }
            else {
                bool hit = false;
                for (int k = 0; k < 3; k++) { if (d.a == psym_[k].id && ((proc_.mapping.has[psym_[k].id]))) { cnt[k]++; ok[k] = d.e == (const void*)marg_[k].data; hit = true; } }
                if (!hit) other++;
            }
            base = d.base;
        }
    }
    if (what == 10) return len;
    if (what == 11) return inner_is_rename;
    if (what == 12) return renames;
    if (what == 13) return base;
    if (what >= 20 && what < 23) return cnt[what - 20];
    if (what >= 30 && what < 33) return ok[what - 30];
    return other;
}
int w07s_depth0(void) { return g_depth0; }
int w07s_top0(void) { return g_top0; }
}
