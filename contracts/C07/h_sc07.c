/* C07 part 2 harness: every scope opened by a builder callback is closed by its partner - and on every exit,
   including exceptional ones - so that names keep resolving in the scope the text is in. */
#include "kinds.h"
#define REACH __CPROVER_assert(0, "reach")
extern int verif_errors, verif_thrown;
void w07s_init(int d, int type_id, int outer_name, int outer_type, int pos);
void w07s_call(int which, int name);
int w07s_depth(void);
int w07s_top_frame(void);
int w07s_top_parent(void);
int w07s_top_nsym(void);
int w07s_sym(int id, int what);
int w07s_top_sym0(void);
int w07s_resolve(int name, int* sym);
int w07s_frag(int what);
int w07s_nfrag(void);
void w07s_dot_process_var(int registered, int pname, int member_name, int member_type, int id);
int w07s_depth0(void);
int w07s_top0(void);

static void quantifier(int begin, int end, int kind)
{
    int d, ty, on, ot, pos, name;
    __CPROVER_assume(d >= 1 && d <= 4 && ty >= 0 && ty < 400 && on >= 0 && on < 4 && name >= 0 && name < 4 && ot >= 0 && ot < 400);
    w07s_init(d, ty, on, ot, pos);
    int depth0 = w07s_depth0(), top0 = w07s_top0();
    w07s_call(begin, name);
    __CPROVER_assert(w07s_depth() == depth0 + 1 && w07s_top_parent() == top0, "c07.binder.begin-opens-one-scope-nested-in-the-current-one");
    __CPROVER_assert(w07s_top_nsym() == 1, "c07.binder.the-new-scope-declares-exactly-the-bound-variable");
    int b = w07s_top_sym0();
    __CPROVER_assert(w07s_sym(b, 0) == name, "c07.binder.bound-variable-has-the-binder's-name");
    __CPROVER_assert(w07s_sym(b, 1) == (ty | 1), "c07.binder.bound-variable-has-the-declared-type-made-constant");
    int s, r = w07s_resolve(name, &s);
    __CPROVER_assert(r == 1 && s == b, "c07.binder.inside-the-body-the-name-denotes-the-bound-variable-(shadowing-any-outer-declaration)");
    w07s_call(end, name);
    __CPROVER_assert(w07s_depth() == depth0 && w07s_top_frame() == top0, "c07.binder.end-closes-exactly-the-scope-begin-opened");
    __CPROVER_assert(w07s_nfrag() == 1 && w07s_frag(1) == kind && w07s_frag(2) == 2, "c07.binder.node-kind-and-arity");
    __CPROVER_assert(w07s_frag(3) == K_IDENTIFIER && w07s_frag(4) == b && w07s_frag(5), "c07.binder.children-are-the-bound-variable-and-the-body");
    int s2, r2 = w07s_resolve(name, &s2);
    __CPROVER_assert(!(r2 == 1) || s2 != b, "c07.binder.after-the-quantifier-the-name-no-longer-denotes-the-bound-variable");
    __CPROVER_assert(r2 == (on == name), "c07.binder.after-the-quantifier-the-name-denotes-the-outer-declaration-if-any");
    REACH;
}
void h_c07_scope_forall(void) { quantifier(0, 1, K_FORALL); }
void h_c07_scope_exists(void) { quantifier(2, 3, K_EXISTS); }
void h_c07_scope_sum(void) { quantifier(4, 5, K_SUM); }

void h_c07_scope_dot_process_var(void)
{
    int d, ty, on, ot, pos, reg, pname, mname, mtype, id;
    __CPROVER_assume(d >= 1 && d <= 4 && ty >= 0 && ty < 400 && on >= 0 && on < 4 && ot >= 0 && ot < 400);
    __CPROVER_assume((reg == 0 || reg == 1) && pname >= 0 && pname < 4 && mname >= 0 && mname < 4 && id >= 0 && id < 4 && mtype >= 0 && mtype < 400);
    w07s_init(d, ty, on, ot, pos);
    w07s_dot_process_var(reg, pname, mname, mtype, id);
    __CPROVER_assert(w07s_depth() == w07s_depth0() && w07s_top_frame() == w07s_top0(),
                     "c07.expr_dot.the-temporarily-entered-template-scope-is-left-again-on-every-exit-(also-when-the-member-is-unknown)");
    __CPROVER_assert(verif_thrown == (!reg || mname != id), "c07.expr_dot.unknown-process-or-member-is-reported-as-unknown-identifier");
    REACH;
}

/* P.x on a process P: x is the member of that name of P's type; a location member gives a boolean test; any other member
   has the member's type, re-qualified from the template's name to the process's, with EVERY binding of the process's
   parameter mapping substituted exactly once (the statement: "with P's arguments substituted") and nothing else */
extern int verif_errors, verif_no_member;
void w07s_dot_process(int nmem, const int* mn, const int* mt, int mapped, int tn, int pn, int id);
int w07s_dot_result(int what);
void h_c07_scope_dot_process(void)
{
    int d, ty, on, ot, pos, nmem, mn[3], mt[3], mapped, tn, pn, id;
    __CPROVER_assume(d >= 1 && d <= 2 && ty >= 0 && ty < 400 && on >= 0 && on < 4 && ot >= 0 && ot < 400);
    __CPROVER_assume(nmem >= 0 && nmem <= 3 && mapped >= 0 && mapped < 8 && tn >= 4 && tn < 8 && pn >= 8 && pn < 12 && id >= 0 && id < 4);
    for (int i = 0; i < 3; i++) __CPROVER_assume(mn[i] >= 0 && mn[i] < 4 && mt[i] >= 0 && mt[i] < 400);
    w07s_init(d, ty, on, ot, pos);
    w07s_dot_process(nmem, mn, mt, mapped, tn, pn, id);
    int idx = -1;
    for (int i = 2; i >= 0; i--) if (i < nmem && mn[i] == id) idx = i;
    __CPROVER_assert(w07s_depth() == w07s_depth0() && w07s_top_frame() == w07s_top0(), "c07.expr_dot.process:the-scope-stack-is-unchanged");
    if (idx < 0) {
        __CPROVER_assert(verif_no_member == 1 && verif_errors == 1 && w07s_dot_result(0), "c07.expr_dot.process:an-unknown-member-is-reported-and-nothing-is-bound");
        __CPROVER_assert(0, "reach:unknown-member");
    } else {
        __CPROVER_assert(verif_errors == 0 && w07s_dot_result(1) == K_DOT && w07s_dot_result(2) == idx && w07s_dot_result(3), "c07.expr_dot.process:P.x-is-the-member-named-x-of-P's-template");
        if ((mt[idx] >> 1) == K_LOCATION) {
            __CPROVER_assert(w07s_dot_result(4) == K_BOOL * 2, "c07.expr_dot.process:a-location-member-is-a-boolean-test");
            __CPROVER_assert(0, "reach:location-member");
        } else {
            __CPROVER_assert(w07s_dot_result(13) == mt[idx], "c07.expr_dot.process:the-type-is-derived-from-the-declared-type-of-that-member");
            __CPROVER_assert(w07s_dot_result(12) == 1 && w07s_dot_result(11), "c07.expr_dot.process:qualified-names-are-re-qualified-from-the-template-to-the-process-first");
            int nmapped = 0;
            for (int k = 0; k < 3; k++) {
                int m = (mapped >> k) & 1;
                nmapped += m;
                __CPROVER_assert(w07s_dot_result(20 + k) == m && (!m || w07s_dot_result(30 + k)), "c07.expr_dot.process:every-bound-parameter-of-P-is-substituted-by-its-argument-exactly-once");
            }
            __CPROVER_assert(w07s_dot_result(40) == 0 && w07s_dot_result(10) == 1 + nmapped, "c07.expr_dot.process:nothing-else-is-substituted");
            if (nmapped == 3) __CPROVER_assert(0, "reach:three-bindings");
            if (nmapped == 0) __CPROVER_assert(0, "reach:no-binding");
        }
    }
    REACH;
}

/* ---- part 3: StatementBuilder scopes -------------------------------------------------------------------------------- */
void w07b_init(int d, int body_level, int nblocks, int blk_level, int type_id);
void w07b_call(int which, int name);
void w07b_push_body(void);
int w07b_depth(void);
int w07b_top(void);
int w07b_top_parent(void);
int w07b_top_nsym(void);
int w07b_top_sym(int what);
int w07b_depth0(void);
int w07b_top0(void);
int w07b_nblocks(void);
int w07b_innermost_block_frame(void);
int w07b_last_stat(int what);
int w07b_block_count(void);

void h_c07_scope_iteration(void)
{
    int d, bl, nb, kl, ty, name;
    __CPROVER_assume(d >= 1 && d <= 4 && bl >= 0 && bl < d && (nb == 0 || nb == 1) && kl >= 0 && kl < d && ty >= 0 && ty < 400 && name >= 0 && name < 4);
    w07b_init(d, bl, nb, kl, ty);
    int depth0 = w07b_depth0(), top0 = w07b_top0(), cnt0 = w07b_block_count();
    w07b_call(0, name);
    __CPROVER_assert(w07b_depth() == depth0 + 1, "c07.iteration.begin-opens-one-scope");
    __CPROVER_assert(w07b_top_parent() == top0, "c07.iteration.the-loop's-scope-is-nested-in-the-INNERMOST-current-scope-(not-in-the-enclosing-block's)");
    __CPROVER_assert(w07b_top_nsym() == 1 && w07b_top_sym(1) == name && w07b_top_sym(2) == (ty | 1), "c07.iteration.it-declares-exactly-the-loop-variable,-constant");
    __CPROVER_assert(w07b_block_count() == cnt0 + 1 && w07b_last_stat(0) == 2 && w07b_last_stat(1) == w07b_top() && w07b_last_stat(2) == w07b_top_sym(0),
                     "c07.iteration.the-loop-statement-keeps-the-scope-and-the-variable");
    w07b_push_body();
    w07b_call(1, name);
    __CPROVER_assert(w07b_depth() == depth0 && w07b_top() == top0, "c07.iteration.end-closes-exactly-the-scope-begin-opened");
    __CPROVER_assert(w07b_block_count() == cnt0 + 1 && w07b_last_stat(0) == 2 && w07b_last_stat(3), "c07.iteration.the-body-is-attached-to-the-loop");
    REACH;
}
void h_c07_scope_block(void)
{
    int d, bl, nb, kl, ty;
    __CPROVER_assume(d >= 1 && d <= 4 && bl >= 0 && bl < d && (nb == 0 || nb == 1) && kl >= 0 && kl < d && ty >= 0 && ty < 400);
    w07b_init(d, bl, nb, kl, ty);
    int depth0 = w07b_depth0(), top0 = w07b_top0(), nb0 = w07b_nblocks(), cnt0 = w07b_block_count();
    w07b_call(2, 0);
    __CPROVER_assert(w07b_depth() == depth0 + 1 && w07b_top_parent() == top0, "c07.block.begin-opens-one-scope-nested-in-the-current-one");
    __CPROVER_assert(w07b_nblocks() == nb0 + 1 && w07b_innermost_block_frame() == w07b_top(), "c07.block.the-new-block-owns-the-new-scope");
    int inner = w07b_top();
    w07b_call(3, 0);
    __CPROVER_assert(w07b_depth() == depth0 && w07b_top() == top0, "c07.block.end-closes-exactly-the-scope-begin-opened");
    __CPROVER_assert(w07b_nblocks() == nb0 && w07b_block_count() == cnt0 + 1 && w07b_last_stat(0) == 1 && w07b_last_stat(4) == inner, "c07.block.the-finished-block-is-appended-to-the-containing-block");
    REACH;
}
