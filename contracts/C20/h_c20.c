/* C20 kernel harness (mode H): the events the writer sends to libxml2 for a location, the init reference, a transition
   and a whole template mirror the document objects (statement of the property). */
#include "lit_ids.h"
#include "xw_members.h"
#define REACH __CPROVER_assert(0, "reach")
extern int verif_thrown;
enum { VS_LIT = 1, VS_EXPR, VS_EXPR_TAIL, VS_SYMNAME, VS_NUM, VS_IDREF, VS_NUMCAT, VS_SELECT, VS_OTHER, VS_PREFIX5 };
enum { F_IS_ONE = 1, F_ONE_AND_PREFIX = 2, F_IS_ERR = 4, F_IS_LPMIN = 8, F_ONE_AND_INSIDE = 16 };
enum { EV_START = 1, EV_END, EV_ATTR, EV_ELEM, EV_STR };
void w20_reset(void);
void w20_location_set(int i, int nr, int sym, unsigned nameflags, int committed, int urgent, int inv, unsigned invf, int rate, unsigned ratef);
void w20_edge_set(int i, int src, int dst, int control, int nsel, int guard, unsigned gf, int sync, unsigned sf, int assign, unsigned af, int prob, unsigned pf);
void w20_template_set(int is_ta, int nloc, int nedge, int init_loc);
void w20_call(int which, int i);
void w20_member_set(int i, int v);
int w20_member_get(int i);
int w20_nev(void);
int w20_balanced(void);
int w20_starts(int lit);
int w20_attr(int elem, int attr, int what);
int w20_text(int elem, int what);
int w20_label(int kind, int what);
int w20_ev(int i, int what);
#ifndef MAXEV
#define MAXEV 64
#endif
#define OP(i) w20_ev(i, 0)
#define NAME(i) w20_ev(i, 1)
#define VTAG(i) w20_ev(i, 2)
#define VA(i) w20_ev(i, 3)

static int balanced(int n) { (void)n; return w20_balanced(); }
static int count_start(int n, int lit) { (void)n; return w20_starts(lit); }
/* attribute `lit` = (vtag, va) on the element that is open when it is written; the elements that carry id / ref / controllable */
static int has_attr(int n, int lit, int vtag, int va)
{
    (void)n;
    const int elems[5] = {LIT_LOCATION, LIT_SOURCE, LIT_TARGET, LIT_INIT, LIT_TRANSITION};
    for (int i = 0; i < 5; i++)
        if (w20_attr(elems[i], lit, 0) >= 1 && w20_attr(elems[i], lit, 1) == vtag && w20_attr(elems[i], lit, 2) == va) return 1;
    return 0;
}
/* <label kind="K" ...>text</label> */
static int has_label(int n, int kind, int vtag, int va)
{
    (void)n;
    if (w20_label(kind, 0) < 1 || w20_label(kind, 1) != vtag) return 0;
    return w20_label(kind, 2) == va || (w20_label(kind, 0) >= 2 && w20_label(kind, 3) == va);
}
static int count_labels(int n, int kind) { (void)n; return w20_label(kind, 0); }
/* a label for expression e (non-empty, text other than "1"): the text, or the text without its "1 && " prefix */
static int expr_label_ok(int n, int kind, int e, unsigned f)
{
    if (e == 0 || (f & F_IS_ONE)) return 1;
    return has_label(n, kind, (f & F_ONE_AND_PREFIX) ? VS_EXPR_TAIL : VS_EXPR, e);
}
/* The writer's state: every scalar data member of the real class XMLWriter holds an arbitrary small value.  The id a location
   is written with may depend on that state; what the property needs is that the same state gives every location of a template
   its own id and that init / source / target refer to a location by exactly the id location() wrote for it. */
struct wstate { int m[4]; };
static struct wstate any_state(void)
{
    struct wstate s;
    for (int i = 0; i < 4; i++) { __CPROVER_assume(s.m[i] >= 0 && s.m[i] <= 1000); if (i >= XW_NMEMB) s.m[i] = 0; }
    return s;
}
static void enter(const struct wstate* s)
{
    w20_reset();
    for (int i = 0; i < XW_NMEMB; i++) w20_member_set(i, s->m[i]);
}
static int state_kept(const struct wstate* s)
{
    for (int i = 0; i < XW_NMEMB; i++) if (w20_member_get(i) != s->m[i]) return 0;
    return 1;
}
/* the id number the REAL location() writes for location i in state s (-1: no id<number> attribute) */
static int id_written_for(const struct wstate* s, int i)
{
    enter(s);
    w20_call(0, i);
    if (w20_attr(LIT_LOCATION, LIT_ID, 0) != 1 || w20_attr(LIT_LOCATION, LIT_ID, 1) != VS_IDREF) return -1;
    return w20_attr(LIT_LOCATION, LIT_ID, 2);
}
struct loc { int nr, sym, com, urg, inv, rate; unsigned nf, invf, ratef; };
static struct loc any_loc(int i, int nr)
{
    struct loc l;
    __CPROVER_assume(l.sym >= 1 && l.sym <= 4 && (l.com == 0 || l.com == 1) && (l.urg == 0 || l.urg == 1) && l.inv >= 0 && l.inv < 50 && l.rate >= 0 && l.rate < 50);
    __CPROVER_assume(l.nf < 16 && (l.invf == 0 || l.invf == 1 || l.invf == 2 || l.invf == 16) && (l.ratef == 0 || l.ratef == 1 || l.ratef == 2 || l.ratef == 16));
    l.nr = nr;
    w20_location_set(i, nr, l.sym, l.nf, l.com, l.urg, l.inv, l.invf, l.rate, l.ratef);
    return l;
}
void h_c20_location(void)
{
    struct wstate s = any_state();
    int nr, nr2; __CPROVER_assume(nr >= 0 && nr <= 3 && nr2 >= 0 && nr2 <= 3 && nr2 != nr);
    struct loc l = any_loc(0, nr), l2 = any_loc(1, nr2);
    __CPROVER_assume(l.sym != l2.sym);
    int id2 = id_written_for(&s, 1);
    enter(&s);
    w20_call(0, 0);
    int n = w20_nev();
    __CPROVER_assert(verif_thrown == 0 && n >= 2 && OP(0) == EV_START && NAME(0) == LIT_LOCATION && OP(n - 1) == EV_END && balanced(n), "c20.location.one-well-nested-location-element");
    __CPROVER_assert(count_start(n, LIT_LOCATION) == 1, "c20.location.exactly-one-location-element");
    int id1 = (w20_attr(LIT_LOCATION, LIT_ID, 0) == 1 && w20_attr(LIT_LOCATION, LIT_ID, 1) == VS_IDREF) ? w20_attr(LIT_LOCATION, LIT_ID, 2) : -1;
    __CPROVER_assert(id1 >= 0 && id2 >= 0 && id1 != id2, "c20.location.id-attribute-is-id<number>,-different-for-locations-with-different-numbers");
    __CPROVER_assert(state_kept(&s), "harness: the writer's scalar state is modelled as unchanged by location() (frame the composition of the id lemmas needs; not part of the property: a failure makes the job undecided)");
    int named = w20_starts(LIT_NAME) == 1 && w20_text(LIT_NAME, 0) == 1 && w20_text(LIT_NAME, 1) == VS_SYMNAME && w20_text(LIT_NAME, 2) == l.sym;
    __CPROVER_assert(named, "c20.location.name-element-carries-the-location's-name");
    __CPROVER_assert(expr_label_ok(n, LIT_INVARIANT, l.inv, l.invf), "c20.location.invariant-label-carries-the-text-of-the-invariant");
    __CPROVER_assert(expr_label_ok(n, LIT_EXPONENTIALRATE, l.rate, l.ratef), "c20.location.rate-label-carries-the-text-of-the-rate");
    __CPROVER_assert(count_start(n, LIT_COMMITTED) == (l.com ? 1 : 0) && count_start(n, LIT_URGENT) == ((l.urg && !l.com) ? 1 : 0), "c20.location.committed/urgent-marker");
    REACH;
}
void h_c20_init(void)
{
    struct wstate s = any_state();
    struct loc a = any_loc(0, 0), b = any_loc(1, 1);
    __CPROVER_assume(a.sym != b.sym);
    int k; __CPROVER_assume(k == 0 || k == 1);
    w20_template_set(1, 2, 0, k);
    int idk = id_written_for(&s, k);
    enter(&s);
    w20_call(1, 0);
    int n = w20_nev();
    __CPROVER_assert(n == 3 && OP(0) == EV_START && NAME(0) == LIT_INIT && OP(1) == EV_ATTR && NAME(1) == LIT_REF && VTAG(1) == VS_IDREF && idk >= 0 && VA(1) == idk && OP(2) == EV_END,
                     "c20.init.exactly-one-init-element-referring-to-the-initial-location");
    __CPROVER_assert(state_kept(&s), "harness: the writer's scalar state is modelled as unchanged by init() (frame the composition of the id lemmas needs; not part of the property: a failure makes the job undecided)");
    REACH;
}
#define OKF(f) ((f) == 0 || (f) == 1 || (f) == 2 || (f) == 16)
struct edge { int src, dst, control, nsel, guard, sync, assign, prob; unsigned gf, sf, af, pf; };
static struct edge any_edge(int i, int allow_bp)
{
    struct edge e;
    __CPROVER_assume(e.src >= (allow_bp ? -1 : 0) && e.src <= 1 && e.dst >= (allow_bp ? -1 : 0) && e.dst <= 1 && (e.control == 0 || e.control == 1) && e.nsel >= 0 && e.nsel <= 2);
    __CPROVER_assume(e.guard >= 0 && e.guard < 50 && e.sync >= 0 && e.sync < 50 && e.assign >= 0 && e.assign < 50 && e.prob >= 0 && e.prob < 50);
    __CPROVER_assume(OKF(e.gf) && OKF(e.sf) && OKF(e.af) && OKF(e.pf));
    w20_edge_set(i, e.src, e.dst, e.control, e.nsel, e.guard, e.gf, e.sync, e.sf, e.assign, e.af, e.prob, e.pf);
    return e;
}
static void transition(int kf_class)
{
    struct wstate s = any_state();
    struct loc a = any_loc(0, 0), b = any_loc(1, 1);
    __CPROVER_assume(a.sym != b.sym);
    struct edge e = any_edge(0, 0);
    int ids[2];
    ids[0] = id_written_for(&s, 0);
    ids[1] = id_written_for(&s, 1);
    enter(&s);
#ifdef EXCLUDE_KF
    __CPROVER_assume(!KF1_CLASS(e) && !KF2_CLASS(e) && !KF3_CLASS(e));
#endif
    (void)kf_class;
    w20_call(2, 0);
    int n = w20_nev();
    __CPROVER_assert(verif_thrown == 0 && n >= 2 && OP(0) == EV_START && NAME(0) == LIT_TRANSITION && OP(n - 1) == EV_END && balanced(n), "c20.transition.one-well-nested-transition-element");
    __CPROVER_assert(w20_starts(LIT_SOURCE) == 1 && w20_attr(LIT_SOURCE, LIT_REF, 0) == 1 && w20_attr(LIT_SOURCE, LIT_REF, 1) == VS_IDREF && ids[e.src] >= 0 && w20_attr(LIT_SOURCE, LIT_REF, 2) == ids[e.src],
                     "c20.transition.source-refers-to-the-edge's-source-location");
    __CPROVER_assert(w20_starts(LIT_TARGET) == 1 && w20_attr(LIT_TARGET, LIT_REF, 0) == 1 && w20_attr(LIT_TARGET, LIT_REF, 1) == VS_IDREF && ids[e.dst] >= 0 && w20_attr(LIT_TARGET, LIT_REF, 2) == ids[e.dst],
                     "c20.transition.target-refers-to-the-edge's-target-location");
    __CPROVER_assert(expr_label_ok(n, LIT_GUARD, e.guard, e.gf), "c20.transition.guard-label-carries-the-text-of-the-guard");
    __CPROVER_assert(expr_label_ok(n, LIT_SYNCHRONISATION, e.sync, e.sf), "c20.transition.synchronisation-label-carries-the-text-of-the-sync");
    __CPROVER_assert(expr_label_ok(n, LIT_ASSIGNMENT, e.assign, e.af), "c20.transition.assignment-label-carries-the-text-of-the-update");
    __CPROVER_assert(expr_label_ok(n, LIT_PROBABILITY, e.prob, e.pf), "c20.transition.probability-label-carries-the-text-of-the-probability");
    __CPROVER_assert(e.nsel == 0 || has_label(n, LIT_SELECT, VS_SELECT, 6), "c20.transition.select-label-for-the-first-select");
    __CPROVER_assert(count_labels(n, LIT_SELECT) == (e.nsel > 0) || e.nsel < 2, "c20.transition.every-select-is-written");
    __CPROVER_assert(e.nsel < 2 || has_label(n, LIT_SELECT, VS_SELECT, 7) || count_labels(n, LIT_SELECT) >= 2, "c20.transition.the-second-select-is-written");
    __CPROVER_assert(state_kept(&s), "harness: the writer's scalar state is modelled as unchanged by transition() (frame the composition of the id lemmas needs; not part of the property: a failure makes the job undecided)");
    __CPROVER_assert(e.control || (w20_attr(LIT_TRANSITION, LIT_CONTROLLABLE, 0) >= 1 && w20_attr(LIT_TRANSITION, LIT_CONTROLLABLE, 2) == LIT_FALSE), "c20.transition.controllable-attribute-reflects-an-uncontrollable-edge");
    REACH;
}
void h_c20_transition(void) { transition(0); }

void h_c20_transition_branchpoint(void)
{
    struct wstate s = any_state();
    enter(&s);
    struct loc a = any_loc(0, 0), b = any_loc(1, 1);
    struct edge e = any_edge(0, 1);
#ifdef EXCLUDE_KF
    __CPROVER_assume(!KF4_CLASS(e));
#endif
    w20_call(2, 0);
    __CPROVER_assert(verif_thrown == 0, "c20.transition.writing-an-edge-never-crashes");
    REACH;
}
/* the shape (number of locations and edges, end points) is concrete per entry so that the trace unfolds deterministically;
   the content of locations and transitions is the subject of the jobs above */
static void template_shape(int ta, int nl, int ne, int k, int s0, int d0, int s1, int d1)
{
    struct wstate s = any_state();
    enter(&s);
    w20_location_set(0, 0, 1, 0, 0, 0, 0, 0, 0, 0);
    w20_location_set(1, 1, 2, 0, 0, 0, 0, 0, 0, 0);
    w20_edge_set(0, s0, d0, 1, 0, 0, 0, 0, 0, 0, 0, 0, 0);
    w20_edge_set(1, s1, d1, 1, 0, 0, 0, 0, 0, 0, 0, 0, 0);
    w20_template_set(ta, nl, ne, k);
    w20_call(3, 0);
    int n = w20_nev();
    if (!ta) { __CPROVER_assert(n == 0, "c20.template.non-TA-templates-are-skipped"); return; }
    __CPROVER_assert(n >= 2 && OP(0) == EV_START && NAME(0) == LIT_TEMPLATE && OP(n - 1) == EV_END && balanced(n), "c20.template.one-well-nested-template-element");
    __CPROVER_assert(count_start(n, LIT_LOCATION) == nl, "c20.template.one-location-element-per-location");
    /* the ids as written: the attribute event right after the start of the j-th location element */
    int lid[2] = {-1, -1}, nlid = 0;
    for (int i = 0; i + 1 < MAXEV; i++) if (i + 1 < n && OP(i) == EV_START && NAME(i) == LIT_LOCATION && nlid < 2) {
        if (OP(i + 1) == EV_ATTR && NAME(i + 1) == LIT_ID && VTAG(i + 1) == VS_IDREF) lid[nlid] = VA(i + 1);
        nlid++;
    }
    __CPROVER_assert(lid[0] >= 0 && (nl < 2 || (lid[1] >= 0 && lid[1] != lid[0])), "c20.template.every-location-element-has-its-own-id");
    __CPROVER_assert(count_start(n, LIT_INIT) == 1 && has_attr(n, LIT_REF, VS_IDREF, lid[k]), "c20.template.exactly-one-init-reference-to-the-initial-location");
    __CPROVER_assert(count_start(n, LIT_TRANSITION) == ne, "c20.template.one-transition-per-edge");
    int last_loc = -1, init_at = -1, first_tr = MAXEV, tr0 = -1, tr1 = -1;
    for (int i = 0; i < MAXEV; i++) if (i < n && OP(i) == EV_START) {
        if (NAME(i) == LIT_LOCATION) last_loc = i;
        if (NAME(i) == LIT_INIT) init_at = i;
        if (NAME(i) == LIT_TRANSITION) { if (first_tr == MAXEV) first_tr = i; if (tr0 < 0) tr0 = i; else if (tr1 < 0) tr1 = i; }
    }
    __CPROVER_assert(last_loc < init_at && init_at < first_tr, "c20.template.locations,-then-init,-then-transitions");
    if (ne == 2) __CPROVER_assert(VA(tr0 + 2) == lid[s0] && VA(tr0 + 5) == lid[d0] && VA(tr1 + 2) == lid[s1] && VA(tr1 + 5) == lid[d1], "c20.template.transitions-are-written-in-edge-order");
}
void h_c20_template(void)
{
    int shape;
    if (shape == 0) template_shape(0, 2, 2, 0, 0, 1, 1, 0);
    else if (shape == 1) template_shape(1, 1, 0, 0, 0, 0, 0, 0);
    else if (shape == 2) template_shape(1, 2, 1, 1, 0, 1, 0, 0);
    else if (shape == 3) template_shape(1, 2, 2, 0, 0, 1, 1, 0);
    else if (shape == 4) template_shape(1, 2, 2, 1, 1, 0, 0, 1);
    else template_shape(1, 1, 2, 0, 0, 0, 0, 0);
    REACH;
}

/* writing the declarations never crashes: the bounds of a range type are arbitrary integer expressions (the built-in
   typedefs use the constants INT8_MIN ...), not only literals */
void w20_print_declaration(int which, int lo_kind, int lo_integral, int lo_value, int hi_kind, int hi_integral, int hi_value);
#include "kinds.h"
void h_c20_print_declaration(void)
{
    int which, lk, li, lv, hk, hi, hv;
    __CPROVER_assume(which >= 0 && which <= 4 && VALID_KIND(lk) && VALID_KIND(hk) && (li == 0 || li == 1) && (hi == 0 || hi == 1));
    /* range bounds that passed the type checker are integer expressions: literals have an integral type */
    __CPROVER_assume(lk != K_CONSTANT || li);
    __CPROVER_assume(hk != K_CONSTANT || hi);
    w20_print_declaration(which, lk, li, lv, hk, hi, hv);
    REACH;
}
