/* C20 kernel: the REAL element/attribute wrappers and the REAL template-graph functions of src/xmlwriter.cpp
   (startElement, endElement, writeElement, writeString, xmlwriteString, writeAttribute, label, name,
   writeStateAttributes, location, init, source, target, selfLoop, nail, transition, labels, taTempl) over a TRUSTED
   environment: the libxml2 text-writer API appends to a ghost event trace; strings are handles into a table of
   origin-tagged values (literal / text of expression e / name of symbol s / decimal number n / "id"+n ...), so "the
   label carries the text of the guard" means "the string written is the value guard.str() returned". */
#include <cstdint>
#include <cassert>
#include "utap/common.h"
extern "C" {
int verif_thrown;
}
#define VERIF_THROW_VOID do { verif_thrown = 1; return; } while (0)

enum { VS_LIT = 1, VS_EXPR, VS_EXPR_TAIL, VS_SYMNAME, VS_NUM, VS_IDREF, VS_NUMCAT, VS_SELECT, VS_OTHER, VS_PREFIX5 };
enum { F_IS_ONE = 1, F_ONE_AND_PREFIX = 2, F_IS_ERR = 4, F_IS_LPMIN = 8, F_ONE_AND_INSIDE = 16 /* contains "1 && " but not as its prefix */ };
struct strrec { int tag; int a; unsigned flags; };
typedef unsigned char xmlChar;
#include "lit_ids.h" /* GENERATED: LIT_<name> ids of the string literals of the slices */
#define NLITTAB 1024
static strrec littab[NLITTAB];
static const strrec* rec_of(const void* p) { return (const strrec*)p; }
/* rule L14: every string literal "text" in a slice becomes verif_lit(id, "text"): a C string whose identity is the literal */
static const char* verif_lit(int id, const char*)
{
    unsigned f = 0;
    if (id == LIT_ONE) f |= F_IS_ONE;
    if (id == LIT_ERR) f |= F_IS_ERR;
    if (id == LIT_LPMIN) f |= F_IS_LPMIN;
    littab[id].tag = VS_LIT; littab[id].a = id; littab[id].flags = f;
    return (const char*)&littab[id];
}
namespace std {
/* std::string_view over a literal */
struct string_view
{
    strrec r;
    string_view(const char* p) { r = *rec_of(p); }
    size_t size() const { return r.tag == VS_LIT && r.a == LIT_ONE_AND ? 5 : 8; }
};
/* a string is its origin-tagged value; c_str() points at the value (valid while the string object lives, as in C++) */
class string
{
public:
    strrec r;
    string() { r.tag = VS_OTHER; r.a = 0; r.flags = 0; }
    string(const char* p) { r = *rec_of(p); }
    const char* c_str() const { return (const char*)&r; }
    size_t size() const { return 8; }
    static const size_t npos = (size_t)-1;
    /* find("1 && "): 0 if it is the prefix, some later position if it only occurs inside, npos otherwise */
    size_t find(const char* lit) const
    {
        if (rec_of(lit)->tag == VS_LIT && rec_of(lit)->a == LIT_ONE_AND) {
            if (r.flags & F_ONE_AND_PREFIX) return 0;
            if (r.flags & F_ONE_AND_INSIDE) return 3;
        }
        return npos;
    }
    size_t find(const string_view& v) const
    {
        if (v.r.tag == VS_LIT && v.r.a == LIT_ONE_AND) {
            if (r.flags & F_ONE_AND_PREFIX) return 0;
            if (r.flags & F_ONE_AND_INSIDE) return 3;
        }
        return npos;
    }
    /* erase(0, 5): drop the first five characters */
    string& erase(size_t pos, size_t n)
    {
        if (pos == 0 && n == 5 && r.tag == VS_EXPR) { r.tag = VS_EXPR_TAIL; r.flags = 0; }
        else { r.tag = VS_OTHER; r.flags = 0; }
        return *this;
    }
    string substr(size_t from, size_t n) const
    {
        string x;
        if (from == 0 && n == 5) { x.r.tag = VS_PREFIX5; x.r.a = r.a; x.r.flags = (r.flags & F_ONE_AND_PREFIX) ? F_ONE_AND_PREFIX : 0; }
        else if (from == 5 && r.tag == VS_EXPR) { x.r.tag = VS_EXPR_TAIL; x.r.a = r.a; x.r.flags = 0; }
        return x;
    }
    bool operator==(const char* lit) const;
    bool operator!=(const char* lit) const;
    string operator+(const char* lit) const;
    string& operator+=(const string& o) { (void)o; r.tag = VS_SELECT; r.flags = 0; return *this; }
};
inline bool verif_str_eq_lit(const string& x, const char* lit)
{
    const strrec& l = *rec_of(lit);
    const strrec& s = x.r;
    if (l.tag != VS_LIT) return false;
    if (l.a == LIT_ONE) return (s.flags & F_IS_ONE) != 0;
    if (l.a == LIT_ONE_AND) return s.tag == VS_PREFIX5 && (s.flags & F_ONE_AND_PREFIX) != 0;
    if (l.a == LIT_ERR) return (s.flags & F_IS_ERR) != 0;
    if (l.a == LIT_LPMIN) return (s.flags & F_IS_LPMIN) != 0;
    return s.tag == VS_LIT && s.a == l.a;
}
inline bool string::operator==(const char* lit) const { return verif_str_eq_lit(*this, lit); }
inline bool string::operator!=(const char* lit) const { return !verif_str_eq_lit(*this, lit); }
inline string string::operator+(const char*) const { string x; x.r.tag = VS_SELECT; x.r.a = r.a; return x; }
inline string to_string(int n) { string x; x.r.tag = VS_NUM; x.r.a = n; return x; }
inline double cos(double) { double r; __CPROVER_assume(r >= -1.0 && r <= 1.0); return r; }
inline double sin(double) { double r; __CPROVER_assume(r >= -1.0 && r <= 1.0); return r; }
/* std::map<int,int> selfLoops */
struct verif_intmap
{
    int val[4];
    void clear() { for (int i = 0; i < 4; i++) val[i] = 0; }
    int& operator[](int k) { __CPROVER_assert(k >= 0 && k < 4, "stub: location number in range"); return val[k]; }
};
}  // namespace std
using std::string;
#define M_PI 3.14159265358979323846
#define M_PI_2 1.57079632679489661923
/* concat(prefix, n): "id" + n is a location reference, "" + n a coordinate */
static std::string concat(const char* prefix, int n)
{
    std::string x;
    x.r.tag = rec_of(prefix)->a == LIT_ID ? VS_IDREF : VS_NUMCAT;
    x.r.a = n;
    return x;
}
/* ---- libxml2 text writer: ghost trace -------------------------------------------------------------------------- */
enum { EV_START = 1, EV_END, EV_ATTR, EV_ELEM, EV_STR };
struct event { int op; int name; int vtag; int va; };
#define NEV 96
static event ev[NEV];
static int nev;
/* aggregated ghosts (queries in O(1), independent of event positions) */
#define NLIT 64
static int g_stack[8], g_depth, g_underflow;
static int g_start_count[NLIT];
#define NSLOT 6
static int g_attr_n[NSLOT], g_attr_vtag[NSLOT], g_attr_va[NSLOT]; /* the (open element, attribute) pairs the property talks about */
static int attr_slot(int elem, int attr)
{
    if (elem == LIT_LOCATION && attr == LIT_ID) return 0;
    if (elem == LIT_SOURCE && attr == LIT_REF) return 1;
    if (elem == LIT_TARGET && attr == LIT_REF) return 2;
    if (elem == LIT_INIT && attr == LIT_REF) return 3;
    if (elem == LIT_TRANSITION && attr == LIT_CONTROLLABLE) return 4;
    if (elem == LIT_LABEL && attr == LIT_KIND) return 5;
    return -1;
}
static int g_text_n[NLIT], g_text_vtag[NLIT], g_text_va[NLIT];                    /* text written directly inside element */
static int g_label_n[NLIT], g_label_vtag[NLIT], g_label_va[NLIT], g_label_va2[NLIT]; /* per label kind; va2 = text of the 2nd label of that kind */
static int g_cur_label_kind;
/* libxml2's writer state (xmlwriter.c): attributes are accepted only while the start tag of the current element is still
   open, i.e. before any text or child element has been written into it; otherwise the call returns -1 and writes nothing.
   Closing an element that was never opened returns -1 as well. */
static int g_tag_open;
static int rec(int op, const void* name, const void* val)
{
    if (op == EV_ATTR && !(g_depth > 0 && g_tag_open)) return -1;
    if (op == EV_END && g_depth == 0) { g_underflow = 1; return -1; }
    g_tag_open = (op == EV_START || (op == EV_ATTR && g_tag_open));
    __CPROVER_assert(nev < NEV, "stub: trace capacity");
    int nm = name ? rec_of(name)->a : 0;
    int vt = val ? rec_of(val)->tag : 0;
    int va = val ? rec_of(val)->a : 0;
    ev[nev].op = op; ev[nev].name = nm; ev[nev].vtag = vt; ev[nev].va = va;
    nev++;
    __CPROVER_assert(nm >= 0 && nm < NLIT, "stub: literal id in range");
    int top = g_depth > 0 ? g_stack[g_depth - 1] : 0;
    if (op == EV_START) {
        __CPROVER_assert(g_depth < 8, "stub: element nesting depth");
        g_stack[g_depth] = nm; g_depth++; g_start_count[nm]++;
        if (nm == LIT_LABEL) g_cur_label_kind = 0;
    } else if (op == EV_END) {
        if (g_depth == 0) g_underflow = 1; else g_depth--;
    } else if (op == EV_ATTR) {
        int sl = attr_slot(top, nm);
        if (sl >= 0) { g_attr_n[sl]++; g_attr_vtag[sl] = vt; g_attr_va[sl] = va; }
        if (top == LIT_LABEL && nm == LIT_KIND && vt == VS_LIT && va >= 0 && va < NLIT) g_cur_label_kind = va;
    } else if (op == EV_STR) {
        g_text_n[top]++; g_text_vtag[top] = vt; g_text_va[top] = va;
        if (top == LIT_LABEL) {
            int k = g_cur_label_kind;
            if (g_label_n[k] == 0) { g_label_vtag[k] = vt; g_label_va[k] = va; } else { g_label_va2[k] = va; }
            g_label_n[k]++;
        }
    } else if (op == EV_ELEM) {
        g_start_count[nm]++;
    }
    return 0;
}
typedef int* xmlTextWriterPtr;
static int g_fail; /* apart from its state machine (g_tag_open, depth) libxml2 never fails here: out-of-memory / I/O failures are not modelled */
static int xmlTextWriterStartElement(xmlTextWriterPtr, const xmlChar* n) { return rec(EV_START, n, 0); }
static int xmlTextWriterEndElement(xmlTextWriterPtr) { return rec(EV_END, 0, 0); }
static int xmlTextWriterWriteElement(xmlTextWriterPtr, const xmlChar* n, const xmlChar* c) { return rec(EV_ELEM, n, c); }
static int xmlTextWriterWriteString(xmlTextWriterPtr, const xmlChar* d) { return rec(EV_STR, 0, d); }
static int xmlTextWriterWriteAttribute(xmlTextWriterPtr, const xmlChar* n, const xmlChar* v) { return rec(EV_ATTR, n, v); }
static xmlChar* ConvertInput(const char* in, const char*) { return (xmlChar*)in; } /* re-encoding keeps the text */
static void xmlFree(void*) {}
struct XMLWriterError { XMLWriterError(const char*) {} };

namespace UTAP {
using namespace Constants;
struct type_t
{
    bool committed, urgent;
    int nlab;
    bool is(kind_t k) const { return k == COMMITTED ? committed : k == URGENT ? urgent : false; }
    size_t size() const { return (size_t)nlab; }
    type_t operator[](uint32_t) const { return *this; }
    string get_label(uint32_t) const { return string(); }
};
struct symrec { unsigned flags; type_t type; void* data; };
static symrec symtab[8];
struct symbol_t
{
    int id;
    symbol_t(): id(0) {}
    string get_name() const { string x; x.r.tag = VS_SYMNAME; x.r.a = id; x.r.flags = symtab[id].flags; return x; }
    type_t get_type() const { return symtab[id].type; }
    const void* get_data() const { return symtab[id].data; }
};
struct expression_t
{
    int id; /* 0 = empty */
    unsigned flags;
    expression_t(): id(0), flags(0) {}
    bool empty() const { return id == 0; }
    string str() const { string x; x.r.tag = VS_EXPR; x.r.a = id; x.r.flags = flags; return x; }
};
struct frame_t
{
    int n;
    symbol_t syms[2];
    uint32_t get_size() const { return (uint32_t)n; }
    symbol_t operator[](uint32_t i) const { __CPROVER_assert(i < (uint32_t)n, "stub: frame index"); return syms[i]; }
};
struct location_t { symbol_t uid; int32_t nr; expression_t invariant, exp_rate; };
struct branchpoint_t { symbol_t uid; int32_t bpNr; };
struct edge_t
{
    int nr;
    bool control;
    location_t* src; branchpoint_t* srcb; location_t* dst; branchpoint_t* dstb;
    frame_t select;
    expression_t guard, assign, sync, prob;
};
template <typename T>
struct verif_list
{
    T* ptr[3];
    int n;
    T** begin() { return &ptr[0]; }
    T** end() { return &ptr[0] + n; }
    size_t size() const { return (size_t)n; }
    bool empty() const { return n == 0; }
};
struct template_t
{
    bool is_TA;
    symbol_t uid, init;
    verif_list<location_t> locations;
    verif_list<edge_t> edges;
    string parameters_str() const { string x; x.r.a = 1; return x; }
    string str(bool) const { string x; x.r.a = 2; return x; }
};
class Document;
#include "xmlwriter_class.inc" /* REAL class XMLWriter, lowered */
}  // namespace UTAP
using namespace UTAP;
#define MY_ENCODING verif_lit(LIT_UTF8, "utf-8")
#define ERR_STATE_COLOR verif_lit(LIT_ERRCOLOR, "#ff6666")
#define SELF_LOOP_RADIUS 80
#define STEP 120
#include "xmlwriter_funcs.inc" /* REAL functions, lowered */

static XMLWriter W;
static location_t L[3];
static branchpoint_t B;
static edge_t E[2];
static template_t TPL;
#include "xw_members.inc" /* GENERATED: access to the scalar data members of the real class */
extern "C" {
void w20_reset(void)
{
    nev = 0; verif_thrown = 0; W.selfLoops.clear();
    g_depth = 0; g_underflow = 0; g_cur_label_kind = 0; g_tag_open = 0;
    for (int i = 0; i < NLIT; i++) {
        g_start_count[i] = 0; g_text_n[i] = 0; g_label_n[i] = 0; g_label_va2[i] = 0;
    }
    for (int j = 0; j < NSLOT; j++) g_attr_n[j] = 0;
}
int w20_balanced(void) { return g_depth == 0 && !g_underflow; }
int w20_starts(int lit) { return g_start_count[lit]; }
int w20_attr(int elem, int attr, int what)
{
    int sl = attr_slot(elem, attr);
    if (sl < 0) return 0;
    return what == 0 ? g_attr_n[sl] : what == 1 ? g_attr_vtag[sl] : g_attr_va[sl];
}
int w20_text(int elem, int what) { return what == 0 ? g_text_n[elem] : what == 1 ? g_text_vtag[elem] : g_text_va[elem]; }
int w20_label(int kind, int what) { return what == 0 ? g_label_n[kind] : what == 1 ? g_label_vtag[kind] : what == 2 ? g_label_va[kind] : g_label_va2[kind]; }
void w20_location_set(int i, int nr, int sym, unsigned nameflags, int committed, int urgent, int inv, unsigned invf, int rate, unsigned ratef)
{
    L[i].nr = nr; L[i].uid.id = sym; symtab[sym].flags = nameflags; symtab[sym].type.committed = committed != 0; symtab[sym].type.urgent = urgent != 0; symtab[sym].type.nlab = 1;
    symtab[sym].data = &L[i];
    L[i].invariant.id = inv; L[i].invariant.flags = invf; L[i].exp_rate.id = rate; L[i].exp_rate.flags = ratef;
}
void w20_edge_set(int i, int src, int dst, int control, int nsel, int guard, unsigned gf, int sync, unsigned sf, int assign, unsigned af, int prob, unsigned pf)
{
    E[i].nr = i; E[i].control = control != 0;
    E[i].src = src >= 0 ? &L[src] : (location_t*)0; E[i].srcb = src >= 0 ? (branchpoint_t*)0 : &B;
    E[i].dst = dst >= 0 ? &L[dst] : (location_t*)0; E[i].dstb = dst >= 0 ? (branchpoint_t*)0 : &B;
    E[i].select.n = nsel; E[i].select.syms[0].id = 6; E[i].select.syms[1].id = 7; symtab[6].type.nlab = 1; symtab[7].type.nlab = 1; symtab[6].flags = 0; symtab[7].flags = 0;
    E[i].guard.id = guard; E[i].guard.flags = gf; E[i].sync.id = sync; E[i].sync.flags = sf; E[i].assign.id = assign; E[i].assign.flags = af; E[i].prob.id = prob; E[i].prob.flags = pf;
}
void w20_template_set(int is_ta, int nloc, int nedge, int init_loc)
{
    TPL.is_TA = is_ta != 0; TPL.uid.id = 5; symtab[5].flags = 0;
    TPL.locations.n = nloc; TPL.edges.n = nedge;
    for (int i = 0; i < 3; i++) TPL.locations.ptr[i] = &L[i];
    for (int i = 0; i < 2; i++) TPL.edges.ptr[i] = &E[i];
    TPL.init = L[init_loc].uid;
}
void w20_call(int which, int i)
{
    switch (which) {
    case 0: W.location(L[i]); break;
    case 1: W.init(TPL); break;
    case 2: W.transition(E[i]); break;
    default: W.taTempl(TPL); break;
    }
}
int w20_nev(void) { return nev; }
int w20_ev(int i, int what) { return what == 0 ? ev[i].op : what == 1 ? ev[i].name : what == 2 ? ev[i].vtag : ev[i].va; }
}
