/* C20: the range/array/label/typedef printing chain of the REAL type_t::print_declaration (src/type.cpp), which
   XMLWriter::declaration() reaches through declarations_t::str(true) for every typedef of the document - including the
   built-in ones (typedef int[INT8_MIN,INT8_MAX] int8_t; ...).  Trusted environment: an ostream that swallows text, a type
   node with arbitrary range bounds; expression_t::get_value() carries the REAL assertion of src/expression.cpp. */
#include <cstdint>
#include <cassert>
#include "utap/common.h"
#define INT16_MIN (-32768)
#define INT16_MAX 32767
namespace std {
struct string { int id; string(): id(0) {} string(const char*): id(1) {} bool empty() const { return id == 0; } };
struct ostream
{
    int n;
    /* members: CBMC's front end does no argument-dependent lookup */
    ostream& operator<<(const char*) { n++; return *this; }
    ostream& operator<<(char) { n++; return *this; }
    ostream& operator<<(const string&) { n++; return *this; }
};
template <typename A, typename B> struct pair { A first; B second; };
inline string to_string(int) { return string(); }
}
using std::string;
namespace UTAP {
using namespace Constants;
struct expression_t
{
    kind_t kind;
    bool integral_type;
    int32_t value;
    /* REAL assertion of expression_t::get_value() (src/expression.cpp) */
    int32_t get_value() const
    {
        __CPROVER_assert(kind == CONSTANT && (integral_type || kind == VAR_INDEX), "code-assert: get_value(): data && data->kind == CONSTANT && (data->type.is_integral() || data->kind == VAR_INDEX)");
        return value;
    }
    std::ostream& print(std::ostream& os) const { os.n++; return os; }
    kind_t get_kind() const { return kind; }
    expression_t get(uint32_t) const { return *this; }
};
class type_t
{
public:
    mutable std::pair<expression_t, expression_t> range;
    int nchild;
    /* returns a reference: CBMC's front end cannot call a member on an rvalue's member */
    const std::pair<expression_t, expression_t>& get_range() const { return range; }
    type_t get(uint32_t) const { return *this; }
    type_t get_array_size() const { return *this; }
    std::string get_label(uint32_t) const { return std::string("l"); }
    uint32_t size() const { return (uint32_t)nchild; }
    std::ostream& print_declaration__contract(std::ostream& os) const { os.n++; return os; }
    std::ostream& print_declaration_tail(std::ostream& os, bool range, bool array, bool label, bool typeDef, std::string kind) const;
};
}
using namespace UTAP;
#include "print_declaration_tail.inc" /* REAL: the if (range) ... else chain of type_t::print_declaration */

extern "C" void w20_print_declaration(int which, int lo_kind, int lo_integral, int lo_value, int hi_kind, int hi_integral, int hi_value)
{
    type_t t;
    t.range.first.kind = (kind_t)lo_kind; t.range.first.integral_type = lo_integral != 0; t.range.first.value = lo_value;
    t.range.second.kind = (kind_t)hi_kind; t.range.second.integral_type = hi_integral != 0; t.range.second.value = hi_value;
    t.nchild = 2;
    std::ostream os; os.n = 0;
    t.print_declaration_tail(os, which == 0, which == 1, which == 2, which == 3, std::string("k"));
}
