/* C15: the grammar actions of the transition-list rules (transition_actions.inc, generated from parser.y with the REAL action
   text) use the file-static buffer rootTransId for the `a -> b { }, -> c { }` shorthand.  Whatever an earlier parse left in
   it, the edges a transition list issues (source, target, controllable) must depend on the list only. */
#define REACH __CPROVER_assert(0, "reach")
#define NEDGE 3
static int rootTransId;              /* parser.y: static char rootTransId[MAXLEN]; its content as an identity */
#define strcpy(d, s) ((d) = (s))
static int verif_vals[NEDGE][4];     /* identity of the text of symbol k of list element i (names of locations) */
static int verif_sub[NEDGE];         /* alternative of the nested Transition when TransitionOpt derives one */
#define VAL(inst, k) (verif_vals[inst][k])
static int log_op[2 * NEDGE], log_a[2 * NEDGE], log_b[2 * NEDGE], log_c[2 * NEDGE], log_n;
static void rec(int op, int a, int b, int c) { if (log_n < 2 * NEDGE) { log_op[log_n] = op; log_a[log_n] = a; log_b[log_n] = b; log_c[log_n] = c; } log_n++; }
static void proc_edge_begin(int from, int to, int control) { rec(1, from, to, control); }
static void proc_edge_end(int from, int to) { rec(2, from, to, 0); }
#define true 1
#define false 0
#include "transition_actions.inc"

#define HARNESS(NAME, TR, TO, NT, NO)                                                                                           \
    void NAME(void)                                                                                                             \
    {                                                                                                                           \
        int h1, h2, n, alt[NEDGE], sub[NEDGE], vals[NEDGE][4];                                                                   \
        __CPROVER_assume(n >= 1 && n <= NEDGE && alt[0] >= 0 && alt[0] < NT);                                                    \
        for (int i = 0; i < NEDGE; i++) {                                                                                        \
            if (i > 0) __CPROVER_assume(alt[i] >= 0 && alt[i] < NO);                                                             \
            __CPROVER_assume(sub[i] >= 0 && sub[i] < NT);                                                                        \
            verif_sub[i] = sub[i];                                                                                               \
            for (int k = 0; k < 4; k++) { __CPROVER_assume(vals[i][k] >= 1 && vals[i][k] <= 5); verif_vals[i][k] = vals[i][k]; } \
        }                                                                                                                       \
        int op1[2 * NEDGE], a1[2 * NEDGE], b1[2 * NEDGE], c1[2 * NEDGE], n1;                                                     \
        __CPROVER_assume(h1 >= 0 && h1 <= 9 && h2 >= 0 && h2 <= 9);                                                             \
        rootTransId = h1; log_n = 0; /* history 1 */                                                                             \
        TR(0, alt[0]);                                                                                                           \
        for (int i = 1; i < NEDGE; i++) if (i < n) TO(i, alt[i]);                                                                \
        n1 = log_n;                                                                                                              \
        for (int i = 0; i < 2 * NEDGE; i++) { op1[i] = log_op[i]; a1[i] = log_a[i]; b1[i] = log_b[i]; c1[i] = log_c[i]; }        \
        rootTransId = h2; log_n = 0; /* history 2 */                                                                             \
        TR(0, alt[0]);                                                                                                           \
        for (int i = 1; i < NEDGE; i++) if (i < n) TO(i, alt[i]);                                                                \
        __CPROVER_assert(n1 == log_n && n1 == 2 * n, "c15.transition-list.one-edge-per-list-element-after-any-history");         \
        for (int i = 0; i < 2 * NEDGE; i++)                                                                                      \
            if (i < n1) __CPROVER_assert(op1[i] == log_op[i] && a1[i] == log_a[i] && b1[i] == log_b[i] && c1[i] == log_c[i],     \
                                         "c15.transition-list.source,-target-and-controllability-of-every-edge-do-not-depend-on-what-an-earlier-parse-left-in-rootTransId"); \
        if (n == 3) __CPROVER_assert(0, "reach:three-edges");                                                                    \
        __CPROVER_assert(0, "reach");                                                                                            \
    }
HARNESS(h_c15_transition_source, nt_Transition, nt_TransitionOpt, N_ALT_Transition, N_ALT_TransitionOpt)
HARNESS(h_c15_transition_source_old, nt_OldTransition, nt_OldTransitionOpt, N_ALT_OldTransition, N_ALT_OldTransitionOpt)
