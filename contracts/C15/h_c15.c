/* C15 kernel harnesses (mode H).  "Any history" = every parser/lexer global holds an arbitrary value when an
   entry point is called; the state the grammar (utap_parse) is entered with must be a function of the
   arguments only. */
#include "tokens.h"
#include "parts.h"
#define REACH __CPROVER_assert(0, "reach")
extern int g_parse_calls, g_parse_ret, g_lex_ret, g_token, g_path, g_ch_is_builder;
extern unsigned g_syntax, g_line, g_offset, g_position;
void w15_havoc(unsigned sy, int tok, int ch_set, unsigned line, unsigned offset, unsigned position, int path, int ty, int r0);
int w15_set_start_token(int part, int newxta);
int w15_parse_xta(int newxta, int part, int xpath);
int w15_parse_property(int xpath);
int w15_lex(void);
int w15_get(int what);

struct hist { unsigned sy, line, offset, position; int tok, ch_set, path, ty, r0; };
static struct hist any_history(void)
{
    struct hist h;
    __CPROVER_assume(h.sy < 64 && (h.ch_set == 0 || h.ch_set == 1) && h.r0 >= 0 && h.r0 < 128);
    return h;
}
static void havoc(struct hist h) { w15_havoc(h.sy, h.tok, h.ch_set, h.line, h.offset, h.position, h.path, h.ty, h.r0); }

void h_c15_start_token(void)
{
    int part, nx, part2, nx2;
    __CPROVER_assume(VALID_PART(part) && (nx == 0 || nx == 1) && VALID_PART(part2) && (nx2 == 0 || nx2 == 1));
    struct hist h1 = any_history(), h2 = any_history();
    havoc(h1); int t1 = w15_set_start_token(part, nx);
    havoc(h2); int t2 = w15_set_start_token(part, nx);
    __CPROVER_assert(t1 == t2, "c15.setStartToken.start-token-depends-on-the-arguments-only-(every-part-is-handled)");
    __CPROVER_assert(t1 != 0, "c15.setStartToken.a-start-token-is-always-pending-afterwards");
    __CPROVER_assert(IS_START_TOKEN(t1), "c15.setStartToken.the-token-is-one-the-grammar's-start-production-accepts");
    havoc(h2); int t3 = w15_set_start_token(part2, nx2);
    __CPROVER_assert(part == part2 || t1 != t3, "c15.setStartToken.different-parts-select-different-start-tokens");
    REACH;
}
static void entry(int property)
{
    int nx, part, xpath, ret;
    __CPROVER_assume(VALID_PART(part) && (nx == 0 || nx == 1) && xpath >= 0 && xpath < 60000);
    struct hist h = any_history();
    __CPROVER_assume(h.position < 0xffffffffu); /* the wrap of the global counter is the separate obligation c15_position_wrap */
    havoc(h);
    int expect_token = w15_set_start_token(property ? PART_S_PROPERTY : part, property ? 0 : nx); /* total and history independent: c15_start_token */
    havoc(h);
    { int pr; __CPROVER_assume(pr == 0 || pr == 1 || pr == 2); g_parse_ret = pr; } /* the grammar's verdict is arbitrary (globals are zero, not arbitrary: assign) */
    int r = property ? w15_parse_property(xpath) : w15_parse_xta(nx, part, xpath);
    __CPROVER_assert(g_parse_calls == 1, "c15.entry.the-grammar-is-entered-exactly-once");
    __CPROVER_assert(g_syntax == (property ? SYNTAX_PROPERTY : nx ? SYNTAX_NEW_GUIDING : SYNTAX_OLD_GUIDING), "c15.entry.syntax-mode-is-set-from-the-arguments");
    __CPROVER_assert(g_token == expect_token, "c15.entry.pending-start-token-is-set-from-the-arguments");
    __CPROVER_assert(g_ch_is_builder, "c15.entry.current-builder-is-the-argument");
    __CPROVER_assert(g_line == 1 && g_offset == 0 && g_path == 1000 + xpath, "c15.entry.line-offset-path-are-reset");
    __CPROVER_assert(g_position == h.position + 1, "c15.entry.global-position-counter-continues-(history-dependent-by-design:-only-differences-are-observable)");
    __CPROVER_assert(r == (g_parse_ret ? -1 : 0), "c15.entry.result-is-the-grammar's-verdict");
    if (g_parse_ret) __CPROVER_assert(0, "reach:grammar reports failure");
    REACH;
}
void h_c15_entry_xta(void) { entry(0); }
void h_c15_entry_property(void) { entry(1); }

/* the scanner's start condition: INITIAL at the entry of every parse, whatever the previous parses scanned (induction over
   the sequence of calls: assume it is INITIAL before the call, show it is INITIAL when the grammar is entered and again
   when the call returns - also when the input ended inside an unterminated comment) */
extern int g_yy_start, g_yy_start_at_entry, g_scan_choice[3], g_yyerrors;
static void start_condition(int property)
{
    int nx, part, xpath;
    __CPROVER_assume(VALID_PART(part) && (nx == 0 || nx == 1) && xpath >= 0 && xpath < 60000);
    struct hist h = any_history();
    __CPROVER_assume(h.position < 0xffffffffu);
    havoc(h);
    g_yy_start = 0; /* induction hypothesis: INITIAL */
    for (int i = 0; i < 3; i++) { int c; __CPROVER_assume(c >= 0 && c <= 2); g_scan_choice[i] = c; } /* globals are zero, not arbitrary: assign */
    if (property) w15_parse_property(xpath); else w15_parse_xta(nx, part, xpath);
    __CPROVER_assert(g_yy_start_at_entry == 0, "c15.lexer.the-scanner-is-in-its-INITIAL-condition-when-the-grammar-is-entered");
    __CPROVER_assert(g_yy_start == 0, "c15.lexer.the-scanner-is-back-in-INITIAL-when-the-call-returns-(also-after-an-unterminated-comment)");
}
void h_c15_start_condition_xta(void)
{
    start_condition(0);
    if (g_scan_choice[0] == 1 && g_scan_choice[1] == 0 && g_scan_choice[2] == 0) __CPROVER_assert(0, "reach:input ends inside a comment");
    REACH;
}
void h_c15_start_condition_property(void)
{
    start_condition(1);
    if (g_scan_choice[0] == 1 && g_scan_choice[1] == 0 && g_scan_choice[2] == 0) __CPROVER_assert(0, "reach:input ends inside a comment");
    REACH;
}

void h_c15_lex(void)
{
    struct hist h = any_history();
    havoc(h);
    { int lr; g_lex_ret = lr; } /* what the scanner returns next is arbitrary */
    int a = w15_lex(), pending_after = w15_get(0), b = w15_lex();
    __CPROVER_assert(a == (h.tok ? h.tok : g_lex_ret), "c15.utap_lex.pending-start-token-is-delivered-first");
    __CPROVER_assert(pending_after == 0 && b == g_lex_ret, "c15.utap_lex.start-token-is-delivered-exactly-once");
    REACH;
}
/* history dependence that IS observable: the 32-bit global counter wraps */
void h_c15_position_wrap(void)
{
    int nx, part, xpath;
    __CPROVER_assume(VALID_PART(part) && (nx == 0 || nx == 1) && xpath >= 0 && xpath < 60000);
    struct hist h = any_history();
#ifdef EXCLUDE_KF
    __CPROVER_assume(!KF1_CLASS(h));
#endif
    havoc(h);
    w15_parse_xta(nx, part, xpath);
    __CPROVER_assert(g_position > h.position, "c15.entry.position-counter-stays-monotone-across-calls-(no-wrap)");
    REACH;
}
