/* C15: the grammar actions of ArrayDecl / ArrayDecl2 (array_decl_actions.inc, generated from parser.y with the REAL
   action text) use the process-global counter `types`.  Whatever value an earlier - possibly aborted - parse left in it,
   the callbacks an array declarator issues (type_array_of_size / type_array_of_type and their dimension argument) must
   depend on the declarator only. */
#define REACH __CPROVER_assert(0, "reach")
#define MAXDIM 4
static int types; /* parser.y: static int types = 0; */
static int verif_choice[MAXDIM];
static int log_cb[2 * MAXDIM + 2], log_arg[2 * MAXDIM + 2], log_n;
static void type_array_of_size(int n) { if (log_n < 2 * MAXDIM + 2) { log_cb[log_n] = 1; log_arg[log_n] = n; } log_n++; }
static void type_array_of_type(int n) { if (log_n < 2 * MAXDIM + 2) { log_cb[log_n] = 2; log_arg[log_n] = n; } log_n++; }
#define VERIF_CALL(c) c
#include "array_decl_actions.inc"

void h_c15_array_counter(void)
{
    int h1, h2, ch[MAXDIM];
    for (int i = 0; i < MAXDIM; i++) __CPROVER_assume(ch[i] >= 0 && ch[i] < N_ALT);
    int cb1[2 * MAXDIM + 2], arg1[2 * MAXDIM + 2], n1;
    for (int i = 0; i < MAXDIM; i++) verif_choice[i] = ch[i];
    types = h1; log_n = 0;           /* history 1 */
    nt_ArrayDecl();
    n1 = log_n;
    for (int i = 0; i < 2 * MAXDIM + 2; i++) { cb1[i] = log_cb[i]; arg1[i] = log_arg[i]; }
    types = h2; log_n = 0;           /* history 2 */
    nt_ArrayDecl();
    __CPROVER_assert(n1 == log_n, "c15.array-declarator.same-callbacks-after-any-history");
    for (int i = 0; i < 2 * MAXDIM + 2; i++)
        if (i < n1) __CPROVER_assert(cb1[i] == log_cb[i] && arg1[i] == log_arg[i], "c15.array-declarator.dimension-arguments-do-not-depend-on-what-an-earlier-parse-left-in-the-counter");
    if (ch[0] != EMPTY_ALT) __CPROVER_assert(0, "reach:declarator with dimensions");
    REACH;
}
