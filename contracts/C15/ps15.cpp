/* C15 kernel: the REAL parser globals + utap_lex (the %code block of parser.y), setStartToken, the two
   static entry prologues parse_XTA / parseProperty (parser.y), the REAL PositionTracker (libparser.h) and
   the REAL enums xta_part_t (common.h) / syntax_t (libparser.h).  Trusted stubs: utap_parse (records the
   state it is entered with), lexer_flex, ParserBuilder (records add_position), std::string as an identity. */
#include <cstdint>
#include <cassert>
#include "utap/common.h" /* REAL: xta_part_t */
#include "tokens.h"      /* GENERATED from the %token declarations of parser.y: distinct ids (as bison assigns) */

typedef int verif_path;
struct verif_string
{
    int id;
    verif_string(): id(0) {}
    explicit verif_string(int i): id(i) {}
};
inline verif_path verif_make_path(const verif_string& s) { return 1000 + (s.id & 0xffff); }
namespace std { template <typename T> inline T move(T x) { return x; } }
#define MAXLEN 8 /* parser.y: 4001u; only the first bytes of rootTransId are observed */
#define NULL 0

namespace UTAP {
class ParserBuilder
{
public:
    int n_add;
    uint32_t a_position, a_offset, a_line;
    verif_path a_path;
    ParserBuilder(): n_add(0), a_position(0), a_offset(0), a_line(0), a_path(0) {}
    void add_position(uint32_t position, uint32_t offset, uint32_t line, verif_path path) { n_add++; a_position = position; a_offset = offset; a_line = line; a_path = path; }
    void set_position(uint32_t, uint32_t) {}
};
}
using namespace UTAP;
#include "syntax_t.inc" /* REAL: enum class syntax_t */
namespace UTAP {
#include "tracker.inc"  /* REAL: struct PositionTracker */
PositionTracker tracker; /* lexer.l: namespace UTAP { PositionTracker tracker; } */
}

/* ghost: what utap_parse() was entered with */
extern "C" {
int g_parse_calls, g_parse_ret, g_lex_ret;
unsigned g_syntax, g_line, g_offset, g_position;
int g_token, g_path, g_ch_is_builder;
}
static ParserBuilder the_builder;
static int utap_parse();
static int lexer_flex() { return g_lex_ret; }
/* flex start condition (YY_START): process-global scanner state */
extern "C" { int g_yy_start, g_yy_start_at_entry, g_scan_choice[3], g_yyerrors; }
#define INITIAL 0
#define comment 1
#define BEGIN(s) (g_yy_start = (s))
static void yyerror(const char*) { g_yyerrors++; }
#include "lexer_state_actions.inc" /* REAL actions of the lexer.l rules that switch the start condition, and of the two <<EOF>> rules */

#include "parser_globals.inc" /* REAL: static ch / syntax / syntax_token, utap_lex, rootTransId, types */

/* one complete scan as flex performs it: any sequence of comment openings / closings, then the <<EOF>> rule of the start
   condition the scanner is in (exceptions thrown in the middle of a scan are outside this model) */
static void scan_to_eof()
{
    for (int i = 0; i < 3; i++) {
        if (g_scan_choice[i] == 1 && g_yy_start == INITIAL) act_comment_open();
        else if (g_scan_choice[i] == 2 && g_yy_start == comment) act_comment_close();
    }
    if (g_yy_start == comment) act_comment_eof(); else act_initial_eof();
}
static int utap_parse()
{
    g_parse_calls++;
    g_yy_start_at_entry = g_yy_start;
    scan_to_eof();
    g_syntax = (unsigned)syntax; g_token = syntax_token; g_ch_is_builder = (ch == &the_builder);
    g_line = tracker.line; g_offset = tracker.offset; g_position = tracker.position; g_path = tracker.path;
    return g_parse_ret;
}
#include "parser_entry.inc" /* REAL: setStartToken, static parse_XTA(builder, newxta, part, xpath), static parseProperty(builder, xpath) */

extern "C" {
void w15_havoc(unsigned sy, int tok, int ch_set, unsigned line, unsigned offset, unsigned position, int path, int ty, int r0)
{
    syntax = (syntax_t)sy; syntax_token = tok; ch = ch_set ? &the_builder : (ParserBuilder*)0;
    tracker.line = line; tracker.offset = offset; tracker.position = position; tracker.path = path;
    types = ty; rootTransId[0] = (char)r0;
    g_parse_calls = 0;
    the_builder.n_add = 0;
}
int w15_set_start_token(int part, int newxta) { setStartToken((xta_part_t)part, newxta != 0); return syntax_token; }
int w15_parse_xta(int newxta, int part, int xpath) { return parse_XTA(&the_builder, newxta != 0, (xta_part_t)part, verif_string(xpath)); }
int w15_parse_property(int xpath) { return parseProperty(&the_builder, verif_string(xpath)); }
int w15_lex(void) { return utap_lex(); }
int w15_get(int what)
{
    switch (what) {
    case 0: return syntax_token;
    case 1: return ch == 0;
    case 2: return types;
    case 3: return rootTransId[0];
    case 4: return the_builder.n_add;
    case 5: return (int)the_builder.a_position;
    case 6: return (int)the_builder.a_offset;
    case 7: return (int)the_builder.a_line;
    case 8: return the_builder.a_path;
    default: return (int)tracker.position;
    }
}
}
