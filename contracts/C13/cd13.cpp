/* C13: the REAL StatementBuilder::collectDependencies(std::set<symbol_t>&, expression_t)
   (builder-side computation of template_t::restricted): worklist closure over "symbol ->
   symbols read by its initialiser".  Universe of 4 symbols; the loop is unwound completely
   for that universe (bounded in the number of symbols). */
#define VERIF_TYPE_FLAT
#define VERIF_NSYM 4
#include "utap_abs.h"
extern "C" {
int verif_err_count, verif_warn_count, verif_last_err, verif_thrown;
}
namespace UTAP {
verif_node verif_nodes[VERIF_NNODES];
verif_sym verif_syms[VERIF_NSYM];
type_t verif_tpool[VERIF_NSID];
struct variable_t { symbol_t uid; expression_t init; };
struct template_t;
class frame_t
{
public:
    symbol_t syms[3];
    symbol_t operator[](size_t i) const { __CPROVER_assert(i < 3, "stub: frame index in range"); return syms[i]; }
};
struct instance_t { frame_t parameters; verif_symset restricted; template_t* templ; };
struct template_t : public instance_t {};
class StatementBuilder
{
public:
    void collectDependencies(verif_symset& dependencies, expression_t expr);
    /* contract of collectDependencies as the propagation step uses it: the set grows by the dependencies of the expression
       (ghost g_reads of the node; the closure itself is c13_collect_dependencies' obligation) */
    void collectDependencies__contract(verif_symset& dependencies, expression_t expr) { dependencies.mask |= expr.data->g_reads; }
    void propagate_restricted(instance_t* old_instance, instance_t& new_instance, expression_t* exprs, size_t expected);
};
}
using namespace UTAP;
using namespace Constants;
#include "collect_deps.inc"
#include "restricted_propagation.inc" /* REAL: the tail of DocumentBuilder::instantiation_end (lowered) */

static variable_t vars[4];
/* expression node 0 reads R0; symbol i is a variable (has data, not a function) iff isvar bit i; its initialiser (node 1+i) reads succ_i */
extern "C" void w_c13_collect(unsigned r0, unsigned isvar, unsigned isfun, unsigned s0, unsigned s1, unsigned s2, unsigned s3, unsigned dep_in, unsigned* dep_out)
{
    unsigned succ[4] = {s0, s1, s2, s3};
    verif_tpool_havoc();
    verif_nodes[0].g_reads = r0; verif_nodes[0].g_rnd = false; verif_nodes[0].nsub = 0;
    for (int i = 0; i < 4; i++) {
        verif_nodes[1 + i].g_reads = succ[i]; verif_nodes[1 + i].g_rnd = false; verif_nodes[1 + i].nsub = 0;
        vars[i].init = expression_t(1 + i);
        verif_syms[i].data = ((isvar >> i) & 1) ? (void*)&vars[i] : (void*)0;
        verif_syms[i].type = type_t::verif_any_type();
        verif_syms[i].type.base = ((isfun >> i) & 1) ? FUNCTION : INT; verif_syms[i].type.wrap = 0;
    }
    verif_symset D; D.mask = dep_in;
    StatementBuilder sb;
    sb.collectDependencies(D, expression_t(0));
    *dep_out = D.mask;
}

/* instantiation `new = old(args)`: old has np parameters (symbols 0..np-1), its own restricted set r_old, and a template whose
   restricted set r_templ may differ (old is a partial instance); argument i reads deps_i */
extern "C" void w_c13_propagate(int np, unsigned r_old, unsigned r_templ, unsigned d0, unsigned d1, unsigned d2, unsigned r_new_in, unsigned* r_new_out)
{
    static template_t templ; static instance_t old_i, new_i;
    unsigned d[3] = {d0, d1, d2};
    expression_t exprs[3];
    for (int i = 0; i < 3; i++) { verif_nodes[i].g_reads = d[i]; verif_nodes[i].nsub = 0; exprs[i] = expression_t(i); old_i.parameters.syms[i] = symbol_t(i); }
    templ.restricted.mask = r_templ; templ.templ = &templ;
    old_i.restricted.mask = r_old; old_i.templ = &templ;
    new_i.restricted.mask = r_new_in; new_i.templ = &templ;
    StatementBuilder sb;
    sb.propagate_restricted(&old_i, new_i, exprs, (size_t)np);
    *r_new_out = new_i.restricted.mask;
}
