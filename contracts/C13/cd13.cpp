/* C13: the REAL StatementBuilder::collectDependencies(std::set<symbol_t>&, expression_t)
   (builder-side computation of template_t::restricted): worklist closure over "symbol ->
   symbols read by its initialiser".  Universe of 4 symbols; the loop is unwound completely
   for that universe (bounded in the number of symbols). */
#define VERIF_TYPE_FLAT
#define VERIF_NSYM 4
#include "utap_abs.h"
extern "C" {
int verif_err_count, verif_warn_count, verif_last_err, verif_thrown;
}
namespace UTAP {
verif_node verif_nodes[VERIF_NNODES];
verif_sym verif_syms[VERIF_NSYM];
type_t verif_tpool[VERIF_NSID];
struct variable_t { symbol_t uid; expression_t init; };
class StatementBuilder
{
public:
    void collectDependencies(verif_symset& dependencies, expression_t expr);
};
}
using namespace UTAP;
using namespace Constants;
#include "collect_deps.inc"

static variable_t vars[4];
/* expression node 0 reads R0; symbol i is a variable (has data, not a function) iff isvar bit i; its initialiser (node 1+i) reads succ_i */
extern "C" void w_c13_collect(unsigned r0, unsigned isvar, unsigned isfun, unsigned s0, unsigned s1, unsigned s2, unsigned s3, unsigned dep_in, unsigned* dep_out)
{
    unsigned succ[4] = {s0, s1, s2, s3};
    verif_tpool_havoc();
    verif_nodes[0].g_reads = r0; verif_nodes[0].g_rnd = false; verif_nodes[0].nsub = 0;
    for (int i = 0; i < 4; i++) {
        verif_nodes[1 + i].g_reads = succ[i]; verif_nodes[1 + i].g_rnd = false; verif_nodes[1 + i].nsub = 0;
        vars[i].init = expression_t(1 + i);
        verif_syms[i].data = ((isvar >> i) & 1) ? (void*)&vars[i] : (void*)0;
        verif_syms[i].type = type_t::verif_any_type();
        verif_syms[i].type.base = ((isfun >> i) & 1) ? FUNCTION : INT; verif_syms[i].type.wrap = 0;
    }
    verif_symset D; D.mask = dep_in;
    StatementBuilder sb;
    sb.collectDependencies(D, expression_t(0));
    *dep_out = D.mask;
}
