/* C13: the REAL TypeChecker::checkType (whole function, its own recursion left in place) over REAL type trees built with
   the REAL type_t members of src/type.cpp (tree stub): every array size / range bound reachable from a declared type -
   through further array dimensions, typedef labels, const/meta/reference prefixes and record fields - gets the
   compile-time-computability check.  Bounded: concrete shapes of depth <= 4 (listed in the harness). */
#define VERIF_TYPE_TREE
#include "utap_abs.h"
extern "C" {
int verif_err_count, verif_warn_count, verif_last_err, verif_thrown;
}
namespace UTAP {
verif_node verif_nodes[VERIF_NNODES];
verif_sym verif_syms[VERIF_NSYM];
class frame_t {};
}
using namespace UTAP;
using namespace Constants;
using std::string;
using std::vector;
#include "type_structs.inc" /* REAL: struct child_t, struct type_t::type_data */
bool type_t::is__contract(kind_t) const { return false; }
bool type_t::is_mutable__contract() const { return false; }
bool type_t::is_constant__contract() const { return false; }
type_t type_t::get_sub__contract() const { return *this; }
type_t type_t::get_sub__contract(uint32_t) const { return *this; }
#include "type_members_real.inc" /* REAL members of src/type.cpp, real recursion */
#include "msg_ids.h"
#include "helpers.inc" /* REAL static helper predicates of typechecker.cpp (is_integer(expression_t) ...) */
namespace UTAP {
class TypeChecker
{
public:
    VERIF_HANDLERS
    bool checkExpression(expression_t e)
    {
        if (e.empty()) return true;
        if (!e.data->g_e) verif_err_count++;
        return e.data->g_e;
    }
    bool isCompileTimeComputable(expression_t e) const { return e.empty() || e.data->g_f; }
    void checkType(type_t type, bool initialisable = false, bool inStruct = false);
};
}
#include "check_type.inc" /* REAL: TypeChecker::checkType */

/* RANGE over int with bound expressions (nodes lo, hi): ghost ok / integer-typed / computable flag per bound */
static type_t range_type(int lo, int hi, int ctc_lo, int ctc_hi)
{
    for (int i = 0; i < 2; i++) {
        int n = i == 0 ? lo : hi;
        verif_nodes[n].kind = IDENTIFIER; verif_nodes[n].nsub = 0; verif_nodes[n].type = type_t::create_primitive(INT);
        verif_nodes[n].g_e = true; verif_nodes[n].g_f = (i == 0 ? ctc_lo : ctc_hi) != 0;
    }
    type_t t(RANGE, position_t(), 3);
    t.verif_data()->children[0].child = type_t::create_primitive(INT);
    t.verif_data()->children[1].child = type_t(UNKNOWN, position_t(), 0);
    t.verif_data()->children[2].child = type_t(UNKNOWN, position_t(), 0);
    t.verif_data()->children[1].child.verif_data()->expr = expression_t(lo);
    t.verif_data()->children[2].child.verif_data()->expr = expression_t(hi);
    return t;
}
static type_t array_of(type_t elem, type_t size)
{
    type_t t(ARRAY, position_t(), 2);
    t.verif_data()->children[0].child = elem;
    t.verif_data()->children[1].child = size;
    return t;
}
static type_t wrap1(kind_t k, type_t inner)
{
    type_t t(k, position_t(), 1);
    t.verif_data()->children[0].child = inner;
    return t;
}
extern "C" void w_c13_check_type(int shape, int c1lo, int c1hi, int c2lo, int c2hi, int* nerr)
{
    verif_err_count = 0;
    type_t r1 = range_type(1, 2, c1lo, c1hi), r2 = range_type(3, 4, c2lo, c2hi);
    type_t integer = type_t::create_primitive(INT);
    type_t inner = array_of(integer, r2);
    type_t t;
    switch (shape) {
    case 0: t = array_of(integer, r1); break;                                  /* int a[R1]                      */
    case 1: t = array_of(inner, r1); break;                                    /* int a[R1][R2]                  */
    case 2: t = array_of(wrap1(LABEL, inner), r1); break;                      /* typedef int row[R2]; row a[R1] */
    case 3: t = wrap1(RECORD, array_of(inner, r1)); break;                     /* struct { int f[R1][R2]; }      */
    case 4: t = wrap1(CONSTANT, array_of(inner, r1)); break;                   /* const int a[R1][R2]            */
    case 5: t = wrap1(REF, array_of(inner, r1)); break;                        /* int (&a)[R1][R2]               */
    case 6: t = array_of(array_of(inner, r1), r1); break;                      /* int a[R1][R1][R2]              */
    default: t = wrap1(LABEL, wrap1(SYSTEM_META, array_of(inner, r1))); break; /* typedef meta int t[R1][R2]     */
    }
    TypeChecker tc;
    tc.checkType(t);
    *nerr = verif_err_count;
}
