/* C13 harnesses.  R(e) = ghost read set of the expression (contract of collect_possible_reads). */
#include "kinds.h"
#define REACH __CPROVER_assert(0, "reach")
#define BOOLV(x) ((x) == 0 || (x) == 1)
#define VW_REF 128
int w_c13_ctc(unsigned reads, int rnd, unsigned ctc, int k0, int k1, int k2, int k3);
void w_c13_ctcv_variable(int k, unsigned w, int konst, unsigned before, unsigned* after);
void w_c13_ctcv_instance(int n, int k0, unsigned w0, int c0, int k1, unsigned w1, int c1, unsigned before, unsigned* after);
int w_c13_ctcv_add_contains(unsigned before, int add, int query);
void w_c13_range(int base_k, int ok_l, int int_l, int ctc_l, int ok_u, int int_u, int ctc_u, int* nerr);
void w_c13_var_init(int ok, int ctc, int changes, int* nerr);
void w_c13_instance_arg(unsigned pw, int pconst, int ctc_arg, int ur_arg, int* nerr);
void w_c13_process(int unbound, unsigned restricted, int k0, unsigned w0, int k1, unsigned w1, int* nerr);

/* an expression is compile-time computable iff everything it may read is a function or a
   compile-time-computable value, and it does not draw random numbers */
void h_c13_ctc(void)
{
    unsigned reads, ctc; int rnd, k[4];
    __CPROVER_assume(reads < 256 && ctc < 256 && BOOLV(rnd) && VALID_BASE(k[0]) && VALID_BASE(k[1]) && VALID_BASE(k[2]) && VALID_BASE(k[3]));
    int r = w_c13_ctc(reads, rnd, ctc, k[0], k[1], k[2], k[3]);
    _Bool want = !rnd;
    for (int i = 0; i < 8; i++)
        if ((reads >> i) & 1) {
            _Bool fun = i < 4 && (k[i] == K_FUNCTION || k[i] == K_FUNCTION_EXTERNAL);
            if (!fun && !((ctc >> i) & 1)) want = 0;
        }
    __CPROVER_assert((r != 0) == want, "c13.isCompileTimeComputable.iff-reads-only-functions-and-computable-values");
    REACH;
}
void h_c13_ctcv_variable(void)
{
    int k, c; unsigned w, b, a;
    __CPROVER_assume(VALID_BASE(k) && w <= 511 && BOOLV(c) && b < 256);
    w_c13_ctcv_variable(k, w, c, b, &a);
    __CPROVER_assert(((a & 1) != 0) == (c != 0), "c13.ctcv.a-variable-is-computable-iff-its-type-is-constant");
    __CPROVER_assert((a & ~1u) == (b & ~1u), "c13.ctcv.other-symbols-untouched");
    REACH;
}
void h_c13_ctcv_instance(void)
{
    int n, k0, c0, k1, c1; unsigned w0, w1, b, a;
    __CPROVER_assume(n >= 0 && n <= 2 && VALID_BASE(k0) && VALID_BASE(k1) && w0 <= 511 && w1 <= 511 && BOOLV(c0) && BOOLV(c1) && b < 256);
    w_c13_ctcv_instance(n, k0, w0, c0, k1, w1, c1, b, &a);
#define PARAM_OK(k, w, c) (!((w)&VW_REF) && (c) && (k) != K_DOUBLE)
    __CPROVER_assert(((a & 1) != 0) == (n > 0 && PARAM_OK(k0, w0, c0)), "c13.ctcv.parameter-0-computable-iff-const-non-ref-non-double");
    __CPROVER_assert(((a & 2) != 0) == (n > 1 && PARAM_OK(k1, w1, c1)), "c13.ctcv.parameter-1-computable-iff-const-non-ref-non-double");
    __CPROVER_assert((a & ~3u) == (b & ~3u), "c13.ctcv.other-symbols-untouched");
    REACH;
}
void h_c13_ctcv_add_contains(void)
{
    unsigned b; int add, q;
    __CPROVER_assume(b < 256 && add >= 0 && add < 8 && q >= 0 && q < 8);
    int r = w_c13_ctcv_add_contains(b, add, q);
    __CPROVER_assert((r != 0) == (q == add || ((b >> q) & 1)), "c13.ctcv.add_symbol-then-contains");
    REACH;
}
/* array sizes / integer range bounds / scalar-set sizes: a bound that is not computable is an error */
void h_c13_range(void)
{
    int bk, okl, il, cl, oku, iu, cu, nerr;
    __CPROVER_assume((bk == K_INT || bk == K_SCALAR) && BOOLV(okl) && BOOLV(il) && BOOLV(cl) && BOOLV(oku) && BOOLV(iu) && BOOLV(cu));
    w_c13_range(bk, okl, il, cl, oku, iu, cu, &nerr);
    __CPROVER_assert(cl || nerr > 0, "c13.range.non-computable-lower-bound-is-rejected");
    __CPROVER_assert(cu || nerr > 0, "c13.range.non-computable-upper-bound-is-rejected");
    __CPROVER_assert(!(okl && il && cl && oku && iu && cu) || nerr == 0, "c13.range.computable-integer-bounds-are-accepted");
    REACH;
}
void h_c13_var_init(void)
{
    int ok, ctc, ch, nerr;
    __CPROVER_assume(BOOLV(ok) && BOOLV(ctc) && BOOLV(ch));
    w_c13_var_init(ok, ctc, ch, &nerr);
    __CPROVER_assert(ctc || nerr > 0, "c13.initialiser.non-computable-initialiser-is-rejected");
    __CPROVER_assert(!(ok && ctc && !ch) || nerr == 0, "c13.initialiser.computable-side-effect-free-initialiser-is-accepted");
    REACH;
}
void h_c13_instance_arg(void)
{
    unsigned pw; int pc, ctc, ur, nerr;
    __CPROVER_assume(pw <= 511 && BOOLV(pc) && BOOLV(ctc) && BOOLV(ur));
    w_c13_instance_arg(pw, pc, ctc, ur, &nerr);
    _Bool ref = (pw & VW_REF) != 0;
    __CPROVER_assert(!(!ref && !ctc) || nerr > 0, "c13.instance.non-computable-argument-for-a-value-parameter-is-rejected");
    __CPROVER_assert(!(ref && pc && !ctc) || nerr > 0, "c13.instance.non-computable-argument-for-a-const-reference-parameter-is-rejected");
    REACH;
}
void h_c13_process(void)
{
    int ub, k0, k1, nerr; unsigned r, w0, w1;
    __CPROVER_assume(ub >= 0 && ub <= 2 && r < 256 && VALID_BASE(k0) && VALID_BASE(k1) && w0 <= 511 && w1 <= 511);
    w_c13_process(ub, r, k0, w0, k1, w1, &nerr);
    _Bool bad = (ub > 0 && (r & 1)) || (ub > 1 && (r & 2));
    __CPROVER_assert(!bad || nerr > 0, "c13.process.a-free-parameter-used-in-an-array-size-is-rejected");
    REACH;
}
