#define REACH __CPROVER_assert(0, "reach")
void w_c13_collect(unsigned r0, unsigned isvar, unsigned isfun, unsigned s0, unsigned s1, unsigned s2, unsigned s3, unsigned dep_in, unsigned* dep_out);
/* "any dependence ... direct, through another initialiser ..." : the result contains what the
   expression reads and is closed under `variable -> what its initialiser reads`, given that the
   incoming set was closed (representation invariant of template_t::restricted). */
void h_c13_collect_dependencies(void)
{
    unsigned r0, isvar, isfun, s[4], din, dout;
    __CPROVER_assume(r0 < 16 && isvar < 16 && isfun < 16 && s[0] < 16 && s[1] < 16 && s[2] < 16 && s[3] < 16 && din < 16);
    /* expandable symbols: variables with data that are not functions */
    unsigned exp = isvar & ~isfun;
    /* invariant on the incoming set: closed */
    for (int i = 0; i < 4; i++)
        if (((din >> i) & 1) && ((exp >> i) & 1)) __CPROVER_assume((s[i] & ~din) == 0);
    w_c13_collect(r0, isvar, isfun, s[0], s[1], s[2], s[3], din, &dout);
    __CPROVER_assert((dout & din) == din, "c13.collectDependencies.keeps-the-incoming-set");
    __CPROVER_assert((dout & r0) == r0, "c13.collectDependencies.contains-what-the-expression-reads");
    for (int i = 0; i < 4; i++)
        if (((dout >> i) & 1) && ((exp >> i) & 1))
            __CPROVER_assert((s[i] & ~dout) == 0, "c13.collectDependencies.closed-under-initialiser-reads(any chain length)");
    REACH;
}

/* a parameter of the instantiated instance that is restricted (it reaches an array size / range bound there) passes the
   restriction on to everything its argument depends on - judged by the INSTANTIATED INSTANCE's own set, which for a partial
   instance differs from its template's */
void w_c13_propagate(int np, unsigned r_old, unsigned r_templ, unsigned d0, unsigned d1, unsigned d2, unsigned r_new_in, unsigned* r_new_out);
void h_c13_restricted_propagation(void)
{
    int np; unsigned ro, rt, d[3], rin, rout;
    __CPROVER_assume(np >= 0 && np <= 3 && ro < 16 && rt < 16 && d[0] < 16 && d[1] < 16 && d[2] < 16 && rin < 16);
    w_c13_propagate(np, ro, rt, d[0], d[1], d[2], rin, &rout);
    unsigned want = rin;
    for (int i = 0; i < 3; i++) if (i < np && ((ro >> i) & 1)) want |= d[i];
    __CPROVER_assert(rout == want, "c13.instantiation.the-arguments-of-the-instantiated-instance's-restricted-parameters-become-restricted-(and-nothing-else)");
    if (ro != rt) __CPROVER_assert(0, "reach:partial-instance-whose-set-differs-from-its-template's");
    REACH;
}
