/* C13: the REAL TypeChecker::isCompileTimeComputable, CompileTimeComputableValues members,
   checkType's RANGE branch, the initialiser / instantiation-argument gates and visitProcess,
   in the stub TypeChecker environment; collect_possible_reads answered by its contract
   (ghost read set of the expression: proved one level in C11's c11_collect_reads). */
#define VERIF_REAL_C13
#include "tc_env.h"
#include "helpers.inc"
static expression_t verif_range_lo(const type_t& t) { return expression_t(t.range.first.id); }
static expression_t verif_range_hi(const type_t& t) { return expression_t(t.range.second.id); }
#include "ctc_funcs.inc"
#include "gates.inc"

static void sym(int i, int k, unsigned w, int konst)
{
    verif_syms[i].type = type_t::verif_any_type();
    verif_syms[i].type.base = (kind_t)k; verif_syms[i].type.wrap = w; verif_syms[i].type.konst = konst != 0;
}
/* isCompileTimeComputable on an expression whose read set is (reads, rnd); symbol i has kind sk[i]; CTC set = ctc */
extern "C" int w_c13_ctc(unsigned reads, int rnd, unsigned ctc, int k0, int k1, int k2, int k3)
{
    verif_tpool_havoc();
    sym(0, k0, 0, 0); sym(1, k1, 0, 0); sym(2, k2, 0, 0); sym(3, k3, 0, 0);
    sym(4, INT, 0, 0); sym(5, INT, 0, 0); sym(6, INT, 0, 0); sym(7, INT, 0, 0);
    verif_nodes[0].kind = PLUS; verif_nodes[0].nsub = 0; verif_nodes[0].g_reads = reads; verif_nodes[0].g_rnd = rnd != 0;
    TypeChecker tc;
    tc.compileTimeComputableValues.variables.mask = ctc;
    return tc.isCompileTimeComputable(expression_t(0));
}
extern "C" void w_c13_ctcv_variable(int k, unsigned w, int konst, unsigned before, unsigned* after)
{
    sym(0, k, w, konst);
    CompileTimeComputableValues v; v.variables.mask = before & ~1u;
    variable_t var; var.uid = symbol_t(0);
    v.visitVariable(var);
    *after = v.variables.mask;
}
extern "C" void w_c13_ctcv_instance(int n, int k0, unsigned w0, int c0, int k1, unsigned w1, int c1, unsigned before, unsigned* after)
{
    sym(0, k0, w0, c0); sym(1, k1, w1, c1);
    CompileTimeComputableValues v; v.variables.mask = before & ~3u;
    instance_t inst; inst.parameters.n = n; inst.parameters.syms[0] = symbol_t(0); inst.parameters.syms[1] = symbol_t(1);
    v.visitInstance(inst);
    *after = v.variables.mask;
}
extern "C" int w_c13_ctcv_add_contains(unsigned before, int add, int query)
{
    CompileTimeComputableValues v; v.variables.mask = before;
    v.add_symbol(symbol_t(add));
    return v.contains(symbol_t(query));
}
/* checkType, case RANGE: bounds l (node 1) and u (node 2): ghost ok / integer-typed / computable */
extern "C" void w_c13_range(int base_k, int ok_l, int int_l, int ctc_l, int ok_u, int int_u, int ctc_u, int* nerr)
{
    verif_err_count = 0;
    verif_tpool_havoc();
    for (int i = 1; i <= 2; i++) { verif_nodes[i].kind = IDENTIFIER; verif_nodes[i].nsub = 0; verif_nodes[i].type = type_t::verif_any_type(); verif_nodes[i].type.wrap = 0; }
    verif_nodes[1].g_e = ok_l != 0; verif_nodes[1].g_f = ctc_l != 0; verif_nodes[1].type.base = int_l ? INT : BOOL;
    verif_nodes[2].g_e = ok_u != 0; verif_nodes[2].g_f = ctc_u != 0; verif_nodes[2].type.base = int_u ? INT : BOOL;
    type_t t = type_t::verif_any_type(); t.base = (kind_t)base_k; t.wrap = VW_RANGE; t.range.first.id = 1; t.range.second.id = 2;
    TypeChecker tc;
    tc.checkType_range(t);
    *nerr = verif_err_count;
}
extern "C" void w_c13_var_init(int ok, int ctc, int changes, int* nerr)
{
    verif_err_count = 0;
    verif_tpool_havoc();
    verif_nodes[0].kind = PLUS; verif_nodes[0].nsub = 0; verif_nodes[0].type = type_t::verif_any_type();
    verif_nodes[0].g_e = ok != 0; verif_nodes[0].g_f = ctc != 0; verif_nodes[0].g_changes = changes != 0;
    variable_t variable; variable.uid = symbol_t(0); variable.init = expression_t(0);
    sym(0, INT, 0, 0);
    TypeChecker tc;
    tc.gate_variable_initialiser(variable);
    *nerr = verif_err_count;
}
extern "C" void w_c13_instance_arg(unsigned pw, int pconst, int ctc_arg, int ur_arg, int* nerr)
{
    verif_err_count = 0;
    verif_tpool_havoc();
    verif_nodes[1].kind = IDENTIFIER; verif_nodes[1].nsub = 0; verif_nodes[1].type = type_t::verif_any_type();
    verif_nodes[1].g_f = ctc_arg != 0; verif_nodes[1].g_d = ur_arg != 0; verif_nodes[1].g_e = true;
    sym(0, INT, pw, pconst);
    TypeChecker tc;
    tc.gate_instance_reference_rule(symbol_t(0), expression_t(1));
    *nerr = verif_err_count;
}
extern "C" void w_c13_process(int unbound, unsigned restricted, int k0, unsigned w0, int k1, unsigned w1, int* nerr)
{
    verif_err_count = 0;
    verif_tpool_havoc();
    sym(0, k0, w0, 0); sym(1, k1, w1, 0); sym(2, INT, 0, 0);
    /* isDefaultInt is answered as `false` by giving the parameters non-default ranges: ids of node 3/4 (non-constant) */
    verif_nodes[3].kind = IDENTIFIER; verif_nodes[3].nsub = 0; verif_nodes[3].type = type_t::verif_any_type();
    verif_nodes[4].kind = IDENTIFIER; verif_nodes[4].nsub = 0; verif_nodes[4].type = type_t::verif_any_type();
    instance_t p; p.uid = symbol_t(2); p.unbound = (size_t)unbound; p.parameters.n = 2; p.parameters.syms[0] = symbol_t(0); p.parameters.syms[1] = symbol_t(1);
    p.restricted.mask = restricted;
    TypeChecker tc;
    tc.visitProcess(p);
    *nerr = verif_err_count;
}
