/* C13: every array size / range bound of a declared type is checked, wherever it sits in the type (bounded: the shapes
   of w_c13_check_type) */
#define REACH __CPROVER_assert(0, "reach")
#define BOOLV(x) ((x) == 0 || (x) == 1)
void w_c13_check_type(int shape, int c1lo, int c1hi, int c2lo, int c2hi, int* nerr);
static void shape(int s)
{
    int a, b, c, d, nerr;
    __CPROVER_assume(BOOLV(a) && BOOLV(b) && BOOLV(c) && BOOLV(d));
    w_c13_check_type(s, a, b, c, d, &nerr);
    int uses_r2 = s != 0;
    __CPROVER_assert((a && b) || nerr > 0, "c13.checkType.a-non-computable-bound-of-the-outer-dimension-is-rejected");
    __CPROVER_assert(!uses_r2 || (c && d) || nerr > 0, "c13.checkType.a-non-computable-bound-of-an-inner-dimension-/-typedef'd-/-prefixed-/-record-field-array-is-rejected");
    __CPROVER_assert(!(a && b && (c && d || !uses_r2)) || nerr == 0, "c13.checkType.computable-bounds-are-accepted");
}
void h_c13_check_type(void)
{
    int s;
    if (s == 0) shape(0); else if (s == 1) shape(1); else if (s == 2) shape(2); else if (s == 3) shape(3);
    else if (s == 4) shape(4); else if (s == 5) shape(5); else if (s == 6) shape(6); else shape(7);
    REACH;
}
