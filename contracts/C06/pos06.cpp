/* C06 part B: the REAL line_t, position_index_t::add / find, PositionTracker, Document::add_position /
   find_position / add_error / add_warning, ExpressionBuilder::add_position, AbstractBuilder::set_position
   and error_t::str's arithmetic (sliced into the *.inc files on every run) over a small trusted
   environment: fixed-capacity vectors, identities for paths and strings. */
#include <cstdint>
#include <cassert>

extern "C" {
int verif_thrown;
}
typedef int verif_path; /* identity of a shared path string; 0 = null */
struct verif_string
{
    int id;
    verif_string(): id(0) {}
    explicit verif_string(int i): id(i) {}
};
/* std::make_shared<std::string>(s): a new shared string holding a copy of s */
inline verif_path verif_make_path(const verif_string& s) { return 1000 + (s.id & 0xffff); }

#ifndef VERIF_VEC_CAP
#define VERIF_VEC_CAP 8
#endif
namespace std {
template <typename T>
inline T move(T x) { return x; }
/* std::vector<T>: raw storage of VERIF_VEC_CAP elements (T has no default constructor), never reallocated */
template <typename T>
class vector
{
public:
    T* base;
    size_t n;
    vector(): n(0) { base = (T*)__CPROVER_allocate(sizeof(T) * VERIF_VEC_CAP, 0); }
    bool empty() const { return n == 0; }
    size_t size() const { return n; }
    T& back() { __CPROVER_assert(n > 0, "stub: back() on a non-empty vector"); return base[n - 1]; }
    const T& back() const { __CPROVER_assert(n > 0, "stub: back() on a non-empty vector"); return base[n - 1]; }
    T& operator[](size_t i) { __CPROVER_assert(i < n, "stub: vector index < size()"); return base[i]; }
    const T& operator[](size_t i) const { __CPROVER_assert(i < n, "stub: vector index < size()"); return base[i]; }
    const T& verif_dummy() const { return base[0]; }
};
}  // namespace std
namespace UTAP {
struct position_t
{
    uint32_t start, end;
    position_t(): start(2147483647), end(2147483647) {}
    position_t(uint32_t s, uint32_t e): start(s), end(e) {}
};
class position_index_t
{
public:
#include "line_t.inc" /* REAL: struct line_t */
    std::vector<line_t> lines;
    const line_t& find(uint32_t position, uint32_t first, uint32_t last) const;
    void add(uint32_t position, uint32_t offset, uint32_t line, verif_path path);
    const line_t& find(uint32_t position) const;
};
struct error_t
{
    typedef position_index_t::line_t line_t;
    line_t start;
    line_t end;
    position_t position;
    verif_string msg;
    verif_string context;
    error_t(line_t s, line_t e, position_t pos, verif_string m, verif_string ctx): start(s), end(e), position(pos), msg(m), context(ctx) {}
};
class Document
{
public:
    position_index_t positions;
    std::vector<error_t> errors;
    std::vector<error_t> warnings;
    void add_position(uint32_t position, uint32_t offset, uint32_t line, verif_path path);
    const position_index_t::line_t& find_position(uint32_t position) const;
    void add_error(position_t position, verif_string msg, verif_string context);
    void add_warning(position_t position, verif_string msg, verif_string context);
};
class AbstractBuilder
{
public:
    position_t position;
    void set_position(uint32_t start, uint32_t end);
};
class ExpressionBuilder : public AbstractBuilder
{
public:
    Document& document;
    ExpressionBuilder(Document& d): document(d) {}
    void add_position(uint32_t position, uint32_t offset, uint32_t line, verif_path path);
};
/* rule L21: v.emplace_back(args...) -> verif_emplace_back(v, args...) (CBMC has no member templates) */
inline void verif_emplace_back(std::vector<position_index_t::line_t>& v, uint32_t a, uint32_t b, uint32_t c, verif_path d)
{
    __CPROVER_assert(v.n < VERIF_VEC_CAP, "stub: vector capacity");
    v.base[v.n] = position_index_t::line_t(a, b, c, d);
    v.n++;
}
inline void verif_emplace_back(std::vector<error_t>& v, const position_index_t::line_t& s, const position_index_t::line_t& e, position_t p, verif_string m, verif_string c)
{
    __CPROVER_assert(v.n < VERIF_VEC_CAP, "stub: vector capacity");
    /* member-wise: what the constructor error_t(start, end, pos, msg, ctx) does */
    error_t* slot = &v.base[v.n]; slot->start = s; slot->end = e; slot->position = p; slot->msg = m; slot->context = c;
    v.n++;
}
typedef ExpressionBuilder ParserBuilder; /* dispatch of the pure virtuals of ParserBuilder to the document builders: trusted */
}  // namespace UTAP
using namespace UTAP;
using std::vector;
typedef verif_string string_unused;

#include "position_funcs.inc" /* REAL: position_index_t::add, find (both) */
#include "document_funcs.inc" /* REAL: Document::add_position/find_position/add_error/add_warning, ExpressionBuilder::add_position, AbstractBuilder::set_position */
namespace UTAP {
#include "tracker.inc" /* REAL: struct PositionTracker */
typedef position_index_t::line_t line_t;
#include "error_str.inc" /* REAL operands of error_t::str */
}

static Document the_doc;
#define doc the_doc
static ExpressionBuilder* the_builder;
#define builder (*the_builder)
static PositionTracker tracker;

extern "C" {
void w06_reset(void) { the_builder = new ExpressionBuilder(the_doc); doc.positions.lines.n = 0; doc.errors.n = 0; doc.warnings.n = 0; verif_thrown = 0; }
/* pre-populate the table directly (an arbitrary earlier history) */
void w06_raw_entry(unsigned position, unsigned offset, unsigned line, int path)
{
    verif_emplace_back(doc.positions.lines, (uint32_t)position, (uint32_t)offset, (uint32_t)line, (verif_path)path);
}
void w06_add(unsigned position, unsigned offset, unsigned line, int path) { doc.positions.add(position, offset, line, path); }
int w06_n(void) { return (int)doc.positions.lines.n; }
unsigned w06_entry(int i, int what)
{
    const position_index_t::line_t& l = doc.positions.lines[i];
    return what == 0 ? l.position : what == 1 ? l.offset : what == 2 ? l.line : (unsigned)l.path;
}
void w06_tracker_set(unsigned line, unsigned offset, unsigned position, int path) { tracker.line = line; tracker.offset = offset; tracker.position = position; tracker.path = path; }
unsigned w06_tracker_get(int what) { return what == 0 ? tracker.line : what == 1 ? tracker.offset : what == 2 ? tracker.position : (unsigned)tracker.path; }
void w06_setpath_string(int s) { tracker.setPath(&builder, verif_string(s)); }
void w06_setpath_shared(int p) { tracker.setPath(&builder, (verif_path)p); }
int w06_increment(unsigned n) { return tracker.increment(&builder, n); }
void w06_newline(unsigned n) { tracker.newline(&builder, n); }
unsigned w06_builder_pos(int what) { return what == 0 ? builder.position.start : builder.position.end; }
/* YY_USER_ACTION: yylloc.start = tracker.position; tracker.increment(ch, yyleng); yylloc.end = tracker.position; */
void w06_user_action(unsigned yyleng, unsigned* lstart, unsigned* lend)
{
    struct { unsigned start, end; } yylloc;
    ParserBuilder* ch = &builder;
#include "user_action.inc"
    *lstart = yylloc.start; *lend = yylloc.end;
}
void w06_add_error(int warning, unsigned start, unsigned end, int msg, int ctx)
{
    if (warning) doc.add_warning(position_t(start, end), verif_string(msg), verif_string(ctx));
    else doc.add_error(position_t(start, end), verif_string(msg), verif_string(ctx));
}
int w06_nerr(int warning) { return (int)(warning ? doc.warnings.n : doc.errors.n); }
/* what: 0..3 start entry, 4..7 end entry, 8 position.start, 9 position.end, 10 msg, 11 context */
unsigned w06_err(int warning, int i, int what)
{
    const error_t* ep;
    if (warning) ep = &doc.warnings[i]; else ep = &doc.errors[i];
    const error_t& e = *ep;
    const position_index_t::line_t* lp;
    if (what < 4) lp = &e.start; else lp = &e.end;
    const position_index_t::line_t& l = *lp;
    if (what >= 8) return what == 8 ? e.position.start : what == 9 ? e.position.end : what == 10 ? (unsigned)e.msg.id : (unsigned)e.context.id;
    int w = what & 3;
    return w == 0 ? l.position : w == 1 ? l.offset : w == 2 ? l.line : (unsigned)l.path;
}
void w06_error_str(int warning, int i, int* unknown, unsigned* out)
{
    const error_t* ep;
    if (warning) ep = &doc.warnings[i]; else ep = &doc.errors[i];
    const error_t& e = *ep;
    uint32_t o[4] = {0, 0, 0, 0};
    verif_error_str(e, unknown, o);
    for (int k = 0; k < 4; k++) out[k] = o[k];
}
}
