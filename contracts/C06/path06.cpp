/* C06 part E: the sibling index Path::str (xmlreader.cpp) prints in an XPath step.  The XPath "/nta/template[2]/location[3]" selects
   exactly one element only if the number in brackets is the position of the element among ALL its siblings with the same tag.
   The REAL helper count(level, tag) is run on an arbitrary vector of sibling tags; that every indexed step of Path::str prints
   count(level, <the step's own tag>) is a structural obligation over the text of the switch (checks/C06.py). */
#include <cstddef>
#include <cstdint>
using std::size_t;
#include "xr_tag_enum.inc" /* REAL: enum class tag_t */
#define PV_CAP 6
namespace std {
template <typename T>
struct vector
{
    T a[PV_CAP];
    size_t n;
    T* begin() const { return (T*)&a[0]; }
    T* end() const { return (T*)&a[0] + n; }
    size_t size() const { return n; }
    bool empty() const { return n == 0; }
    const T& back() const { return a[n - 1]; }
};
template <typename C> tag_t* begin(const C& c) { return c.begin(); }
template <typename C> tag_t* end(const C& c) { return c.end(); }
/* <algorithm>: std::count, the textbook definition */
template <typename It, typename V>
size_t count(It b, It e, const V& v)
{
    size_t k = 0;
    for (; b != e; ++b)
        if (*b == v) k++;
    return k;
}
template <typename It, typename P>
size_t count_if(It b, It e, P pred)
{
    size_t k = 0;
    for (; b != e; ++b)
        if (pred(*b)) k++;
    return k;
}
template <typename It, typename P>
It find_if(It b, It e, P pred)
{
    for (; b != e; ++b)
        if (pred(*b)) return b;
    return e;
}
template <typename It, typename V>
It find(It b, It e, const V& v)
{
    for (; b != e; ++b)
        if (*b == v) return b;
    return e;
}
/* reverse iteration over the level: position i stands for the element a[i - 1]; rbegin is i == n, rend is i == 0 */
struct verif_rit
{
    tag_t* base;
    long i;
    tag_t operator*() const { return base[i - 1]; }
    verif_rit& operator++() { i--; return *this; }
    bool operator==(const verif_rit& o) const { return i == o.i; }
    bool operator!=(const verif_rit& o) const { return i != o.i; }
};
template <typename C> verif_rit rbegin(const C& c) { verif_rit r; r.base = c.begin(); r.i = (long)c.size(); return r; }
template <typename C> verif_rit rend(const C& c) { verif_rit r; r.base = c.begin(); r.i = 0; return r; }
inline long distance(const verif_rit& a, const verif_rit& b) { return a.i - b.i; }
inline long distance(tag_t* a, tag_t* b) { return b - a; }
}  // namespace std
#include "path_count.inc" /* REAL: static inline size_t count(const std::vector<tag_t>&, tag_t) */
#include "path_struct.inc" /* GENERATED: structural findings over Path::str's switch (empty when there are none) */

static std::vector<tag_t> LV;
extern "C" {
void w06_level_set(int n, int t0, int t1, int t2, int t3, int t4, int t5)
{
    int t[PV_CAP] = {t0, t1, t2, t3, t4, t5};
    LV.n = (size_t)n;
    for (int i = 0; i < PV_CAP; i++) LV.a[i] = (tag_t)t[i];
}
int w06_count(int tag) { return (int)count(LV, (tag_t)tag); }

#define REACH __CPROVER_assert(0, "reach:end")
void h_c06_path_count(void)
{
    int n, t[PV_CAP], tag;
    __CPROVER_assume(n >= 1 && n <= PV_CAP && tag >= 1 && tag <= 3);
    for (int i = 0; i < PV_CAP; i++) __CPROVER_assume(t[i] >= 1 && t[i] <= 3);
    __CPROVER_assume(t[n - 1] == tag); /* Path::str asks for the tag of the level's last element */
    w06_level_set(n, t[0], t[1], t[2], t[3], t[4], t[5]);
    verif_path_struct();
    int c = w06_count(tag);
    int spec = 0;
    for (int i = 0; i < PV_CAP; i++) if (i < n && t[i] == tag) spec++;
    __CPROVER_assert(c == spec, "c06.path.the-index-of-an-XPath-step-is-the-element's-position-among-all-its-siblings-with-the-same-tag");
    if (n >= 2 && spec >= 2 && t[n - 2] != tag) __CPROVER_assert(0, "reach:same-tag-siblings-not-adjacent");
    REACH;
}
}
