#include "find_c.h"
int verif_thrown;
#include "find_extracted.inc"

#define REACH __CPROVER_assert(0, "reach")
void h_c06_find3(void)
{
    const struct line_t* lines; uint32_t n, p, f, l;
    uint32_t r = c06_find3(lines, n, p, f, l);
    REACH;
}
void h_c06_find(void)
{
    const struct line_t* lines; uint32_t n, p;
    uint32_t r = c06_find(lines, n, p);
    REACH;
}
/* lemma: with a position-sorted table the local postcondition of find() pins the result down to THE last
   entry at or before the position (ghost indices k, j instantiate the sortedness precondition) */
void h_c06_find_unique(void)
{
    const struct line_t* lines; uint32_t n, p, k;
    __CPROVER_assume(n > 0 && n <= 64);
    lines = (const struct line_t*)__CPROVER_allocate((size_t)n * sizeof(struct line_t), 0);
    uint32_t r = c06_find(lines, n, p);
    __CPROVER_assume(k < n);
    /* sortedness (maintained by position_index_t::add, c06_add), instantiated at (k, r) and (r + 1, k) */
    __CPROVER_assume(k > r || lines[k].position <= lines[r].position);
    __CPROVER_assume(k <= r || lines[r + 1].position <= lines[k].position);
    __CPROVER_assert(!(k > r) || p < lines[k].position, "c06.find.no-later-entry-starts-at-or-before-the-position");
    __CPROVER_assert(!(k <= r && r > 0) || lines[k].position <= p, "c06.find.every-earlier-entry-starts-at-or-before-the-position");
    REACH;
}
