/* C06: line counting in the scanner.  Every rule of src/lexer.l whose action calls tracker.newline(ch, n) is extracted on
   every run (pattern and REAL action text, lexer_newline_cases.inc); the generator enumerates every text of up to 5
   characters over {CR, LF, backslash, blank, tab, 'x'} that the rule's pattern matches in full, and the action is run on
   each: the number of lines it reports must be the number of line terminators (LF or CR LF) in the matched text.
   BOUNDED (text length <= 5); flex's own longest-match dispatch between rules is not modelled. */
#define REACH __CPROVER_assert(0, "reach")
struct ParserBuilder;
static ParserBuilder* ch;
struct syntax_t { enum { OLD = 1, NEW = 2, PROPERTY = 4, OLD_NEW = 3, OLD_PROPERTY = 5, NEW_PROPERTY = 6, OLD_NEW_PROPERTY = 7 }; };
static int syntax;
static int g_lines, g_calls;
struct verif_tracker { void newline(ParserBuilder*, int n) { g_lines += n; g_calls++; } };
static verif_tracker tracker;
#include "lexer_newline_cases.inc"

extern "C" void h_c06_lexer_newlines(void)
{
    int s; syntax = s;
    run_all_cases();
    REACH;
}
