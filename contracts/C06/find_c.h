/* C06 part A (route C): position_index_t::find - both overloads - extracted from src/position.cpp on
   every run (find_extracted.inc) with the loop contract injected at the loop and function contracts
   below.  `lines` (std::vector<line_t>) is its data pointer + size; the reference result is the index. */
#include <stdint.h>
#include <stddef.h>
struct line_t
{
    uint32_t position;
    uint32_t offset;
    uint32_t line;
    int path; /* identity of the shared path string */
};
extern int verif_thrown;
#ifndef N_MAX
#define N_MAX 0x80000000u /* (first + last) / 2 is computed in uint32_t: the table has at most 2^31 lines */
#endif

/* contract of the private find(position, first, last): the search window [first, last) shrinks to the
   entry r with  lines[r].position <= position < lines[r+1].position  (window borders count as -inf/+inf) */
uint32_t c06_find3(const struct line_t* lines, uint32_t n, uint32_t position, uint32_t first, uint32_t last)
    __CPROVER_requires(n > 0 && n <= N_MAX && __CPROVER_is_fresh(lines, (size_t)n * sizeof(struct line_t)))
    __CPROVER_requires(first < last && last <= n)
    __CPROVER_ensures(first <= __CPROVER_return_value && __CPROVER_return_value < last)
    __CPROVER_ensures(__CPROVER_return_value == first || lines[__CPROVER_return_value].position <= position)
    __CPROVER_ensures(__CPROVER_return_value + 1 == last || position < lines[__CPROVER_return_value + 1].position)
    __CPROVER_assigns();

/* contract of the public find(position): the entry whose line contains the position; the last line
   extends to infinity; positions before the first entry map to the first entry */
uint32_t c06_find(const struct line_t* lines, uint32_t n, uint32_t position)
    __CPROVER_requires(n <= N_MAX && (n == 0 || __CPROVER_is_fresh(lines, (size_t)n * sizeof(struct line_t))))
    __CPROVER_ensures(n == 0 ? verif_thrown == 1 : verif_thrown == __CPROVER_old(verif_thrown))
    __CPROVER_ensures(n == 0 || __CPROVER_return_value < n)
    __CPROVER_ensures(n == 0 || __CPROVER_return_value == 0 || lines[__CPROVER_return_value].position <= position)
    __CPROVER_ensures(n == 0 || __CPROVER_return_value + 1 == n || position < lines[__CPROVER_return_value + 1].position)
    __CPROVER_assigns(verif_thrown);
