/* C06 part B harnesses (mode H).  Oracle (statement): a diagnostic's line lies within the text block
   that caused it, its column range lies within that line, start not after end; positions are resolved
   through the per-block line table. */
#define REACH __CPROVER_assert(0, "reach")
#define CAP 6
extern int verif_thrown;
void w06_reset(void);
void w06_raw_entry(unsigned position, unsigned offset, unsigned line, int path);
void w06_add(unsigned position, unsigned offset, unsigned line, int path);
int w06_n(void);
unsigned w06_entry(int i, int what);
void w06_tracker_set(unsigned line, unsigned offset, unsigned position, int path);
unsigned w06_tracker_get(int what);
void w06_setpath_string(int s);
void w06_setpath_shared(int p);
int w06_increment(unsigned n);
void w06_newline(unsigned n);
unsigned w06_builder_pos(int what);
void w06_user_action(unsigned yyleng, unsigned* lstart, unsigned* lend);
void w06_add_error(int warning, unsigned start, unsigned end, int msg, int ctx);
int w06_nerr(int warning);
unsigned w06_err(int warning, int i, int what);
void w06_error_str(int warning, int i, int* unknown, unsigned* out);

struct ent { unsigned pos, off, line; int path; };
static struct ent tab[CAP + 2];
static int ntab;
/* an arbitrary earlier history: up to `max` arbitrary entries */
static void any_table(int max)
{
    w06_reset();
    int n;
    __CPROVER_assume(n >= 0 && n <= max);
    ntab = n;
    for (int i = 0; i < CAP; i++)
        if (i < n) {
            struct ent e;
            tab[i] = e;
            w06_raw_entry(e.pos, e.off, e.line, e.path);
        }
}
static int entry_is(int i, struct ent e)
{
    return w06_entry(i, 0) == e.pos && w06_entry(i, 1) == e.off && w06_entry(i, 2) == e.line && (int)w06_entry(i, 3) == e.path;
}
static int old_entries_unchanged(void)
{
    for (int i = 0; i < CAP; i++)
        if (i < ntab && !entry_is(i, tab[i])) return 0;
    return 1;
}

void h_c06_add(void)
{
    any_table(CAP - 1);
    struct ent e;
    w06_add(e.pos, e.off, e.line, e.path);
    if (ntab > 0 && e.pos < tab[ntab - 1].pos) {
        __CPROVER_assert(verif_thrown == 1, "c06.add.a-position-before-the-last-entry-is-refused");
        __CPROVER_assert(w06_n() == ntab, "c06.add.refused-entry-is-not-recorded");
    } else {
        __CPROVER_assert(verif_thrown == 0, "c06.add.monotone-position-is-accepted");
        __CPROVER_assert(w06_n() == ntab + 1 && entry_is(ntab, e), "c06.add.entry-is-appended-with-position-offset-line-path");
        __CPROVER_assert(ntab == 0 || w06_entry(ntab - 1, 0) <= w06_entry(ntab, 0), "c06.add.table-stays-sorted-by-position");
    }
    __CPROVER_assert(old_entries_unchanged(), "c06.add.earlier-entries-unchanged");
    REACH;
}

struct trk { unsigned line, off, pos; int path; };
/* arbitrary tracker state consistent with the table: the last entry is not after the tracker */
static struct trk any_tracker(void)
{
    struct trk t;
    __CPROVER_assume(ntab == 0 || tab[ntab - 1].pos <= t.pos);
    w06_tracker_set(t.line, t.off, t.pos, t.path);
    return t;
}
static struct trk get_tracker(void)
{
    struct trk t;
    t.line = w06_tracker_get(0); t.off = w06_tracker_get(1); t.pos = w06_tracker_get(2); t.path = (int)w06_tracker_get(3);
    return t;
}

void h_c06_tracker_setpath(void)
{
    any_table(CAP - 1);
    struct trk t = any_tracker();
    __CPROVER_assume(t.pos < 0xffffffffu); /* no wrap of the global counter (C15) */
    int shared, s;
    __CPROVER_assume((shared == 0 || shared == 1) && s >= 0 && s < 60000);
    if (shared) w06_setpath_shared(s); else w06_setpath_string(s);
    struct trk u = get_tracker();
    int want_path = shared ? s : 1000 + s;
    __CPROVER_assert(u.line == 1 && u.off == 0, "c06.setPath.line-1-offset-0");
    __CPROVER_assert(u.pos == t.pos + 1, "c06.setPath.position-advances-by-one-(gap-between-blocks)");
    __CPROVER_assert(u.path == want_path, "c06.setPath.path-is-the-block's-path");
    struct ent e = {u.pos, 0, 1, want_path};
    __CPROVER_assert(verif_thrown == 0 && w06_n() == ntab + 1 && entry_is(ntab, e), "c06.setPath.registers-(position,0,1,path)-in-the-document's-table");
    __CPROVER_assert(w06_entry(ntab, 0) > t.pos, "c06.setPath.first-entry-of-a-block-is-after-every-position-of-the-previous-block");
    __CPROVER_assert(old_entries_unchanged(), "c06.setPath.earlier-entries-unchanged");
    REACH;
}
void h_c06_tracker_increment(void)
{
    any_table(CAP - 1);
    struct trk t = any_tracker();
    unsigned n;
    __CPROVER_assume(n <= 0xffffffffu - t.pos && n <= 0xffffffffu - t.off);
    int r = w06_increment(n);
    struct trk u = get_tracker();
    __CPROVER_assert(w06_builder_pos(0) == t.pos && w06_builder_pos(1) == t.pos + n, "c06.increment.builder-position-is-[old,old+n)");
    __CPROVER_assert(u.pos == t.pos + n && u.off == t.off + n, "c06.increment.position-and-offset-advance-by-n");
    __CPROVER_assert((unsigned)r == t.pos, "c06.increment.returns-the-start-of-the-token");
    __CPROVER_assert(u.line == t.line && u.path == t.path, "c06.increment.line-and-path-unchanged");
    __CPROVER_assert(u.pos - u.off == t.pos - t.off, "c06.increment.block-start-(position-offset)-is-invariant");
    __CPROVER_assert(w06_n() == ntab && old_entries_unchanged(), "c06.increment.table-unchanged");
    REACH;
}
void h_c06_tracker_newline(void)
{
    any_table(CAP - 1);
    struct trk t = any_tracker();
    unsigned n;
    __CPROVER_assume(n <= 0xffffffffu - t.line);
    w06_newline(n);
    struct trk u = get_tracker();
    __CPROVER_assert(u.line == t.line + n, "c06.newline.line-advances-by-n");
    __CPROVER_assert(u.pos == t.pos && u.off == t.off && u.path == t.path, "c06.newline.position-offset-path-unchanged");
    struct ent e = {t.pos, t.off, t.line + n, t.path};
    __CPROVER_assert(verif_thrown == 0 && w06_n() == ntab + 1 && entry_is(ntab, e), "c06.newline.registers-(position,offset,new-line,path):-the-first-character-of-the-new-line");
    __CPROVER_assert(old_entries_unchanged(), "c06.newline.earlier-entries-unchanged");
    REACH;
}
void h_c06_user_action(void)
{
    any_table(CAP - 1);
    struct trk t = any_tracker();
    unsigned len, s, e;
    __CPROVER_assume(len <= 0xffffffffu - t.pos && len <= 0xffffffffu - t.off);
    w06_user_action(len, &s, &e);
    __CPROVER_assert(s == t.pos && e == t.pos + len, "c06.YY_USER_ACTION.token-location-is-[position,position+yyleng)");
    __CPROVER_assert(w06_builder_pos(0) == s && w06_builder_pos(1) == e, "c06.YY_USER_ACTION.builder-position-equals-token-location");
    REACH;
}

/* the local specification of find(p) (proved unbounded on the extracted C text: c06_find3 / c06_find) */
static int find_spec(int r, unsigned p)
{
    return r >= 0 && r < ntab && (r == 0 || tab[r].pos <= p) && (r + 1 == ntab || p < tab[r + 1].pos);
}
static int err_entry_is(int w, int i, int base, struct ent e)
{
    return w06_err(w, i, base + 0) == e.pos && w06_err(w, i, base + 1) == e.off && w06_err(w, i, base + 2) == e.line && (int)w06_err(w, i, base + 3) == e.path;
}
void h_c06_add_error(void)
{
    any_table(CAP);
    __CPROVER_assume(ntab > 0);
    int w, msg, ctx; unsigned s, e;
    __CPROVER_assume(w == 0 || w == 1);
    w06_add_error(w, s, e, msg, ctx);
    __CPROVER_assert(w06_nerr(w) == 1 && w06_nerr(!w) == 0, "c06.add_error.one-diagnostic-is-recorded-in-the-right-list");
    int ok_s = 0, ok_e = 0;
    for (int r = 0; r < CAP; r++) {
        if (find_spec(r, s) && err_entry_is(w, 0, 0, tab[r])) ok_s = 1;
        if (find_spec(r, e) && err_entry_is(w, 0, 4, tab[r])) ok_e = 1;
    }
    __CPROVER_assert(ok_s, "c06.add_error.start-is-the-table-entry-of-the-line-containing-position.start");
    __CPROVER_assert(ok_e, "c06.add_error.end-is-the-table-entry-of-the-line-containing-position.end");
    __CPROVER_assert(w06_err(w, 0, 8) == s && w06_err(w, 0, 9) == e, "c06.add_error.position-is-recorded");
    __CPROVER_assert((int)w06_err(w, 0, 10) == msg && (int)w06_err(w, 0, 11) == ctx, "c06.add_error.message-and-context-are-recorded");
    REACH;
}
void h_c06_error_str(void)
{
    any_table(2);
    __CPROVER_assume(ntab == 2);
    int w; unsigned s, e;
    __CPROVER_assume(w == 0 || w == 1);
    /* an error whose start/end entries are tab[0]/tab[1] or both tab[0]: positions chosen so that find returns them */
    __CPROVER_assume(tab[0].pos <= tab[1].pos);
    w06_add_error(w, s, e, 1, 2);
    int unknown; unsigned out[4];
    w06_error_str(w, 0, &unknown, out);
    unsigned sp = w06_err(w, 0, 0), ep = w06_err(w, 0, 4);
    __CPROVER_assert(unknown == (s < sp || e < ep), "c06.str.unknown-position-iff-a-position-precedes-its-line-start");
    if (!unknown) {
        __CPROVER_assert(out[0] == w06_err(w, 0, 2) && out[2] == w06_err(w, 0, 6), "c06.str.lines-are-those-of-the-start-and-end-entries");
        __CPROVER_assert(out[1] == s - sp && out[3] == e - ep, "c06.str.columns-are-offsets-from-the-line-starts");
    }
    REACH;
}

/* composition (bounded): a block after an arbitrary history, tokens and line breaks in it, then a later
   block; a diagnostic for a token of the first block resolves into that block, on the right line, with
   columns inside the line and start <= end */
void h_c06_block_lemma(void)
{
    any_table(2);
    __CPROVER_assume(ntab < 2 || tab[0].pos <= tab[1].pos);
    struct trk t = any_tracker();
    __CPROVER_assume(t.pos < 1000000u);
    int path1, path2;
    __CPROVER_assume(path1 != path2 && path1 > 0 && path2 > 0 && path1 < 500 && path2 < 500);
    for (int i = 0; i < 2; i++) __CPROVER_assume(i >= ntab || (tab[i].path != 1000 + path1 && tab[i].path != 1000 + path2));
    w06_setpath_string(path1);
    unsigned tok_s = 0, tok_e = 0, tok_line = 0, tok_col = 0, line_start = w06_tracker_get(2);
    int have = 0, picked = 0;
    unsigned cur_line = 1;
    for (int step = 0; step < 4; step++) {
        int kind; unsigned len, s, e;
        __CPROVER_assume(kind >= 0 && kind <= 2 && len >= 1 && len <= 100);
        if (kind == 0) continue;
        w06_user_action(len, &s, &e);
        if (kind == 2) { /* the token is `len` line breaks */
            w06_newline(len);
            cur_line += len;
            line_start = w06_tracker_get(2);
        } else {
            int pick;
            if (!have && pick) { have = 1; tok_s = s; tok_e = e; tok_line = cur_line; tok_col = s - line_start; }
        }
    }
    __CPROVER_assume(have);
    /* a later block */
    w06_setpath_string(path2);
    unsigned len2, s2, e2;
    __CPROVER_assume(len2 >= 1 && len2 <= 100);
    w06_user_action(len2, &s2, &e2);
    __CPROVER_assert(verif_thrown == 0, "c06.block.no-monotonicity-exception");
    w06_add_error(0, tok_s, tok_e, 7, 0);
    int unknown; unsigned out[4];
    w06_error_str(0, 0, &unknown, out);
    __CPROVER_assert((int)w06_err(0, 0, 3) == 1000 + path1 && (int)w06_err(0, 0, 7) == 1000 + path1, "c06.block.diagnostic-start-and-end-carry-the-path-of-the-block-that-produced-the-token");
    __CPROVER_assert(!unknown, "c06.block.position-is-known");
    __CPROVER_assert(out[0] == tok_line && out[2] == tok_line, "c06.block.line-is-the-line-of-the-token-within-the-block");
    __CPROVER_assert(out[1] == tok_col && out[3] == tok_col + (tok_e - tok_s) && out[1] <= out[3], "c06.block.columns-are-the-token's-columns-within-its-line,-start-not-after-end");
    REACH;
}
