/* C03 kernel K3: how a floating-point value becomes text.  A logging ostream plus ASSUMED contracts of the libc functions a
   conversion helper may use (facts A-fp1..A-fp3; they are libc's, not utap's, and are listed as assumptions in the evidence):
     A-fp1  the text of "%.*g" with precision >= 17 (max_digits10) reads back, through strtod, as exactly the value printed
            (IEEE 754 binary64); with a smaller precision it may or may not - strtod then decides;
     A-fp2  strtod on a text produced by snprintf is a function of that text;
     A-fp3  the text of "%.*g" for a finite non-negative value is digits[.digits][e(+|-)digits]: it lexes as a UPPAAL
            floating-point literal iff it contains '.' or 'e', otherwise it is an integer literal.
   Stream events: 1 other text, 2 a double streamed with the stream's own formatting (6 significant digits), 3 an int,
   4 converted text that reads back exactly and contains '.'/'e', 8 converted text that reads back exactly but looks like an
   integer, 5 converted text not known to read back exactly (or of another value), 6 the literal ".0", 40 / 41 text starting with
   the path quantifier [] / <>, 50 / 51 the text of a type in diagnostic format / in declaration syntax. */
#ifndef DOUBLE_TEXT_H
#define DOUBLE_TEXT_H
extern "C" {
int verif_txt_prec, verif_txt_exact, verif_txt_mark, verif_txt_cap_ok = 1;
double verif_txt_val, verif_last_double;
const char* verif_txt_buf;
}
/* the text of a type: type_t::str() is the diagnostic S-expression format ("(const (range (int) "0" "3"))"), type_t::declaration()
   the syntax of the grammar's Type production ("const int[0,3]") */
#ifndef VERIF_TYPETEXT_DEFINED
#define VERIF_TYPETEXT_DEFINED
struct verif_typetext { int fmt; };
#endif
namespace std {
inline int snprintf(char* buf, size_t n, const char* fmt, int prec, double v)
{
    __CPROVER_assert(fmt[0] == '%' && fmt[1] == '.' && fmt[2] == '*' && fmt[3] == 'g' && fmt[4] == 0, "stub: snprintf is used with the format %.*g");
    /* sign, 17 digits, point, e, sign, 3 exponent digits, NUL */
    if (!(n >= 25 || (prec <= 15 && n >= 23))) verif_txt_cap_ok = 0;
    bool m;
    verif_txt_prec = prec; verif_txt_val = v; verif_txt_mark = m; verif_txt_exact = prec >= 17; verif_txt_buf = buf;
    buf[0] = '0'; buf[1] = 0;
    return 1;
}
inline double strtod(const char* s, char** end)
{
    __CPROVER_assert(s == verif_txt_buf && end == nullptr, "stub: strtod reads the text snprintf produced");
    if (verif_txt_exact) return verif_txt_val;
    bool same;
    if (same) { verif_txt_exact = 1; return verif_txt_val; }
    double other;
    __CPROVER_assume(other != verif_txt_val);
    return other;
}
inline const char* strpbrk(const char* s, const char* accept)
{
    bool dot = false, e = false;
    for (int i = 0; i < 4 && accept[i]; i++) { if (accept[i] == '.') dot = true; if (accept[i] == 'e') e = true; }
    __CPROVER_assert(s == verif_txt_buf && dot && e, "stub: strpbrk looks for '.' and 'e' in the converted text");
    return verif_txt_mark ? s : nullptr;
}
inline bool isfinite(double x) { return !__CPROVER_isnand(x) && !__CPROVER_isinfd(x); }
struct ostream
{
    int ev[40];
    int n;
    void log(int e) { __CPROVER_assert(n < 40, "stub: ostream log capacity"); ev[n] = e; n++; }
    ostream& operator<<(char) { log(1); return *this; }
    ostream& operator<<(const char* s)
    {
        if (s == verif_txt_buf) log(verif_txt_exact && verif_txt_val == verif_last_double && verif_txt_cap_ok ? (verif_txt_mark ? 4 : 8) : 5);
        else if (s[0] == '.' && s[1] == '0' && s[2] == 0) log(6);
        else if (s[0] == '[' && s[1] == ']') log(40); /* the path quantifier [] */
        else if (s[0] == '<' && s[1] == '>') log(41); /* the path quantifier <> */
        else log(1);
        return *this;
    }
    ostream& operator<<(double) { log(2); return *this; }
    ostream& operator<<(const verif_typetext& t) { log(t.fmt); return *this; } /* 50 diagnostic format, 51 declaration syntax */
    ostream& operator<<(int) { log(3); return *this; }
};
}
#endif
