/* C03 kernel K1: the REAL expression_t::get_precedence (both overloads), the REAL embrace / embrace_strict helpers and
   the REAL print clauses of the binary-operator group, INLINE_IF, UNARY_MINUS, NOT, PRE/POST increment/decrement, ARRAY
   (src/expression.cpp), one level deep: printing a child is answered by a contract that logs which child was printed;
   the ostream stub logs parentheses.  From the log the harness reads, for every (parent, child, position), whether the
   child was printed without parentheses. */
#include <cstdint>
#include <cassert>
#include "utap/common.h"
extern "C" {
int verif_thrown;
}
namespace std {
struct logic_error { logic_error(const char*) {} };
/* ostream: logs '(' , ')' and which child is printed; other text is counted only */
struct ostream
{
    int ev[16];
    int n;
    void log(int e) { __CPROVER_assert(n < 16, "stub: ostream log capacity"); ev[n] = e; n++; }
    /* members: CBMC's front end does no argument-dependent lookup */
    ostream& operator<<(char c) { if (c == '(') log(1); else if (c == ')') log(2); else log(3); return *this; }
    ostream& operator<<(const char*) { log(3); return *this; }
};
}
namespace UTAP {
using namespace Constants;
struct expression_data { kind_t kind; int sub[3]; int nsub; };
static expression_data nodes[4];
class expression_t
{
public:
    expression_data* data;
    expression_t(): data(nullptr) {}
    explicit expression_t(int i): data(&nodes[i]) {}
    kind_t get_kind() const { return data->kind; }
    expression_t get(uint32_t i) const { __CPROVER_assert(i < (uint32_t)data->nsub, "stub: child index < get_size()"); return expression_t(data->sub[i]); }
    static int get_precedence(Constants::kind_t);
    int get_precedence() const;
    /* contract of print on a child (rule L12): logs 10 + node index */
    std::ostream& print__contract(std::ostream& os, bool) const { os.log(10 + (int)(data - &nodes[0])); return os; }
    std::ostream& print_clauses(std::ostream& os, bool old) const;
};
}
using namespace UTAP;
using namespace Constants;
#define VERIF_THROW_INT do { verif_thrown = 1; return -1; } while (0)
#include "precedence_funcs.inc" /* REAL: get_precedence(kind), get_precedence(), embrace_strict, embrace */
#include "print_clauses.inc"    /* REAL: the sliced print clauses inside expression_t::print_clauses */

extern "C" {
/* node 0 = parent (kind kp, n children = nodes 1..n), child i has kind k[i] */
void w03_print(int kp, int n, int k1, int k2, int k3, int old, int* log, int* nlog)
{
    int k[3] = {k1, k2, k3};
    nodes[0].kind = (kind_t)kp; nodes[0].nsub = n;
    for (int i = 0; i < 3; i++) { nodes[0].sub[i] = i + 1; nodes[i + 1].kind = (kind_t)k[i]; nodes[i + 1].nsub = 0; }
    std::ostream os; os.n = 0;
    verif_thrown = 0;
    expression_t e(0);
    e.print_clauses(os, old != 0);
    for (int i = 0; i < 16; i++) log[i] = i < os.n ? os.ev[i] : 0;
    *nlog = os.n;
}
int w03_precedence(int k) { verif_thrown = 0; return expression_t::get_precedence((kind_t)k); }
}
