/* C03 kernel K1 harness: a child printed WITHOUT parentheses must be grouped by the grammar the same way when the text is
   parsed again.  Oracle (generated from parser.y, grammar_prec.h): for operator tokens bison compares the precedence of
   the production being reduced with the precedence of the look-ahead token; equal precedence is resolved by the
   associativity.
     left operand  `x c y` of parent p, printed bare:  x c y p z  must reduce c first  <=>  RULEPREC[c] > TOKPREC[p], or equal and left-assoc
     right operand `x c y` of parent p, printed bare:  w p x c y  must shift c         <=>  TOKPREC[c] > RULEPREC[p], or equal and right-assoc */
#include "kinds.h"
#include "grammar_prec.h"
#define REACH __CPROVER_assert(0, "reach")
extern int verif_thrown;
void w03_print(int kp, int n, int k1, int k2, int k3, int old, int* log, int* nlog);
int w03_precedence(int k);

/* was child node `c` (1..3) printed between '(' and ')' ? */
static int parenthesised(const int* log, int n, int c)
{
    for (int i = 0; i < 16; i++)
        if (i < n && log[i] == 10 + c) return i > 0 && log[i - 1] == 1 && i + 1 < n && log[i + 1] == 2;
    return -1; /* not printed at all */
}
static int safe_left(int kp, int kc)
{
    if (!IS_OP_KIND(kc)) return 1; /* atoms / postfix / prefix forms bind tighter than any binary operator */
    return RULEPREC(kc) > TOKPREC(kp) || (RULEPREC(kc) == TOKPREC(kp) && ASSOC(kp) == 1);
}
static int safe_right(int kp, int kc)
{
    if (!IS_OP_KIND(kc)) return 1;
    return TOKPREC(kc) > RULEPREC(kp) || (TOKPREC(kc) == RULEPREC(kp) && ASSOC(kp) == 2);
}
void h_c03_binary(void)
{
    int kp, kl, kr, old, log[16], n;
    __CPROVER_assume(IS_BINARY_KIND(kp) && VALID_KIND(kl) && VALID_KIND(kr) && (old == 0 || old == 1));
    __CPROVER_assume((IS_OP_KIND(kl) || IS_ATOM_KIND(kl)) && (IS_OP_KIND(kr) || IS_ATOM_KIND(kr)));
#ifdef EXCLUDE_KF
    __CPROVER_assume(!KF1_CLASS(kp, kl, kr));
#endif
    w03_print(kp, 2, kl, kr, K_CONSTANT, old, log, &n);
    int pl = parenthesised(log, n, 1), pr = parenthesised(log, n, 2);
    __CPROVER_assert(verif_thrown == 0 && pl >= 0 && pr >= 0, "c03.print.binary:both-operands-are-printed,-no-exception");
    __CPROVER_assert(pl || safe_left(kp, kl), "c03.print.binary:a-left-operand-printed-without-parentheses-is-grouped-the-same-way-by-the-grammar");
    __CPROVER_assert(pr || safe_right(kp, kr), "c03.print.binary:a-right-operand-printed-without-parentheses-is-grouped-the-same-way-by-the-grammar");
    /* operands appear in source order */
    int il = -1, ir = -1;
    for (int i = 0; i < 16; i++) if (i < n) { if (log[i] == 11) il = i; if (log[i] == 12) ir = i; }
    __CPROVER_assert(il >= 0 && il < ir, "c03.print.binary:operands-are-printed-in-order");
    REACH;
}
void h_c03_inline_if(void)
{
    int kc, kt, ke, log[16], n;
    __CPROVER_assume(VALID_KIND(kc) && VALID_KIND(kt) && VALID_KIND(ke));
    __CPROVER_assume((IS_OP_KIND(kc) || IS_ATOM_KIND(kc)) && (IS_OP_KIND(kt) || IS_ATOM_KIND(kt)) && (IS_OP_KIND(ke) || IS_ATOM_KIND(ke)));
#ifdef EXCLUDE_KF
    __CPROVER_assume(!KF2_CLASS(kc, kt, ke));
#endif
    w03_print(K_INLINE_IF, 3, kc, kt, ke, 0, log, &n);
    int pc = parenthesised(log, n, 1), pt = parenthesised(log, n, 2), pe = parenthesised(log, n, 3);
    __CPROVER_assert(verif_thrown == 0 && pc >= 0 && pt >= 0 && pe >= 0, "c03.print.inline-if:all-three-operands-are-printed");
    __CPROVER_assert(pc || safe_left(K_INLINE_IF, kc), "c03.print.inline-if:a-bare-condition-is-grouped-the-same-way-by-the-grammar");
    __CPROVER_assert(pe || safe_right(K_INLINE_IF, ke), "c03.print.inline-if:a-bare-else-branch-is-grouped-the-same-way-by-the-grammar");
    REACH;
}
/* prefix operators: - ! ++ -- ; the operand printed bare must bind tighter than the prefix operator's production */
void h_c03_prefix(void)
{
    int kp, kc, log[16], n;
    __CPROVER_assume((kp == K_UNARY_MINUS || kp == K_NOT || kp == K_PRE_INCREMENT || kp == K_PRE_DECREMENT) && VALID_KIND(kc) && (IS_OP_KIND(kc) || IS_ATOM_KIND(kc)));
    w03_print(kp, 1, kc, K_CONSTANT, K_CONSTANT, 0, log, &n);
    int p = parenthesised(log, n, 1);
    __CPROVER_assert(verif_thrown == 0 && p >= 0, "c03.print.prefix:the-operand-is-printed");
    __CPROVER_assert(p || !IS_OP_KIND(kc), "c03.print.prefix:a-binary-operator-expression-under-a-prefix-operator-is-parenthesised");
    REACH;
}
