/* C03 kernel K1 harness: a child printed WITHOUT parentheses must be grouped by the grammar the same way when the text is
   parsed again.  Oracle (generated from parser.y, grammar_prec.h): for operator tokens bison compares the precedence of
   the production being reduced with the precedence of the look-ahead token; equal precedence is resolved by the
   associativity.
     left operand  `x c y` of parent p, printed bare:  x c y p z  must reduce c first  <=>  RULEPREC[c] > TOKPREC[p], or equal and left-assoc
     right operand `x c y` of parent p, printed bare:  w p x c y  must shift c         <=>  TOKPREC[c] > RULEPREC[p], or equal and right-assoc */
#include "kinds.h"
#include "grammar_prec.h"
#define REACH __CPROVER_assert(0, "reach")
extern int verif_thrown;
void w03_print(int kp, int n, int k1, int k2, int k3, int old, int* log, int* nlog);
int w03_precedence(int k);

/* was child node `c` (1..3) printed between '(' and ')' ? */
static int parenthesised(const int* log, int n, int c)
{
    for (int i = 0; i < 16; i++)
        if (i < n && log[i] == 10 + c) return i > 0 && log[i - 1] == 1 && i + 1 < n && log[i + 1] == 2;
    return -1; /* not printed at all */
}
static int safe_left(int kp, int kc)
{
    if (!IS_OP_KIND(kc)) return 1; /* atoms / postfix / prefix forms bind tighter than any binary operator */
    return RULEPREC(kc) > TOKPREC(kp) || (RULEPREC(kc) == TOKPREC(kp) && ASSOC(kp) == 1);
}
static int safe_right(int kp, int kc)
{
    if (!IS_OP_KIND(kc)) return 1;
    return TOKPREC(kc) > RULEPREC(kp) || (TOKPREC(kc) == RULEPREC(kp) && ASSOC(kp) == 2);
}
void h_c03_binary(void)
{
    int kp, kl, kr, old, log[16], n;
    __CPROVER_assume(IS_BINARY_KIND(kp) && VALID_KIND(kl) && VALID_KIND(kr) && (old == 0 || old == 1));
    __CPROVER_assume((IS_OP_KIND(kl) || IS_ATOM_KIND(kl)) && (IS_OP_KIND(kr) || IS_ATOM_KIND(kr)));
#ifdef EXCLUDE_KF
    __CPROVER_assume(!KF1_CLASS(kp, kl, kr));
#endif
    w03_print(kp, 2, kl, kr, K_CONSTANT, old, log, &n);
    int pl = parenthesised(log, n, 1), pr = parenthesised(log, n, 2);
    __CPROVER_assert(verif_thrown == 0 && pl >= 0 && pr >= 0, "c03.print.binary:both-operands-are-printed,-no-exception");
    __CPROVER_assert(pl || safe_left(kp, kl), "c03.print.binary:a-left-operand-printed-without-parentheses-is-grouped-the-same-way-by-the-grammar");
    __CPROVER_assert(pr || safe_right(kp, kr), "c03.print.binary:a-right-operand-printed-without-parentheses-is-grouped-the-same-way-by-the-grammar");
    /* operands appear in source order */
    int il = -1, ir = -1;
    for (int i = 0; i < 16; i++) if (i < n) { if (log[i] == 11) il = i; if (log[i] == 12) ir = i; }
    __CPROVER_assert(il >= 0 && il < ir, "c03.print.binary:operands-are-printed-in-order");
    REACH;
}
void h_c03_inline_if(void)
{
    int kc, kt, ke, log[16], n;
    __CPROVER_assume(VALID_KIND(kc) && VALID_KIND(kt) && VALID_KIND(ke));
    __CPROVER_assume((IS_OP_KIND(kc) || IS_ATOM_KIND(kc)) && (IS_OP_KIND(kt) || IS_ATOM_KIND(kt)) && (IS_OP_KIND(ke) || IS_ATOM_KIND(ke)));
#ifdef EXCLUDE_KF
    __CPROVER_assume(!KF2_CLASS(kc, kt, ke));
#endif
    w03_print(K_INLINE_IF, 3, kc, kt, ke, 0, log, &n);
    int pc = parenthesised(log, n, 1), pt = parenthesised(log, n, 2), pe = parenthesised(log, n, 3);
    __CPROVER_assert(verif_thrown == 0 && pc >= 0 && pt >= 0 && pe >= 0, "c03.print.inline-if:all-three-operands-are-printed");
    __CPROVER_assert(pc || safe_left(K_INLINE_IF, kc), "c03.print.inline-if:a-bare-condition-is-grouped-the-same-way-by-the-grammar");
    __CPROVER_assert(pe || safe_right(K_INLINE_IF, ke), "c03.print.inline-if:a-bare-else-branch-is-grouped-the-same-way-by-the-grammar");
    REACH;
}
/* prefix operators: - ! ++ -- .  A binary-operator operand must be parenthesised; a prefix-operator operand may be printed
   bare only if the two operator spellings do not run together into another token: '-' followed by '-x' or '--x' would be
   read as the decrement token */
#define IS_PREFIX_KIND(k) ((k) == K_UNARY_MINUS || (k) == K_NOT || (k) == K_PRE_INCREMENT || (k) == K_PRE_DECREMENT)
void h_c03_prefix(void)
{
    int kp, kc, log[16], n;
    __CPROVER_assume(IS_PREFIX_KIND(kp) && VALID_KIND(kc) && (IS_OP_KIND(kc) || IS_ATOM_KIND(kc) || IS_PREFIX_KIND(kc)));
    w03_print(kp, 1, kc, K_CONSTANT, K_CONSTANT, 0, log, &n);
    int p = parenthesised(log, n, 1);
    __CPROVER_assert(verif_thrown == 0 && p >= 0, "c03.print.prefix:the-operand-is-printed");
    __CPROVER_assert(p || !IS_OP_KIND(kc), "c03.print.prefix:a-binary-operator-expression-under-a-prefix-operator-is-parenthesised");
    __CPROVER_assert(p || !(kp == K_UNARY_MINUS && (kc == K_UNARY_MINUS || kc == K_PRE_DECREMENT)), "c03.print.prefix:'-'-directly-before-a-'-'-or-'--'-operand-is-kept-apart-by-parentheses");
    __CPROVER_assert(p || !(kp == K_PRE_INCREMENT && kc == K_PRE_INCREMENT) || 1, "c03.print.prefix:(other-prefix-pairs-lex-unambiguously)");
    REACH;
}
/* ---- K2: operand layout of SMC queries, builder versus printer -------------------------------------------------------- */
extern int verif_errors;
void w03q_setup(int bt, int runs, int n, int until_is_true);
void w03q_build(int which, int path_is_box, int comp_is_le, double prob, int agg_is_max);
int w03q_node(int what);
void w03q_print(int* log, int* nlog);
/* log events: 1 text, 2 a double is streamed, 3 an int is streamed, 10+r child of role r printed, 20+r get_value() on role r,
   30+r get_double_value() on role r; roles: 0 bound type, 1 bound, 2 runs, 3 predicate/expression, 4 until condition, 9 builder-made node */
#define NLOG 40
static int first_index(const int* log, int n, int ev) { for (int i = 0; i < NLOG; i++) if (i < n && log[i] == ev) return i; return -1; }
static int count_ev(const int* log, int n, int ev) { int c = 0; for (int i = 0; i < NLOG; i++) if (i < n && log[i] == ev) c++; return c; }
static int last_index(const int* log, int n, int ev) { int r = -1; for (int i = 0; i < NLOG; i++) if (i < n && log[i] == ev) r = i; return r; }
/* K3: the one floating-point value written is converted text known to read back exactly (4 / 8), never the stream's own
   6-digit formatting (2) nor unverified text (5); text that looks like an integer (8) is directly followed by ".0" (6) */
static int exact_literal(const int* log, int n)
{
    if (count_ev(log, n, 2) != 0 || count_ev(log, n, 5) != 0) return 0;
    if (count_ev(log, n, 4) + count_ev(log, n, 8) != 1) return 0;
    int i8 = first_index(log, n, 8);
    if (i8 >= 0) return i8 + 1 < n && log[i8 + 1] == 6 && count_ev(log, n, 6) == 1;
    return count_ev(log, n, 6) == 0;
}
void w03d_print_constant(double v, int* log, int* nlog);
void h_c03_double_text(void)
{
    double v; int log[NLOG], n;
    /* literals are non-negative and finite: the scanner has no sign and atof of the digit text is finite or HUGE_VAL */
    __CPROVER_assume(v >= 0.0 && v <= 1.7976931348623157e308);
    w03d_print_constant(v, log, &n);
    __CPROVER_assert(exact_literal(log, n), "c03.double.a-floating-point-constant-is-written-as-text-that-reads-back-exactly-and-as-a-floating-point-literal");
    if (first_index(log, n, 8) >= 0) __CPROVER_assert(0, "reach:integer-looking-text");
    if (first_index(log, n, 4) >= 0) __CPROVER_assert(0, "reach:text-with-point-or-exponent");
    REACH;
}
/* K4: forall / exists / sum (i : T) body: the binder's name, its type in DECLARATION syntax (event 51; the diagnostic format of
   type_t::str(), event 50, is not something the parser reads), then the body */
void w03b_print_quantifier(int kind, int* log, int* nlog);
void h_c03_quantifier_binder(void)
{
    int kind, log[NLOG], n;
    __CPROVER_assume(kind == K_FORALL || kind == K_EXISTS || kind == K_SUM);
    w03b_print_quantifier(kind, log, &n);
    __CPROVER_assert(count_ev(log, n, 50) == 0 && count_ev(log, n, 51) == 1, "c03.quantifier.the-binder's-type-is-written-in-the-syntax-the-parser-reads-(declaration-syntax),-not-in-the-diagnostic-format");
    /* (the name is an identity streamed as an int; cbmc's C++ front end also types the character literal ':' as int) */
    __CPROVER_assert(count_ev(log, n, 3) >= 1 && first_index(log, n, 3) < first_index(log, n, 51), "c03.quantifier.the-binder's-name-comes-before-its-type");
    __CPROVER_assert(count_ev(log, n, 10 + 3) == 1 && first_index(log, n, 10 + 3) > first_index(log, n, 51), "c03.quantifier.the-body-is-printed-after-the-binder");
    REACH;
}
static void query(int which)
{
    int bt, runs, box, le, agg, ut, log[NLOG], n; double prob;
    __CPROVER_assume((bt == 0 || bt == 1) && runs >= -1 && runs <= 100 && (box == 0 || box == 1) && (le == 0 || le == 1) && (agg == 0 || agg == 1) && (ut == 0 || ut == 1) && prob >= 0.0 && prob <= 1.0);
    w03q_setup(bt, runs, which == 0 ? 5 : 4, ut);
    w03q_build(which, box, le, prob, agg);
    __CPROVER_assert(verif_errors == 0 && w03q_node(2) == 1 && w03q_node(1) == 5, "c03.query.the-callback-builds-one-node-with-five-operands");
    w03q_print(log, &n);
    /* Pr[ <bound type> <bound> (; runs) ] ( <path> <predicate> | <predicate> U <until> ) ...   E[ <bound type> <bound> (; runs) ] ( min|max : <expression> ) */
    int bt_read = first_index(log, n, 20 + 0), bound_printed = first_index(log, n, 10 + 1);
    int pred_printed = first_index(log, n, 10 + 3);
    if (which == 1 && le) pred_printed = first_index(log, n, 10 + 9); /* <= p is built as >= 1-p of the negated predicate */
    __CPROVER_assert(bt_read >= 0, "c03.query.print:the-bound-type-operand-is-the-one-read-as-bound-type");
    __CPROVER_assert(count_ev(log, n, 20 + 1) == 0 && count_ev(log, n, 20 + 3) == 0 && count_ev(log, n, 30 + 3) == 0 && count_ev(log, n, 30 + 1) == 0 && (ut || which != 0 || count_ev(log, n, 20 + 4) == 0),
                     "c03.query.print:no-expression-operand-is-read-as-a-number");
    __CPROVER_assert(bound_printed > bt_read, "c03.query.print:the-bound-is-printed-right-after-the-bound-type");
    __CPROVER_assert(pred_printed > bound_printed, "c03.query.print:the-predicate/expression-is-printed-after-the-bounds");
    __CPROVER_assert(count_ev(log, n, 10 + 0) == 0, "c03.query.print:the-bound-type-constant-is-not-printed-as-an-expression");
    int runs_printed = first_index(log, n, 10 + 2);
    __CPROVER_assert(count_ev(log, n, 10 + 2) == (runs >= 0 ? 1 : 0) && (runs < 0 || (runs_printed > bound_printed && runs_printed < pred_printed)),
                     "c03.query.print:an-explicit-number-of-runs-is-printed-between-bound-and-predicate,-an-absent-one-is-not");
    if (which == 0 && !ut) __CPROVER_assert(first_index(log, n, 10 + 4) > pred_printed, "c03.query.print:Pr[..](p-U-q):-both-operands-are-printed-in-order");
    if (which == 1) {
        __CPROVER_assert(count_ev(log, n, 2) + count_ev(log, n, 4) + count_ev(log, n, 5) + count_ev(log, n, 8) == 1 && count_ev(log, n, 30 + 9) == 1, "c03.query.print:the-probability-bound-is-printed");
        __CPROVER_assert(exact_literal(log, n), "c03.double.the-probability-bound-is-written-as-text-that-reads-back-exactly-and-as-a-floating-point-literal");
    }
}
/* Pr[b1](path1 p1) >= Pr[b2](path2 p2): each side prints ITS OWN bound type, bound, path quantifier and predicate, left side first */
void w03q_setup_cmp(int bt1, int bt2, int runs1, int runs2);
void w03q_build_cmp(int box1, int box2);
extern int verif_thrown;
void h_c03_query_compare(void)
{
    int bt1, bt2, r1, r2, box1, box2, log[NLOG], n;
    __CPROVER_assume((bt1 == 0 || bt1 == 1) && (bt2 == 0 || bt2 == 1) && r1 >= -1 && r1 <= 3 && r2 >= -1 && r2 <= 3 && (box1 == 0 || box1 == 1) && (box2 == 0 || box2 == 1));
    w03q_setup_cmp(bt1, bt2, r1, r2);
    w03q_build_cmp(box1, box2);
    if (r1 != -1 || r2 != -1) {
        __CPROVER_assert(verif_thrown == 1, "c03.query.compare:an-explicit-number-of-runs-is-rejected-(it-could-not-be-printed)");
        __CPROVER_assert(0, "reach:runs-rejected");
    } else {
        __CPROVER_assert(verif_thrown == 0 && verif_errors == 0 && w03q_node(2) == 1 && w03q_node(0) == K_PROBA_CMP && w03q_node(1) == 8, "c03.query.compare:the-callback-builds-one-node-with-eight-operands");
        w03q_print(log, &n);
        int b1 = first_index(log, n, 20 + 0), e1 = first_index(log, n, 10 + 1), p1 = first_index(log, n, 10 + 3);
        int b2 = first_index(log, n, 20 + 4), e2 = first_index(log, n, 10 + 5), p2 = first_index(log, n, 10 + 7);
        int q1 = first_index(log, n, box1 ? 40 : 41), q2 = last_index(log, n, box2 ? 40 : 41);
        __CPROVER_assert(count_ev(log, n, 20 + 0) == 1 && count_ev(log, n, 20 + 4) == 1, "c03.query.compare:each-side's-bound-type-is-read-from-that-side's-own-operand,-once");
        __CPROVER_assert(count_ev(log, n, 10 + 1) == 1 && count_ev(log, n, 10 + 5) == 1 && count_ev(log, n, 10 + 3) == 1 && count_ev(log, n, 10 + 7) == 1, "c03.query.compare:each-bound-and-each-predicate-is-printed-once");
        __CPROVER_assert(count_ev(log, n, 40) + count_ev(log, n, 41) == 2 && q1 >= 0 && q2 >= 0 && (q1 < q2), "c03.query.compare:each-side-prints-its-own-path-quantifier");
        __CPROVER_assert(b1 >= 0 && b1 < e1 && e1 < q1 && q1 < p1 && p1 < b2 && b2 < e2 && e2 < q2 && q2 < p2, "c03.query.compare:left-side-then-right-side,-each-as-bound-type,-bound,-path-quantifier,-predicate");
        __CPROVER_assert(count_ev(log, n, 20 + 1) == 0 && count_ev(log, n, 20 + 3) == 0 && count_ev(log, n, 20 + 5) == 0 && count_ev(log, n, 20 + 7) == 0 && count_ev(log, n, 10 + 0) == 0 && count_ev(log, n, 10 + 4) == 0 && count_ev(log, n, 10 + 2) == 0 && count_ev(log, n, 10 + 6) == 0,
                         "c03.query.compare:no-expression-operand-is-read-as-a-number-and-no-constant-operand-is-printed-as-an-expression");
        if (box1 != box2) __CPROVER_assert(0, "reach:different-path-quantifiers");
        if (bt1 != bt2) __CPROVER_assert(0, "reach:different-bound-types");
    }
    REACH;
}
void h_c03_query_quantitative(void) { query(0); REACH; }
void h_c03_query_qualitative(void) { query(1); REACH; }
void h_c03_query_expected(void) { query(2); REACH; }
