/* C03 kernel K2: operand layout built by the REAL query callbacks of ExpressionBuilder.cpp (expr_proba_quantitative,
   expr_proba_qualitative, expr_proba_expected) versus the operand layout read by the REAL print clauses of
   expression_t::print (PROBA_BOX/DIAMOND, PROBA_MIN_BOX/DIAMOND, PROBA_EXP) and print_bound_type.  The harness pushes
   role-tagged operands in grammar order, runs the callback, then the print clause on the node it built; printing a child
   and reading a value are logged with the role of the node they touch. */
#ifndef VERIF_VEC_CAP
#define VERIF_VEC_CAP 8
#endif
#define VERIF_TYPE_PREDS
#define VERIF_VALUE_LOG
#include "scope_env.h"
extern "C" {
int verif_frameA_has[4], verif_frameA_to[4], verif_frameB_has[4], verif_frameB_to[4];
int verif_errors, verif_thrown;
}
namespace UTAP {
verif_symrec verif_symtab[VERIF_NSYMS];
int verif_nsyms;
verif_framerec verif_frames[VERIF_NFRAMES];
int verif_nframes;
}
#include "double_text.h"
using namespace UTAP;
using namespace Constants;
using std::vector;
verif_typetext type_t::str() const { verif_typetext t; t.fmt = 50; return t; }
verif_typetext type_t::declaration() const { verif_typetext t; t.fmt = 51; return t; }
#include "expr_data.inc"
namespace UTAP { inline bool verif_visit2(const verif_variant& a, const verif_variant& b) { return a.tag == b.tag; } }
#include "expr_funcs.inc"
static std::ostream* g_os;
static expression_t::expression_data* role_node[8]; /* role r operand pushed by the harness */
static int role_of(const expression_t::expression_data* p)
{
    for (int i = 0; i < 8; i++) { if (role_node[i] == p) return i; }
    return 9; /* a node the builder made itself (e.g. the NOT wrapper or a constant) */
}
namespace UTAP {
expression_t expression_t::clone_deeper__contract() const { return *this; }
expression_t expression_t::clone_deeper__contract(symbol_t, symbol_t) const { return *this; }
expression_t expression_t::clone_deeper__contract(frame_t, frame_t) const { return *this; }
expression_t expression_t::subst__contract(symbol_t, expression_t) const { return *this; }
bool expression_t::equal__contract(const expression_t&) const { return false; }
size_t expression_t::get_size__contract() const { return data == nullptr ? 0 : data->sub.size(); }
const symbol_t expression_t::get_symbol__contract() const { return symbol_t(); }
/* REAL assertions of expression_t::get_value / get_double_value (src/expression.cpp) + ghost log */
int32_t expression_t::get_value() const
{
    __CPROVER_assert(data && data->kind == CONSTANT && (data->type.is_integral() || data->kind == VAR_INDEX),
                     "code-assert: get_value(): data && data->kind == CONSTANT && (data->type.is_integral() || data->kind == VAR_INDEX)");
    if (g_os) g_os->log(20 + role_of(data));
    return data->value.i;
}
double expression_t::get_double_value() const
{
    __CPROVER_assert(data && data->kind == CONSTANT && data->type.is(Constants::DOUBLE), "code-assert: get_double_value(): data->kind == CONSTANT && data->type.is(DOUBLE)");
    if (g_os) g_os->log(30 + role_of(data));
    verif_last_double = data->value.d;
    return data->value.d;
}
std::ostream& expression_t::print__contract(std::ostream& os, bool) const { os.log(10 + role_of(data)); return os; }
struct TypeException { int id; TypeException(const char*): id(0) {} TypeException(): id(0) {} };
class ExpressionBuilder
{
public:
#include "fragments_class.inc"
    ExpressionFragments fragments;
    position_t position;
    void handle_error(const TypeException&) { verif_errors++; }
    expression_t make_constant(int value) const;
    void expr_proba_quantitative(kind_t pathType);
    void expr_proba_qualitative(kind_t pathType, kind_t comp, double probBound);
    void expr_proba_expected(int aggOpId_is_max);
    void expr_proba_compare(kind_t pathType1, kind_t pathType2);
};
}
#include "query_builder_funcs.inc" /* REAL callbacks, lowered */
#include "double_helper.inc"      /* REAL: the static conversion helper of expression.cpp, if there is one */
#include "query_print_funcs.inc"   /* REAL: print_bound_type + the PROBA_* print clauses */

static ExpressionBuilder eb;
extern "C" {
/* operands in grammar order: role 0 bound type (CONSTANT int bt), 1 bound, 2 runs (CONSTANT int), 3 predicate / expression, 4 until condition */
void w03q_setup(int bt, int runs, int n, int until_is_true)
{
    verif_errors = 0; verif_thrown = 0;
    for (int i = 0; i < 8; i++) role_node[i] = nullptr;
    expression_t e;
    e = expression_t::create_constant(bt); role_node[0] = e.data; eb.fragments.push(e);
    e = expression_t::create_identifier(symbol_t()); role_node[1] = e.data; e.data->kind = PLUS; eb.fragments.push(e);
    e = expression_t::create_constant(runs); role_node[2] = e.data; eb.fragments.push(e);
    e = expression_t::create_identifier(symbol_t()); role_node[3] = e.data; e.data->kind = GT; eb.fragments.push(e);
    if (n > 4) {
        /* the grammar pushes the constant true for Pr[..](<> p) / ([] p), and the second operand for Pr[..](p U q) */
        if (until_is_true) { e = expression_t::create_constant(1); e.data->type = type_t::create_primitive(BOOL); }
        else { e = expression_t::create_identifier(symbol_t()); e.data->kind = LT; }
        role_node[4] = e.data; eb.fragments.push(e);
    }
}
/* Pr[..](..) >= Pr[..](..): per side, in grammar order: bound type (CONSTANT int), bound, runs (CONSTANT int), predicate;
   roles 0..3 for the left side, 4..7 for the right side */
void w03q_setup_cmp(int bt1, int bt2, int runs1, int runs2)
{
    verif_errors = 0; verif_thrown = 0;
    for (int i = 0; i < 8; i++) role_node[i] = nullptr;
    expression_t e;
    for (int side = 0; side < 2; side++) {
        e = expression_t::create_constant(side == 0 ? bt1 : bt2); role_node[4 * side + 0] = e.data; eb.fragments.push(e);
        e = expression_t::create_identifier(symbol_t()); role_node[4 * side + 1] = e.data; e.data->kind = PLUS; eb.fragments.push(e);
        e = expression_t::create_constant(side == 0 ? runs1 : runs2); role_node[4 * side + 2] = e.data; eb.fragments.push(e);
        e = expression_t::create_identifier(symbol_t()); role_node[4 * side + 3] = e.data; e.data->kind = GT; eb.fragments.push(e);
    }
}
void w03q_build_cmp(int box1, int box2) { eb.expr_proba_compare(box1 ? BOX : DIAMOND, box2 ? BOX : DIAMOND); }
void w03q_build(int which, int path_is_box, int comp_is_le, double prob, int agg_is_max)
{
    if (which == 0) eb.expr_proba_quantitative(path_is_box ? BOX : DIAMOND);
    else if (which == 1) eb.expr_proba_qualitative(path_is_box ? BOX : DIAMOND, comp_is_le ? LE : GE, prob);
    else eb.expr_proba_expected(agg_is_max);
}
int w03q_node(int what) { expression_t e = eb.fragments[0]; return what == 0 ? (int)e.data->kind : what == 1 ? (int)e.data->sub.size() : (int)eb.fragments.size(); }
/* K3: the CONSTANT clause of expression_t::print on a floating-point constant of value v */
void w03d_print_constant(double v, int* log, int* nlog)
{
    std::ostream os; os.n = 0; g_os = &os;
    expression_t e = expression_t::create_double(v);
    e.print_constant_clause(os, false);
    g_os = nullptr;
    for (int i = 0; i < 40; i++) log[i] = i < os.n ? os.ev[i] : 0;
    *nlog = os.n;
}
/* K4: a quantifier node forall / exists / sum (i : T) body - the binder is symbol 0 of a fresh frame, the body is role 3 */
void w03b_print_quantifier(int kind, int* log, int* nlog)
{
    verif_nsyms = 0; verif_nframes = 0;
    for (int i = 0; i < 8; i++) role_node[i] = nullptr;
    frame_t f = frame_t::create(frame_t());
    symbol_t bs = f.add_symbol(7, type_t::create_primitive(INT).create_prefix(CONSTANT), position_t());
    expression_t id = expression_t::create_identifier(bs);
    expression_t body = expression_t::create_identifier(symbol_t()); body.data->kind = GT; role_node[3] = body.data;
    expression_t q = expression_t::create_binary((kind_t)kind, id, body);
    std::ostream os; os.n = 0; g_os = &os;
    q.print_quantifier_clauses(os, false);
    g_os = nullptr;
    for (int i = 0; i < 40; i++) log[i] = i < os.n ? os.ev[i] : 0;
    *nlog = os.n;
}
void w03q_print(int* log, int* nlog)
{
    std::ostream os; os.n = 0; g_os = &os;
    expression_t e = eb.fragments[0];
    e.print_query_clauses(os, false);
    g_os = nullptr;
    for (int i = 0; i < 40; i++) log[i] = i < os.n ? os.ev[i] : 0;
    *nlog = os.n;
}
}
