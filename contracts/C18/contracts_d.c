#include <stdint.h>
#define T double
#define W double
#define P rd
#define IS_FP 1
#include "contracts_c18.h"
/* ASSUMED contract of libm's nexttoward (trusted; cannot be verified here): for non-NaN
   x != y the result is the representable neighbour of x in the direction of y.  Modelled
   with CBMC's bit-precise IEEE operations. */
double verif_nexttoward(double x, double y)
{
    if (x == y) return y;
    union { double d; uint64_t u; } v;
    v.d = x;
    if (x == 0.0) { v.u = 1; return y > 0 ? v.d : -v.d; }
    if ((x < y) == (x > 0)) v.u++; else v.u--;
    return v.d;
}
