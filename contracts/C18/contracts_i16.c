#include <stdint.h>
#define T int16_t
#define W int64_t
#define P r16
#define TMIN (-32768)
#define TMAX 32767
#include "contracts_c18.h"
