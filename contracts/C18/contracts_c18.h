/* Contracts for the wrappers of include/utap/range.h, one instantiation per inclusion.
   Parameters of this header:  T (element type)  W (wider type used only to compute the
   oracle)  P (wrapper prefix)  TMIN/TMAX (limits of T)  and IS_FP for double.
   Oracle = the set semantics of property C18; never the code.
   Ghost parameters: e (arbitrary element), x,y (arbitrary members of the operands).     */

#define CAT_(a, b) a##b
#define CAT(a, b) CAT_(a, b)
#define FN(n) CAT(P, n)
#define HN(n) CAT(CAT(h_, P), n)

#define IN(e, lo, hi) ((lo) <= (e) && (e) <= (hi))
#define FRESH2 __CPROVER_requires(__CPROVER_is_fresh(lo, sizeof(T)) && __CPROVER_is_fresh(hi, sizeof(T)))
#define FRESH4 FRESH2 __CPROVER_requires(__CPROVER_is_fresh(a2, sizeof(T)) && __CPROVER_is_fresh(b2, sizeof(T)))
#define MINW(p, q) ((p) < (q) ? (p) : (q))
#define MAXW(p, q) ((p) > (q) ? (p) : (q))
#ifdef IS_FP
#define OKV(v) (!__CPROVER_isnand(v))
#define FITS(w) (1)
#else
#define OKV(v) (1)
#define FITS(w) ((W)TMIN <= (w) && (w) <= (W)TMAX)
#endif

/* ---- strict / non-strict bounds: exactly the members satisfying the bound ------------ */
void FN(_gt)(T a, T b, T u, T e, T* lo, T* hi)
    __CPROVER_requires(a <= b && OKV(a) && OKV(b) && OKV(u) && OKV(e)) FRESH2
    __CPROVER_assigns(*lo, *hi)
    __CPROVER_ensures(IN(e, *lo, *hi) == (IN(e, a, b) && e > u));
void FN(_lt)(T a, T b, T u, T e, T* lo, T* hi)
    __CPROVER_requires(a <= b && OKV(a) && OKV(b) && OKV(u) && OKV(e)) FRESH2
    __CPROVER_assigns(*lo, *hi)
    __CPROVER_ensures(IN(e, *lo, *hi) == (IN(e, a, b) && e < u));
void FN(_geq)(T a, T b, T u, T e, T* lo, T* hi)
    __CPROVER_requires(a <= b && OKV(a) && OKV(b) && OKV(u) && OKV(e)) FRESH2
    __CPROVER_assigns(*lo, *hi)
    __CPROVER_ensures(IN(e, *lo, *hi) == (IN(e, a, b) && e >= u));
void FN(_leq)(T a, T b, T u, T e, T* lo, T* hi)
    __CPROVER_requires(a <= b && OKV(a) && OKV(b) && OKV(u) && OKV(e)) FRESH2
    __CPROVER_assigns(*lo, *hi)
    __CPROVER_ensures(IN(e, *lo, *hi) == (IN(e, a, b) && e <= u));

/* ---- intersection: exact ------------------------------------------------------------- */
#define AND_R(name)                                                                        \
    void FN(name)(T a, T b, T c, T d, T e, T* lo, T* hi)                                   \
        __CPROVER_requires(a <= b && c <= d && OKV(a) && OKV(b) && OKV(c) && OKV(d) && OKV(e)) FRESH2 \
        __CPROVER_assigns(*lo, *hi)                                                        \
        __CPROVER_ensures(IN(e, *lo, *hi) == (IN(e, a, b) && IN(e, c, d)));
#define AND_E(name)                                                                        \
    void FN(name)(T a, T b, T x, T e, T* lo, T* hi)                                        \
        __CPROVER_requires(a <= b && OKV(a) && OKV(b) && OKV(x) && OKV(e)) FRESH2          \
        __CPROVER_assigns(*lo, *hi)                                                        \
        __CPROVER_ensures(IN(e, *lo, *hi) == (IN(e, a, b) && e == x));
#define ANDC_R(name)                                                                       \
    void FN(name)(T a, T b, T c, T d, T e, T* lo, T* hi, T* a2, T* b2)                     \
        __CPROVER_requires(a <= b && c <= d && OKV(a) && OKV(b) && OKV(c) && OKV(d) && OKV(e)) FRESH4 \
        __CPROVER_assigns(*lo, *hi, *a2, *b2)                                              \
        __CPROVER_ensures(IN(e, *lo, *hi) == (IN(e, a, b) && IN(e, c, d)))                 \
        __CPROVER_ensures(*a2 == a && *b2 == b);
#define ANDC_E(name)                                                                       \
    void FN(name)(T a, T b, T x, T e, T* lo, T* hi, T* a2, T* b2)                          \
        __CPROVER_requires(a <= b && OKV(a) && OKV(b) && OKV(x) && OKV(e)) FRESH4          \
        __CPROVER_assigns(*lo, *hi, *a2, *b2)                                              \
        __CPROVER_ensures(IN(e, *lo, *hi) == (IN(e, a, b) && e == x))                      \
        __CPROVER_ensures(*a2 == a && *b2 == b);
AND_R(_and_r) AND_R(_intersect_r) AND_E(_and_e) AND_E(_intersect_e)
ANDC_R(_andc_r) ANDC_R(_intersection_r) ANDC_E(_andc_e) ANDC_E(_intersection_e)

/* ---- convex union: exact end points, contains both operands -------------------------- */
#define OR_R(name)                                                                         \
    void FN(name)(T a, T b, T c, T d, T e, T* lo, T* hi)                                   \
        __CPROVER_requires(a <= b && c <= d && OKV(a) && OKV(b) && OKV(c) && OKV(d) && OKV(e)) FRESH2 \
        __CPROVER_assigns(*lo, *hi)                                                        \
        __CPROVER_ensures(*lo == MINW(a, c) && *hi == MAXW(b, d))                          \
        __CPROVER_ensures((IN(e, a, b) || IN(e, c, d)) ==> IN(e, *lo, *hi))                \
        __CPROVER_ensures(IN(e, *lo, *hi) ==> (MINW(a, c) <= e && e <= MAXW(b, d)));
#define OR_E(name)                                                                         \
    void FN(name)(T a, T b, T x, T e, T* lo, T* hi)                                        \
        __CPROVER_requires(a <= b && OKV(a) && OKV(b) && OKV(x) && OKV(e)) FRESH2          \
        __CPROVER_assigns(*lo, *hi)                                                        \
        __CPROVER_ensures(*lo == MINW(a, x) && *hi == MAXW(b, x))                          \
        __CPROVER_ensures((IN(e, a, b) || e == x) ==> IN(e, *lo, *hi));
#define ORC_R(name)                                                                        \
    void FN(name)(T a, T b, T c, T d, T e, T* lo, T* hi, T* a2, T* b2)                     \
        __CPROVER_requires(a <= b && c <= d && OKV(a) && OKV(b) && OKV(c) && OKV(d) && OKV(e)) FRESH4 \
        __CPROVER_assigns(*lo, *hi, *a2, *b2)                                              \
        __CPROVER_ensures(*lo == MINW(a, c) && *hi == MAXW(b, d))                          \
        __CPROVER_ensures((IN(e, a, b) || IN(e, c, d)) ==> IN(e, *lo, *hi))                \
        __CPROVER_ensures(*a2 == a && *b2 == b);
#define ORC_E(name)                                                                        \
    void FN(name)(T a, T b, T x, T e, T* lo, T* hi, T* a2, T* b2)                          \
        __CPROVER_requires(a <= b && OKV(a) && OKV(b) && OKV(x) && OKV(e)) FRESH4          \
        __CPROVER_assigns(*lo, *hi, *a2, *b2)                                              \
        __CPROVER_ensures(*lo == MINW(a, x) && *hi == MAXW(b, x))                          \
        __CPROVER_ensures((IN(e, a, b) || e == x) ==> IN(e, *lo, *hi))                     \
        __CPROVER_ensures(*a2 == a && *b2 == b);
OR_R(_or_r) OR_R(_add_r_) OR_E(_or_e) OR_E(_add_e_)
ORC_R(_orc_r) ORC_R(_unite_r) ORC_E(_orc_e) ORC_E(_unite_e)
void FN(_lower)(T a, T b, T u, T* lo, T* hi)
    __CPROVER_requires(a <= b && OKV(a) && OKV(b) && OKV(u)) FRESH2
    __CPROVER_assigns(*lo, *hi)
    __CPROVER_ensures(*lo == MINW(a, u) && *hi == b);
void FN(_raise)(T a, T b, T u, T* lo, T* hi)
    __CPROVER_requires(a <= b && OKV(a) && OKV(b) && OKV(u)) FRESH2
    __CPROVER_assigns(*lo, *hi)
    __CPROVER_ensures(*lo == a && *hi == MAXW(b, u));

#ifndef IS_FP
/* ---- arithmetic: tightest interval containing all pointwise results (integral T) ------
   requires: the results do not overflow T (the four corner results fit).               */
#define CORNERS_FIT(op) (FITS((W)a op(W) c) && FITS((W)a op(W) d) && FITS((W)b op(W) c) && FITS((W)b op(W) d))
#define PLUS_R(name, XTRA_P, XTRA_A, XTRA_F, XTRA_E)                                       \
    void FN(name)(T a, T b, T c, T d, T x, T y, T* lo, T* hi XTRA_P)                       \
        __CPROVER_requires(a <= b && c <= d && CORNERS_FIT(+)) XTRA_F                      \
        __CPROVER_assigns(*lo, *hi XTRA_A)                                                 \
        __CPROVER_ensures((W)*lo == (W)a + (W)c && (W)*hi == (W)b + (W)d)                  \
        __CPROVER_ensures((IN(x, a, b) && IN(y, c, d)) ==> IN((W)x + (W)y, (W)*lo, (W)*hi)) XTRA_E;
#define MINUS_R(name, XTRA_P, XTRA_A, XTRA_F, XTRA_E)                                      \
    void FN(name)(T a, T b, T c, T d, T x, T y, T* lo, T* hi XTRA_P)                       \
        __CPROVER_requires(a <= b && c <= d && CORNERS_FIT(-)) XTRA_F                      \
        __CPROVER_assigns(*lo, *hi XTRA_A)                                                 \
        __CPROVER_ensures((W)*lo == (W)a - (W)d && (W)*hi == (W)b - (W)c)                  \
        __CPROVER_ensures((IN(x, a, b) && IN(y, c, d)) ==> IN((W)x - (W)y, (W)*lo, (W)*hi)) XTRA_E;
#define IS_CORNER_R(v) ((W)(v) == (W)a * (W)c || (W)(v) == (W)a * (W)d || (W)(v) == (W)b * (W)c || (W)(v) == (W)b * (W)d)
#define TIMES_R(name, XTRA_P, XTRA_A, XTRA_F, XTRA_E)                                      \
    void FN(name)(T a, T b, T c, T d, T x, T y, T* lo, T* hi XTRA_P)                       \
        __CPROVER_requires(a <= b && c <= d && CORNERS_FIT(*)) XTRA_F                      \
        __CPROVER_assigns(*lo, *hi XTRA_A)                                                 \
        __CPROVER_ensures(IS_CORNER_R(*lo) && IS_CORNER_R(*hi))                            \
        __CPROVER_ensures((IN(x, a, b) && IN(y, c, d)) ==> IN((W)x * (W)y, (W)*lo, (W)*hi)) XTRA_E;
#define E_FIT(op) (FITS((W)a op(W) c) && FITS((W)b op(W) c))
#define PLUS_E(name, XTRA_P, XTRA_A, XTRA_F, XTRA_E)                                       \
    void FN(name)(T a, T b, T c, T x, T* lo, T* hi XTRA_P)                                 \
        __CPROVER_requires(a <= b && E_FIT(+)) XTRA_F                                      \
        __CPROVER_assigns(*lo, *hi XTRA_A)                                                 \
        __CPROVER_ensures((W)*lo == (W)a + (W)c && (W)*hi == (W)b + (W)c)                  \
        __CPROVER_ensures(IN(x, a, b) ==> IN((W)x + (W)c, (W)*lo, (W)*hi)) XTRA_E;
#define MINUS_E(name, XTRA_P, XTRA_A, XTRA_F, XTRA_E)                                      \
    void FN(name)(T a, T b, T c, T x, T* lo, T* hi XTRA_P)                                 \
        __CPROVER_requires(a <= b && E_FIT(-)) XTRA_F                                      \
        __CPROVER_assigns(*lo, *hi XTRA_A)                                                 \
        __CPROVER_ensures((W)*lo == (W)a - (W)c && (W)*hi == (W)b - (W)c)                  \
        __CPROVER_ensures(IN(x, a, b) ==> IN((W)x - (W)c, (W)*lo, (W)*hi)) XTRA_E;
#define IS_CORNER_E(v) ((W)(v) == (W)a * (W)c || (W)(v) == (W)b * (W)c)
#define TIMES_E(name, XTRA_P, XTRA_A, XTRA_F, XTRA_E)                                      \
    void FN(name)(T a, T b, T c, T x, T* lo, T* hi XTRA_P)                                 \
        __CPROVER_requires(a <= b && E_FIT(*)) XTRA_F                                      \
        __CPROVER_assigns(*lo, *hi XTRA_A)                                                 \
        __CPROVER_ensures(IS_CORNER_E(*lo) && IS_CORNER_E(*hi))                            \
        __CPROVER_ensures(IN(x, a, b) ==> IN((W)x * (W)c, (W)*lo, (W)*hi)) XTRA_E;
#define NOX
#define COMMA_A2B2_P , T *a2, T *b2
#define COMMA_A2B2_A , *a2, *b2
#define UNCH __CPROVER_ensures(*a2 == a && *b2 == b)
PLUS_R(_plus_r, NOX, NOX, FRESH2, NOX) PLUS_R(_plusc_r, COMMA_A2B2_P, COMMA_A2B2_A, FRESH4, UNCH)
MINUS_R(_minus_r, NOX, NOX, FRESH2, NOX) MINUS_R(_minusc_r, COMMA_A2B2_P, COMMA_A2B2_A, FRESH4, UNCH)
TIMES_R(_times_r, NOX, NOX, FRESH2, NOX) TIMES_R(_timesc_r, COMMA_A2B2_P, COMMA_A2B2_A, FRESH4, UNCH)
PLUS_E(_plus_e, NOX, NOX, FRESH2, NOX) PLUS_E(_plusc_e, COMMA_A2B2_P, COMMA_A2B2_A, FRESH4, UNCH)
MINUS_E(_minus_e, NOX, NOX, FRESH2, NOX) MINUS_E(_minusc_e, COMMA_A2B2_P, COMMA_A2B2_A, FRESH4, UNCH)
TIMES_E(_times_e, NOX, NOX, FRESH2, NOX) TIMES_E(_timesc_e, COMMA_A2B2_P, COMMA_A2B2_A, FRESH4, UNCH)

/* pointwise min/max of two ranges (std::min/std::max overloads at the end of range.h) */
void FN(_stdmin)(T a, T b, T c, T d, T x, T y, T* lo, T* hi)
    __CPROVER_requires(a <= b && c <= d) FRESH2
    __CPROVER_assigns(*lo, *hi)
    __CPROVER_ensures(*lo == MINW(a, c) && *hi == MINW(b, d))
    __CPROVER_ensures((IN(x, a, b) && IN(y, c, d)) ==> IN(MINW(x, y), *lo, *hi));
void FN(_stdmax)(T a, T b, T c, T d, T x, T y, T* lo, T* hi)
    __CPROVER_requires(a <= b && c <= d) FRESH2
    __CPROVER_assigns(*lo, *hi)
    __CPROVER_ensures(*lo == MAXW(a, c) && *hi == MAXW(b, d))
    __CPROVER_ensures((IN(x, a, b) && IN(y, c, d)) ==> IN(MAXW(x, y), *lo, *hi));

/* size counts the members (result type uint32_t: requires the count to fit) */
uint32_t FN(_size)(T a, T b)
    __CPROVER_requires(a <= b && (int64_t)b - (int64_t)a + 1 <= 4294967295LL)
    __CPROVER_assigns()
    __CPROVER_ensures((int64_t)__CPROVER_return_value == (int64_t)b - (int64_t)a + 1);
T FN(_next_value)(T v, T m)
    __CPROVER_requires(v < TMAX)
    __CPROVER_assigns()
    __CPROVER_ensures((W)__CPROVER_return_value == (W)v + 1);
T FN(_prev_value)(T v, T m)
    __CPROVER_requires(v > TMIN)
    __CPROVER_assigns()
    __CPROVER_ensures((W)__CPROVER_return_value == (W)v - 1);
#else
/* double: next/prev are the representable neighbours (m: arbitrary witness, nothing lies
   strictly between); std::nexttoward itself is an assumed libm contract (stub). */
T FN(_next_value)(T v, T m)
    __CPROVER_requires(OKV(v) && OKV(m) && v < __builtin_inf())
    __CPROVER_assigns()
    __CPROVER_ensures(__CPROVER_return_value > v && !(v < m && m < __CPROVER_return_value));
T FN(_prev_value)(T v, T m)
    __CPROVER_requires(OKV(v) && OKV(m) && v > -__builtin_inf())
    __CPROVER_assigns()
    __CPROVER_ensures(__CPROVER_return_value < v && !(__CPROVER_return_value < m && m < v));
#endif

/* ---- predicates ---------------------------------------------------------------------- */
int FN(_contains)(T a, T b, T e)
    __CPROVER_requires(a <= b && OKV(a) && OKV(b) && OKV(e))
    __CPROVER_assigns()
    __CPROVER_ensures((__CPROVER_return_value != 0) == IN(e, a, b));
int FN(_andand_e)(T a, T b, T e)
    __CPROVER_requires(a <= b && OKV(a) && OKV(b) && OKV(e))
    __CPROVER_assigns()
    __CPROVER_ensures((__CPROVER_return_value != 0) == IN(e, a, b));
/* overlap: true iff a common member exists (witness max(a,c); e arbitrary) */
#define OVERLAP(name)                                                                      \
    int FN(name)(T a, T b, T c, T d, T e)                                                  \
        __CPROVER_requires(a <= b && c <= d && OKV(a) && OKV(b) && OKV(c) && OKV(d) && OKV(e)) \
        __CPROVER_assigns()                                                                \
        __CPROVER_ensures((__CPROVER_return_value != 0) ==> (IN(MAXW(a, c), a, b) && IN(MAXW(a, c), c, d))) \
        __CPROVER_ensures((IN(e, a, b) && IN(e, c, d)) ==> (__CPROVER_return_value != 0));
OVERLAP(_intersects) OVERLAP(_andand_r)
/* equality: same member set; empty ranges (a>b) are all equal to each other */
int FN(_eq_r)(T a, T b, T c, T d, T e)
    __CPROVER_requires(OKV(a) && OKV(b) && OKV(c) && OKV(d) && OKV(e))
    __CPROVER_assigns()
    __CPROVER_ensures((__CPROVER_return_value != 0) ==> (IN(e, a, b) == IN(e, c, d)))
    __CPROVER_ensures((__CPROVER_return_value != 0) == ((a > b && c > d) || (a <= b && c <= d && a == c && b == d)));
int FN(_eq_e)(T a, T b, T x, T e)
    __CPROVER_requires(a <= b && OKV(a) && OKV(b) && OKV(x) && OKV(e))
    __CPROVER_assigns()
    __CPROVER_ensures((__CPROVER_return_value != 0) == (a == x && b == x));
/* strict ordering: every member of A is below (above) every member of B */
int FN(_less)(T a, T b, T c, T d, T x, T y)
    __CPROVER_requires(a <= b && c <= d && OKV(a) && OKV(b) && OKV(c) && OKV(d) && OKV(x) && OKV(y))
    __CPROVER_assigns()
    __CPROVER_ensures((__CPROVER_return_value != 0) == (b < c))
    __CPROVER_ensures(((__CPROVER_return_value != 0) && IN(x, a, b) && IN(y, c, d)) ==> x < y);
int FN(_greater)(T a, T b, T c, T d, T x, T y)
    __CPROVER_requires(a <= b && c <= d && OKV(a) && OKV(b) && OKV(c) && OKV(d) && OKV(x) && OKV(y))
    __CPROVER_assigns()
    __CPROVER_ensures((__CPROVER_return_value != 0) == (a > d))
    __CPROVER_ensures(((__CPROVER_return_value != 0) && IN(x, a, b) && IN(y, c, d)) ==> x > y);
/* "below / above, may also overlap": the negation of the strict opposite */
int FN(_lesseq)(T a, T b, T c, T d)
    __CPROVER_requires(a <= b && c <= d && OKV(a) && OKV(b) && OKV(c) && OKV(d))
    __CPROVER_assigns()
    __CPROVER_ensures((__CPROVER_return_value != 0) == !(a > d));
int FN(_greatereq)(T a, T b, T c, T d)
    __CPROVER_requires(a <= b && c <= d && OKV(a) && OKV(b) && OKV(c) && OKV(d))
    __CPROVER_assigns()
    __CPROVER_ensures((__CPROVER_return_value != 0) == !(b < c));
int FN(_empty)(T a, T b)
    __CPROVER_requires(OKV(a) && OKV(b))
    __CPROVER_assigns()
    __CPROVER_ensures((__CPROVER_return_value != 0) == (a > b));
void FN(_singleton)(T v, T* lo, T* hi)
    __CPROVER_requires(OKV(v)) FRESH2
    __CPROVER_assigns(*lo, *hi)
    __CPROVER_ensures(*lo == v && *hi == v);
void FN(_default)(T* lo, T* hi)
    FRESH2
    __CPROVER_assigns(*lo, *hi)
    __CPROVER_ensures(*lo == 0 && *hi == 0);
void FN(_clear)(T a, T b, T* lo, T* hi)
    __CPROVER_requires(OKV(a) && OKV(b)) FRESH2
    __CPROVER_assigns(*lo, *hi)
    __CPROVER_ensures(*lo == 0 && *hi == 0);

/* ---- harness entries (mode D): symbolic arguments, call, vacuity guard ---------------- */
#define REACH __CPROVER_assert(0, "reach")
#define H7(n) void HN(n)(void) { T a, b, c, d, e, lo, hi; FN(n)(a, b, c, d, e, &lo, &hi); REACH; }
#define H6(n) void HN(n)(void) { T a, b, c, e, lo, hi; FN(n)(a, b, c, e, &lo, &hi); REACH; }
#define H9(n) void HN(n)(void) { T a, b, c, d, e, lo, hi, a2, b2; FN(n)(a, b, c, d, e, &lo, &hi, &a2, &b2); REACH; }
#define H8(n) void HN(n)(void) { T a, b, c, e, lo, hi, a2, b2; FN(n)(a, b, c, e, &lo, &hi, &a2, &b2); REACH; }
#define H8X(n) void HN(n)(void) { T a, b, c, d, x, y, lo, hi; FN(n)(a, b, c, d, x, y, &lo, &hi); REACH; }
#define H10X(n) void HN(n)(void) { T a, b, c, d, x, y, lo, hi, a2, b2; FN(n)(a, b, c, d, x, y, &lo, &hi, &a2, &b2); REACH; }
#define H5(n) void HN(n)(void) { T a, b, c, lo, hi; FN(n)(a, b, c, &lo, &hi); REACH; }
H6(_gt) H6(_lt) H6(_geq) H6(_leq)
H7(_and_r) H7(_intersect_r) H6(_and_e) H6(_intersect_e)
H9(_andc_r) H9(_intersection_r) H8(_andc_e) H8(_intersection_e)
H7(_or_r) H7(_add_r_) H6(_or_e) H6(_add_e_)
H9(_orc_r) H9(_unite_r) H8(_orc_e) H8(_unite_e)
H5(_lower) H5(_raise)
#ifndef IS_FP
H8X(_plus_r) H8X(_minus_r) H8X(_times_r) H10X(_plusc_r) H10X(_minusc_r) H10X(_timesc_r)
H6(_plus_e) H6(_minus_e) H6(_times_e) H8(_plusc_e) H8(_minusc_e) H8(_timesc_e)
H8X(_stdmin) H8X(_stdmax)
void HN(_size)(void) { T a, b; FN(_size)(a, b); REACH; }
#endif
void HN(_next_value)(void) { T v, m; FN(_next_value)(v, m); REACH; }
void HN(_prev_value)(void) { T v, m; FN(_prev_value)(v, m); REACH; }
void HN(_contains)(void) { T a, b, e; FN(_contains)(a, b, e); REACH; }
void HN(_andand_e)(void) { T a, b, e; FN(_andand_e)(a, b, e); REACH; }
void HN(_intersects)(void) { T a, b, c, d, e; FN(_intersects)(a, b, c, d, e); REACH; }
void HN(_andand_r)(void) { T a, b, c, d, e; FN(_andand_r)(a, b, c, d, e); REACH; }
void HN(_eq_r)(void) { T a, b, c, d, e; FN(_eq_r)(a, b, c, d, e); REACH; }
void HN(_eq_e)(void) { T a, b, x, e; FN(_eq_e)(a, b, x, e); REACH; }
void HN(_less)(void) { T a, b, c, d, x, y; FN(_less)(a, b, c, d, x, y); REACH; }
void HN(_greater)(void) { T a, b, c, d, x, y; FN(_greater)(a, b, c, d, x, y); REACH; }
void HN(_lesseq)(void) { T a, b, c, d; FN(_lesseq)(a, b, c, d); REACH; }
void HN(_greatereq)(void) { T a, b, c, d; FN(_greatereq)(a, b, c, d); REACH; }
void HN(_empty)(void) { T a, b; FN(_empty)(a, b); REACH; }
void HN(_singleton)(void) { T v, lo, hi; FN(_singleton)(v, &lo, &hi); REACH; }
void HN(_default)(void) { T lo, hi; FN(_default)(&lo, &hi); REACH; }
void HN(_clear)(void) { T a, b, lo, hi; FN(_clear)(a, b, &lo, &hi); REACH; }
