/* extern "C" wrappers around the REAL include/utap/range.h (lowered mechanically, see
   checks/c18_extract.py).  Only scalars / pointers to scalars cross the C boundary.
   Ghost parameters (e, x, y) are unused here; they carry the universal quantifier of the
   contract (contracts_c18.h). */
#include <cstdint>
#include <limits>
#include <algorithm>
#include <cmath>
#include <cassert>
#include <iostream>
#include <stdexcept>
#include "range_lowered.h"

using UTAP::range_t;

#define OUT(r) do { *lo = (r).first(); *hi = (r).last(); } while (0)

#define WRAPPERS(P, T)                                                                              \
    extern "C" void P##_gt(T a, T b, T u, T e, T* lo, T* hi) { range_t<T> r(a, b); r.gt(u); OUT(r); }             \
    extern "C" void P##_lt(T a, T b, T u, T e, T* lo, T* hi) { range_t<T> r(a, b); r.lt(u); OUT(r); }             \
    extern "C" void P##_geq(T a, T b, T u, T e, T* lo, T* hi) { range_t<T> r(a, b); r.geq(u); OUT(r); }           \
    extern "C" void P##_leq(T a, T b, T u, T e, T* lo, T* hi) { range_t<T> r(a, b); r.leq(u); OUT(r); }           \
    extern "C" void P##_and_r(T a, T b, T c, T d, T e, T* lo, T* hi) { range_t<T> r(a, b); r &= range_t<T>(c, d); OUT(r); } \
    extern "C" void P##_and_e(T a, T b, T x, T e, T* lo, T* hi) { range_t<T> r(a, b); r &= x; OUT(r); }           \
    extern "C" void P##_intersect_r(T a, T b, T c, T d, T e, T* lo, T* hi) { range_t<T> r(a, b); r.intersect(range_t<T>(c, d)); OUT(r); } \
    extern "C" void P##_intersect_e(T a, T b, T x, T e, T* lo, T* hi) { range_t<T> r(a, b); r.intersect(x); OUT(r); } \
    extern "C" void P##_andc_r(T a, T b, T c, T d, T e, T* lo, T* hi, T* a2, T* b2) { range_t<T> r(a, b); range_t<T> q = r & range_t<T>(c, d); OUT(q); *a2 = r.first(); *b2 = r.last(); } \
    extern "C" void P##_andc_e(T a, T b, T x, T e, T* lo, T* hi, T* a2, T* b2) { range_t<T> r(a, b); range_t<T> q = r & x; OUT(q); *a2 = r.first(); *b2 = r.last(); } \
    extern "C" void P##_intersection_r(T a, T b, T c, T d, T e, T* lo, T* hi, T* a2, T* b2) { range_t<T> r(a, b); range_t<T> q = r.intersection(range_t<T>(c, d)); OUT(q); *a2 = r.first(); *b2 = r.last(); } \
    extern "C" void P##_intersection_e(T a, T b, T x, T e, T* lo, T* hi, T* a2, T* b2) { range_t<T> r(a, b); range_t<T> q = r.intersection(x); OUT(q); *a2 = r.first(); *b2 = r.last(); } \
    extern "C" void P##_or_r(T a, T b, T c, T d, T e, T* lo, T* hi) { range_t<T> r(a, b); r |= range_t<T>(c, d); OUT(r); } \
    extern "C" void P##_or_e(T a, T b, T x, T e, T* lo, T* hi) { range_t<T> r(a, b); r |= x; OUT(r); }            \
    extern "C" void P##_add_r_(T a, T b, T c, T d, T e, T* lo, T* hi) { range_t<T> r(a, b); r.add(range_t<T>(c, d)); OUT(r); } \
    extern "C" void P##_add_e_(T a, T b, T x, T e, T* lo, T* hi) { range_t<T> r(a, b); r.add(x); OUT(r); }        \
    extern "C" void P##_orc_r(T a, T b, T c, T d, T e, T* lo, T* hi, T* a2, T* b2) { range_t<T> r(a, b); range_t<T> q = r | range_t<T>(c, d); OUT(q); *a2 = r.first(); *b2 = r.last(); } \
    extern "C" void P##_orc_e(T a, T b, T x, T e, T* lo, T* hi, T* a2, T* b2) { range_t<T> r(a, b); range_t<T> q = r | x; OUT(q); *a2 = r.first(); *b2 = r.last(); } \
    extern "C" void P##_unite_r(T a, T b, T c, T d, T e, T* lo, T* hi, T* a2, T* b2) { range_t<T> r(a, b); range_t<T> q = r.unite(range_t<T>(c, d)); OUT(q); *a2 = r.first(); *b2 = r.last(); } \
    extern "C" void P##_unite_e(T a, T b, T x, T e, T* lo, T* hi, T* a2, T* b2) { range_t<T> r(a, b); range_t<T> q = r.unite(x); OUT(q); *a2 = r.first(); *b2 = r.last(); } \
    extern "C" void P##_lower(T a, T b, T u, T* lo, T* hi) { range_t<T> r(a, b); r.lower(u); OUT(r); }           \
    extern "C" void P##_raise(T a, T b, T u, T* lo, T* hi) { range_t<T> r(a, b); r.raise(u); OUT(r); }           \
    extern "C" void P##_plus_r(T a, T b, T c, T d, T x, T y, T* lo, T* hi) { range_t<T> r(a, b); r += range_t<T>(c, d); OUT(r); } \
    extern "C" void P##_plus_e(T a, T b, T c, T x, T* lo, T* hi) { range_t<T> r(a, b); r += c; OUT(r); }         \
    extern "C" void P##_minus_r(T a, T b, T c, T d, T x, T y, T* lo, T* hi) { range_t<T> r(a, b); r -= range_t<T>(c, d); OUT(r); } \
    extern "C" void P##_minus_e(T a, T b, T c, T x, T* lo, T* hi) { range_t<T> r(a, b); r -= c; OUT(r); }        \
    extern "C" void P##_times_r(T a, T b, T c, T d, T x, T y, T* lo, T* hi) { range_t<T> r(a, b); r *= range_t<T>(c, d); OUT(r); } \
    extern "C" void P##_times_e(T a, T b, T c, T x, T* lo, T* hi) { range_t<T> r(a, b); r *= c; OUT(r); }        \
    extern "C" void P##_plusc_r(T a, T b, T c, T d, T x, T y, T* lo, T* hi, T* a2, T* b2) { range_t<T> r(a, b); range_t<T> q = r + range_t<T>(c, d); OUT(q); *a2 = r.first(); *b2 = r.last(); } \
    extern "C" void P##_plusc_e(T a, T b, T c, T x, T* lo, T* hi, T* a2, T* b2) { range_t<T> r(a, b); range_t<T> q = r + c; OUT(q); *a2 = r.first(); *b2 = r.last(); } \
    extern "C" void P##_minusc_r(T a, T b, T c, T d, T x, T y, T* lo, T* hi, T* a2, T* b2) { range_t<T> r(a, b); range_t<T> q = r - range_t<T>(c, d); OUT(q); *a2 = r.first(); *b2 = r.last(); } \
    extern "C" void P##_minusc_e(T a, T b, T c, T x, T* lo, T* hi, T* a2, T* b2) { range_t<T> r(a, b); range_t<T> q = r - c; OUT(q); *a2 = r.first(); *b2 = r.last(); } \
    extern "C" void P##_timesc_r(T a, T b, T c, T d, T x, T y, T* lo, T* hi, T* a2, T* b2) { range_t<T> r(a, b); range_t<T> q = r * range_t<T>(c, d); OUT(q); *a2 = r.first(); *b2 = r.last(); } \
    extern "C" void P##_timesc_e(T a, T b, T c, T x, T* lo, T* hi, T* a2, T* b2) { range_t<T> r(a, b); range_t<T> q = r * c; OUT(q); *a2 = r.first(); *b2 = r.last(); } \
    extern "C" int P##_contains(T a, T b, T e) { range_t<T> r(a, b); return r.contains(e); }                      \
    extern "C" int P##_andand_e(T a, T b, T e) { range_t<T> r(a, b); return r && e; }                             \
    extern "C" int P##_intersects(T a, T b, T c, T d, T e) { range_t<T> r(a, b); return r.intersects(range_t<T>(c, d)); } \
    extern "C" int P##_andand_r(T a, T b, T c, T d, T e) { range_t<T> r(a, b); return r && range_t<T>(c, d); }    \
    extern "C" int P##_eq_r(T a, T b, T c, T d, T e) { range_t<T> r(a, b); return r == range_t<T>(c, d); }        \
    extern "C" int P##_eq_e(T a, T b, T x, T e) { range_t<T> r(a, b); return r == x; }                            \
    extern "C" int P##_less(T a, T b, T c, T d, T x, T y) { range_t<T> r(a, b); return r < range_t<T>(c, d); }    \
    extern "C" int P##_greater(T a, T b, T c, T d, T x, T y) { range_t<T> r(a, b); return r > range_t<T>(c, d); } \
    extern "C" int P##_lesseq(T a, T b, T c, T d) { range_t<T> r(a, b); return r <= range_t<T>(c, d); }           \
    extern "C" int P##_greatereq(T a, T b, T c, T d) { range_t<T> r(a, b); return r >= range_t<T>(c, d); }        \
    extern "C" int P##_empty(T a, T b) { range_t<T> r(a, b); return r.empty(); }                                  \
    extern "C" void P##_singleton(T v, T* lo, T* hi) { range_t<T> r(v); OUT(r); }                                 \
    extern "C" void P##_default(T* lo, T* hi) { range_t<T> r; OUT(r); }                                           \
    extern "C" void P##_clear(T a, T b, T* lo, T* hi) { range_t<T> r(a, b); r.clear(); OUT(r); }                  \
    extern "C" uint32_t P##_size(T a, T b) { range_t<T> r(a, b); return r.size(); }                               \
    extern "C" T P##_next_value(T v, T m) { return UTAP::next_value<T>(v); }                                      \
    extern "C" T P##_prev_value(T v, T m) { return UTAP::prev_value<T>(v); }                                      \
    extern "C" void P##_stdmin(T a, T b, T c, T d, T x, T y, T* lo, T* hi) { range_t<T> r = std::min<T>(range_t<T>(a, b), range_t<T>(c, d)); OUT(r); } \
    extern "C" void P##_stdmax(T a, T b, T c, T d, T x, T y, T* lo, T* hi) { range_t<T> r = std::max<T>(range_t<T>(a, b), range_t<T>(c, d)); OUT(r); }

#ifdef INST_I8
WRAPPERS(r8, int8_t)
#endif
#ifdef INST_I16
WRAPPERS(r16, int16_t)
#endif
#ifdef INST_I32
WRAPPERS(r32, int32_t)
#endif
#ifdef INST_D
WRAPPERS(rd, double)
#endif
