#include <stdint.h>
#define T int32_t
#define W int64_t
#define P r32
#define TMIN (-2147483647 - 1)
#define TMAX 2147483647
#include "contracts_c18.h"
