#include <stdint.h>
#define T int8_t
#define W int32_t
#define P r8
#define TMIN (-128)
#define TMAX 127
#include "contracts_c18.h"
