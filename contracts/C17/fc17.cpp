/* C17: the REAL FeatureChecker member functions (src/featurechecker.cpp) and the REAL
   expression_t::uses_fp / uses_hybrid / uses_clock (src/expression.cpp), one level each
   (recursive calls answered by contracts = ghost summaries of the child, rule L12). */
#define VERIF_TYPE_FLAT
#include "utap_abs.h"

extern "C" {
int verif_err_count, verif_warn_count, verif_last_err, verif_thrown;
}
namespace UTAP {
verif_node verif_nodes[VERIF_NNODES];
verif_sym verif_syms[VERIF_NSYM];
type_t verif_tpool[VERIF_NSID];

struct SupportedMethods
{
    bool symbolic, stochastic, concrete;
    SupportedMethods(): symbolic(true), stochastic(true), concrete(true) {} /* = the default member initialisers of document.h (checked textually) */
};
struct variable_t { symbol_t uid; expression_t init; };
struct location_t { symbol_t uid; expression_t invariant; };
struct edge_t { expression_t guard, assign; };
struct template_t { bool is_instantiated; };
class frame_t
{
public:
    int n;
    symbol_t syms[4];
    size_t get_size() const { return (size_t)n; }
    symbol_t get_symbol(uint32_t i) const { __CPROVER_assert(i < (uint32_t)n, "stub: frame index in range"); return syms[i]; }
    symbol_t operator[](uint32_t i) const { return get_symbol(i); }
    /* iteration (a range-for over the frame is lowered to this, rule L7) */
    symbol_t* begin() const { return (symbol_t*)&syms[0]; }
    symbol_t* end() const { return (symbol_t*)&syms[0] + n; }
};
struct declarations_t { frame_t frame; };
class FeatureChecker;
class Document
{
public:
    declarations_t global;
    bool dyn, prio;
    int accepted;
    void accept(FeatureChecker&) { accepted++; } /* the traversal is Document::accept's; each visit* is under contract separately */
    declarations_t& get_globals() { return global; }
    bool has_dynamic_templates() const { return dyn; }
    bool has_priority_declaration() const { return prio; }
};
class FeatureChecker
{
public:
    SupportedMethods supported_methods;
    FeatureChecker() {}
    explicit FeatureChecker(Document& document);
    void visitEdge(edge_t& edge);
    void visitAssignment(expression_t& ass);
    void visitGuard(expression_t& guard);
    void visitLocation(location_t& state);
    void visitVariable(variable_t&);
    bool visitTemplateBefore(template_t&);
    void visitFrame(const frame_t& frame);
    bool isRateDisallowedInSymbolic(const expression_t& e);
    /* contracts of the recursive callees (induction hypothesis) */
    void visitGuard__contract(expression_t g) { if (!g.empty() && g.data->g_d) supported_methods.symbolic = false; }
    void visitAssignment__real(expression_t ass) { visitAssignment(ass); } /* glue: the stub's get(i) returns the handle by value */
    void visitAssignment__contract(expression_t ass) { if (!ass.empty() && ass.data->g_d) supported_methods.symbolic = false; }
    bool isRateDisallowedInSymbolic__contract(const expression_t& e) { return !e.empty() && e.data->g_e; }
};
}  // namespace UTAP
using namespace UTAP;
using namespace Constants;

#include "expr_walkers.inc" /* REAL uses_fp / uses_hybrid / uses_clock (self-calls -> contract) */
#ifdef VERIF_REAL_ASSIGN
#include "fc_funcs_real.inc" /* the same, visitAssignment's own recursion left in place (bounded chain job) */
#else
#include "fc_funcs.inc"     /* REAL featurechecker.cpp functions (callee walkers -> contract)    */
#endif

static type_t mk(int k, unsigned w) { type_t t = type_t::verif_any_type(); t.base = (kind_t)k; t.wrap = w; return t; }
/* a type that may be an array (depth <= 1): if k == ARRAY its element type is (ek, ew), kept in pool slot `slot` */
static type_t mk_arr(int k, unsigned w, int ek, unsigned ew, int slot)
{
    type_t t = mk(k, w);
    verif_tpool[slot] = mk(ek, ew);
    t.sid2 = slot;
    return t;
}

/* root = node 0 with up to 4 children (nodes 1..4); child i carries the ghost bits g[i] */
static void build(int kind, int tk, unsigned tw, int nsub, const unsigned* g)
{
    verif_nodes[0].kind = (kind_t)kind; verif_nodes[0].type = mk(tk, tw); verif_nodes[0].nsub = nsub;
    for (int i = 0; i < 4; i++) {
        verif_nodes[0].sub[i] = i + 1;
        verif_nodes[i + 1].nsub = 0;
        verif_nodes[i + 1].g_a = g[i] & 1; verif_nodes[i + 1].g_b = (g[i] >> 1) & 1; verif_nodes[i + 1].g_c = (g[i] >> 2) & 1;
        verif_nodes[i + 1].g_d = (g[i] >> 3) & 1; verif_nodes[i + 1].g_e = (g[i] >> 4) & 1; verif_nodes[i + 1].g_f = (g[i] >> 5) & 1;
    }
}

extern "C" void w_c17_walker(int which, int empty, int kind, int tk, unsigned tw, int nsub, unsigned g0, unsigned g1, unsigned g2, unsigned g3,
                             int* res, int* t_double, int* t_hybrid, int* t_clock)
{
    unsigned g[4] = {g0, g1, g2, g3};
    build(kind, tk, tw, nsub, g);
    expression_t e; if (!empty) e = expression_t(0);
    type_t t = verif_nodes[0].type;
    *t_double = t.is(DOUBLE); *t_hybrid = t.is(HYBRID); *t_clock = t.is_clock();
    *res = which == 0 ? e.uses_fp() : which == 1 ? e.uses_hybrid() : e.uses_clock();
}

#define FLAGS_IN(fc) do { (fc).supported_methods.symbolic = sym != 0; (fc).supported_methods.stochastic = sto != 0; (fc).supported_methods.concrete = con != 0; } while (0)
#define FLAGS_OUT(fc) do { *osym = (fc).supported_methods.symbolic; *osto = (fc).supported_methods.stochastic; *ocon = (fc).supported_methods.concrete; } while (0)

extern "C" void w_c17_guard(int empty, int kind, int nsub, int k0, int k1, unsigned g0, unsigned g1, unsigned g2, unsigned g3, int sym, int sto, int con, int* osym, int* osto, int* ocon)
{
    unsigned g[4] = {g0, g1, g2, g3};
    build(kind, INT, 0, nsub, g);
    verif_nodes[1].kind = (kind_t)k0; verif_nodes[2].kind = (kind_t)k1;
    FeatureChecker fc; FLAGS_IN(fc);
    expression_t e;
    if (!empty) e = expression_t(0);
    fc.visitGuard(e);
    FLAGS_OUT(fc);
}
extern "C" void w_c17_assign(int kind, int nsub, int root_fp, int root_hyb, unsigned g0, unsigned g1, unsigned g2, unsigned g3, int sym, int sto, int con, int* osym, int* osto, int* ocon)
{
    unsigned g[4] = {g0, g1, g2, g3};
    build(kind, INT, 0, nsub, g);
    verif_nodes[0].g_a = root_fp != 0; verif_nodes[0].g_b = root_hyb != 0;
    FeatureChecker fc; FLAGS_IN(fc);
    expression_t e(0);
    fc.visitAssignment(e);
    FLAGS_OUT(fc);
}
/* an update list of n <= 4 elements in the parser's shape COMMA(COMMA(COMMA(e0, e1), e2), e3); element i has kind
   k[i] and the ghost bits g[i] (fp / hybrid); the REAL visitAssignment runs on the whole list */
extern "C" void w_c17_assign_chain(int n, int k0, int k1, int k2, int k3, unsigned g0, unsigned g1, unsigned g2, unsigned g3, int sym, int sto, int con, int* osym, int* osto, int* ocon)
{
    int k[4] = {k0, k1, k2, k3};
    unsigned g[4] = {g0, g1, g2, g3};
    /* elements: nodes 4..7 */
    for (int i = 0; i < 4; i++) {
        verif_node& e = verif_nodes[4 + i];
        e.kind = (kind_t)k[i]; e.nsub = 0; e.type = mk(INT, 0);
        e.g_a = g[i] & 1; e.g_b = (g[i] >> 1) & 1; e.g_c = 0; e.g_d = 0; e.g_e = 0; e.g_f = 0;
    }
    /* COMMA nodes: node 1 = (e0, e1), node 2 = (node1, e2), node 3 = (node2, e3) */
    for (int j = 1; j <= 3; j++) {
        verif_node& c = verif_nodes[j];
        c.kind = COMMA; c.nsub = 2; c.type = mk(INT, 0);
        c.sub[0] = j == 1 ? 4 : j - 1; c.sub[1] = 4 + j;
        c.g_a = c.g_b = c.g_c = c.g_d = c.g_e = c.g_f = 0;
    }
    FeatureChecker fc; FLAGS_IN(fc);
    expression_t e(n == 1 ? 4 : n - 1);
    fc.visitAssignment(e);
    FLAGS_OUT(fc);
}
/* invariant: root (kind, children ghosts); for the EQ/RATE shape: child `ratepos` is a RATE node over an
   identifier whose symbol type has wrapper set `clk_w`; the other child has kind okind / value oval */
extern "C" void w_c17_location(int empty, int kind, int nsub, unsigned g0, unsigned g1, int k0, int k1, int tk0, int tk1, unsigned clk_w, int v0, int v1, double d0, double d1,
                               int sym, int sto, int con, int* osym, int* osto, int* ocon)
{
    unsigned g[4] = {g0, g1, 0, 0};
    build(kind, INT, 0, nsub, g);
    /* the walkers' summaries of the ROOT are the ones their contracts give: the union over the children (uses_fp / uses_hybrid /
       uses_clock are proved to be exactly that in c17_uses_*), so code that asks the whole invariant sees consistent answers */
    verif_nodes[0].g_a = false; verif_nodes[0].g_b = false; verif_nodes[0].g_c = false;
    for (int i = 0; i < 2; i++) {
        if (i < nsub) {
            verif_nodes[0].g_a = verif_nodes[0].g_a || verif_nodes[i + 1].g_a;
            verif_nodes[0].g_b = verif_nodes[0].g_b || verif_nodes[i + 1].g_b;
            verif_nodes[0].g_c = verif_nodes[0].g_c || verif_nodes[i + 1].g_c;
        }
    }
    verif_nodes[1].kind = (kind_t)k0; verif_nodes[2].kind = (kind_t)k1;
    verif_nodes[1].value = v0; verif_nodes[2].value = v1;
    verif_nodes[1].dvalue = d0; verif_nodes[2].dvalue = d1;
    verif_nodes[1].type = mk(tk0, 0); verif_nodes[2].type = mk(tk1, 0);
    /* both children may be RATE nodes: each gets one child (node 5 / 6): an identifier of symbol 0 */
    verif_nodes[1].nsub = (k0 == RATE) ? 1 : 0; verif_nodes[1].sub[0] = 5;
    verif_nodes[2].nsub = (k1 == RATE) ? 1 : 0; verif_nodes[2].sub[0] = 6;
    verif_nodes[5].kind = IDENTIFIER; verif_nodes[5].nsub = 0; verif_nodes[5].symbol = symbol_t(0);
    verif_nodes[6].kind = IDENTIFIER; verif_nodes[6].nsub = 0; verif_nodes[6].symbol = symbol_t(0);
    verif_syms[0].type = mk(CLOCK, clk_w);
    location_t loc; if (!empty) loc.invariant = expression_t(0);
    FeatureChecker fc; FLAGS_IN(fc);
    fc.visitLocation(loc);
    FLAGS_OUT(fc);
}
extern "C" void w_c17_variable(int tk, unsigned tw, int ek, unsigned ew, int init_empty, int init_fp, int sym, int sto, int con, int* is_clock_, int* osym, int* osto, int* ocon)
{
    verif_syms[0].type = mk_arr(tk, tw, ek, ew, 0);
    verif_nodes[0].nsub = 0; verif_nodes[0].g_a = init_fp != 0;
    variable_t v; v.uid = symbol_t(0); if (!init_empty) v.init = expression_t(0);
    *is_clock_ = verif_syms[0].type.is_clock();
    FeatureChecker fc; FLAGS_IN(fc);
    fc.visitVariable(v);
    FLAGS_OUT(fc);
}
extern "C" void w_c17_frame(int n, int k0, unsigned w0, int ek0, unsigned ew0, int k1, unsigned w1, int k2, unsigned w2, int sym, int sto, int con, int* osym, int* osto, int* ocon)
{
    verif_syms[0].type = mk_arr(k0, w0, ek0, ew0, 0); verif_syms[1].type = mk(k1, w1); verif_syms[2].type = mk(k2, w2);
    frame_t f; f.n = n; f.syms[0] = symbol_t(0); f.syms[1] = symbol_t(1); f.syms[2] = symbol_t(2); f.syms[3] = symbol_t(0);
    FeatureChecker fc; FLAGS_IN(fc);
    fc.visitFrame(f);
    FLAGS_OUT(fc);
}
extern "C" void w_c17_ctor(int dyn, int prio, int n, int k0, unsigned w0, int* osym, int* osto, int* ocon, int* accepted)
{
    verif_syms[0].type = mk(k0, w0);
    Document d; d.dyn = dyn != 0; d.prio = prio != 0; d.accepted = 0; d.global.frame.n = n; d.global.frame.syms[0] = symbol_t(0);
    FeatureChecker fc(d);
    FLAGS_OUT(fc);
    *accepted = d.accepted;
}
extern "C" int w_c17_template_before(int inst)
{
    template_t t; t.is_instantiated = inst != 0;
    FeatureChecker fc;
    return fc.visitTemplateBefore(t);
}
extern "C" void w_c17_edge(int gkind, int akind, unsigned ga, unsigned gg, int sym, int sto, int con, int* osym, int* osto, int* ocon)
{
    /* visitEdge = visitAssignment(assign); visitGuard(guard): both leaves here, checked for the call structure */
    verif_nodes[0].kind = (kind_t)gkind; verif_nodes[0].nsub = 0; verif_nodes[0].g_d = (gg & 1) != 0;
    verif_nodes[1].kind = (kind_t)akind; verif_nodes[1].nsub = 0; verif_nodes[1].g_a = ga & 1; verif_nodes[1].g_b = (ga >> 1) & 1;
    edge_t e; e.guard = expression_t(0); e.assign = expression_t(1);
    FeatureChecker fc; FLAGS_IN(fc);
    fc.visitEdge(e);
    FLAGS_OUT(fc);
}
