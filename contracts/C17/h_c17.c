/* C17 harnesses (mode H).  Oracles from the property statement:
   fp(e)     : e has a floating-point value somewhere (double type, a math builtin FABS_F..RANDOM_WEIBULL_F, or a child with fp)
   fpcmp(e)  : some relational node (< <= == != >= >) in e compares a clock side with an fp side
   badass(e) : some element of the update list is an assignment with fp and without hybrid
   badrate(e): some conjunct sets a non-hybrid clock's rate to a constant other than 0 or 1          */
#include "kinds.h"
#define REACH __CPROVER_assert(0, "reach")
#define FP(g) ((g)&1)
#define HYB(g) (((g) >> 1) & 1)
#define CLK(g) (((g) >> 2) & 1)
#define GD(g) (((g) >> 3) & 1)
#define GE(g) (((g) >> 4) & 1)
#define IS_REL(k) ((k) == K_LT || (k) == K_LE || (k) == K_EQ || (k) == K_NEQ || (k) == K_GE || (k) == K_GT)
#define IS_FP_KIND(k) ((k) >= K_FABS_F && (k) <= K_RANDOM_WEIBULL_F)
#define VW_HYBRID 16
#define NB(k, w) ((k) == K_CHANNEL && !((w)&4))
#ifndef KF1_GUARD_CLASS
#define KF1_GUARD_CLASS 0
#endif
#ifndef KF2_INVARIANT_CLASS
#define KF2_INVARIANT_CLASS 0
#endif

void w_c17_walker(int which, int empty, int kind, int tk, unsigned tw, int nsub, unsigned g0, unsigned g1, unsigned g2, unsigned g3, int* res, int* t_double, int* t_hybrid, int* t_clock);
void w_c17_guard(int empty, int kind, int nsub, int k0, int k1, unsigned g0, unsigned g1, unsigned g2, unsigned g3, int sym, int sto, int con, int* osym, int* osto, int* ocon);
void w_c17_assign(int kind, int nsub, int root_fp, int root_hyb, unsigned g0, unsigned g1, unsigned g2, unsigned g3, int sym, int sto, int con, int* osym, int* osto, int* ocon);
void w_c17_location(int empty, int kind, int nsub, unsigned g0, unsigned g1, int k0, int k1, int tk0, int tk1, unsigned clk_w, int v0, int v1, double d0, double d1, int sym, int sto, int con, int* osym, int* osto, int* ocon);
void w_c17_variable(int tk, unsigned tw, int ek, unsigned ew, int init_empty, int init_fp, int sym, int sto, int con, int* is_clock_, int* osym, int* osto, int* ocon);
void w_c17_frame(int n, int k0, unsigned w0, int ek0, unsigned ew0, int k1, unsigned w1, int k2, unsigned w2, int sym, int sto, int con, int* osym, int* osto, int* ocon);
void w_c17_ctor(int dyn, int prio, int n, int k0, unsigned w0, int* osym, int* osto, int* ocon, int* accepted);
int w_c17_template_before(int inst);
void w_c17_edge(int gkind, int akind, unsigned ga, unsigned gg, int sym, int sto, int con, int* osym, int* osto, int* ocon);

/* frame + monotonicity: a visitor never sets a flag back to true and touches only `symbolic` (or only `stochastic`) */
#define MONO(name) __CPROVER_assert((sym || !osym) && (sto || !osto) && (con || !ocon), name ".flags-are-only-ever-cleared")

static void walker(int which)
{
    int empty, kind, tk, nsub, res, td, th, tc; unsigned tw, g0, g1, g2, g3;
    __CPROVER_assume(VALID_KIND(kind) && VALID_BASE(tk) && tw <= 511 && nsub >= 0 && nsub <= 4 && g0 < 64 && g1 < 64 && g2 < 64 && g3 < 64);
    __CPROVER_assume(empty == 0 || empty == 1);
    w_c17_walker(which, empty, kind, tk, tw, nsub, g0, g1, g2, g3, &res, &td, &th, &tc);
    unsigned any = (nsub > 0 ? g0 : 0) | (nsub > 1 ? g1 : 0) | (nsub > 2 ? g2 : 0) | (nsub > 3 ? g3 : 0);
    _Bool want;
    if (which == 0) want = !empty && (td || IS_FP_KIND(kind) || FP(any));
    else if (which == 1) want = !empty && (th || HYB(any));
    else want = !empty && (tc || CLK(any));
    __CPROVER_assert((res != 0) == want, "c17.walker.result-equals-ghost-summary");
    REACH;
}
void h_c17_uses_fp(void) { walker(0); }
void h_c17_uses_hybrid(void) { walker(1); }
void h_c17_uses_clock(void) { walker(2); }

void h_c17_guard(void)
{
    int empty, kind, nsub, k0, k1, sym, sto, con, osym, osto, ocon; unsigned g0, g1, g2, g3;
    __CPROVER_assume((empty == 0 || empty == 1) && VALID_KIND(kind) && VALID_KIND(k0) && VALID_KIND(k1) && nsub >= 0 && nsub <= 4 && g0 < 64 && g1 < 64 && g2 < 64 && g3 < 64);
    /* well-formed node: relational operators are binary */
    __CPROVER_assume(!IS_REL(kind) || nsub == 2);
#ifdef EXCLUDE_KF
    __CPROVER_assume(!KF1_GUARD_CLASS);
#endif
    w_c17_guard(empty, kind, nsub, k0, k1, g0, g1, g2, g3, sym, sto, con, &osym, &osto, &ocon);
    /* a relational node with a RATE side sets a clock rate (judged by the rate rule), it is not a comparison */
    _Bool nested = !empty && !IS_REL(kind) && ((nsub > 0 && GD(g0)) || (nsub > 1 && GD(g1)) || (nsub > 2 && GD(g2)) || (nsub > 3 && GD(g3)));
    _Bool here = !empty && IS_REL(kind) && k0 != K_RATE && k1 != K_RATE && ((CLK(g0) && FP(g1)) || (FP(g0) && CLK(g1)));
    __CPROVER_assert(!(here || nested) || !osym, "c17.guard.clock-vs-floating-point-comparison-clears-symbolic");
    MONO("c17.guard");
    __CPROVER_assert(osto == (sto != 0) && ocon == (con != 0), "c17.guard.other-flags-untouched");
    REACH;
}
void h_c17_assign(void)
{
    int kind, nsub, rfp, rhyb, sym, sto, con, osym, osto, ocon; unsigned g0, g1, g2, g3;
    __CPROVER_assume(VALID_KIND(kind) && nsub >= 0 && nsub <= 4 && g0 < 64 && g1 < 64 && g2 < 64 && g3 < 64);
    w_c17_assign(kind, nsub, rfp, rhyb, g0, g1, g2, g3, sym, sto, con, &osym, &osto, &ocon);
    _Bool nested = kind == K_COMMA && ((nsub > 0 && GD(g0)) || (nsub > 1 && GD(g1)) || (nsub > 2 && GD(g2)) || (nsub > 3 && GD(g3)));
    _Bool here = kind == K_ASSIGN && rfp && !rhyb;
    __CPROVER_assert(!(here || nested) || !osym, "c17.assign.fp-assignment-without-hybrid-clears-symbolic");
    __CPROVER_assert(here || nested || osym == (sym != 0), "c17.assign.other-updates-leave-symbolic");
    MONO("c17.assign");
    __CPROVER_assert(osto == (sto != 0) && ocon == (con != 0), "c17.assign.other-flags-untouched");
    REACH;
}
void w_c17_assign_chain(int n, int k0, int k1, int k2, int k3, unsigned g0, unsigned g1, unsigned g2, unsigned g3, int sym, int sto, int con, int* osym, int* osto, int* ocon);
/* bounded: the whole REAL visitAssignment on update lists of <= 4 elements (parser shape) */
static void assign_chain(int n)
{
    int k[4], sym, sto, con, osym, osto, ocon; unsigned g[4];
    for (int i = 0; i < 4; i++) __CPROVER_assume(VALID_KIND(k[i]) && k[i] != K_COMMA && g[i] < 4);
    w_c17_assign_chain(n, k[0], k[1], k[2], k[3], g[0], g[1], g[2], g[3], sym, sto, con, &osym, &osto, &ocon);
    _Bool bad = 0;
    for (int i = 0; i < 4; i++)
        if (i < n && k[i] == K_ASSIGN && FP(g[i]) && !HYB(g[i])) bad = 1;
    __CPROVER_assert(!bad || !osym, "c17.assign.fp-assignment-without-hybrid-in-any-element-of-the-update-list-clears-symbolic");
    __CPROVER_assert(bad || osym == (sym != 0), "c17.assign.lists-without-such-an-element-leave-symbolic");
    MONO("c17.assign_chain");
    REACH;
}
/* one entry per list length: the tree shape is concrete, so the real recursion / iteration unfolds deterministically */
void h_c17_assign_chain(void)
{
    int n;
    if (n == 1) assign_chain(1); else if (n == 2) assign_chain(2); else if (n == 3) assign_chain(3); else assign_chain(4);
}
void h_c17_location(void)
{
    int empty, kind, nsub, k0, k1, tk0, tk1, v0, v1, sym, sto, con, osym, osto, ocon; unsigned g0, g1, cw; double d0, d1;
    __CPROVER_assume((empty == 0 || empty == 1) && VALID_KIND(kind) && VALID_KIND(k0) && VALID_KIND(k1) && nsub >= 0 && nsub <= 2 && g0 < 64 && g1 < 64 && cw <= 511);
    __CPROVER_assume(VALID_BASE(tk0) && VALID_BASE(tk1) && !__CPROVER_isnand(d0) && !__CPROVER_isnand(d1));
    /* the invariant has passed checkExpression: a RATE is comparable only with integral or double-valued operands,
       so a CONSTANT opposite a RATE is an int, bool or double literal */
    __CPROVER_assume(k0 != K_CONSTANT || tk0 == K_INT || tk0 == K_BOOL || tk0 == K_DOUBLE);
    __CPROVER_assume(k1 != K_CONSTANT || tk1 == K_INT || tk1 == K_BOOL || tk1 == K_DOUBLE);
    __CPROVER_assume(!(IS_REL(kind) || kind == K_AND) || nsub == 2);
#ifdef EXCLUDE_KF
    __CPROVER_assume(!KF2_INVARIANT_CLASS);
#endif
    /* a RATE operand mentions the clock: its hybrid / clock summaries are those of the clock's declared type */
    __CPROVER_assume(k0 != K_RATE || (HYB(g0) == ((cw & VW_HYBRID) != 0) && CLK(g0)));
    __CPROVER_assume(k1 != K_RATE || (HYB(g1) == ((cw & VW_HYBRID) != 0) && CLK(g1)));
    w_c17_location(empty, kind, nsub, g0, g1, k0, k1, tk0, tk1, cw, v0, v1, d0, d1, sym, sto, con, &osym, &osto, &ocon);
    _Bool hybrid = (cw & VW_HYBRID) != 0;
#define NOT01(tk, v, d) (((tk) == K_DOUBLE) ? ((d) != 0.0 && (d) != 1.0) : ((tk) == K_INT ? ((v) != 0 && (v) != 1) : 0))
    _Bool badrate_here = kind == K_EQ && !hybrid &&
                         ((k0 == K_RATE && k1 == K_CONSTANT && NOT01(tk1, v1, d1)) ||
                          (k0 != K_RATE && k1 == K_RATE && k0 == K_CONSTANT && NOT01(tk0, v0, d0)));
    _Bool badrate_nested = kind == K_AND && (GE(g0) || GE(g1));
    _Bool fpcmp = (IS_REL(kind) && k0 != K_RATE && k1 != K_RATE && ((CLK(g0) && FP(g1)) || (FP(g0) && CLK(g1)))) ||
                  (!IS_REL(kind) && ((nsub > 0 && GD(g0)) || (nsub > 1 && GD(g1))));
    if (!empty) {
        __CPROVER_assert(!(badrate_here || badrate_nested) || !osym, "c17.location.non-01-rate-of-non-hybrid-clock-clears-symbolic");
        __CPROVER_assert(!fpcmp || !osym, "c17.location.clock-vs-floating-point-comparison-in-invariant-clears-symbolic");
    }
    MONO("c17.location");
    __CPROVER_assert(osto == (sto != 0) && ocon == (con != 0), "c17.location.other-flags-untouched");
    REACH;
}
void h_c17_variable(void)
{
    int tk, ek, ie, ifp, sym, sto, con, isclk, osym, osto, ocon; unsigned tw, ew;
    __CPROVER_assume(VALID_BASE(tk) && tw <= 511 && VALID_BASE(ek) && ek != K_ARRAY && ew <= 511 && (ie == 0 || ie == 1) && (ifp == 0 || ifp == 1));
    w_c17_variable(tk, tw, ek, ew, ie, ifp, sym, sto, con, &isclk, &osym, &osto, &ocon);
    /* a clock or an array of clocks (array nesting depth <= 1 in this harness) */
    _Bool clockish = tk == K_CLOCK || (tk == K_ARRAY && ek == K_CLOCK);
    _Bool nbchan = NB(tk, tw) || (tk == K_ARRAY && NB(ek, ew));
    __CPROVER_assert(!(clockish && !ie && ifp) || !osym, "c17.variable.clock-with-fp-initialiser-clears-symbolic");
    __CPROVER_assert((clockish && !ie && ifp) || osym == (sym != 0), "c17.variable.other-variables-leave-symbolic");
    __CPROVER_assert(!nbchan || !osto, "c17.variable.non-broadcast-channel-variable-clears-stochastic");
    __CPROVER_assert(nbchan || osto == (sto != 0), "c17.variable.other-variables-leave-stochastic");
    MONO("c17.variable");
    __CPROVER_assert(ocon == (con != 0), "c17.variable.concrete-untouched");
    REACH;
}
void h_c17_frame(void)
{
    int n, k0, ek0, k1, k2, sym, sto, con, osym, osto, ocon; unsigned w0, ew0, w1, w2;
    __CPROVER_assume(n >= 0 && n <= 3 && VALID_BASE(k0) && VALID_BASE(k1) && VALID_BASE(k2) && w0 <= 511 && w1 <= 511 && w2 <= 511);
    __CPROVER_assume(VALID_BASE(ek0) && ek0 != K_ARRAY && ew0 <= 511 && k1 != K_ARRAY && k2 != K_ARRAY);
    w_c17_frame(n, k0, w0, ek0, ew0, k1, w1, k2, w2, sym, sto, con, &osym, &osto, &ocon);
    _Bool nonbc = (n > 0 && (NB(k0, w0) || (k0 == K_ARRAY && NB(ek0, ew0)))) || (n > 1 && NB(k1, w1)) || (n > 2 && NB(k2, w2));
    __CPROVER_assert(!nonbc || !osto, "c17.frame.non-broadcast-channel-clears-stochastic");
    __CPROVER_assert(nonbc || osto == (sto != 0), "c17.frame.broadcast-only-leaves-stochastic");
    MONO("c17.frame");
    __CPROVER_assert(osym == (sym != 0) && ocon == (con != 0), "c17.frame.other-flags-untouched");
    REACH;
}
void h_c17_ctor(void)
{
    int dyn, prio, n, k0, osym, osto, ocon, acc; unsigned w0;
    __CPROVER_assume((dyn == 0 || dyn == 1) && (prio == 0 || prio == 1) && n >= 0 && n <= 1 && VALID_BASE(k0) && w0 <= 511);
    w_c17_ctor(dyn, prio, n, k0, w0, &osym, &osto, &ocon, &acc);
    __CPROVER_assert(acc == 1, "c17.ctor.document-is-traversed-once");
    __CPROVER_assert(!dyn || !osym, "c17.ctor.dynamic-templates-clear-symbolic");
    __CPROVER_assert(!prio || (!osto && !ocon), "c17.ctor.priorities-clear-stochastic-and-concrete");
    __CPROVER_assert(!(n == 1 && NB(k0, w0)) || !osto, "c17.ctor.global-non-broadcast-channel-clears-stochastic");
    __CPROVER_assert(dyn || osym, "c17.ctor.symbolic-kept-otherwise");
    __CPROVER_assert(prio || ocon, "c17.ctor.concrete-kept-otherwise");
    __CPROVER_assert(prio || (n == 1 && NB(k0, w0)) || osto, "c17.ctor.stochastic-kept-otherwise");
    REACH;
}
void h_c17_template_before(void)
{
    int inst;
    __CPROVER_assume(inst == 0 || inst == 1);
    int r = w_c17_template_before(inst);
    __CPROVER_assert((r != 0) == (inst != 0), "c17.template.only-instantiated-templates-are-visited");
    REACH;
}
void h_c17_edge(void)
{
    int gk, ak, sym, sto, con, osym, osto, ocon; unsigned ga, gg;
    __CPROVER_assume(VALID_KIND(gk) && VALID_KIND(ak) && ga < 4 && !IS_REL(gk) /* leaf guard */);
    w_c17_edge(gk, ak, ga, gg, sym, sto, con, &osym, &osto, &ocon);
    __CPROVER_assert(!(ak == K_ASSIGN && (ga & 1) && !(ga & 2)) || !osym, "c17.edge.update-is-checked");
    MONO("c17.edge");
    REACH;
}
