/* C04 kernel K1 harnesses (mode H): the reader hands each element's own content to the builder, once, in document order.
   Node scripts are arbitrary within a shape: optional white-space nodes between elements, arbitrary attribute values and
   texts (identities), labels of arbitrary kinds. */
#define REACH __CPROVER_assert(0, "reach")
#include "xr_ids.h"
extern int verif_exc, verif_ev_op[24], verif_ev_a[24], verif_ev_b[24], verif_ev_c[24], verif_ev_d[24], verif_nev;
void wx_node(int i, int type, int tag, int empty, int a_ref, int a_id, int a_kind, int a_controllable, int a_action, int text);
void wx_has(int i, int a, int present);
void wx_start(int n, int first_tag, int builder_throws, int parse_fails);
void wx_name(int id, int name);
int wx_names(int id);
int wx_call(int which);
int wx_cursor(void);
int wx_path_depth(void);
/* A04: obligations of C04 (what is handed over); A06: obligations of C06 (under which XPath it is handed over: a diagnostic
   raised while a label's text is parsed, or by the builder for a location / branchpoint, must select exactly that element).
   The same scripts serve both properties; each check asserts its own obligations only. */
#ifdef FOR_C06
#define A04(c, m) ((void)0)
#define A06(c, m) __CPROVER_assert(c, m)
#else
#define A04(c, m) __CPROVER_assert(c, m)
#define A06(c, m) ((void)0)
#endif
#define PATH_ID(id, t, c) ((id) * 53 + (t) * 3 + (c))
#define PATH3(t3) (PATH_ID(PATH_ID(PATH_ID(1, TAG_NTA, 1), TAG_TEMPLATE, 1), t3, 1))
#define T_ELEMENT 1
#define T_TEXT 3
#define T_WS 14
#define T_END 15
static int n_;
/* ref / id / kind are present when the (concrete) script gives them; controllable / action are present iff their - arbitrary - value is not 0 */
static int cp_, ap_; /* presence of controllable / action on the next element (concrete, set by the case) */
static void el(int tag, int empty, int ref, int id, int kind, int ctl, int act)
{
    wx_node(n_, T_ELEMENT, tag, empty, ref, id, kind, ctl, act, 0);
    wx_has(n_, 0, ref != 0); wx_has(n_, 1, id != 0); wx_has(n_, 2, tag == TAG_LABEL); wx_has(n_, 3, tag == TAG_TRANSITION && cp_); wx_has(n_, 4, tag == TAG_TRANSITION && ap_);
    n_++;
}
static void endel(int tag) { wx_node(n_, T_END, tag, 0, 0, 0, 0, 0, 0, 0); n_++; }
static void text(int t) { wx_node(n_, T_TEXT, TAG_NONE, 0, 0, 0, 0, 0, 0, t); n_++; }
static void ws(int on) { if (on) { wx_node(n_, T_WS, TAG_NONE, 0, 0, 0, 0, 0, 0, 1000); n_++; } }
/* a label element: <label kind=K>text</label>; kinds: the ten known spellings and one unknown */
static void label(int kind, int txt, int w) { ws(w); el(TAG_LABEL, 0, 0, 0, kind, 0, 0); text(txt); endel(TAG_LABEL); }
#define KIND_OK(k) ((k) >= LIT_INVARIANT && (k) <= LIT_OTHER_KIND)
static int part_of_kind(int k)
{
    switch (k) {
    case LIT_INVARIANT: return S_INVARIANT; case LIT_SELECT: return S_SELECT; case LIT_GUARD: return S_GUARD; case LIT_SYNCHRONISATION: return S_SYNC;
    case LIT_ASSIGNMENT: return S_ASSIGN; case LIT_PROBABILITY: return S_PROBABILITY; case LIT_MESSAGE: return S_MESSAGE; case LIT_UPDATE: return S_UPDATE;
    case LIT_CONDITION: return S_CONDITION; default: return -1;
    }
}

/* one run per concrete shape (number of labels, nails, white space between all elements or none): the cursor's walk is
   then concrete, while ids, names, texts, label kinds and attribute values stay arbitrary */
static void transition_case(int nl, int nn, int wsall, int selfloop)
{
    /* presence of the optional attributes is part of the (concrete) shape, their values are arbitrary */
    int cp = (nl + nn + selfloop) % 2, ap = (nl + wsall) % 2;
    /* the ids are concrete keys (41, 42): a symbolic id would make "is the reference known" - and with it the whole walk of
       the cursor - symbolic */
    int ctl, act, ra = 41, rb = selfloop ? 41 : 42, na, nb, k[2], t[2], next;
    /* ids 41..44, names 45..49, texts 50..59, action names 60..63; controllable is absent (0), "true" or another value (70) */
    __CPROVER_assume((ctl == LIT_TRUE || ctl == 70) && act >= 60 && act <= 63 && na >= 45 && na <= 49 && nb >= 45 && nb <= 49);
    if (!cp) ctl = 0;
    if (!ap) act = 0;
    cp_ = cp; ap_ = ap;
    __CPROVER_assume(KIND_OK(k[0]) && KIND_OK(k[1]) && t[0] >= 50 && t[0] <= 59 && t[1] >= 50 && t[1] <= 59);
    __CPROVER_assume(ra != rb || na == nb);
    next = TAG_TRANSITION;
    n_ = 0;
    el(TAG_TRANSITION, 0, 0, 0, 0, ctl, act);
    ws(wsall); el(TAG_SOURCE, 1, ra, 0, 0, 0, 0);
    ws(wsall); el(TAG_TARGET, 1, rb, 0, 0, 0, 0);
    if (nl > 0) label(k[0], t[0], wsall);
    if (nl > 1) label(k[1], t[1], wsall);
    if (nn > 0) { ws(wsall); el(TAG_NAIL, 1, 0, 0, 0, 0, 0); }
    ws(wsall); endel(TAG_TRANSITION);
    ws(wsall);
    int after = n_;
    el(next, 0, 0, 0, 0, 0, 0); endel(next); endel(TAG_TEMPLATE); endel(TAG_NTA);
    wx_start(n_, TAG_TRANSITION, 0, 0);
    wx_name(ra, na); wx_name(rb, nb);
    int r = wx_call(0);
    A04(r == 1 && verif_exc == 0, "c04.reader.transition:a-well-formed-transition-is-read-without-an-exception");
    int expect = 2;
    for (int i = 0; i < 2; i++) if (i < nl && part_of_kind(k[i]) >= 0) expect++;
    A04(verif_nev == expect, "c04.reader.transition:one-edge-begin,-one-parse-per-label-of-a-known-kind,-one-edge-end,-nothing-else");
    A04(verif_ev_op[0] == EV_EDGE_BEGIN && verif_ev_a[0] == na && verif_ev_b[0] == nb, "c04.reader.transition:source-and-target-are-the-names-of-the-referenced-ids,-in-this-order");
    A04(verif_ev_c[0] == (ctl == 0 || ctl == LIT_TRUE), "c04.reader.transition:controllable-unless-the-attribute-says-otherwise");
    A04(verif_ev_d[0] == (act == 0 ? LIT_SKIP : act), "c04.reader.transition:the-action-attribute-is-handed-over");
    int e = 1;
    for (int i = 0; i < 2; i++) {
        if (i < nl && part_of_kind(k[i]) >= 0) {
            A04(verif_ev_op[e] == EV_PARSE && verif_ev_a[e] == t[i] && verif_ev_b[e] == part_of_kind(k[i]), "c04.reader.transition:each-label's-own-text-is-parsed-with-the-grammar-entry-of-its-kind,-in-document-order");
            A06(verif_ev_c[e] == 2000 + PATH_ID(PATH3(TAG_TRANSITION), TAG_LABEL, i + 1), "c06.reader.transition:a-label's-text-is-parsed-under-the-XPath-of-that-label-element-(/nta/template[1]/transition[1]/label[i])");
            e++;
        }
    }
    A04(verif_ev_op[e] == EV_EDGE_END && verif_ev_a[e] == na && verif_ev_b[e] == nb, "c04.reader.transition:the-edge-is-closed-after-its-labels");
    A04(wx_cursor() == after, "c04.reader.transition:exactly-this-transition-element-is-consumed");
    if (nl == 2 && k[0] == LIT_GUARD && k[1] == LIT_ASSIGNMENT) __CPROVER_assert(0, "reach:guard-and-assignment");
    if (nl == 0 && ctl == 70) __CPROVER_assert(0, "reach:uncontrollable");
}
/* one entry per shape: a second script in the same run merges with the first one's final state and the cursor's walk is no
   longer concrete */
#define TCASE(NL, NN, WS, SL) void h_c04_reader_transition_##NL##NN##WS##SL(void) { transition_case(NL, NN, WS, SL); REACH; }
TCASE(0, 0, 0, 0) TCASE(0, 0, 0, 1) TCASE(0, 0, 1, 0) TCASE(0, 0, 1, 1) TCASE(0, 1, 0, 0) TCASE(0, 1, 0, 1) TCASE(0, 1, 1, 0) TCASE(0, 1, 1, 1) TCASE(1, 0, 0, 0) TCASE(1, 0, 0, 1) TCASE(1, 0, 1, 0) TCASE(1, 0, 1, 1) TCASE(1, 1, 0, 0) TCASE(1, 1, 0, 1) TCASE(1, 1, 1, 0) TCASE(1, 1, 1, 1) TCASE(2, 0, 0, 0) TCASE(2, 0, 0, 1) TCASE(2, 0, 1, 0) TCASE(2, 0, 1, 1) TCASE(2, 1, 0, 0) TCASE(2, 1, 0, 1) TCASE(2, 1, 1, 0) TCASE(2, 1, 1, 1)
/* templ(): name, parameters, proc_begin, declarations, every location, every branchpoint, init, every transition, proc_end - each
   element handed to its reader exactly once, in document order (the element readers are used through their contracts) */
void wx_start_template(int n);
static void templ_case(int hn, int hp, int hd, int nl, int nb, int nt, int wsall)
{
    int nm, pt, dt;
    int lstart[2], bstart[2], tstart[2], istart;
    __CPROVER_assume(nm >= 45 && nm <= 49 && pt >= 50 && pt <= 54 && dt >= 55 && dt <= 59);
    n_ = 0;
    el(TAG_TEMPLATE, 0, 0, 0, 0, 0, 0);
    if (hn) { ws(wsall); el(TAG_NAME, 0, 0, 0, 0, 0, 0); text(nm); endel(TAG_NAME); }
    if (hp) { ws(wsall); el(TAG_PARAMETER, 0, 0, 0, 0, 0, 0); text(pt); endel(TAG_PARAMETER); }
    if (hd) { ws(wsall); el(TAG_DECLARATION, 0, 0, 0, 0, 0, 0); text(dt); endel(TAG_DECLARATION); }
    for (int i = 0; i < 2; i++) if (i < nl) { ws(wsall); lstart[i] = n_; el(TAG_LOCATION, 0, 0, 41 + i, 0, 0, 0); el(TAG_NAME, 0, 0, 0, 0, 0, 0); text(46 + i); endel(TAG_NAME); endel(TAG_LOCATION); }
    for (int i = 0; i < 2; i++) if (i < nb) { ws(wsall); bstart[i] = n_; el(TAG_BRANCHPOINT, 1, 0, 43 + i, 0, 0, 0); }
    ws(wsall); istart = n_; el(TAG_INIT, 1, 41, 0, 0, 0, 0);
    for (int i = 0; i < 2; i++) if (i < nt) { ws(wsall); tstart[i] = n_; el(TAG_TRANSITION, 0, 0, 0, 0, 0, 0); el(TAG_SOURCE, 1, 41, 0, 0, 0, 0); el(TAG_TARGET, 1, 41, 0, 0, 0, 0); endel(TAG_TRANSITION); }
    ws(wsall); endel(TAG_TEMPLATE);
    ws(wsall);
    int after = n_;
    el(TAG_SYSTEM, 0, 0, 0, 0, 0, 0); endel(TAG_SYSTEM); endel(TAG_NTA);
    wx_start_template(n_);
    int r = wx_call(4);
    A04(r == 1 && verif_exc == 0, "c04.reader.templ:a-well-formed-template-is-read-without-an-exception");
    int e = 0;
    if (hp) { A04(verif_ev_op[e] == EV_PARSE && verif_ev_a[e] == pt && verif_ev_b[e] == S_PARAMETERS, "c04.reader.templ:the-parameter-text-is-parsed-as-parameters,-before-the-template-is-opened"); e++; }
    A04(verif_ev_op[e] == EV_PROC_BEGIN && verif_ev_a[e] == (hn ? nm : 0), "c04.reader.templ:the-template-is-opened-under-its-name"); e++;
    if (hd) { A04(verif_ev_op[e] == EV_PARSE && verif_ev_a[e] == dt && verif_ev_b[e] == S_DECLARATION, "c04.reader.templ:the-local-declarations-are-parsed-inside-the-template"); e++; }
    for (int i = 0; i < 2; i++) if (i < nl) { A04(verif_ev_op[e] == EV_C_LOCATION && verif_ev_a[e] == lstart[i], "c04.reader.templ:every-location-element-is-read,-once,-in-document-order"); e++; }
    for (int i = 0; i < 2; i++) if (i < nb) { A04(verif_ev_op[e] == EV_C_BRANCHPOINT && verif_ev_a[e] == bstart[i], "c04.reader.templ:every-branchpoint-element-is-read,-once,-in-document-order,-after-the-locations"); e++; }
    A04(verif_ev_op[e] == EV_C_INIT && verif_ev_a[e] == istart, "c04.reader.templ:the-init-element-is-read-after-all-locations-and-branchpoints"); e++;
    for (int i = 0; i < 2; i++) if (i < nt) { A04(verif_ev_op[e] == EV_C_TRANSITION && verif_ev_a[e] == tstart[i], "c04.reader.templ:every-transition-element-is-read,-once,-in-document-order"); e++; }
    A04(verif_ev_op[e] == EV_PROC_END && verif_nev == e + 1, "c04.reader.templ:the-template-is-closed-after-its-last-transition-and-nothing-else-is-handed-over");
    A04(wx_cursor() == after, "c04.reader.templ:exactly-this-template-element-is-consumed");
    A06(verif_ev_d[hp ? 1 : 0] == 2000 + PATH_ID(PATH_ID(1, TAG_NTA, 1), TAG_TEMPLATE, 1) && verif_ev_d[e] == 2000 + PATH_ID(PATH_ID(1, TAG_NTA, 1), TAG_TEMPLATE, 1),
        "c06.reader.templ:diagnostics-of-opening-and-closing-the-template-are-attributed-to-the-template-element");
}
#define PCASE(HN, HP, HD, NL, NB, NT, WS) void h_c04_reader_templ_##HN##HP##HD##NL##NB##NT##WS(void) { templ_case(HN, HP, HD, NL, NB, NT, WS); REACH; }
PCASE(1, 1, 1, 2, 1, 2, 0) PCASE(0, 0, 0, 0, 0, 1, 1) PCASE(1, 0, 1, 1, 0, 0, 1) PCASE(0, 1, 0, 2, 2, 1, 0) PCASE(1, 1, 1, 0, 0, 0, 0)

void h_c04_reader_init(void)
{
    int ra = 41, na, other, on;
    __CPROVER_assume(na >= 45 && na <= 49 && other >= 41 && other <= 44 && on >= 45 && on <= 49 && (other != ra || on == na));
    n_ = 0;
    el(TAG_INIT, 1, ra, 0, 0, 0, 0);
    ws(1);
    int after = n_;
    el(TAG_TRANSITION, 0, 0, 0, 0, 0, 0); endel(TAG_TRANSITION); endel(TAG_TEMPLATE); endel(TAG_NTA);
    wx_start(n_, TAG_INIT, 0, 0);
    wx_name(other, on); wx_name(ra, na);
    int r = wx_call(1);
    A04(r == 1 && verif_exc == 0 && verif_nev == 1 && verif_ev_op[0] == EV_INIT && verif_ev_a[0] == na, "c04.reader.init:the-initial-location-is-the-one-whose-id-the-init-element-references");
    A04(wx_cursor() == 1 && after == 2, "c04.reader.init:exactly-the-init-element-is-consumed");
    REACH;
}
/* known finding C04-KF1: the rate label written before the invariant label */
#define KF1_CLASS (nl == 2 && k[0] == LIT_EXPONENTIALRATE && k[1] == LIT_INVARIANT)
static void location_case(int has_name, int nl, int urg, int com, int wsall)
{
    int id = 41, nm, k[2], t[2], dup, thr, pf;
    __CPROVER_assume(nm >= 45 && nm <= 49 && (dup == 0 || dup == 1) && (thr == 0 || thr == 1) && pf >= 0 && pf < 1024);
    __CPROVER_assume((k[0] == LIT_INVARIANT || k[0] == LIT_EXPONENTIALRATE || k[0] == LIT_OTHER_KIND) && (k[1] == LIT_INVARIANT || k[1] == LIT_EXPONENTIALRATE || k[1] == LIT_OTHER_KIND));
    __CPROVER_assume(t[0] >= 50 && t[0] <= 59 && t[1] >= 50 && t[1] <= 59 && t[0] != t[1]);
    __CPROVER_assume(nl < 2 || k[0] != k[1] || k[0] == LIT_OTHER_KIND); /* at most one label of each kind */
#ifdef EXCLUDE_KF
    __CPROVER_assume(!KF1_CLASS);
#endif
    n_ = 0;
    el(TAG_LOCATION, 0, 0, id, 0, 0, 0);
    if (has_name) { ws(wsall); el(TAG_NAME, 0, 0, 0, 0, 0, 0); text(nm); endel(TAG_NAME); }
    if (nl > 0) label(k[0], t[0], wsall);
    if (nl > 1) label(k[1], t[1], wsall);
    if (urg) { ws(wsall); el(TAG_URGENT, 1, 0, 0, 0, 0, 0); }
    int after_committed = -1;
    if (com) { ws(wsall); el(TAG_COMMITTED, 1, 0, 0, 0, 0, 0); after_committed = n_; }
    ws(wsall); endel(TAG_LOCATION);
    ws(wsall);
    int after = n_;
    el(TAG_INIT, 1, id, 0, 0, 0, 0); endel(TAG_TEMPLATE); endel(TAG_NTA);
    wx_start(n_, TAG_LOCATION, thr, pf);
    if (dup) wx_name(id, 49);
    int r = wx_call(2);
    int name = has_name ? nm : 300 + id; /* anonymous locations are named "_" + id */
    A04(r == 1 && verif_exc == 0, "c04.reader.location:a-well-formed-location-is-read-without-an-uncaught-exception");
    A04(wx_names(id) == name, "c04.reader.location:the-id-is-remembered-as-referring-to-this-location's-name");
    /* expected events: a parse per invariant / rate label, (a warning for a repeated id), proc_location, then the flags */
    int e = 0, inv_ok = 0, rate_ok = 0, inv_at = -1, rate_at = -1;
    for (int i = 0; i < 2; i++) {
        if (i < nl && k[i] != LIT_OTHER_KIND) {
            A04(e < verif_nev && verif_ev_op[e] == EV_PARSE && verif_ev_a[e] == t[i] && verif_ev_b[e] == (k[i] == LIT_INVARIANT ? S_INVARIANT : S_EXPONENTIAL_RATE),
                             "c04.reader.location:each-invariant/rate-label's-own-text-is-parsed-with-its-grammar-entry");
            A06(verif_ev_c[e] == 2000 + PATH_ID(PATH3(TAG_LOCATION), TAG_LABEL, i + 1), "c06.reader.location:a-label's-text-is-parsed-under-the-XPath-of-that-label-element-(/nta/template[1]/location[1]/label[i])");
            int ok = !((pf >> (t[i] - 50)) & 1);
            if (k[i] == LIT_INVARIANT) { inv_ok = ok; inv_at = e; } else { rate_ok = ok; rate_at = e; }
            e++;
        }
    }
    if (dup) { A04(e < verif_nev && verif_ev_op[e] == EV_WARNING, "c04.reader.location:a-repeated-id-is-reported"); e++; }
    A04(e < verif_nev && verif_ev_op[e] == EV_LOCATION && verif_ev_a[e] == name, "c04.reader.location:the-location-is-handed-over-under-its-name-(or-the-id-derived-one)");
    A04(verif_ev_b[e] == inv_ok && verif_ev_c[e] == rate_ok, "c04.reader.location:invariant-/-rate-are-announced-exactly-when-such-a-label-was-parsed");
    A06(verif_ev_d[e] == 2000 + PATH3(TAG_LOCATION), "c06.reader.location:diagnostics-of-the-builder-about-this-location-are-attributed-to-the-location-element");
    /* the builder takes the rate from the top of the operand stack and the invariant from below it (c04_builder_location):
       when both were parsed, the invariant must have been parsed first */
    A04(!(inv_ok && rate_ok) || inv_at < rate_at, "c04.reader.location:invariant-and-rate-reach-the-builder-in-the-order-it-takes-them-(each-label-ends-up-in-its-own-field)");
    e++;
    if (thr) {
        A04(e < verif_nev && verif_ev_op[e] == EV_ERROR && verif_nev == e + 1, "c04.reader.location:a-diagnostic-of-the-builder-is-recorded-and-the-flags-are-not-applied-to-a-rejected-location");
    } else {
        if (com) { A04(e < verif_nev && verif_ev_op[e] == EV_COMMIT && verif_ev_a[e] == name, "c04.reader.location:the-committed-flag-is-applied-to-this-location"); e++; }
        if (urg) { A04(e < verif_nev && verif_ev_op[e] == EV_URGENT && verif_ev_a[e] == name, "c04.reader.location:the-urgent-flag-is-applied-to-this-location"); e++; }
        A04(verif_nev == e, "c04.reader.location:nothing-else-is-handed-over");
    }
    /* the reader stops right behind the <committed/> child if there is one, otherwise on the element that follows the location */
    A04(wx_cursor() == (com ? after_committed : after), "c04.reader.location:exactly-this-location-element-is-consumed");
    if (KF1_CLASS) __CPROVER_assert(0, "reach:rate-before-invariant");
    if (nl == 2 && k[0] == LIT_INVARIANT && k[1] == LIT_EXPONENTIALRATE) __CPROVER_assert(0, "reach:invariant-before-rate");
    if (!has_name && nl == 0) __CPROVER_assert(0, "reach:anonymous");
}
#define LCASE(HN, NL, U, C, WS) void h_c04_reader_location_##HN##NL##U##C##WS(void) { location_case(HN, NL, U, C, WS); REACH; }
LCASE(0, 0, 0, 0, 0) LCASE(0, 0, 0, 0, 1) LCASE(0, 0, 0, 1, 0) LCASE(0, 0, 0, 1, 1) LCASE(0, 0, 1, 0, 0) LCASE(0, 0, 1, 0, 1) LCASE(0, 0, 1, 1, 0) LCASE(0, 0, 1, 1, 1) LCASE(0, 1, 0, 0, 0) LCASE(0, 1, 0, 0, 1) LCASE(0, 1, 0, 1, 0) LCASE(0, 1, 0, 1, 1) LCASE(0, 1, 1, 0, 0) LCASE(0, 1, 1, 0, 1) LCASE(0, 1, 1, 1, 0) LCASE(0, 1, 1, 1, 1) LCASE(0, 2, 0, 0, 0) LCASE(0, 2, 0, 0, 1) LCASE(0, 2, 0, 1, 0) LCASE(0, 2, 0, 1, 1) LCASE(0, 2, 1, 0, 0) LCASE(0, 2, 1, 0, 1) LCASE(0, 2, 1, 1, 0) LCASE(0, 2, 1, 1, 1) LCASE(1, 0, 0, 0, 0) LCASE(1, 0, 0, 0, 1) LCASE(1, 0, 0, 1, 0) LCASE(1, 0, 0, 1, 1) LCASE(1, 0, 1, 0, 0) LCASE(1, 0, 1, 0, 1) LCASE(1, 0, 1, 1, 0) LCASE(1, 0, 1, 1, 1) LCASE(1, 1, 0, 0, 0) LCASE(1, 1, 0, 0, 1) LCASE(1, 1, 0, 1, 0) LCASE(1, 1, 0, 1, 1) LCASE(1, 1, 1, 0, 0) LCASE(1, 1, 1, 0, 1) LCASE(1, 1, 1, 1, 0) LCASE(1, 1, 1, 1, 1) LCASE(1, 2, 0, 0, 0) LCASE(1, 2, 0, 0, 1) LCASE(1, 2, 0, 1, 0) LCASE(1, 2, 0, 1, 1) LCASE(1, 2, 1, 0, 0) LCASE(1, 2, 1, 0, 1) LCASE(1, 2, 1, 1, 0) LCASE(1, 2, 1, 1, 1)
void h_c04_reader_branchpoint(void)
{
    int id = 41, dup;
    __CPROVER_assume((dup == 0 || dup == 1));
    n_ = 0;
    el(TAG_BRANCHPOINT, 1, 0, id, 0, 0, 0);
    ws(1);
    int after = n_;
    el(TAG_INIT, 1, id, 0, 0, 0, 0); endel(TAG_TEMPLATE); endel(TAG_NTA);
    wx_start(n_, TAG_BRANCHPOINT, 0, 0);
    if (dup) wx_name(id, 49);
    int r = wx_call(3);
    A04(r == 1 && verif_exc == 0 && wx_names(id) == 300 + id, "c04.reader.branchpoint:the-id-refers-to-the-branchpoint's-internal-name");
    A04(verif_nev == 1 + dup && verif_ev_op[dup] == EV_BRANCHPOINT && verif_ev_a[dup] == 300 + id && (!dup || verif_ev_op[0] == EV_WARNING), "c04.reader.branchpoint:one-branchpoint-is-handed-over");
    A04(wx_cursor() == 1 && after == 2, "c04.reader.branchpoint:exactly-the-branchpoint-element-is-consumed");
    A06(verif_ev_d[dup] == 2000 + PATH3(TAG_BRANCHPOINT), "c06.reader.branchpoint:diagnostics-about-this-branchpoint-are-attributed-to-the-branchpoint-element");
    REACH;
}
