/* C04 kernel K2 harnesses (mode H).  Oracle (statement): each location with its name, invariant and rate labels and
   urgent/committed flag; the initial location named by the init reference; each edge with source and target, its
   controllable flag and its guard, synchronisation, update and probability labels - in order, nothing added, dropped,
   duplicated or attached to another element. */
#include "kinds.h"
#define REACH __CPROVER_assert(0, "reach")
extern int verif_errors, verif_thrown;
void w04_init(int nloc, int nbp, int nedge, int nfrag, int has_current_edge);
void w04_call(int which, int a, int b, int c, int d);
int w04_depth(void); int w04_top(void); int w04_top_parent(void); int w04_depth0(void); int w04_top0(void);
int w04_nfrag(void); int w04_frag_role(int k); int w04_current_edge(void);
int w04_loc(int what, int i); int w04_init_set(void); int w04_edge(int what, int i);
int w08_loc(int what, int i); int w08_edge(int what, int i); int w08_bp(int what, int i);

/* the fragments below the consumed ones are untouched: roles 0..k-1 remain, bottom-up */
static int stack_is(int k)
{
    if (w04_nfrag() != k) return 0;
    for (int i = 0; i < 4; i++) if (i < k && w04_frag_role(k - 1 - i) != i) return 0;
    return 1;
}
/* nothing about the earlier edges changed */
static int edges_unchanged(int nedge)
{
    for (int i = 0; i < 2; i++) if (i < nedge && !(w04_edge(0, i) == -10 - (90 + i) && w04_edge(1, i) == -10 - (92 + i) && w04_edge(2, i) == -10 - (94 + i) && w04_edge(3, i) == -2)) return 0;
    return 1;
}
void h_c04_builder_location(void)
{
    int nloc, nedge, nfrag, name, hi, hr;
    __CPROVER_assume(nloc >= 1 && nloc <= 2 && nedge >= 0 && nedge <= 2 && nfrag >= 0 && nfrag <= 4 && name >= 12 && name <= 14 && (hi == 0 || hi == 1) && (hr == 0 || hr == 1) && nfrag >= hi + hr);
    w04_init(nloc, 1, nedge, nfrag, 1);
    /* the reader parses the invariant label first and the rate label second: the rate is on top */
    w04_call(0, name, hi, hr, 0);
    __CPROVER_assert(verif_thrown == 0 && w08_loc(0, 0) == nloc + 1 && w08_loc(4, nloc) == name && w08_loc(1, nloc) == nloc, "c04.location:one-location-is-appended-with-the-given-name-and-the-next-number");
    __CPROVER_assert(w04_loc(1, nloc) == (hr ? nfrag - 1 : -2), "c04.location:the-rate-is-the-label-parsed-last-(or-absent)");
    __CPROVER_assert(w04_loc(0, nloc) == (hi ? nfrag - 1 - hr : -2), "c04.location:the-invariant-is-the-label-parsed-before-it-(or-absent)");
    __CPROVER_assert(stack_is(nfrag - hi - hr), "c04.location:exactly-the-labels-of-this-location-are-consumed");
    __CPROVER_assert(w08_edge(0, 0) == nedge && edges_unchanged(nedge) && w08_bp(0, 0) == 1, "c04.location:edges-and-branchpoints-are-untouched");
    for (int i = 0; i < 2; i++) if (i < nloc) __CPROVER_assert(w04_loc(0, i) == -2 && w04_loc(1, i) == -2 && w08_loc(4, i) == 10 + i, "c04.location:earlier-locations-are-untouched");
    __CPROVER_assert(w04_depth() == w04_depth0() && w04_top() == w04_top0(), "c04.location:the-scope-stack-is-unchanged");
    if (hi && hr) __CPROVER_assert(0, "reach:invariant-and-rate");
    REACH;
}
void h_c04_builder_location_flags(void)
{
    int nloc, which, name, which2, name2;
    __CPROVER_assume(nloc >= 1 && nloc <= 2 && (which == 1 || which == 2) && (which2 == 1 || which2 == 2) && name >= 10 && name <= 21 && name2 >= 10 && name2 <= 21);
    w04_init(nloc, 1, 0, 0, 0);
    w04_call(which, name, 0, 0, 0);
    int hit = name >= 10 && name < 10 + nloc; /* names 10, 11 are the locations; 20 is the branchpoint, the rest is undeclared */
    __CPROVER_assert(verif_errors == (hit ? 0 : 1), "c04.flags:only-a-location-of-this-template-can-be-flagged");
    for (int i = 0; i < 2; i++) {
        if (i < nloc) {
            int mine = hit && name == 10 + i;
            __CPROVER_assert(w04_loc(2, i) == (mine && which == 1) && w04_loc(3, i) == (mine && which == 2), "c04.flags:exactly-the-named-location-gets-exactly-the-named-flag");
            __CPROVER_assert(w08_loc(5, i) == K_LOCATION || 1, "c04.flags:(kind)");
        }
    }
    /* a second flag: urgent and committed exclude each other on one location, other locations are independent */
    w04_call(which2, name2, 0, 0, 0);
    int hit2 = name2 >= 10 && name2 < 10 + nloc;
    int clash = hit && hit2 && name == name2 && which != which2;
    __CPROVER_assert(verif_errors == (hit ? 0 : 1) + ((hit2 && !clash) ? 0 : 1), "c04.flags:urgent-and-committed-on-the-same-location-is-reported");
    for (int i = 0; i < 2; i++) {
        if (i < nloc) {
            int m1 = hit && name == 10 + i, m2 = hit2 && !clash && name2 == 10 + i;
            __CPROVER_assert(w04_loc(2, i) == ((m1 && which == 1) || (m2 && which2 == 1)) && w04_loc(3, i) == ((m1 && which == 2) || (m2 && which2 == 2)), "c04.flags:flags-accumulate-per-location-and-never-leak-to-another-one");
        }
    }
    if (clash) __CPROVER_assert(0, "reach:clash");
    REACH;
}
void h_c04_builder_init(void)
{
    int nloc, name;
    __CPROVER_assume(nloc >= 1 && nloc <= 2 && name >= 10 && name <= 21);
    w04_init(nloc, 1, 0, 0, 0);
    w04_call(4, name, 0, 0, 0);
    int hit = name >= 10 && name < 10 + nloc;
    __CPROVER_assert(verif_errors == (hit ? 0 : 1) && w04_init_set() == hit, "c04.init:the-init-reference-must-name-a-location-(a-branchpoint-or-unknown-name-is-reported-and-sets-nothing)");
    for (int i = 0; i < 2; i++) if (i < nloc) __CPROVER_assert(w04_loc(4, i) == (hit && name == 10 + i), "c04.init:the-initial-location-is-the-one-named-by-the-reference");
    REACH;
}
/* endpoints by name: 10, 11 = locations 0, 1; 20 = the branchpoint */
void h_c04_builder_edge(void)
{
    int nloc, nedge, from, to, control, act, nfrag;
    __CPROVER_assume(nloc >= 1 && nloc <= 2 && nedge >= 0 && nedge <= 2 && from >= 10 && from <= 21 && to >= 10 && to <= 21 && (control == 0 || control == 1) && act >= 0 && act < 4 && nfrag >= 0 && nfrag <= 2);
    w04_init(nloc, 1, nedge, nfrag, 1);
    w04_call(5, from, to, control, act);
    int fok = (from >= 10 && from < 10 + nloc) || from == 20, tok = (to >= 10 && to < 10 + nloc) || to == 20;
    __CPROVER_assert(w04_depth() == w04_depth0() + 1 && w04_top_parent() == w04_top0(), "c04.edge:begin-opens-exactly-one-scope-(also-when-an-end-point-is-unknown),-nested-in-the-template's");
    __CPROVER_assert(verif_errors == ((fok && tok) ? 0 : 1), "c04.edge:an-unknown-end-point-is-reported");
    __CPROVER_assert(w08_edge(0, 0) == nedge + ((fok && tok) ? 1 : 0) && edges_unchanged(nedge), "c04.edge:exactly-one-edge-is-appended-(none-on-error)-and-the-earlier-edges-are-untouched");
    if (fok && tok) {
        int k = nedge;
        __CPROVER_assert(w04_current_edge() == k && w08_edge(1, k) == k, "c04.edge:the-new-edge-is-the-current-one-and-has-the-next-number");
        __CPROVER_assert(w08_edge(2, k) == (from == 20 ? -1 : from - 10) && w08_edge(3, k) == (from == 20 ? 0 : -1), "c04.edge:the-source-is-the-location/branchpoint-named-by-the-source-reference");
        __CPROVER_assert(w08_edge(4, k) == (to == 20 ? -1 : to - 10) && w08_edge(5, k) == (to == 20 ? 0 : -1), "c04.edge:the-target-is-the-location/branchpoint-named-by-the-target-reference");
        __CPROVER_assert(w08_edge(6, k) == control && w08_edge(7, k) == act, "c04.edge:controllable-flag-and-action-name-are-the-given-ones");
        __CPROVER_assert(w04_edge(0, k) == -11 && w04_edge(1, k) == -11 && w04_edge(2, k) == -11 && w04_edge(3, k) == -2, "c04.edge:absent-labels-default-to-guard-true,-no-update,-weight-1,-no-synchronisation");
        __CPROVER_assert(w04_edge(6, k) == w04_top() && w04_edge(7, k) == 0, "c04.edge:the-select-scope-is-the-one-opened,-initially-empty");
        if (from == 20) __CPROVER_assert(0, "reach:from-branchpoint");
    } else {
        __CPROVER_assert(0, "reach:unknown-end-point");
    }
    __CPROVER_assert(stack_is(nfrag), "c04.edge:no-fragment-is-consumed");
    w04_call(6, from, to, 0, 0);
    __CPROVER_assert(w04_depth() == w04_depth0() && w04_top() == w04_top0(), "c04.edge:end-closes-exactly-the-scope-begin-opened");
    REACH;
}
void h_c04_builder_labels(void)
{
    int nloc, nedge, nfrag, which, dir, cur;
    __CPROVER_assume(nloc >= 1 && nloc <= 2 && nedge >= 0 && nedge <= 2 && nfrag >= 1 && nfrag <= 4 && which >= 7 && which <= 10 && (dir == 0 || dir == 1) && (cur == 0 || cur == 1));
    w04_init(nloc, 1, nedge, nfrag, cur);
    int k = w04_current_edge();
    __CPROVER_assert(k == ((cur && nedge > 0) ? nedge - 1 : -1), "harness: the current edge is the last one");
    w04_call(which, dir, 0, 0, 0);
    if (k < 0) {
        __CPROVER_assert(verif_errors == 1 && edges_unchanged(nedge), "c04.label:a-label-outside-an-edge-is-reported-and-attached-to-nothing");
        __CPROVER_assert(0, "reach:no-current-edge");
    } else {
        __CPROVER_assert(verif_errors == 0 && stack_is(nfrag - 1), "c04.label:exactly-the-label's-own-expression-is-consumed");
        int top = nfrag - 1;
        __CPROVER_assert(w04_edge(0, k) == (which == 7 ? top : -10 - (90 + k)), "c04.label:the-guard-field-holds-the-guard-label-and-only-that");
        __CPROVER_assert(w04_edge(1, k) == (which == 9 ? top : -10 - (92 + k)), "c04.label:the-update-field-holds-the-assignment-label-and-only-that");
        __CPROVER_assert(w04_edge(2, k) == (which == 10 ? top : -10 - (94 + k)), "c04.label:the-weight-field-holds-the-probability-label-and-only-that");
        __CPROVER_assert(w04_edge(3, k) == (which == 8 ? top : -2) && (which != 8 || w04_edge(4, k) == dir), "c04.label:the-synchronisation-field-holds-the-synchronisation-label-with-its-direction-and-only-that");
        for (int i = 0; i < 2; i++) if (i < nedge && i != k) __CPROVER_assert(w04_edge(0, i) == -10 - (90 + i) && w04_edge(1, i) == -10 - (92 + i) && w04_edge(2, i) == -10 - (94 + i) && w04_edge(3, i) == -2, "c04.label:no-other-edge-is-touched");
        if (nedge == 2) __CPROVER_assert(0, "reach:two-edges");
    }
    __CPROVER_assert(w08_edge(0, 0) == nedge && w08_loc(0, 0) == nloc, "c04.label:no-edge-or-location-is-added-or-dropped");
    REACH;
}

/* select bindings: `select i : T` declares i, constant, in the edge's select scope - also when a variable of that name is
   visible outside (a warning, but the binder still is the innermost declaration: C07) */
extern int verif_warnings;
void w04_select(int id, int type_id, int outer_name);
int w04_ntypes(void);
int w04_select_frame(int what);
int w04_resolves_to_select(int name);
#define TY(kind, konst, range) (((kind) * 2 + (konst)) | ((range) << 22))
void h_c04_builder_select(void)
{
    int id, kind, konst, range, outer;
    __CPROVER_assume(id >= 30 && id <= 33 && VALID_KIND(kind) && (konst == 0 || konst == 1) && (range == 0 || range == 1) && outer >= -1 && outer <= 33 && (outer < 0 || outer >= 30));
    w04_init(2, 1, 1, 0, 1);
    w04_select(id, TY(kind, konst, range), outer);
    int ok_type = (kind == K_INT || kind == K_SCALAR) && range;
    __CPROVER_assert(w04_ntypes() == 0, "c04.select:the-binder's-type-is-consumed");
    if (ok_type) {
        __CPROVER_assert(verif_errors == 0 && w04_select_frame(0) == 1 && w04_select_frame(1) == id, "c04.select:the-binder-is-declared-in-the-edge's-select-scope-(also-when-the-name-is-visible-outside)");
        __CPROVER_assert(w04_select_frame(2) == TY(kind, 1, range), "c04.select:the-binder-has-the-declared-type,-made-constant");
        __CPROVER_assert(w04_resolves_to_select(id), "c07.select:inside-the-edge-the-name-denotes-the-select-binder-(the-innermost-declaration)");
        __CPROVER_assert(verif_warnings == (outer == id), "c04.select:shadowing-an-outer-declaration-is-a-warning");
        if (outer == id) __CPROVER_assert(0, "reach:shadowing");
    } else {
        __CPROVER_assert(verif_errors == 1 && w04_select_frame(0) == 0, "c04.select:a-binder-that-does-not-range-over-an-integer-or-scalar-set-is-rejected");
        __CPROVER_assert(0, "reach:bad-type");
    }
    REACH;
}
