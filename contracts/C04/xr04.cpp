/* C04 kernel K1: the REAL XMLReader functions of src/xmlreader.cpp that hand locations, the init reference and transitions
   with their labels to the builder - getNodeType, isEmpty, getAttribute, getAttributeStr, begin, end, read, get_name, parse,
   label, invariant, reference, source, target, init, urgent, committed, location, branchpoint, transition - executed
   against (a) a ghost of libxml2's xmlTextReader: a cursor over an arbitrary, well-nested node script, and (b) a recording
   ParserBuilder.  Strings are identities (an id per distinct text); exceptions are an explicit flag (rule L26). */
typedef unsigned long size_t;
#define assert(c) __CPROVER_assert((c), "code-assert: " #c)
typedef unsigned char xmlChar;
#define nullptr 0
extern "C" {
int verif_exc;           /* 0 none, 1 TypeException, 2 XMLDocError, 3 XMLReaderError */
int verif_ev_op[24], verif_ev_a[24], verif_ev_b[24], verif_ev_c[24], verif_ev_d[24], verif_nev;
}
/* ---- strings as identities ------------------------------------------------------------------------------------------ */
/* a C string handed out by the stubs is a pointer to one cell of verif_cell (a CONCRETE cell index: null tests and object
   identity stay decidable by constant propagation) whose identity - possibly symbolic - is stored in verif_cell_id */
#define NCELL 640
static char verif_cell[NCELL];
static int verif_cell_id[NCELL];
static int verif_ncell_dyn; /* cells NCELL/2.. are handed out in call order by c_str() / operator+ results */
#define ID_UNDERSCORE_BASE 300 /* "_" + s  has identity 300 + id(s) */
#define ID_NONUNIQUE_BASE 600
#include "xr_lits.h"
/* literal spellings are told apart by at most their first four characters (no loops: the literals are constants) */
static int verif_id(const char* s)
{
    if (s == nullptr) return 0;
    if (__CPROVER_same_object(s, verif_cell)) return verif_cell_id[__CPROVER_POINTER_OFFSET(s)];
    char a = s[0];
    if (a == 0) return 0;
    char b = s[1];
    if (a == '_' && b == 0) return LIT_UNDERSCORE;
    if (a == 'i' && b == 'd' && s[2] == 0) return LIT_ID;
    char c = s[2];
    if (a == 'r' && b == 'e' && c == 'f') return LIT_REF;
    if (a == 'k' && b == 'i' && c == 'n') return LIT_KIND;
    if (a == 'c' && b == 'o' && c == 'n') return s[3] == 't' ? LIT_CONTROLLABLE : LIT_CONDITION;
    if (a == 'a' && b == 'c' && c == 't') return LIT_ACTION;
    if (a == 'a' && b == 's' && c == 's') return LIT_ASSIGNMENT;
    if (a == 'i' && b == 'n' && c == 's') return LIT_INSTANCEID;
    if (a == 'i' && b == 'n' && c == 'v') return LIT_INVARIANT;
    if (a == 't' && b == 'r' && c == 'u') return LIT_TRUE;
    if (a == 'S' && b == 'K' && c == 'I') return LIT_SKIP;
    if (a == 's' && b == 'e' && c == 'l') return LIT_SELECT;
    if (a == 'g' && b == 'u' && c == 'a') return LIT_GUARD;
    if (a == 's' && b == 'y' && c == 'n') return LIT_SYNCHRONISATION;
    if (a == 'p' && b == 'r' && c == 'o') return LIT_PROBABILITY;
    if (a == 'm' && b == 'e' && c == 's') return LIT_MESSAGE;
    if (a == 'u' && b == 'p' && c == 'd') return LIT_UPDATE;
    if (a == 'e' && b == 'x' && c == 'p') return LIT_EXPONENTIALRATE;
    __CPROVER_assert(0, "stub: a string literal outside the table of contracts/C04/xr04.cpp");
    return -1;
}
/* a fresh cell carrying the identity id */
static char* verif_ptr(int id)
{
    __CPROVER_assert(verif_ncell_dyn < NCELL / 2, "stub: string cell capacity");
    int j = NCELL / 2 + verif_ncell_dyn;
    verif_ncell_dyn++;
    verif_cell_id[j] = id;
    return verif_cell + j;
}
/* the cell of attribute a (0..5; 5 = the text) of node n */
static char* verif_node_cell(int n, int a, int id) { int j = n * 6 + a; __CPROVER_assert(j >= 0 && j < NCELL / 2, "stub: node cell in range"); verif_cell_id[j] = id; return verif_cell + j; }
static int strcmp(const char* a, const char* b) { return verif_id(a) == verif_id(b) ? 0 : 1; }
static void xmlFree(void*) {}
namespace std {
struct string
{
    int id;
    string(): id(0) {}
    string(const char* s): id(verif_id(s)) {}
    string(const string& o): id(o.id) {}
    string& operator=(const string& o) { id = o.id; return *this; }
    const char* c_str() const { return verif_ptr(id); }
    bool empty() const { return id == 0; }
    bool operator==(const char* s) const { return id == verif_id(s); }
};
struct string_view
{
    int id;
    string_view(): id(0) {}
    string_view(const char* s): id(verif_id(s)) {}
    bool operator==(const char* s) const { return id == verif_id(s); }
    const char* data() const { return verif_ptr(id); }
};
}  // namespace std
/* no ADL in CBMC's front end: the operator lives in the global namespace */
inline std::string operator+(const char* a, const std::string& b)
{
    std::string r;
    int ia = verif_id(a);
    __CPROVER_assert(ia == LIT_UNDERSCORE || ia >= ID_NONUNIQUE_BASE, "stub: only \"_\" + id and the non-unique-id message are concatenated");
    r.id = (ia == LIT_UNDERSCORE ? ID_UNDERSCORE_BASE : ID_NONUNIQUE_BASE) + b.id;
    return r;
}
#define non_unique_id (verif_ptr(ID_NONUNIQUE_BASE)) /* the message prefix, as an identity */
/* blank(s): empty or white space only.  Identity 0 is the empty string; identities 1000.. are white-space-only texts */
static bool is_blank(const std::string& s) { return s.id == 0 || s.id >= 1000; }

/* ---- libxml2 xmlTextReader: a cursor over a node script ----------------------------------------------------------- */
#define XML_READER_TYPE_ELEMENT 1
#define XML_READER_TYPE_TEXT 3
#define XML_READER_TYPE_WHITESPACE 13
#define XML_READER_TYPE_SIGNIFICANT_WHITESPACE 14
#define XML_READER_TYPE_END_ELEMENT 15
struct xmlTextReader;
#define NNODE 40
/* the script: parallel scalar arrays (cbmc's constant propagation is per array cell for plain arrays; with an array of
   structs one symbolic attribute value made every field of every node symbolic) */
static int N_type[NNODE], N_tag[NNODE], N_empty[NNODE], N_text[NNODE];
static int N_has[NNODE * 5], N_val[NNODE * 5]; /* attribute a (0 ref, 1 id, 2 kind, 3 controllable, 4 action) of node n at n * 5 + a */
static int ncur, nnode;
static int xmlTextReaderNodeType(xmlTextReader*) { return N_type[ncur]; }
static int xmlTextReaderIsEmptyElement(xmlTextReader*) { return N_type[ncur] == XML_READER_TYPE_ELEMENT && N_empty[ncur]; }
static int xmlTextReaderRead(xmlTextReader*) { if (ncur + 1 < nnode) { ncur++; return 1; } return 0; }
static const xmlChar* xmlTextReaderConstValue(xmlTextReader*) { return (const xmlChar*)verif_node_cell(ncur, 5, N_text[ncur]); }
static xmlChar* xmlTextReaderGetAttribute(xmlTextReader*, const xmlChar* name)
{
    int a = verif_id((const char*)name), bit = 0;
    if (N_type[ncur] != XML_READER_TYPE_ELEMENT) return nullptr;
    if (a == LIT_REF) bit = 0;
    else if (a == LIT_ID) bit = 1;
    else if (a == LIT_KIND) bit = 2;
    else if (a == LIT_CONTROLLABLE) bit = 3;
    else if (a == LIT_ACTION) bit = 4;
    else __CPROVER_assert(0, "stub: attribute name in the table");
    if (!N_has[ncur * 5 + bit]) return nullptr;
    return (xmlChar*)verif_node_cell(ncur, bit, N_val[ncur * 5 + bit]);
}
static int errno;
struct verif_category {};
namespace std { inline verif_category system_category() { return verif_category(); } }

namespace UTAP {
#include "xr_tag_enum.inc" /* REAL: enum class tag_t */
#include "xr_part_enum.inc" /* REAL: enum xta_part_t (include/utap/utap.h) */
struct TypeException { int id; TypeException(): id(0) {} TypeException(const char*): id(0) {} TypeException(const std::string&): id(0) {} };
struct XMLDocError {};
struct XMLReaderError {};
/* the builder: a recorder */
static void rec(int op, int a, int b, int c, int d)
{
    __CPROVER_assert(verif_nev < 24, "stub: event log capacity");
    verif_ev_op[verif_nev] = op; verif_ev_a[verif_nev] = a; verif_ev_b[verif_nev] = b; verif_ev_c[verif_nev] = c; verif_ev_d[verif_nev] = d;
    verif_nev++;
}
struct ParserBuilder;
static int g_tracker_path; /* identity of the XPath the builder's diagnostics are currently attributed to */
struct verif_tracker { void setPath(ParserBuilder*, const std::string& p) { g_tracker_path = p.id; } void increment(ParserBuilder*, size_t) {} };
static verif_tracker tracker;
static int g_builder_throws; /* the builder callbacks may throw a TypeException (e.g. a duplicate location name): arbitrary */
struct ParserBuilder
{
    void proc_edge_begin(const char* from, const char* to, bool control, const char* act) { rec(EV_EDGE_BEGIN, verif_id(from), verif_id(to), control, verif_id(act)); }
    void proc_edge_end(const char* from, const char* to) { rec(EV_EDGE_END, verif_id(from), verif_id(to), 0, 0); }
    void proc_location_init(const char* name) { rec(EV_INIT, verif_id(name), 0, 0, 0); }
    void proc_location(const char* name, bool inv, bool er) { rec(EV_LOCATION, verif_id(name), inv, er, g_tracker_path); if (g_builder_throws) verif_exc = 1; }
    void proc_location_commit(const char* name) { rec(EV_COMMIT, verif_id(name), 0, 0, 0); }
    void proc_location_urgent(const char* name) { rec(EV_URGENT, verif_id(name), 0, 0, 0); }
    void proc_branchpoint(const char* name) { rec(EV_BRANCHPOINT, verif_id(name), 0, 0, g_tracker_path); }
    void proc_begin(const char* name) { rec(EV_PROC_BEGIN, verif_id(name), 0, 0, g_tracker_path); }
    void proc_end() { rec(EV_PROC_END, 0, 0, 0, g_tracker_path); }
    void handle_error(const TypeException&) { rec(EV_ERROR, 0, 0, 0, 0); }
    void handle_warning(const TypeException&) { rec(EV_WARNING, 0, 0, 0, 0); }
};
/* parse_XTA on a label text: recorded; its verdict (0 = parsed) is a function of the text, given by the script */
static int g_parse_fails[1024 / 64];
static int parse_XTA(const char* text, ParserBuilder*, bool, xta_part_t part, const std::string& xpath)
{
    int t = verif_id(text);
    rec(EV_PARSE, t, (int)part, xpath.id, 0);
    return (t >= 50 && t < 60 && ((g_parse_fails[0] >> (t - 50)) & 1)) ? -1 : 0;
}
/* position tracker: no effect on the document */

/* class Path (real: a list of sibling vectors, one per open level).  Kept per level: the tag of the most recent sibling and how
   many siblings in a row carry it (= the real count(level, tag) whenever same-tag siblings are contiguous, as the DTD has
   them).  str(tag) is the identity of the XPath text the real function prints: the (tag, index) pairs from the root down
   to the first level whose element is `tag`, or to the deepest non-empty level. */
#define PATH_ID(id, t, c) ((id) * 53 + ((int)(t)) * 3 + (c))
class Path
{
public:
    int last[14], cnt[14];
    int depth; /* number of levels, the deepest one possibly empty */
    Path(): depth(1) { last[0] = -1; cnt[0] = 0; }
    void reset() { depth = 1; last[0] = -1; cnt[0] = 0; }
    void push(tag_t t)
    {
        __CPROVER_assert(depth < 13, "stub: path depth");
        if (last[depth - 1] == (int)t) cnt[depth - 1]++; else { last[depth - 1] = (int)t; cnt[depth - 1] = 1; }
        last[depth] = -1; cnt[depth] = 0;
        depth++;
    }
    tag_t pop() { __CPROVER_assert(depth > 1, "stub: pop on a non-empty path"); depth--; return (tag_t)last[depth - 1]; }
    std::string str(tag_t tag = tag_t::NONE) const
    {
        int id = 1;
        bool stop = false;
        for (int i = 0; i < 13; i++) {
            if (!stop && i < depth && last[i] >= 0) { id = PATH_ID(id, last[i], cnt[i]); if (last[i] == (int)tag) stop = true; }
            else stop = true;
        }
        std::string s; s.id = 2000 + id;
        return s;
    }
};
/* std::map<std::string, std::string> names */
struct verif_names_it { int k; std::string second; bool operator!=(const verif_names_it& o) const { return k != o.k; } };
static bool names_has[64];
static int names_val[64];
struct verif_names
{
    verif_names_it end() const { verif_names_it i; i.k = -1; return i; }
    verif_names_it find(const char* id) const
    {
        int k = verif_id(id);
        verif_names_it i; i.k = -1;
        if (k >= 0 && k < 64 && names_has[k]) { i.k = k; i.second.id = names_val[k]; }
        return i;
    }
    /* insert_or_assign: true if the key was new */
    bool verif_insert_or_assign(const std::string& k, const std::string& v)
    {
        __CPROVER_assert(k.id >= 0 && k.id < 64, "stub: id identity in range");
        bool fresh = !names_has[k.id];
        names_has[k.id] = true; names_val[k.id] = v.id;
        return fresh;
    }
};
struct verif_reader_ptr { xmlTextReader* get() const { return nullptr; } };

class XMLReader
{
public:
    verif_reader_ptr reader;
    verif_names names;
    ParserBuilder* parser;
    bool newxta;
    Path path;
    tag_t getElement() const { return (tag_t)N_tag[ncur]; } /* the local-name -> tag table (tag_map) is not under contract */
    char* getAttribute(const char* name) const;
    std::string getAttributeStr(std::string_view name) const;
    bool isEmpty() const;
    int getNodeType() const;
    void read();
    bool begin(tag_t, bool skipEmpty = true);
    bool end(tag_t);
    std::string get_name(const char* id) const;
    int parse(const xmlChar*, xta_part_t syntax);
    bool label(bool required = false, const std::string& s_kind = std::string());
    int invariant();
    std::string name(bool instanceLine = false);
    std::string reference(const std::string& attributeName);
    std::string source();
    std::string target();
    bool init();
    bool urgent();
    bool committed();
    bool location();
    bool branchpoint();
    bool transition();
    bool declaration();
    int parameter();
    bool templ();
    /* contracts of the element readers as templ() sees them (their bodies are the obligations of the c04_reader_* jobs):
       if the next element is theirs, it is consumed whole and handed over (logged with the node it started at) */
    bool element__contract(tag_t tag, bool skipEmpty, int ev);
    bool location__contract() { return element__contract(tag_t::LOCATION, false, EV_C_LOCATION); }
    bool branchpoint__contract() { return element__contract(tag_t::BRANCHPOINT, false, EV_C_BRANCHPOINT); }
    bool transition__contract() { return element__contract(tag_t::TRANSITION, true, EV_C_TRANSITION); }
    bool init__contract()
    {
        if (element__contract(tag_t::INIT, false, EV_C_INIT)) return true;
        if (!verif_exc) parser->handle_error(TypeException());
        return false;
    }
};
bool XMLReader::element__contract(tag_t tag, bool skipEmpty, int ev)
{
    if (!begin(tag, skipEmpty)) return false;
    if (verif_exc) return false;
    rec(ev, ncur, 0, 0, 0);
    if (isEmpty()) { read(); return true; }
    int d = path.depth;
    for (int i = 0; i < NNODE; i++) {
        if (verif_exc) return false;
        if (getNodeType() == XML_READER_TYPE_END_ELEMENT && path.depth == d) { read(); return true; }
        read();
    }
    __CPROVER_assert(0, "stub: the element ends inside the script");
    return true;
}
/* name(): <name>text</name> if it is the next element (real: readString/readText, which additionally trim the text and
   reject keywords - not under contract) */
std::string XMLReader::name(bool)
{
    std::string r;
    if (begin(tag_t::NAME)) {
        if (verif_exc) return r;
        read();
        if (verif_exc) return r;
        if (getNodeType() == XML_READER_TYPE_TEXT) r.id = N_text[ncur];
    }
    return r;
}
}  // namespace UTAP
using namespace UTAP;
#include "xr_label_map.inc"  /* GENERATED from the initialiser of label()'s kind table */
#include "xr_funcs.inc"      /* REAL functions, lowered */

static XMLReader R;
static ParserBuilder PB;
extern "C" {
void wx_has(int i, int a, int present) { __CPROVER_assert(i >= 0 && i < NNODE, "harness: node table capacity"); N_has[i * 5 + a] = present; }
void wx_node(int i, int type, int tag, int empty, int a_ref, int a_id, int a_kind, int a_controllable, int a_action, int text)
{
    __CPROVER_assert(i >= 0 && i < NNODE, "harness: node table capacity");
    N_type[i] = type; N_tag[i] = tag; N_empty[i] = empty; N_text[i] = text;
    N_val[i * 5 + 0] = a_ref; N_val[i * 5 + 1] = a_id; N_val[i * 5 + 2] = a_kind; N_val[i * 5 + 3] = a_controllable; N_val[i * 5 + 4] = a_action;
}
/* reader positioned on node 0, which is an element inside a template: the path holds the open ancestors */
void wx_start_template(int n)
{
    nnode = n; ncur = 0; verif_exc = 0; verif_nev = 0; verif_ncell_dyn = 0; g_builder_throws = 0; g_parse_fails[0] = 0;
    R.parser = &PB; R.newxta = true;
    R.path.reset(); g_tracker_path = 0; R.path.push(tag_t::NTA); R.path.push(tag_t::TEMPLATE);
}
void wx_start(int n, int first_tag, int builder_throws, int parse_fails)
{
    nnode = n; ncur = 0; verif_exc = 0; verif_nev = 0; verif_ncell_dyn = 0; g_builder_throws = builder_throws; g_parse_fails[0] = parse_fails;
    R.parser = &PB; R.newxta = true;
    R.path.reset(); g_tracker_path = 0; R.path.push(tag_t::NTA); R.path.push(tag_t::TEMPLATE); R.path.push((tag_t)first_tag);
    /* R.names starts empty: static storage is zero-initialised and a harness runs once */
}
void wx_name(int id, int name) { names_has[id] = true; names_val[id] = name; }
int wx_names(int id) { return (id >= 0 && id < 64 && names_has[id]) ? names_val[id] : -1; }
int wx_call(int which)
{
    switch (which) {
    case 0: return R.transition();
    case 1: return R.init();
    case 2: return R.location();
    case 3: return R.branchpoint();
    default: return R.templ();
    }
}
int wx_cursor(void) { return ncur; }
int wx_path_depth(void) { return R.path.depth; }
}
