"""C03 (kernel K1) - printer parenthesisation against the grammar's precedence: a child printed without parentheses
must be grouped the same way when the text is parsed again."""
import json
import os
import re

from tools import framework as F
from tools import extract as X
from checks import tc_common as T
from checks import native

CDIR = os.path.join(F.VERIF, "contracts", "C03")
EX = "src/expression.cpp"


def write(work, name, text):
    with open(os.path.join(work, name), "w") as f:
        f.write(text)


def grammar_prec(work):
    """TOKPREC / RULEPREC / ASSOC per operator kind, from parser.y (bison: later %left/%right line = tighter)."""
    py = X.Source("src/parser.y")
    s, _ = py.find_unique(r"^%left T_LEADS_TO", what="first precedence declaration")
    e, _ = py.find_unique(r"^%union", what="%union")
    decl = X.Slice("parser.y:precedence declarations", py, s, e)
    level, assoc = {}, {}
    lv = 0
    for line in decl.text.splitlines():
        m = re.match(r"^%(left|right|nonassoc)\s+(.*)$", line.strip())
        if not m:
            continue
        lv += 1
        for tok in m.group(2).split():
            level[tok] = lv
            assoc[tok] = {"left": 1, "right": 2, "nonassoc": 3}[m.group(1)]
    m = re.search(r"^Expression:(.*?)^\s*;\s*$", py.text, re.M | re.S)
    body = m.group(1)
    kinds = {}
    for pm in re.finditer(r"\|\s*Expression\s+(T_\w+|'.')\s+Expression\s*\{\s*CALL\([^;]*?,\s*expr_binary\((\w+)\)\);\s*\}(\s*%prec\s+(\S+))?", body):
        tok, kind, prec = pm.group(1), pm.group(2), pm.group(4)
        if tok not in level:
            raise X.ExtractionBroken(f"parser.y: operator token {tok} has no precedence declaration")
        kinds.setdefault(kind, (level[tok], level[prec] if prec else level[tok], assoc[tok]))
    am = re.search(r"^Assignment:(.*?)^\s*;?\s*$", py.text, re.M | re.S)
    ap = re.search(r"Expression AssignOp Expression\s*\{[^}]*\}\s*%prec\s+(\S+)", py.text)
    if not ap:
        raise X.ExtractionBroken("parser.y: Assignment production with %prec not found")
    for tok, kind in re.findall(r"(T_\w+)\s*\{\s*\$\$\s*=\s*(\w+);\s*\}", re.search(r"^AssignOp:(.*?)^\s*;", py.text, re.M | re.S).group(1)):
        kinds[kind] = (level[tok], level[ap.group(1).rstrip(";")], assoc[tok])
    im = re.search(r"Expression '\?' Expression ':' Expression\s*\{[^}]*\}\s*%prec\s+(\S+)", py.text)
    if not im:
        raise X.ExtractionBroken("parser.y: inline-if production with %prec not found")
    kinds["INLINE_IF"] = (level["'?'"], level[im.group(1)], assoc["'?'"])
    out = ["/* GENERATED from src/parser.y: per operator kind, the precedence level of its operator token, of its production",
           "   (%prec or the token's) and the token's associativity (1 left, 2 right); higher level = binds tighter */",
           "static int TOKPREC(int k) { switch (k) {"] + [f"    case K_{k}: return {v[0]};" for k, v in kinds.items()] + ["    default: return 0; } }",
           "static int RULEPREC(int k) { switch (k) {"] + [f"    case K_{k}: return {v[1]};" for k, v in kinds.items()] + ["    default: return 0; } }",
           "static int ASSOC(int k) { switch (k) {"] + [f"    case K_{k}: return {v[2]};" for k, v in kinds.items()] + ["    default: return 0; } }",
           "#define IS_OP_KIND(k) (" + " || ".join(f"(k) == K_{k}" for k in kinds) + ")",
           "#define IS_ASSIGN_KIND(k) (" + " || ".join(f"(k) == K_{k}" for k in kinds if k.startswith("ASS")) + ")",
           "#define IS_ATOM_KIND(k) ((k) == K_IDENTIFIER || (k) == K_CONSTANT)"]
    return decl, kinds, "\n".join(out) + "\n"


def build(tier, work, builder):
    write(work, "kinds.h", T.kinds_header())
    src = X.Source(EX)
    slices = []
    gp0 = X.function(src, "expression_t::get_precedence()", r"^int expression_t::get_precedence\(\) const")
    gp = X.function(src, "expression_t::get_precedence(kind_t)", r"^int expression_t::get_precedence\(kind_t kind\)")
    gp.sub("L9:throw->ghost flag", r"throw std::logic_error\(\"[^\"]*\"\);", "VERIF_THROW_INT;", required=True)
    es = X.function(src, "embrace_strict", r"^static inline std::ostream& embrace_strict\(std::ostream& os, bool old, const expression_t& expr, int precedence\)")
    em = X.function(src, "embrace", r"^static inline std::ostream& embrace\(std::ostream& os, bool old, const expression_t& expr, int precedence\)")
    for sl in (es, em):
        sl.sub("L12:print on the child->contract", r"\bexpr\.print\(", "expr.print__contract(", required=True)
    write(work, "precedence_funcs.inc", "\n".join(s.text for s in (gp0, gp, es, em)) + "\n")
    slices += [gp0, gp, es, em]
    pf = X.function(src, "expression_t::print", r"^std::ostream& expression_t::print\(std::ostream& os, bool old\) const")
    clauses = []
    binary_labels = None
    for lab in ("PLUS", "INLINE_IF", "UNARY_MINUS", "NOT", "PRE_DECREMENT", "POST_DECREMENT", "ARRAY", "XOR"):
        cl = X.switch_clause(src, f"expression_t::print:case {lab}", pf, lab, occurrence=0 if lab == "PLUS" else None)
        cl.sub("L12:print on a child->contract", r"\)\.print\(", ").print__contract(")
        if lab == "PLUS":
            binary_labels = re.findall(r"case (\w+):", cl.text.split("embrace_strict")[0])
        clauses.append(cl)
    txt = ("std::ostream& expression_t::print_clauses(std::ostream& os, bool old) const\n{\n    const int precedence = get_precedence();\n"
           "    switch (data->kind) {\n" + "\n".join(c.text for c in clauses) + "\n    default: break;\n    }\n    return os;\n}\n")
    write(work, "print_clauses.inc", txt)
    slices += clauses
    decl, kinds, hdr = grammar_prec(work)
    bin_kinds = [k for k in binary_labels if k in kinds]
    if len(bin_kinds) < 25:
        raise X.ExtractionBroken("print: binary clause covers fewer grammar operators than expected")
    hdr += "#define IS_BINARY_KIND(k) (" + " || ".join(f"(k) == K_{k}" for k in bin_kinds) + ")\n"
    write(work, "grammar_prec.h", hdr)
    slices.append(decl)
    obj = builder.cc(os.path.join(CDIR, "pr03.cpp"), includes=[work, os.path.join(X.REPO, "include")], cpp=True)
    kf = ["KF1_CLASS(kp,kl,kr)=(IS_ASSIGN_KIND(kp) && (IS_ASSIGN_KIND(kl) || (kl) == K_INLINE_IF))",
          "KF2_CLASS(kc,kt,ke)=0"]
    hobj = builder.cc(os.path.join(CDIR, "h_c03.c"), includes=[work], defines=["EXCLUDE_KF"] + kf)
    hobj_kf = builder.cc(os.path.join(CDIR, "h_c03.c"), includes=[work], defines=kf)
    jobs = []

    def J(name, entry, fns, h=hobj, **kw):
        jobs.append(F.Job(name, entry, [obj, h], timeout=300, unwind=18, functions=fns, **kw))
    J("c03_binary", "h_c03_binary", ["expression_t::print (binary-operator clause)", "embrace", "embrace_strict", "expression_t::get_precedence"], note="known-finding class excluded: must pass")
    J("c03_inline_if", "h_c03_inline_if", ["expression_t::print (INLINE_IF clause)", "embrace", "expression_t::get_precedence"])
    J("c03_prefix", "h_c03_prefix", ["expression_t::print (UNARY_MINUS, NOT, PRE_INCREMENT, PRE_DECREMENT clauses)", "embrace"])
    J("c03_kf_binary", "h_c03_binary", ["expression_t::print (binary-operator clause)"], h=hobj_kf,
      known={r"left-operand-printed-without-parentheses": "C03-KF1"}, note="unrestricted: fails exactly inside the known-finding class")
    # ---- K2: query operand layout, builder versus printer
    from checks import C19
    q = C19.expr_core(work)
    tp = T.type_preds(); write(work, "type_preds.inc", tp.text)
    hpp = X.Source("include/utap/ExpressionBuilder.hpp")
    fc = X.braced(hpp, "class ExpressionBuilder::ExpressionFragments", r"^\s*class ExpressionFragments\b")
    write(work, "fragments_class.inc", fc.text + "\n")
    eb = X.Source("src/ExpressionBuilder.cpp")
    bl = [X.function(eb, "ExpressionFragments::pop(n)", r"^void ExpressionBuilder::ExpressionFragments::pop\(uint32_t n\)"),
          X.function(eb, "ExpressionBuilder::make_constant(int)", r"^expression_t ExpressionBuilder::make_constant\(int value\) const"),
          X.function(eb, "ExpressionBuilder::expr_proba_quantitative", r"^void ExpressionBuilder::expr_proba_quantitative\(Constants::kind_t pathType\)"),
          X.function(eb, "ExpressionBuilder::expr_proba_qualitative", r"^void ExpressionBuilder::expr_proba_qualitative\(Constants::kind_t pathType, Constants::kind_t comp, double probBound\)"),
          X.function(eb, "ExpressionBuilder::expr_proba_compare", r"^void ExpressionBuilder::expr_proba_compare\(Constants::kind_t pathType1, Constants::kind_t pathType2\)"),
          X.function(eb, "ExpressionBuilder::expr_proba_expected", r"^void ExpressionBuilder::expr_proba_expected\(const char\* aggregatingOp\)")]
    for sl in bl:
        sl.sub("L15:auto&->expression_t&", r"auto& (\w+) = fragments\[", r"expression_t& \1 = fragments[")
        sl.sub("L15:auto->bool", r"auto invert = ", "bool invert = ")
        sl.sub("L23:std::move(x)->x", r"std::move\((\w+)\)", r"\1")
        sl.sub("L9:throw->ghost flag", r"throw TypeException\(\"[^\"]*\"\);", "{ verif_thrown = 1; return; }")
        # auto args = std::vector<expression_t>{a, b, ...};  ->  vector built by push_back in the same order (L4)
        m = re.search(r"auto args = std::vector<expression_t>\{(.*?)\};", sl.text, re.S)
        if m:
            items, depth, cur = [], 0, ""
            for ch in m.group(1):
                if ch in "([{":
                    depth += 1
                if ch in ")]}":
                    depth -= 1
                if ch == "," and depth == 0:
                    items.append(cur.strip()); cur = ""
                else:
                    cur += ch
            items.append(cur.strip())
            rep = "std::vector<expression_t> args; " + " ".join("{ expression_t verif_x = %s; args.push_back(verif_x); }" % it for it in items)
            sl.text = sl.text[:m.start()] + rep + sl.text[m.end():]
            sl.rules["L4:vector{a, b, ...}->push_back in order"] = 1
    pe = bl[-1]
    mm = re.search(r"int aggOpId;.*?// TODO[^\n]*\n", pe.text, re.S)
    if not mm:
        raise X.ExtractionBroken("expr_proba_expected: the min/max string dispatch changed shape")
    pe.text = pe.text[:mm.start()] + "int aggOpId = aggOpId_is_max; /* strcmp(\"min\"/\"max\") dispatch dropped: the harness passes the id */\n" + pe.text[mm.end():]
    pe.sub("glue:const char* aggregatingOp->id", r"const char\* aggregatingOp", "int aggOpId_is_max", required=True)
    pe.rules["C7:string dispatch of expr_proba_expected replaced by its result"] = 1
    write(work, "query_builder_funcs.inc", "\n".join(s.text for s in bl) + "\n")
    pbt = X.function(src, "expression_t::print_bound_type", r"^std::ostream& expression_t::print_bound_type\(std::ostream& os, expression_t e\) const")
    pbt.sub("L12:print on a child->contract", r"\be\.print\(", "e.print__contract(", required=True)
    ist = X.function(src, "expression_t::is_true", r"^bool expression_t::is_true\(\) const")
    qcl = []
    for lab in ("PROBA_MIN_BOX", "PROBA_MIN_DIAMOND", "PROBA_BOX", "PROBA_DIAMOND", "PROBA_EXP", "PROBA_CMP"):  # X_BOX sets the flag and falls through into X_DIAMOND
        cl = X.switch_clause(src, f"expression_t::print:case {lab}", pf, lab)
        cl.sub("L12:print on a child->contract", r"\)\.print\(", ").print__contract(")
        X.hoist_enclosing_lambdas(src, pf, cl)
        cl.sub("L12:print on a child->contract (inside a hoisted lambda)", r"\)\.print\(", ").print__contract(")
        X.lower_local_lambdas(cl)
        cl.sub("glue:kind_t::BOX->BOX", r"\bkind_t::(BOX|DIAMOND)\b", r"\1")
        qcl.append(cl)
    qtxt = (ist.text + "\n" + pbt.text + "\nstd::ostream& expression_t::print_query_clauses(std::ostream& os, bool old) const\n{\n    bool flag = false;\n"
            "    switch (data->kind) {\n" + "\n".join(c.text for c in qcl) + "\n    default: break;\n    }\n    return os;\n}\n")
    # ---- K3: floating-point constants as text: the CONSTANT clause of print, the probability bound of the qualitative
    #      query clause (already in qcl), and the static conversion helper they call, if the source has one
    ccl = X.switch_clause(src, "expression_t::print:case CONSTANT", pf, "CONSTANT")
    ccl.sub("L19:std::get<int32_t>(variant)->tagged struct member", r"std::get<int32_t>\(data->value\)", "data->value.i")
    qtxt += ("std::ostream& expression_t::print_constant_clause(std::ostream& os, bool old) const\n{\n    switch (data->kind) {\n"
             + ccl.text + "\n    default: break;\n    }\n    return os;\n}\n")
    # static `std::ostream& NAME(std::ostream&, double)` functions of expression.cpp that the clauses call
    helper_names = sorted(n for n in set(re.findall(r"^static (?:inline )?std::ostream& (\w+)\(std::ostream& \w+, double \w+\)", src.text, re.M))
                          if re.search(r"\b%s\(" % re.escape(n), ccl.text + "".join(c.text for c in qcl)))
    helpers = []
    for hn in helper_names:
        helpers.append(X.function(src, hn, r"^static (?:inline )?std::ostream& %s\(std::ostream& os, double \w+\)" % re.escape(hn)))
    write(work, "double_helper.inc", "\n".join(h.text for h in helpers) + "\n")
    slices += [ccl] + helpers
    # ---- K4: quantifier binders
    bcl = []
    for lab in ("FORALL", "EXISTS", "SUM"):
        cl = X.switch_clause(src, f"expression_t::print:case {lab}", pf, lab)
        cl.sub("L12:print on a child->contract", r"\)\.print\(", ").print__contract(")
        bcl.append(cl)
    qtxt += ("std::ostream& expression_t::print_quantifier_clauses(std::ostream& os, bool old) const\n{\n    switch (data->kind) {\n"
             + "\n".join(c.text for c in bcl) + "\n    default: break;\n    }\n    return os;\n}\n")
    slices += bcl
    write(work, "query_print_funcs.inc", qtxt)
    slices += q + [fc] + bl + [ist, pbt] + qcl
    qobj = builder.cc(os.path.join(CDIR, "pq03.cpp"), includes=[work, os.path.join(X.REPO, "include")], cpp=True)
    jobs.append(F.Job("c03_query_compare", "h_c03_query_compare", [qobj, hobj], timeout=300, unwind=42,
                      functions=["ExpressionBuilder::expr_proba_compare", "expression_t::print (PROBA_CMP)", "expression_t::print_bound_type", "expression_t::get_value (assertions)"]))
    for nm, fns in (("quantitative", ["ExpressionBuilder::expr_proba_quantitative", "expression_t::print (PROBA_BOX/PROBA_DIAMOND)"]),
                    ("qualitative", ["ExpressionBuilder::expr_proba_qualitative", "expression_t::print (PROBA_MIN_BOX/PROBA_MIN_DIAMOND)"]),
                    ("expected", ["ExpressionBuilder::expr_proba_expected", "expression_t::print (PROBA_EXP)"])):
        jobs.append(F.Job("c03_query_" + nm, "h_c03_query_" + nm, [qobj, hobj], timeout=300, unwind=42, functions=fns + ["expression_t::print_bound_type", "expression_t::get_value/get_double_value (assertions)"]))
    jobs.append(F.Job("c03_double_text", "h_c03_double_text", [qobj, hobj], timeout=300, unwind=42,
                      functions=["expression_t::print (CONSTANT clause)", "expression_t::print (probability bound of PROBA_MIN_BOX/PROBA_MIN_DIAMOND)"] + [h.name + " (expression.cpp, static)" for h in helpers],
                      note="K3: a floating-point constant is written as text that reads back as exactly the same value and lexes as a floating-point literal; libc conversions by assumed contracts A-fp1..3"))
    jobs.append(F.Job("c03_quantifier_binder", "h_c03_quantifier_binder", [qobj, hobj], timeout=300, unwind=42,
                      functions=["expression_t::print (FORALL / EXISTS / SUM clauses)"],
                      note="K4: the binder's type is written in declaration syntax (what the grammar's Type production reads), not in the diagnostic format of type_t::str()"))
    return {
        "jobs": jobs, "slices": [s.info() for s in slices],
        "drops": ["operator spellings and all other text the printer emits (only parentheses and which child is printed are logged)",
                  "print clauses other than the binary group, INLINE_IF, prefix/postfix operators, ARRAY, XOR"],
        "trusted_base": ["CBMC 6.11 C++ front end + SAT", "contracts/C03/pr03.cpp: logging ostream, expression node stub",
                         "bison's conflict resolution rule (compare production precedence with look-ahead token precedence; equal -> associativity)"],
        "assumptions": ["induction over tree height: printing a child is answered by its contract",
                        "the full statement parse(str(e)) == e is NOT decided: constants (doubles at default stream precision), quantifier binders printed through type_t::str(), and all query forms (Pr[...], E[...], simulate, control, strategies, MITL) are outside this kernel - the defects the statement names for them are not re-derived here",
                        "operator spellings (the token each kind is printed as) are not checked"],
        "explanation": "",
    }


def replay(rec):
    rc, out = native.run_replay("c03_probe", [])
    try:
        res = json.loads(out[out.index("{"):])
    except Exception:
        return {"confirmed": None, "detail": {"rc": rc, "raw": out[-1500:]}}
    failed = [k for k, v in res.items() if v is not True and not k.startswith("kf.")]
    if failed:
        return {"confirmed": True, "detail": {"failed": failed, "report": res}, "real_code": "libUTAP built from /repo's working tree"}
    return {"confirmed": None, "detail": {"report": res}}
