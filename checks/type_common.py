"""Slicing of include/utap/type.h (class type_t) and src/type.cpp (members) for the TREE
type stub: the REAL class declaration and the REAL member definitions over a raw-pointer
node (`std::shared_ptr<type_data>` -> `type_data*`)."""
import re

from tools import extract as X

MEMBERS = [
    ("type_t::type_t", r"^type_t::type_t\(kind_t kind, const position_t& pos, size_t size\)"),
    ("type_t::operator==", r"^bool type_t::operator==\(const type_t& type\) const"),
    ("type_t::size", r"^size_t type_t::size\(\) const"),
    ("type_t::operator[]", r"^type_t type_t::operator\[\]\(uint32_t i\) const"),
    ("type_t::get", r"^type_t type_t::get\(uint32_t i\) const"),
    ("type_t::get_label", r"^const std::string& type_t::get_label\(uint32_t i\) const"),
    ("type_t::get_kind", r"^kind_t type_t::get_kind\(\) const"),
    ("type_t::is_prefix", r"^bool type_t::is_prefix\(\) const"),
    ("type_t::unknown", r"^bool type_t::unknown\(\) const"),
    ("type_t::is", r"^bool type_t::is\(kind_t kind\) const"),
    ("type_t::get_sub()", r"^type_t type_t::get_sub\(\) const"),
    ("type_t::get_sub(i)", r"^type_t type_t::get_sub\(uint32_t i\) const"),
    ("type_t::get_array_size", r"^type_t type_t::get_array_size\(\) const"),
    ("type_t::get_record_size", r"^uint32_t type_t::get_record_size\(\) const"),
    ("type_t::strip", r"^type_t type_t::strip\(\) const"),
    ("type_t::strip_array", r"^type_t type_t::strip_array\(\) const"),
    ("type_t::is_constant", r"^bool type_t::is_constant\(\) const"),
    ("type_t::is_mutable", r"^bool type_t::is_mutable\(\) const"),
    ("type_t::create_primitive", r"^type_t type_t::create_primitive\(kind_t kind, position_t pos\)"),
    ("type_t::create_prefix", r"^type_t type_t::create_prefix\(kind_t kind, position_t pos\) const"),
    ("type_t::create_label", r"^type_t type_t::create_label\(string label, position_t pos\) const"),
    ("type_t::create_array", r"^type_t type_t::create_array\(type_t sub, type_t size, position_t pos\)"),
    ("type_t::get_range", r"^std::pair<expression_t, expression_t> type_t::get_range\(\) const"),
    ("type_t::get_expression", r"^expression_t type_t::get_expression\(\) const"),
    ("type_t::get_position", r"^position_t type_t::get_position\(\) const"),
    ("type_t::rename", r"^type_t type_t::rename\(const std::string& from, const std::string& to\) const"),
    ("type_t::subst", r"^type_t type_t::subst\(symbol_t symbol, expression_t expr\) const"),
]
DEFAULT_SKIP = ("type_t::get_position", "type_t::rename", "type_t::subst")  # only sliced when asked for by name

ALL_OF = re.compile(r"return std::all_of\(([\w\->\.]+)\.begin\(\), \1\.end\(\),\s*\[[^\]]*\]\(const (\w+)& (\w+)\) \{ return (.*?); \}\);", re.S)


def lower_all_of(sl, required=True):
    """Rule L10: `return std::all_of(C.begin(), C.end(), [..](const T& x) { return P; });` -> loop."""
    def rep(m):
        c, ty, x, p = m.group(1), m.group(2), m.group(3), m.group(4)
        return ("{ for (size_t verif_i = 0; verif_i < %s.size(); ++verif_i) { const %s& %s = %s[verif_i]; if (!(%s)) return false; } return true; }"
                % (c, ty, x, c, p))
    new, n = ALL_OF.subn(rep, sl.text)
    sl.text = new
    sl.rules["L10:all_of(lambda)->loop"] = n
    if required and n == 0:
        raise X.ExtractionBroken(f"{sl.name}: rule L10 fired 0 times")


def type_class():
    src = X.Source("include/utap/type.h")
    sl = X.braced(src, "type.h:class type_t", r"^class type_t$")
    sl.sub("lower:shared_ptr->raw-pointer", r"std::shared_ptr<type_data> data;", "type_data* data;", required=True)
    sl.sub("L4:default-ctor", r"type_t\(\) = default;", "type_t(): data(nullptr) {}", required=True)
    sl.sub("L13:local-using-namespace", r"^\s*using namespace Constants;\n", "", required=True)
    # G2: contract members (rule L12) and ghost access appended
    i = sl.text.rindex("};")
    sl.text = sl.text[:i] + ("public:\n    /* G2: contracts of the recursive members on a child (ghost summaries) */\n"
                             "    bool is__contract(Constants::kind_t kind) const;\n    bool is_mutable__contract() const;\n    bool is_constant__contract() const;\n"
                             "    type_t get_sub__contract() const;\n    type_t get_sub__contract(uint32_t) const;\n    type_data* verif_data() const { return data; }\n"
                             "    type_t subst__contract(symbol_t symbol, expression_t expr) const;\n    type_t rename__contract(const std::string& from, const std::string& to) const;\n") + sl.text[i:]
    sl.rules["G2:contract-members-appended"] = 1
    return sl


def type_data_structs():
    src = X.Source("src/type.cpp")
    c = X.braced(src, "type.cpp:struct child_t", r"^struct child_t$")
    d = X.braced(src, "type.cpp:struct type_t::type_data", r"^struct type_t::type_data$")
    d.sub("L4:ctor-init", r"kind\{kind\}, position\{position\}", "kind(kind), position(position)", required=True)
    i = d.text.rindex("};")
    d.text = d.text[:i] + ("    /* G1: ghost summary of this node, used by the contracts of the recursive members */\n"
                           "    Constants::kind_t g_base; unsigned g_wrap; bool g_mutable, g_constant; type_data* g_sub; int g_id;\n") + d.text[i:]
    d.rules["G1:ghost-fields-appended"] = 1
    return [c, d]


def type_members(l12=(), names=None):
    """REAL member definitions; for names in l12 the recursive self-calls are answered by contracts."""
    src = X.Source("src/type.cpp")
    out = []
    for name, rx in MEMBERS:
        if names is not None and name not in names:
            continue
        if names is None and name in DEFAULT_SKIP:
            continue
        sl = X.function(src, name, rx)
        if name in ("type_t::is_constant", "type_t::is_mutable"):
            lower_all_of(sl, required="std::all_of" in sl.text)  # must fire whenever the construct is present
        if name == "type_t::is":
            sl.sub("L13:local-using-namespace", r"^\s*using namespace Constants;\n", "", required=True)
            sl.sub("L15:const-auto->kind_t", r"const auto k = get_kind\(\);", "const kind_t k = get_kind();", required="const auto k" in sl.text)
        if name in ("type_t::get_sub()", "type_t::get_sub(i)", "type_t::get_array_size", "type_t::get_record_size", "type_t::strip"):
            sl.sub("L15:const-auto->kind_t", r"const auto k = get_kind\(\);", "const kind_t k = get_kind();", required="const auto k" in sl.text)
        sl.sub("lower:make_shared->new", r"std::make_shared<type_data>\(", "new type_data(")
        sl.sub("L4:auto x = type_t{...}", r"auto (\w+) = type_t\{([^}]*)\};", r"type_t \1(\2);")
        short = name.split("::")[1].split("(")[0]
        if name in l12:
            X.rename_self_calls(sl, short, pattern=r"\.%s\(" % re.escape(short), minimum=0)
        out.append(sl)
    return out
