"""C17 - analysis methods are reported as supported only when the model permits them."""
import os
import re

from tools import framework as F
from tools import extract as X
from checks import tc_common as T
from checks import native

CDIR = os.path.join(F.VERIF, "contracts", "C17")
FC = "src/featurechecker.cpp"


def write(work, name, text):
    with open(os.path.join(work, name), "w") as f:
        f.write(text)


def walkers():
    src = X.Source("src/expression.cpp")
    out = []
    for fn in ("uses_fp", "uses_hybrid", "uses_clock"):
        sl = X.function(src, f"expression_t::{fn}", r"^bool expression_t::%s\(\) const" % fn)
        head, body = sl.text.split("{", 1)
        n = len(re.findall(r"\.%s\(\)" % fn, body))
        if n < 1:
            raise X.ExtractionBroken(f"expression_t::{fn}: no recursive self-call found (L12 must fire)")
        sl.text = head + "{" + re.sub(r"\.%s\(\)" % fn, f".{fn}__contract()", body)
        sl.rules["L12:self-call->contract"] = n
        out.append(sl)
    return out


def fc_functions():
    src = X.Source(FC)
    sigs = [("FeatureChecker::FeatureChecker", r"^FeatureChecker::FeatureChecker\(Document& document\)"),
            ("FeatureChecker::visitTemplateBefore", r"^bool FeatureChecker::visitTemplateBefore\(template_t& templ\)"),
            ("FeatureChecker::visitVariable", r"^void FeatureChecker::visitVariable\(variable_t& var\)"),
            ("FeatureChecker::visitEdge", r"^void FeatureChecker::visitEdge\(edge_t& edge\)"),
            ("FeatureChecker::visitGuard", r"^void FeatureChecker::visitGuard\(expression_t& guard\)"),
            ("FeatureChecker::visitAssignment", r"^void FeatureChecker::visitAssignment\(expression_t& ass\)"),
            ("FeatureChecker::visitLocation", r"^void FeatureChecker::visitLocation\(location_t& location\)"),
            ("FeatureChecker::isRateDisallowedInSymbolic", r"^bool FeatureChecker::isRateDisallowedInSymbolic\(const expression_t& e\)"),
            ("FeatureChecker::visitFrame", r"^void FeatureChecker::visitFrame\(const frame_t& frame\)")]
    out = []
    for name, rx in sigs:
        sl = X.function(src, name, rx)
        # callee walkers answered by their contracts (proved separately in the walker jobs)
        for w in ("uses_fp", "uses_hybrid", "uses_clock"):
            sl.sub(f"L12b:{w}->contract", r"\.%s\(\)" % w, f".{w}__contract()")
        if name.endswith("visitLocation"):
            sl.sub("L15:const-auto&->explicit-type", r"const auto& invariant = location\.invariant;", "const expression_t& invariant = location.invariant;", required=True)
        if name.endswith("visitFrame"):
            X.lower_range_for(sl, "symbol_t")  # a range-for over the frame, if a refactoring introduced one (rule L7)
        if name.endswith("visitGuard"):
            # recursion is present only in the repaired version: rename when it exists (count logged)
            head, body = sl.text.split("{", 1)
            n = len(re.findall(r"\bvisitGuard\(", body))
            sl.text = head + "{" + re.sub(r"\bvisitGuard\(", "visitGuard__contract(", body)
            sl.rules["L12:self-call->contract"] = n
        if name.endswith("visitAssignment") or name.endswith("isRateDisallowedInSymbolic"):
            short = name.split("::")[1]
            head, body = sl.text.split("{", 1)
            n = len(re.findall(r"\b%s\(" % short, body))
            # a non-recursive (iterative) rewrite is legal: then the one-level induction step does not apply
            # and the bounded whole-function job (c17_assign_chain) stands in - see build()
            sl.text = head + "{" + re.sub(r"\b%s\(" % short, short + "__contract(", body)
            sl.rules["L12:self-call->contract"] = n
            RECURSIVE[short] = n > 0
        out.append(sl)
    # helpers a refactoring may have introduced (file-local static functions) come along verbatim
    known = {s.split("::")[-1] for s, _ in sigs}
    extra = X.static_helpers(src, exclude=known)
    for h in extra:
        for w in ("uses_fp", "uses_hybrid", "uses_clock"):
            h.sub(f"L12b:{w}->contract", r"\.%s\(\)" % w, f".{w}__contract()")
    return extra + out


RECURSIVE = {}


def build(tier, work, builder):
    slices = []
    write(work, "kinds.h", T.kinds_header())
    tp = T.type_preds(); write(work, "type_preds.inc", tp.text); slices.append(tp)
    ws = walkers()
    write(work, "expr_walkers.inc", "\n".join(s.text for s in ws) + "\n")
    fs = fc_functions()
    write(work, "fc_funcs.inc", "\n".join(s.text for s in fs) + "\n")
    slices += ws + fs
    # structural facts checked textually (must hold exactly, else exit 2)
    doc = X.Source("include/utap/document.h")
    doc.find_unique(r"struct SupportedMethods\s*\{\s*bool symbolic\{true\};\s*bool stochastic\{true\};\s*bool concrete\{true\};\s*\};",
                    what="document.h: SupportedMethods defaults to all-true")
    dsrc = X.Source("src/document.cpp")
    vt = X.function(dsrc, "visitTemplate", r"^void visitTemplate\(template_t& t, DocumentVisitor& visitor\)")
    gate = X.if_chain(dsrc, "visitTemplate:gate", r"if \(visitor\.visitTemplateBefore\(t\)\) \{", (vt.start, vt.end))
    body = dsrc.text[vt.start:vt.end]
    inner = body[body.index("{") + 1:body.rindex("}")].strip()
    if inner != gate.text.strip():
        raise X.ExtractionBroken("visitTemplate: something is visited outside `if (visitor.visitTemplateBefore(t))`")
    slices.append(gate)
    tcobj = builder.cc(os.path.join(CDIR, "fc17.cpp"), includes=[work, os.path.join(X.REPO, "include")], cpp=True)
    # the same functions with visitAssignment's self-calls left in place (real recursion) for the bounded chain job
    write(work, "fc_funcs_real.inc", "\n".join(s.text for s in fs).replace("visitAssignment__contract(", "visitAssignment__real(") + "\n")
    tcobj_real = builder.cc(os.path.join(CDIR, "fc17.cpp"), includes=[work, os.path.join(X.REPO, "include")], cpp=True, defines=["VERIF_REAL_ASSIGN"])
    hobj = builder.cc(os.path.join(CDIR, "h_c17.c"), includes=[work], defines=["EXCLUDE_KF"] + KF_DEFS)
    hobj_kf = builder.cc(os.path.join(CDIR, "h_c17.c"), includes=[work], defines=KF_DEFS)
    jobs = []

    def J(name, entry, fns, **kw):
        jobs.append(F.Job(name, entry, [tcobj, kw.pop("obj", hobj)], timeout=300, unwind=6, functions=fns,
                          bound_note="arity <= 4 (child loops unwound with unwinding assertions)", **kw))
    J("c17_uses_fp", "h_c17_uses_fp", ["expression_t::uses_fp (one level; recursion by contract)"])
    J("c17_uses_hybrid", "h_c17_uses_hybrid", ["expression_t::uses_hybrid (one level)"])
    J("c17_uses_clock", "h_c17_uses_clock", ["expression_t::uses_clock (one level)"])
    J("c17_guard", "h_c17_guard", ["FeatureChecker::visitGuard"])
    if RECURSIVE.get("visitAssignment", True):
        J("c17_assign", "h_c17_assign", ["FeatureChecker::visitAssignment (one level)"])
    jobs.append(F.Job("c17_assign_chain", "h_c17_assign_chain", [tcobj_real, hobj], timeout=300, unwind=8, level="bounded",
                      functions=["FeatureChecker::visitAssignment (whole function, real recursion / iteration)"],
                      bound_note="update lists of <= 4 elements in the parser's left-nested COMMA shape; stands in for the induction step when visitAssignment is not recursive"))
    J("c17_location", "h_c17_location", ["FeatureChecker::visitLocation", "FeatureChecker::isRateDisallowedInSymbolic (one level)"])
    J("c17_variable", "h_c17_variable", ["FeatureChecker::visitVariable"])
    J("c17_frame", "h_c17_frame", ["FeatureChecker::visitFrame"])
    J("c17_ctor", "h_c17_ctor", ["FeatureChecker::FeatureChecker"])
    J("c17_template_before", "h_c17_template_before", ["FeatureChecker::visitTemplateBefore", "visitTemplate gate (document.cpp, structural)"])
    J("c17_edge", "h_c17_edge", ["FeatureChecker::visitEdge"])
    # where is_instantiated comes from: DocumentBuilder::process marks the template of every process of the system line
    # (whether or not parameters stay unbound); run over the document constructors' kernel (contracts/C08)
    from checks import C08
    w8 = os.path.join(work, "c08"); os.makedirs(w8, exist_ok=True)
    b8 = C08.build(tier, w8, builder)
    jobs += b8["lemma_jobs"]
    extra = [d for d in b8["slices"] if "process" in str(d.get("name", "")).lower()]
    return {
        "jobs": jobs, "slices": [s.info() for s in slices] + extra,
        "drops": ["DocumentVisitor base class / virtual dispatch (the traversal order is Document::accept's; visitTemplate's gate is checked structurally)",
                  "Document::accept body (stub counts the call)"],
        "trusted_base": ["CBMC 6.11 C++ front end + SAT", "flat type abstraction (TYPE-IS)", "expression arena stub", "induction over tree height (meta-step)",
                         "Document::accept visits every variable/location/edge of every template that visitTemplateBefore admits (not under contract)"],
        "assumptions": ["arity <= 4", "relational nodes are binary (well-formedness from expression_t::get_size, property C19)",
                        "arrays of clocks / channels: nesting depth <= 1 in the harness (the array-stripping loops are unwound with unwinding assertions)"],
        "explanation": "each visitor is executed once on a symbolic node whose children carry arbitrary ghost summaries; postconditions are the statement's conditions",
    }


KF_DEFS = []


RELTXT = {"LT": "<", "LE": "<=", "EQ": "==", "NEQ": "!=", "GE": ">=", "GT": ">"}
MODEL = """clock x, y; hybrid clock h; int i; bool b; double d; {decl}
process P() {{
  {ldecl}
  state s0 {inv}, s1;
  init s0;
  trans s0 -> s1 {{ guard {guard}; assign {assign}; }};
}}
system P;
"""


def verdict(decl="", ldecl="", inv="", guard="true", assign="i = 0"):
    return native.parse_model(MODEL.format(decl=decl, ldecl=ldecl, inv=inv, guard=guard, assign=assign))


def replay(rec):
    names = T.kind_names()
    cex = rec.get("counterexample", {})
    job = rec["job"]
    desc = rec.get("description", "")

    def kind(key):
        try:
            return names[int(cex[key])]
        except Exception:
            return None
    tries = []
    if job == "c17_guard" or (job == "c17_location" and "comparison" in desc):
        k = kind("kind")
        g0, g1 = int(cex.get("g0", 0)), int(cex.get("g1", 0))
        ops = [RELTXT[k]] if k in RELTXT else []
        ops += [o for o in RELTXT.values() if o not in ops and o != "!="]
        for op in ops:
            atom = f"1.5 {op} x" if (g0 & 1) and (g1 & 4) and k in RELTXT else f"x {op} 1.5"
            for e in ([atom] if k in RELTXT else []) + [f"i == 0 && {atom}", f"{atom} && i == 0"]:
                tries.append((dict(guard=e) if job == "c17_guard" else dict(inv="{ " + e + " }"), "symbolic", e))
    elif job == "c17_location":
        v0, v1 = cex.get("v0", "2"), cex.get("v1", "2")
        for e in ("x' == 2.5", "x' == 2", f"x' == {v1}", f"{v0} == x'", "x <= 5 && x' == 3"):
            tries.append((dict(inv="{ " + e + " }"), "symbolic", e))
    elif job in ("c17_assign", "c17_edge", "c17_assign_chain"):
        for e in ("x = 1.5", "i = 0, x = 1.5", "x = 1.5, i = 0", "x = 1.5, i = 0, i = 1", "i = 0, x = 1.5, i = 1", "i = 0, i = 1, x = 1.5",
                  "x = 1.5, i = 0, i = 1, i = 2", "i = 0, x = 1.5, i = 1, i = 2", "d = 0.5, i = 1, i = 2"):
            tries.append((dict(assign=e), "symbolic", e))
    elif job == "c17_variable":
        if "stochastic" in desc:
            tries.append((dict(ldecl="chan c;"), "stochastic", "template-local chan c"))
            tries.append((dict(decl="chan c[2];"), "stochastic", "chan c[2]"))
            tries.append((dict(decl="chan c;"), "stochastic", "chan c"))
        else:
            tries.append((dict(decl="clock z = 1.5;"), "symbolic", "clock z = 1.5"))
            tries.append((dict(ldecl="clock z = 1.5;"), "symbolic", "local clock z = 1.5"))
            tries.append((dict(decl="clock z[2] = {1.5, 2.5};"), "symbolic", "clock z[2] = {1.5, 2.5}"))
    elif job in ("c17_frame", "c17_ctor"):
        tries.append((dict(decl="chan c;"), "stochastic", "chan c"))
        tries.append((dict(decl="chan c[2];"), "stochastic", "chan c[2]"))
        tries.append((dict(decl="chan priority default;"), "concrete", "priorities"))
    else:
        return {"confirmed": None, "detail": "no public-API input for this obligation"}
    for kw, flag, what in tries:
        r = verdict(**kw)
        if r.get("crashed"):
            return {"confirmed": True, "detail": {"input": what, "result": r, "why": "the real library aborted on this model"}}
        if not r.get("errors") and r.get(flag) is True:
            return {"confirmed": True, "detail": {"input": what, "result": r, "why": f"model accepted and '{flag}' analysis still reported as supported"}}
    return {"confirmed": None, "detail": {"tried": [w for _, _, w in tries], "why": "none of the concrete instances reproduces the failure"}}
