"""C10 - only convex clock constraints are accepted as guards and invariants.

Inductive lemma over formula trees, one obligation per operator, on the REAL clause texts
of TypeChecker::checkExpression (mode H, flat type abstraction justified by TYPE-IS)."""
import os
import re

from tools import framework as F
from tools import extract as X
from checks import tc_common as T
from checks import native

CDIR = os.path.join(F.VERIF, "contracts", "C10")
OPS = ["AND", "OR", "XOR", "NOT", "LT", "LE", "EQ", "NEQ", "GE", "GT", "FORALL", "EXISTS"]
RELS = ["LT", "LE", "EQ", "NEQ", "GE", "GT"]


def write(work, name, text):
    with open(os.path.join(work, name), "w") as f:
        f.write(text)


def build(tier, work, builder):
    slices = []
    write(work, "kinds.h", T.kinds_header())
    tp = T.type_preds()
    write(work, "type_preds.inc", tp.text)
    hp = T.helpers()
    write(work, "helpers.inc", hp.text)
    slices += [tp, hp]
    # callees: channelCapability, areEquivalent (self-calls + isSameScalarType answered by contracts), areEqCompatible
    src = X.Source(T.TC)
    cc = X.function(src, "channelCapability", r"^static int channelCapability\(type_t type\)")
    ae = X.function(src, "TypeChecker::areEquivalent", r"^bool TypeChecker::areEquivalent\(type_t a, type_t b\)")
    head, body = ae.text.split("{", 1)
    ae.text = head + "{" + body
    n = len(re.findall(r"\bareEquivalent\(", body))
    ae.text = head + "{" + re.sub(r"\bareEquivalent\(", "areEquivalent__contract(", body)
    ae.rules["L12:self-call->contract"] = n
    if n < 2:
        raise X.ExtractionBroken("areEquivalent: expected >=2 recursive self-calls, found %d" % n)
    ae.sub("L12b:isSameScalarType->contract", r"\bisSameScalarType\(", "isSameScalarType__contract(", required=True)
    aq = X.function(src, "TypeChecker::areEqCompatible", r"^bool TypeChecker::areEqCompatible\(type_t t1, type_t t2\) const")
    write(work, "tc_funcs.inc", cc.text + "\n" + ae.text + "\n" + aq.text + "\n")
    slices += [cc, ae, aq]
    mini, sl = T.mini_check_expression(["AND", "OR", "XOR", "NOT", "LT", "EQ", "NEQ", "GE", "FORALL", "EXISTS"])
    write(work, "mini_ce.inc", mini)
    slices += sl
    # gates
    ve = X.function(src, "TypeChecker::visitEdge", r"^void TypeChecker::visitEdge\(edge_t& edge\)")
    src.find_unique(r"if \(!edge\.guard\.empty\(\)\) \{\s*if \(checkExpression\(edge\.guard\)\) \{\s*if \(!is_guard\(edge\.guard\)\) \{",
                    ve.start, ve.end, what="visitEdge: guard gate is the first statement after checkExpression(edge.guard)")
    gg = X.if_chain(src, "visitEdge:guard-gate", r"if \(!is_guard\(edge\.guard\)\) \{", (ve.start, ve.end))
    vl = X.function(src, "TypeChecker::visitLocation", r"^void TypeChecker::visitLocation\(location_t& loc\)")
    src.find_unique(r"if \(!loc\.invariant\.empty\(\)\) \{\s*auto& inv = loc\.invariant;\s*if \(checkExpression\(inv\)\) \{\s*if \(!isInvariantWR\(inv\)\) \{",
                    vl.start, vl.end, what="visitLocation: invariant gate is the first statement after checkExpression(inv)")
    gi = X.if_chain(src, "visitLocation:invariant-gate", r"if \(!isInvariantWR\(inv\)\) \{", (vl.start, vl.end))
    T.lower_literals(gg)
    T.lower_literals(gi)
    write(work, "gates.inc",
          "void TypeChecker::gate_guard(edge_t& edge)\n{\n" + gg.text + "\n}\n"
          "void TypeChecker::gate_invariant(location_t& loc)\n{\n    expression_t& inv = loc.invariant;\n" + gi.text + "\n}\n")
    slices += [gg, gi]
    # imply: grammar emits NOT then OR
    py = X.Source("src/parser.y")
    s, e = py.find_unique(r"^\s*\| Expression T_KW_IMPLY \{", what="parser.y: imply production")
    m = re.search(r"\n\s*\| ", py.text[e:])
    prod = X.Slice("parser.y:Expression T_KW_IMPLY Expression", py, s, e + m.start())
    calls = re.findall(r"CALL\(@\d+, @\d+, (\w+)\((\w*)\)\);", prod.text)
    slices.append(prod)
    seq = "".join('{"%s", "%s"}, ' % c for c in calls)
    write(work, "imply_table.c",
          '/* GENERATED from the imply production of src/parser.y */\n'
          'struct call { const char* cb; const char* kind; };\n'
          f'static const struct call imply_calls[] = {{ {seq} {{0, 0}} }};\n'
          f'static const int imply_ncalls = {len(calls)};\n'
          'static _Bool eq(const char* a, const char* b) { int i = 0; while (a[i] && a[i] == b[i]) i++; return a[i] == b[i]; }\n'
          'void h_c10_imply(void)\n{\n'
          '    __CPROVER_assert(imply_ncalls == 2, "c10.imply.two-callbacks");\n'
          '    __CPROVER_assert(imply_ncalls >= 1 && eq(imply_calls[0].cb, "expr_unary") && eq(imply_calls[0].kind, "NOT"), "c10.imply.antecedent-is-negated");\n'
          '    __CPROVER_assert(imply_ncalls >= 2 && eq(imply_calls[1].cb, "expr_binary") && eq(imply_calls[1].kind, "OR"), "c10.imply.then-disjunction");\n'
          '    __CPROVER_assert(0, "reach");\n}\n')

    write(work, "msg_ids.h", T.msg_header())
    tcobj = builder.cc(os.path.join(CDIR, "tc10.cpp"), includes=[work, os.path.join(X.REPO, "include")], cpp=True)
    hobj = builder.cc(os.path.join(CDIR, "h_c10.c"), includes=[work], defines=["EXCLUDE_KF"])
    hobj_kf = builder.cc(os.path.join(CDIR, "h_c10.c"), includes=[work])
    iobj = builder.cc(os.path.join(work, "imply_table.c"))
    jobs = []
    fn = "TypeChecker::checkExpression case %s + epilogue; type_t::is_* predicates; typechecker.cpp helper predicates"
    for op in OPS:
        jobs.append(F.Job(f"c10_step_{op}", f"h_c10_step_{op}", [tcobj, hobj], timeout=300, unwind=3,
                          bound_note="record width <= 2 in areEquivalent's field loop (unwinding assertion on)" if op in ("EQ", "NEQ") else "",
                          functions=[fn % op] + (["TypeChecker::areEqCompatible", "TypeChecker::areEquivalent (top level; recursion by contract)"] if op in ("EQ", "NEQ") else []),
                          note="all base kinds x all wrapper sets for both operands; all ghost values satisfying the induction hypothesis"))
    for op in RELS:
        jobs.append(F.Job(f"c10_kf1_step_{op}", f"h_c10_step_{op}", [tcobj, hobj_kf], timeout=300, unwind=3,
                          functions=[fn % op], known={r"c10\.step\.(integral-type-implies-clock-free|guard-or-invariant-type-implies-convex)": "C10-KF1"},
                          note="same harness without the exclusion of the known-finding input class: expected to fail only inside it"))
    for op in RELS:
        jobs.append(F.Job(f"c10_atom_{op}", f"h_c10_atom_{op}", [tcobj, hobj], timeout=300, functions=[fn % op], unwind=3))
    jobs.append(F.Job("c10_conj", "h_c10_conj", [tcobj, hobj], timeout=300, unwind=3, functions=[fn % "AND"]))
    jobs.append(F.Job("c10_gate_guard", "h_c10_gate_guard", [tcobj, hobj], timeout=300, functions=["TypeChecker::visitEdge (guard acceptance gate)"]))
    jobs.append(F.Job("c10_gate_invariant", "h_c10_gate_invariant", [tcobj, hobj], timeout=300, functions=["TypeChecker::visitLocation (invariant acceptance gate)"]))
    jobs.append(F.Job("c10_imply", "h_c10_imply", [iobj], timeout=120, functions=["parser.y: Expression T_KW_IMPLY Expression (callback sequence)"], safety=False))
    return {
        "jobs": jobs,
        "slices": [s.info() for s in slices],
        "drops": ["all other clauses of checkExpression", "bodies of checkType / compileTimeComputableValues.add_symbol (not part of C10; empty stubs)",
                  "RateDecomposer and Document recorders in the accepting branch of the invariant gate (stubs)",
                  "diagnostic message text (only a message id is kept)", "positions"],
        "trusted_base": ["CBMC 6.11 C++ front end + SAT", "stubs/utap_abs.h flat type abstraction (lemma TYPE-IS: t.is(K) <=> K is the base kind or a wrapper kind on the chain)",
                         "expression arena stub (get_kind/get_type/set_type/operator[]/changes_any_variable by ghost)",
                         "meta-step: induction over formula height; checkExpression visits children first (prologue text is checked to be exactly that)",
                         "areEquivalent's recursive calls and isSameScalarType answered by arbitrary-result contracts (L12)"],
        "assumptions": [
            "operands of relational operators are integral terms, formulas, or terms of kind clock / difference / double / rate",
            "a clock/difference/rate-typed term is not clock-free; terms contain no clock comparison (no inline-if / call hiding one)",
            "known finding C10-KF1 (input class excluded in the proof jobs, checked to fail only there in the *_kf1_* jobs): difference vs difference/clock, clock/difference vs bool/location/process-var, double-typed operands containing a clock",
            "x != y and x != c are treated as non-convex atoms (ok = false)",
            "mode H: contract enforced as assume/call/assert in a C harness (dfcc write-set instrumentation is unaffordable on by-value C++ objects)",
        ],
        "explanation": "step: for every operator, every pair of operand types and every ghost valuation satisfying the hypothesis, the type assigned by the real clause satisfies: integral => clock-free, guard/invariant => convex",
    }


KIND_EXPR = {  # abstract operand kind -> concrete sub-expression (replay)
    "INT": "i", "BOOL": "b", "CLOCK": "x", "DIFF": "(x - y)", "DOUBLE": "d", "INVARIANT": "(x <= 5)", "GUARD": "(x == 5)",
    "CONSTRAINT": "(x != 5)", "INVARIANT_WR": "(x' == 1)", "RATE": "x'",
}
OPTXT = {"AND": "&&", "OR": "||", "XOR": "xor", "LT": "<", "LE": "<=", "EQ": "==", "NEQ": "!=", "GE": ">=", "GT": ">"}


def replay(rec):
    cex = rec.get("counterexample", {})
    names = T.kind_names()
    m = re.match(r"c10_(step|atom|conj)_?(\w*)$", rec["job"])
    if not m:
        return {"confirmed": None, "detail": "no public-API input for this obligation"}
    op = m.group(2) or "AND"
    try:
        k0 = names[int(cex.get("k0"))]
        k1 = names[int(cex.get("k1"))]
    except Exception:
        return {"confirmed": None, "detail": "counterexample lacks operand kinds"}
    if k0 not in KIND_EXPR or (op != "NOT" and k1 not in KIND_EXPR):
        return {"confirmed": None, "detail": f"no concrete expression for operand kinds {k0},{k1}"}
    if op == "NOT":
        e = f"!{KIND_EXPR[k0]}"
    elif op in ("FORALL", "EXISTS"):
        e = f"{op.lower()} (q : int[0,1]) {KIND_EXPR[k1]}"
    else:
        e = f"{KIND_EXPR[k0]} {OPTXT[op]} {KIND_EXPR[k1]}"
    desc = rec.get("description", "")
    res = native.guard_verdict(e)
    # the obligation failed in the direction "accepted although not convex" or "rejected although accepted atom"
    if "accepted-as-guard" in desc or "give-guard" in desc or "give-invariant" in desc:
        confirmed = not res["guard_accepted"]
    else:
        confirmed = res["guard_accepted"] or res["invariant_accepted"]
    return {"confirmed": bool(confirmed), "detail": res, "expression": e,
            "real_code": "libUTAP built from /repo's working tree; parse_XTA of a one-edge model with the expression as guard and as invariant"}
