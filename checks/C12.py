"""C12 - no accepted model writes to a constant."""
import os
import re

from tools import framework as F
from tools import extract as X
from checks import tc_common as T
from checks import type_common as TY
from checks import native

CDIR = os.path.join(F.VERIF, "contracts", "C12")

BINDERS = [("expr_forall_begin", "src/ExpressionBuilder.cpp", r"^void ExpressionBuilder::expr_forall_begin\(const char\* name\)"),
           ("iteration_begin", "src/StatementBuilder.cpp", r"^void StatementBuilder::iteration_begin\(const char\* name\)"),
           ("addSelectSymbolToFrame", "src/DocumentBuilder.cpp", r"^void DocumentBuilder::addSelectSymbolToFrame\(const std::string& id, frame_t& frame, position_t pos\)")]


def write(work, name, text):
    with open(os.path.join(work, name), "w") as f:
        f.write(text)


def build(tier, work, builder):
    slices = []
    write(work, "kinds.h", T.kinds_header())
    tc = TY.type_class(); write(work, "type_class.inc", tc.text); slices.append(tc)
    st = TY.type_data_structs(); write(work, "type_structs.inc", "\n".join(s.text for s in st) + "\n"); slices += st
    l12 = ("type_t::is", "type_t::is_mutable", "type_t::is_constant", "type_t::get_sub()", "type_t::get_sub(i)")
    ms = TY.type_members(l12=l12)
    write(work, "type_members.inc", "\n".join(s.text for s in ms) + "\n"); slices += ms
    bs = []
    btxt = []
    for name, path, rx in BINDERS:
        src = X.Source(path)
        fn = X.function(src, name, rx)
        sl = X.if_chain(src, f"{path}:{name}: force-const statement", r"if \(!type\.is\(CONSTANT\)\) \{", (fn.start, fn.end))
        bs.append(sl)
        btxt.append(f"static void verif_binder_{name}(type_t& type)\n{{\n    {sl.text}\n}}\n")
    write(work, "binder_sites.inc", "\n".join(btxt))
    slices += bs
    tyobj = builder.cc(os.path.join(CDIR, "ty12.cpp"), includes=[work, os.path.join(X.REPO, "include")], cpp=True)
    hty = builder.cc(os.path.join(CDIR, "h_ty12.c"), includes=[work])
    jobs = []

    def J(name, entry, fns, **kw):
        jobs.append(F.Job(name, entry, [tyobj, hty], timeout=300, unwind=5, functions=fns, bound_note="type arity <= 3 (record width, RANGE)", **kw))
    J("ty_is", "h_ty_is", ["type_t::is (one level)", "type_t::is_prefix", "type_t::get_kind", "type_t::unknown", "type_t::get"])
    J("ty_is_prefix", "h_ty_is_prefix", ["type_t::is_prefix"])
    J("ty_is_mutable", "h_ty_is_mutable", ["type_t::is_mutable (one level)"])
    J("ty_is_constant", "h_ty_is_constant", ["type_t::is_constant (one level)"])
    J("ty_const_not_mutable", "h_ty_const_not_mutable", ["type_t::is + type_t::is_mutable (lemma)"])
    J("ty_get_sub_array", "h_ty_get_sub_array", ["type_t::get_sub() (one level)", "type_t::create_prefix"])
    J("ty_get_sub_record", "h_ty_get_sub_record", ["type_t::get_sub(i) (one level)", "type_t::create_prefix"])
    J("ty_binder_forall", "h_ty_binder_forall", ["ExpressionBuilder::expr_forall_begin (force-const statement)"])
    J("ty_binder_iteration", "h_ty_binder_iteration", ["StatementBuilder::iteration_begin (force-const statement)"])
    J("ty_binder_select", "h_ty_binder_select", ["DocumentBuilder::addSelectSymbolToFrame (force-const statement)"])
    # ---- part 2: lvalue functions, write clauses, parameter rules -----------------------------
    tp = T.type_preds(); write(work, "type_preds.inc", tp.text); slices.append(tp)
    hp = T.helpers(); write(work, "helpers.inc", hp.text); slices.append(hp)
    src = X.Source(T.TC)
    lv = []
    for name, rx in (("isModifiableLValue", r"^bool TypeChecker::isModifiableLValue\(expression_t expr\) const"),
                     ("isLValue", r"^bool TypeChecker::isLValue\(expression_t expr\) const"),
                     ("isUniqueReference", r"^bool TypeChecker::isUniqueReference\(expression_t expr\) const")):
        sl = X.function(src, "TypeChecker::" + name, rx)
        X.rename_self_calls(sl, name, minimum=0)
        lv.append(sl)
    cc = X.function(src, "channelCapability", r"^static int channelCapability\(type_t type\)")
    ip = X.function(src, "TypeChecker::isParameterCompatible", r"^bool TypeChecker::isParameterCompatible\(type_t paramType, expression_t arg\)")
    ip.sub("L12b:isModifiableLValue->contract", r"\bisModifiableLValue\(", "isModifiableLValue__contract(", required=True)
    cp = X.function(src, "TypeChecker::checkParameterCompatible", r"^bool TypeChecker::checkParameterCompatible\(type_t paramType, expression_t arg\)")
    T.lower_literals(cp)
    lv += [cc, ip, cp]
    write(work, "lvalue_funcs.inc", "\n".join(s.text for s in lv) + "\n")
    slices += lv
    mini, sl = T.mini_check_expression(["ASSIGN", "ASS_PLUS", "ASS_MINUS", "POST_INCREMENT", "FUN_CALL"])
    mini = re.sub(r"\bisModifiableLValue\(", "isModifiableLValue__contract(", mini)
    slices += sl
    vi = X.function(src, "TypeChecker::visitInstance", r"^void TypeChecker::visitInstance\(instance_t& instance\)")
    reg = X.region(src, "visitInstance: argument rules", r"bool ref = parameter\.get_type\(\)\.is\(REF\);", r"checkParameterCompatible\(parameter\.get_type\(\), argument\);",
                   include_end=True, within=(vi.start, vi.end))
    T.lower_literals(reg)
    reg.sub("L12b:isUniqueReference->contract", r"\bisUniqueReference\(", "isUniqueReference__contract(", required=True)
    slices.append(reg)
    write(work, "gates_decl.inc", "    void gate_instance_reference_rule(symbol_t parameter, expression_t argument);\n")
    write(work, "gates.inc", mini + "\nvoid TypeChecker::gate_instance_reference_rule(symbol_t parameter, expression_t argument)\n{\n"
          "    for (int verif_once = 0; verif_once < 1; verif_once++) {\n" + reg.text + "\n    }\n}\n")
    write(work, "msg_ids.h", T.msg_header())
    tcobj = builder.cc(os.path.join(CDIR, "tc12.cpp"), includes=[work, os.path.join(X.REPO, "include")], cpp=True)
    htc = builder.cc(os.path.join(CDIR, "h_tc12.c"), includes=[work])

    def K(name, entry, fns, **kw):
        jobs.append(F.Job(name, entry, [tcobj, htc], timeout=300, unwind=5, functions=fns, **kw))
    K("c12_modifiable_lvalue", "h_c12_modifiable_lvalue", ["TypeChecker::isModifiableLValue (one level)"])
    for op in ("ASSIGN", "ASS_PLUS", "ASS_MINUS", "ASS_DIV", "ASS_MOD", "ASS_MULT", "ASS_AND", "ASS_OR", "ASS_XOR", "ASS_LSHIFT", "ASS_RSHIFT",
               "POST_INCREMENT", "PRE_INCREMENT", "POST_DECREMENT", "PRE_DECREMENT"):
        K(f"c12_write_{op}", f"h_c12_write_{op}", [f"TypeChecker::checkExpression case {op}"])
    K("c12_param", "h_c12_param", ["TypeChecker::isParameterCompatible"])
    K("c12_call", "h_c12_call", ["TypeChecker::checkExpression case FUN_CALL", "TypeChecker::checkParameterCompatible", "TypeChecker::isParameterCompatible"])
    K("c12_instance_arg", "h_c12_instance_arg", ["TypeChecker::visitInstance (argument rules)", "TypeChecker::checkParameterCompatible"])
    return {
        "jobs": jobs, "slices": [s.info() for s in slices],
        "drops": [], "trusted_base": ["CBMC 6.11 C++ front end + SAT", "std::vector<child_t> as a capacity-3 array, std::make_shared as new, shared_ptr as raw pointer",
                                      "induction over type-tree / expression-tree height (meta-step)", "flat type abstraction for the clause-level jobs (justified by ty_is)",
                                      "stubs/tc_env.h (areAssignmentCompatible / areEquivalent arbitrary, checkExpression by ghost)"],
        "assumptions": ["type nodes carry kinds that type constructors produce (non-prefix kinds of type.h + the six prefixes); arity per constructor"],
        "explanation": "",
    }


C12_DECLS = ("const int c = 3; int m; bool b; const int ca[2] = {1, 2}; int ma[2]; typedef struct { int f; } S; const S cs = {1}; S ms; "
             "void g(int& r) { r = 1; }\n")
C12_MODEL = C12_DECLS.replace("{", "{{").replace("}", "}}") + """process P() {{
  state s0, s1;
  init s0;
  trans s0 -> s1 {{ {select} assign {upd}; }};
}}
system P;
"""
CONST_TARGETS = ["c", "ca[0]", "ca[m]", "cs.f", "(b ? m : c)", "(b ? c : m)", "(b ? ma[0] : ca[1])", "(m, c)", "(b ? ms.f : cs.f)"]


def replay(rec):
    tried = []
    forms = []
    for tgt in CONST_TARGETS:
        forms += [f"{tgt} = 2", f"{tgt} += 2", f"{tgt} -= 1", f"{tgt} ^= 1", f"{tgt}++", f"--{tgt}", f"g({tgt})"]
    forms += ["m = forall (q : int[0,1]) ((q = 1) > 0)"]
    for upd in forms:
        r = native.parse_model(C12_MODEL.format(select="", upd=upd))
        tried.append(upd)
        if not r.get("crashed") and not r.get("errors"):
            return {"confirmed": True, "detail": {"update": upd, "result": r, "why": "an update that writes to / passes by non-const reference a constant object is accepted"},
                    "real_code": "libUTAP built from /repo's working tree; parse_XTA of a one-edge model"}
    r = native.parse_model(C12_MODEL.format(select="select k : int[0,1];", upd="k = 1"))
    if not r.get("crashed") and not r.get("errors"):
        return {"confirmed": True, "detail": {"update": "select k; k = 1", "result": r}}
    return {"confirmed": None, "detail": {"tried": len(tried) + 1, "why": "no concrete model of the replay table reproduces the failure"}}
