"""C04 (kernel) - the document built from an XML model mirrors the XML: K2 = the DocumentBuilder callbacks that attach
locations, flags, the init reference, edges and their labels; K1 = the XMLReader functions that hand them over."""
import os
import re

from tools import framework as F
from tools import extract as X
from checks import tc_common as T
from checks import native
from checks import C08

CDIR = os.path.join(F.VERIF, "contracts", "C04")

BFUNCS = [("DocumentBuilder::proc_location", r"^void DocumentBuilder::proc_location\(const char\* name, bool hasInvariant, bool hasER\)"),
          ("DocumentBuilder::proc_location_commit", r"^void DocumentBuilder::proc_location_commit\(const char\* name\)"),
          ("DocumentBuilder::proc_location_urgent", r"^void DocumentBuilder::proc_location_urgent\(const char\* name\)"),
          ("DocumentBuilder::proc_branchpoint", r"^void DocumentBuilder::proc_branchpoint\(const char\* name\)"),
          ("DocumentBuilder::proc_location_init", r"^void DocumentBuilder::proc_location_init\(const char\* name\)"),
          ("DocumentBuilder::proc_edge_begin", r"^void DocumentBuilder::proc_edge_begin\(const char\* from, const char\* to, const bool control, const char\* actname\)"),
          ("DocumentBuilder::proc_edge_end", r"^void DocumentBuilder::proc_edge_end\(const char\* from, const char\* to\)"),
          ("DocumentBuilder::proc_guard", r"^void DocumentBuilder::proc_guard\(\)"),
          ("DocumentBuilder::proc_sync", r"^void DocumentBuilder::proc_sync\(synchronisation_t type\)"),
          ("DocumentBuilder::proc_update", r"^void DocumentBuilder::proc_update\(\)"),
          ("DocumentBuilder::proc_prob", r"^void DocumentBuilder::proc_prob\(\)"),
          ("DocumentBuilder::proc_select", r"^void DocumentBuilder::proc_select\(const char\* id\)"),
          ("DocumentBuilder::addSelectSymbolToFrame", r"^void DocumentBuilder::addSelectSymbolToFrame\(const std::string& id, frame_t& frame, position_t pos\)")]


def write(work, name, text):
    with open(os.path.join(work, name), "w") as f:
        f.write(text)


def builder_slices(work):
    db = X.Source("src/DocumentBuilder.cpp")
    eb = X.Source("src/ExpressionBuilder.cpp")
    hpp = X.Source("include/utap/ExpressionBuilder.hpp")
    fc = X.braced(hpp, "class ExpressionBuilder::ExpressionFragments", r"^\s*class ExpressionFragments\b")
    write(work, "fragments_class.inc", fc.text + "\n")
    tfc = X.braced(hpp, "class ExpressionBuilder::TypeFragments", r"^\s*class TypeFragments\b")
    write(work, "typefragments_class.inc", tfc.text + "\n")
    fl = [X.function(eb, "ExpressionFragments::pop(n)", r"^void ExpressionBuilder::ExpressionFragments::pop\(uint32_t n\)"),
          X.function(eb, "ExpressionBuilder::make_constant(int)", r"^expression_t ExpressionBuilder::make_constant\(int value\) const"),
          X.function(eb, "ExpressionBuilder::push_frame", r"^void ExpressionBuilder::push_frame\(frame_t frame\)"),
          X.function(eb, "ExpressionBuilder::popFrame", r"^void ExpressionBuilder::popFrame\(\)"),
          X.function(eb, "ExpressionBuilder::resolve", r"^bool ExpressionBuilder::resolve\(const std::string& name, symbol_t& uid\) const")]
    for sl in fl:
        sl.sub("glue:the scope stack and the fragment stack live in the base class ExpressionBuilder", r"\bExpressionBuilder::", "DocumentBuilder::")
    for name, rx in BFUNCS:
        fl.append(X.function(db, name, rx))
    for sl in fl:
        sl.sub("glue:name spelling->name identity", r"const char\* (name|from|to|id)\b|const std::string& (name|id)\b", lambda m: "verif_name " + (m.group(1) or m.group(2)))
        sl.sub("glue:string value->identity", r"const char\* actname", "verif_str actname")
        sl.sub("L23:std::move(x)->x", r"std::move\((\w+)\)", r"\1")
        sl.sub("L4:T{...} / T(\"...\")", r"TypeException(\{[^}]*\}|\(\"[^\"]*\"\))", "TypeException()")
    write(work, "builder_funcs.inc", "\n".join(s.text for s in fl) + "\n")
    return [fc] + fl


EXC = {"TypeException": 1, "XMLDocError": 2, "XMLReaderError": 3}
RFUNCS = [("getNodeType", r"^int XMLReader::getNodeType\(\) const", "0"),
          ("isEmpty", r"^bool XMLReader::isEmpty\(\) const", "false"),
          ("getAttribute", r"^char\* XMLReader::getAttribute\(const char\* name\) const", "nullptr"),
          ("getAttributeStr", r"^std::string XMLReader::getAttributeStr\(std::string_view name\) const", "std::string()"),
          ("begin", r"^bool XMLReader::begin\(tag_t tag, bool skipEmpty\)", "false"),
          ("end", r"^bool UTAP::XMLReader::end\(UTAP::tag_t tag\)", "false"),
          ("read", r"^void XMLReader::read\(\)", ""),
          ("get_name", r"^const std::string& XMLReader::get_name\(const char\* id\) const", "std::string()"),
          ("parse", r"^int XMLReader::parse\(const xmlChar\* text, xta_part_t syntax\)", "-1"),
          ("label", r"^bool XMLReader::label\(bool required, const std::string& s_kind\)", "false"),
          ("invariant", r"^int XMLReader::invariant\(\)", "-1"),
          ("reference", r"^std::string XMLReader::reference\(const std::string& attributeName\)", "std::string()"),
          ("source", r"^std::string XMLReader::source\(\)", "std::string()"),
          ("target", r"^std::string XMLReader::target\(\)", "std::string()"),
          ("init", r"^bool XMLReader::init\(\)", "false"),
          ("urgent", r"^bool XMLReader::urgent\(\)", "false"),
          ("committed", r"^bool XMLReader::committed\(\)", "false"),
          ("location", r"^bool XMLReader::location\(\)", "false"),
          ("branchpoint", r"^bool XMLReader::branchpoint\(\)", "false"),
          ("transition", r"^bool XMLReader::transition\(\)", "false"),
          ("declaration", r"^bool XMLReader::declaration\(\)", "false"),
          ("parameter", r"^int XMLReader::parameter\(\)", "0"),
          ("templ", r"^bool XMLReader::templ\(\)", "false")]


def reader_slices(work):
    src = X.Source("src/xmlreader.cpp")
    te = X.braced(src, "enum class tag_t", r"^enum class tag_t \{")
    write(work, "xr_tag_enum.inc", te.text + "\n")
    ch_ = X.Source("include/utap/common.h")
    xp = X.braced(ch_, "enum xta_part_t", r"^enum xta_part_t \{")
    write(work, "xr_part_enum.inc", xp.text + "\n")
    out = [te, xp]
    def enumerators(sl):
        body = re.sub(r"/\*.*?\*/|//[^\n]*", "", sl.text[sl.text.index("{") + 1:sl.text.rindex("}")], flags=re.S)
        names = [n.strip() for n in body.split(",") if n.strip()]
        if any(not re.match(r"^\w+$", n) for n in names):
            raise X.ExtractionBroken(f"{sl.name}: enumerators with explicit values are not handled")
        return names
    ids = ["/* GENERATED from enum class tag_t (src/xmlreader.cpp) and enum xta_part_t (include/utap/common.h) */", '#include "xr_lits.h"']
    ids += ["#define TAG_%s %d" % (n, i) for i, n in enumerate(enumerators(te))]
    ids += ["#define %s %d" % (n, i) for i, n in enumerate(enumerators(xp))]
    write(work, "xr_ids.h", "\n".join(ids) + "\n")
    fl = []
    for nm, rx, dflt in RFUNCS:
        sl = X.function(src, "XMLReader::" + nm, rx)
        sl.sub("glue:qualified names", r"\bUTAP::", "")
        if nm == "get_name":
            sl.sub("L8:const T& result->by value (CBMC mis-types const-reference results)", r"^const std::string& XMLReader::get_name", "std::string XMLReader::get_name", required=True)
            X.lower_if_init(sl)
            sl.sub("L15:auto->iterator type", r"auto l = names\.find\(id\)", "verif_names_it l = names.find(id)", required=True)
            sl.sub("L8:it->second -> it.second (CBMC mis-types const-pointer results of operator->)", r"\bl->second\b", "l.second", required=True)
        if nm == "getAttributeStr":
            sl.sub("L4/L15:auto x = T{v}", r"auto res = std::string\{value\};", "std::string res(value);", required=True)
        if nm == "label":
            m = re.search(r"static const auto map = std::map<std::string_view, xta_part_t>\{(.*?)\};\s*if \(auto part = map\.find\(kind\); part != map\.end\(\)\)\s*parse\(text, part->second\);", sl.text, re.S)
            if not m:
                raise X.ExtractionBroken("XMLReader::label: the kind -> grammar entry table changed shape")
            pairs = re.findall(r"\{\s*\"(\w+)\"\s*,\s*(S_\w+)\s*\}", m.group(1))
            if len(pairs) < 5 or len(pairs) != m.group(1).count("{"):
                raise X.ExtractionBroken("XMLReader::label: cannot read the kind table")
            gen = ["/* GENERATED from the table in XMLReader::label (src/xmlreader.cpp): label kind -> grammar entry */",
                   "static bool verif_label_part(const char* kind, xta_part_t& part)", "{", "    int k = verif_id(kind);"]
            for kname, part in pairs:
                gen.append("    if (k == LIT_%s) { part = %s; return true; }" % (kname.upper(), part))
            gen += ["    return false;", "}"]
            write(work, "xr_label_map.inc", "\n".join(gen) + "\n")
            sl.text = sl.text[:m.start()] + "{ xta_part_t verif_part; if (verif_label_part(kind, verif_part)) parse(text, verif_part); }" + sl.text[m.end():]
            sl.rules["L27:static std::map table + find -> generated lookup function"] = 1
        if nm == "invariant":
            sl.sub("L4/L15:auto x = T{v}", r"auto kind_sv = std::string_view\{kind\};", "std::string_view kind_sv(kind);", required=True)
        if nm in ("location", "branchpoint"):
            sl.sub("L15:auto->std::string", r"auto (l_id|b_id) = getAttributeStr", r"std::string \1 = getAttributeStr", required=True)
            sl.sub("L2:if (auto [_, ins] = m.insert_or_assign(k, v); !ins)", r"if \(auto \[_, ins\] = names\.insert_or_assign\((\w+), (\w+)\); !ins\)", r"if (!names.verif_insert_or_assign(\1, \2))", required=True)
        if nm == "templ":
            sl.sub("L19:auto p = make_shared<string>(s) -> string p = s (the tracker keeps the text either way)", r"auto t_path = std::make_shared<std::string>\((path\.str\(tag_t::TEMPLATE\))\);", r"std::string t_path = \1;", required=True)
            n = 0
            for callee in ("location", "branchpoint", "init", "transition"):
                n += sl.sub("L12:callee->its contract (obligation: c04_reader_%s*)" % callee, r"(?<![\w:>\.])%s\(\)" % callee, callee + "__contract()")
            if n < 1:  # a callee that templ() no longer calls at all is for the obligations to report, not for the extraction
                raise X.ExtractionBroken("XMLReader::templ: no call of location / branchpoint / init / transition found")
        if nm == "transition":
            sl.sub("L4/L15:auto x = T{v}", r"auto actname = std::string\{id \? id : \"SKIP\"\};", 'std::string actname(id ? id : "SKIP");', required=True)
        sl.sub("L4:T{...}->T(...)", r"TypeException\{([^{}]*)\}", r"TypeException(\1)")
        sl.sub("L9:constructor arguments of exceptions that only carry a message", r"XMLDocError\(\"[^\"]*\"\)", "XMLDocError()")
        sl.sub("L9:constructor arguments of exceptions that only carry a message", r"XMLReaderError\([^;]*\)", "XMLReaderError()")
        X.lower_exceptions(sl, dflt, EXC)
        fl.append(sl)
    # file-local static helpers a refactoring may have split off the sliced reader functions come along, with the same lowering
    used = "".join(s.text for s in fl)
    helpers = []
    for h in X.static_helpers(src):
        hname = h.name.split()[-1]
        if re.search(r"\b%s\(" % re.escape(hname), used) and hname not in ("is_blank",):
            rt = re.match(r"static\s+(?:inline\s+)?([\w:<>\*&\s]+?)\s*\b%s\s*\(" % re.escape(hname), h.text)
            ret = (rt.group(1).strip() if rt else "void")
            dflt = "" if ret == "void" else ("false" if ret == "bool" else ("std::string()" if "string" in ret else "0"))
            h.sub("L4:T{...}->T(...)", r"TypeException\{([^{}]*)\}", r"TypeException(\1)")
            X.lower_exceptions(h, dflt, EXC)
            helpers.append(h)
    write(work, "xr_funcs.inc", "\n".join(s.text for s in helpers + fl) + "\n")
    return out + helpers + fl


def reader_jobs(work, builder, for_c06=False, tier="quick"):
    """The K1 jobs.  With for_c06 the same scripts are compiled with -DFOR_C06: only the XPath obligations (c06.reader.*) are asserted."""
    rs = reader_slices(work)
    robj = builder.cc(os.path.join(CDIR, "xr04.cpp"), includes=[work, CDIR], cpp=True)
    defs = ["EXCLUDE_KF"] + (["FOR_C06"] if for_c06 else [])
    rh = builder.cc(os.path.join(CDIR, "h_xr04.c"), includes=[work, CDIR], defines=defs)
    rh_kf = builder.cc(os.path.join(CDIR, "h_xr04.c"), includes=[work, CDIR])
    pre = "c06_xpath_" if for_c06 else "c04_reader_"
    jobs = []
    FS = ["--max-field-sensitivity-array-size", "700"]  # constant propagation per cell for the script arrays (<= 640 cells)
    common = ["XMLReader::begin", "XMLReader::end", "XMLReader::read", "XMLReader::getAttribute"]
    tf = ["XMLReader::transition", "XMLReader::source", "XMLReader::target", "XMLReader::reference", "XMLReader::get_name", "XMLReader::label (kind table generated from it)", "XMLReader::parse"]
    lf = ["XMLReader::location", "XMLReader::invariant", "XMLReader::urgent", "XMLReader::committed", "XMLReader::getAttributeStr"]
    shape_note = "one job per concrete shape of the element (number of labels / nails / flags, with or without white-space nodes); ids, names, texts, label kinds and attribute values are arbitrary"
    tshapes = ("0000", "0011", "0110", "1001", "1010", "1100", "2000", "2011", "2110")
    lshapes = ("00001", "01100", "02011", "10110", "11001", "12100", "12011", "02110", "11111")
    if tier == "thorough":  # every shape: 0-2 labels x nail x white space x self loop; name x 0-2 labels x urgent x committed x white space
        import itertools
        tshapes = tuple("%d%d%d%d" % c for c in itertools.product(range(3), range(2), range(2), range(2)))
        lshapes = tuple("%d%d%d%d%d" % c for c in itertools.product(range(2), range(3), range(2), range(2), range(2)))
    if for_c06:
        tshapes = tuple(s for s in tshapes if s[0] != "0")
    for sh in tshapes:
        jobs.append(F.Job(pre + "transition_" + sh, "h_c04_reader_transition_" + sh, [robj, rh], unwind=44, functions=tf + common, bound_note=shape_note, cbmc_args=FS))
    kf_shapes = []
    for sh in lshapes:
        jobs.append(F.Job(pre + "location_" + sh, "h_c04_reader_location_" + sh, [robj, rh], unwind=44, functions=lf + common, bound_note=shape_note, cbmc_args=FS,
                          note="known-finding class (rate label before invariant label) excluded: must pass" if (sh[1] == "2" and not for_c06) else ""))
        if sh[1] == "2":
            kf_shapes.append(sh)
    if not for_c06:
        for sh in ("1112120", "0000011", "1011001", "0102210", "1110000"):
            jobs.append(F.Job("c04_reader_templ_" + sh, "h_c04_reader_templ_" + sh, [robj, rh], unwind=44, cbmc_args=FS,
                              functions=["XMLReader::templ (element readers by their contracts)", "XMLReader::declaration", "XMLReader::parameter"] + common,
                              bound_note="one job per template shape: name / parameter / declaration present or not, 0-2 locations, 0-2 branchpoints, 0-2 transitions, with or without white space"))
        jobs.append(F.Job("c04_reader_init", "h_c04_reader_init", [robj, rh], unwind=44, functions=["XMLReader::init", "XMLReader::get_name"] + common, cbmc_args=FS))
    jobs.append(F.Job(pre + "branchpoint", "h_c04_reader_branchpoint", [robj, rh], unwind=44, functions=["XMLReader::branchpoint", "XMLReader::getAttributeStr"] + common, cbmc_args=FS))
    if not for_c06:
        for sh in kf_shapes:
            jobs.append(F.Job("c04_kf1_reader_location_" + sh, "h_c04_reader_location_" + sh, [robj, rh_kf], unwind=44, functions=lf, cbmc_args=FS,
                              known={r"invariant-and-rate-reach-the-builder-in-the-order-it-takes-them": "C04-KF1"}, note="unrestricted: fails exactly inside the known-finding class"))
    return jobs, rs


def build(tier, work, builder):
    w8 = os.path.join(work, "c08"); os.makedirs(w8, exist_ok=True)
    b8 = C08.build(tier, w8, builder)       # writes document_ctors.inc, expr_*.inc, kinds.h into w8
    slices = builder_slices(w8)
    obj = builder.cc(os.path.join(F.VERIF, "contracts", "C08", "doc08.cpp"), includes=[w8, CDIR, os.path.join(X.REPO, "include")], cpp=True,
                     defines=["C04_BUILDER", "VERIF_TYPE_PREFIX_FLAGS"])
    hobj = builder.cc(os.path.join(CDIR, "h_c04.c"), includes=[w8])
    jobs = []
    for nm, fns in (("location", ["DocumentBuilder::proc_location", "template_t::add_location"]),
                    ("location_flags", ["DocumentBuilder::proc_location_urgent", "DocumentBuilder::proc_location_commit"]),
                    ("init", ["DocumentBuilder::proc_location_init"]),
                    ("edge", ["DocumentBuilder::proc_edge_begin", "DocumentBuilder::proc_edge_end", "template_t::add_edge", "ExpressionBuilder::push_frame", "ExpressionBuilder::popFrame", "ExpressionBuilder::resolve"]),
                    ("labels", ["DocumentBuilder::proc_guard", "DocumentBuilder::proc_sync", "DocumentBuilder::proc_update", "DocumentBuilder::proc_prob"]),
                    ("select", ["DocumentBuilder::proc_select", "DocumentBuilder::addSelectSymbolToFrame"])):
        jobs.append(F.Job("c04_builder_" + nm, "h_c04_builder_" + nm, [obj, hobj], unwind=14, functions=fns,
                          bound_note="templates of <= 2 locations, 1 branchpoint, <= 2 earlier edges; <= 4 fragments"))
    # the system section: "every instantiation argument bound to the positionally corresponding parameter" is the contract of
    # Document::add_instance - the C08 job, run here as a lemma of C04
    inst = [j for j in b8["jobs"] if j.name == "c08_instance"]
    if len(inst) != 1:
        raise X.ExtractionBroken("C04: the add_instance job of C08 is missing")
    inst[0].name = "c04_instance_mapping"
    inst[0].note = "Document::add_instance (contracts/C08): new bindings keyed by the instantiated instance's own parameters, inherited ones kept, the instantiated instance itself unchanged"
    jobs.append(inst[0])
    # ---- K1: reader side
    rj, rs = reader_jobs(work, builder, tier=tier)
    jobs += rj
    slices = slices + rs
    return {
        "jobs": jobs, "slices": b8["slices"] + [s.info() for s in slices],
        "drops": ["the struct declarations of document.h are trusted stand-ins with the same member names (contracts/C08/doc08.cpp)", "names and strings are identities"],
        "trusted_base": ["CBMC 6.11 C++ front end + SAT", "stubs/scope_env.h arena frames/symbols (behaviour = the contracts proved for the real frame_t in C07)",
                         "type prefixes URGENT / COMMITTED as flag bits of the arena type identity"],
        "assumptions": ["kernel only: that the XML reader and the grammar call these callbacks once per element, in document order, with the element's own text (K1 covers the reader's transition / init / label dispatch only)",
                        "select bindings (proc_select / addSelectSymbolToFrame), declarations, parameters and the system section are not under contract here (instances: C08/C07)"],
        "explanation": "",
    }


def replay(rec):
    import json
    rc, out = native.run_replay("c04_probe", [])
    try:
        res = json.loads(out[out.index("{"):])
    except Exception:
        return {"confirmed": None, "detail": {"rc": rc, "raw": out[-1500:]}}
    failed = [k for k, v in res.items() if v is not True and not k.startswith("kf.")]
    if failed:
        return {"confirmed": True, "detail": {"failed": failed, "report": res}, "real_code": "libUTAP built from /repo's working tree"}
    return {"confirmed": None, "detail": {"report": res}}
