"""C04 (kernel) - the document built from an XML model mirrors the XML: K2 = the DocumentBuilder callbacks that attach
locations, flags, the init reference, edges and their labels; K1 = the XMLReader functions that hand them over."""
import os
import re

from tools import framework as F
from tools import extract as X
from checks import tc_common as T
from checks import native
from checks import C08

CDIR = os.path.join(F.VERIF, "contracts", "C04")

BFUNCS = [("DocumentBuilder::proc_location", r"^void DocumentBuilder::proc_location\(const char\* name, bool hasInvariant, bool hasER\)"),
          ("DocumentBuilder::proc_location_commit", r"^void DocumentBuilder::proc_location_commit\(const char\* name\)"),
          ("DocumentBuilder::proc_location_urgent", r"^void DocumentBuilder::proc_location_urgent\(const char\* name\)"),
          ("DocumentBuilder::proc_branchpoint", r"^void DocumentBuilder::proc_branchpoint\(const char\* name\)"),
          ("DocumentBuilder::proc_location_init", r"^void DocumentBuilder::proc_location_init\(const char\* name\)"),
          ("DocumentBuilder::proc_edge_begin", r"^void DocumentBuilder::proc_edge_begin\(const char\* from, const char\* to, const bool control, const char\* actname\)"),
          ("DocumentBuilder::proc_edge_end", r"^void DocumentBuilder::proc_edge_end\(const char\* from, const char\* to\)"),
          ("DocumentBuilder::proc_guard", r"^void DocumentBuilder::proc_guard\(\)"),
          ("DocumentBuilder::proc_sync", r"^void DocumentBuilder::proc_sync\(synchronisation_t type\)"),
          ("DocumentBuilder::proc_update", r"^void DocumentBuilder::proc_update\(\)"),
          ("DocumentBuilder::proc_prob", r"^void DocumentBuilder::proc_prob\(\)")]


def write(work, name, text):
    with open(os.path.join(work, name), "w") as f:
        f.write(text)


def builder_slices(work):
    db = X.Source("src/DocumentBuilder.cpp")
    eb = X.Source("src/ExpressionBuilder.cpp")
    hpp = X.Source("include/utap/ExpressionBuilder.hpp")
    fc = X.braced(hpp, "class ExpressionBuilder::ExpressionFragments", r"^\s*class ExpressionFragments\b")
    write(work, "fragments_class.inc", fc.text + "\n")
    fl = [X.function(eb, "ExpressionFragments::pop(n)", r"^void ExpressionBuilder::ExpressionFragments::pop\(uint32_t n\)"),
          X.function(eb, "ExpressionBuilder::make_constant(int)", r"^expression_t ExpressionBuilder::make_constant\(int value\) const"),
          X.function(eb, "ExpressionBuilder::push_frame", r"^void ExpressionBuilder::push_frame\(frame_t frame\)"),
          X.function(eb, "ExpressionBuilder::popFrame", r"^void ExpressionBuilder::popFrame\(\)"),
          X.function(eb, "ExpressionBuilder::resolve", r"^bool ExpressionBuilder::resolve\(const std::string& name, symbol_t& uid\) const")]
    for sl in fl:
        sl.sub("glue:the scope stack and the fragment stack live in the base class ExpressionBuilder", r"\bExpressionBuilder::", "DocumentBuilder::")
    for name, rx in BFUNCS:
        fl.append(X.function(db, name, rx))
    for sl in fl:
        sl.sub("glue:name spelling->name identity", r"const char\* (name|from|to)\b|const std::string& name", lambda m: "verif_name " + (m.group(1) or "name"))
        sl.sub("glue:string value->identity", r"const char\* actname", "verif_str actname")
        sl.sub("L23:std::move(x)->x", r"std::move\((\w+)\)", r"\1")
        sl.sub("L4:T{...} / T(\"...\")", r"TypeException(\{[^}]*\}|\(\"[^\"]*\"\))", "TypeException()")
    write(work, "builder_funcs.inc", "\n".join(s.text for s in fl) + "\n")
    return [fc] + fl


def build(tier, work, builder):
    w8 = os.path.join(work, "c08"); os.makedirs(w8, exist_ok=True)
    b8 = C08.build(tier, w8, builder)       # writes document_ctors.inc, expr_*.inc, kinds.h into w8
    slices = builder_slices(w8)
    obj = builder.cc(os.path.join(F.VERIF, "contracts", "C08", "doc08.cpp"), includes=[w8, CDIR, os.path.join(X.REPO, "include")], cpp=True,
                     defines=["C04_BUILDER", "VERIF_TYPE_PREFIX_FLAGS"])
    hobj = builder.cc(os.path.join(CDIR, "h_c04.c"), includes=[w8])
    jobs = []
    for nm, fns in (("location", ["DocumentBuilder::proc_location", "template_t::add_location"]),
                    ("location_flags", ["DocumentBuilder::proc_location_urgent", "DocumentBuilder::proc_location_commit"]),
                    ("init", ["DocumentBuilder::proc_location_init"]),
                    ("edge", ["DocumentBuilder::proc_edge_begin", "DocumentBuilder::proc_edge_end", "template_t::add_edge", "ExpressionBuilder::push_frame", "ExpressionBuilder::popFrame", "ExpressionBuilder::resolve"]),
                    ("labels", ["DocumentBuilder::proc_guard", "DocumentBuilder::proc_sync", "DocumentBuilder::proc_update", "DocumentBuilder::proc_prob"])):
        jobs.append(F.Job("c04_builder_" + nm, "h_c04_builder_" + nm, [obj, hobj], unwind=14, functions=fns,
                          bound_note="templates of <= 2 locations, 1 branchpoint, <= 2 earlier edges; <= 4 fragments"))
    return {
        "jobs": jobs, "slices": b8["slices"] + [s.info() for s in slices],
        "drops": ["the struct declarations of document.h are trusted stand-ins with the same member names (contracts/C08/doc08.cpp)", "names and strings are identities"],
        "trusted_base": ["CBMC 6.11 C++ front end + SAT", "stubs/scope_env.h arena frames/symbols (behaviour = the contracts proved for the real frame_t in C07)",
                         "type prefixes URGENT / COMMITTED as flag bits of the arena type identity"],
        "assumptions": ["kernel only: that the XML reader and the grammar call these callbacks once per element, in document order, with the element's own text (K1 covers the reader's transition / init / label dispatch only)",
                        "select bindings (proc_select / addSelectSymbolToFrame), declarations, parameters and the system section are not under contract here (instances: C08/C07)"],
        "explanation": "",
    }


def replay(rec):
    return {"confirmed": None, "detail": "no native probe for this obligation yet"}
