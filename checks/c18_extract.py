"""Lowering of include/utap/range.h for CBMC's C++ front end (DESIGN 3.2: L1-L6, L11)."""
import re
from tools import extract as X


def lowered_range_h():
    src = X.Source("include/utap/range.h")
    s, _ = src.find_unique(r"^namespace UTAP \{", what="range.h: namespace UTAP")
    e, ee = src.find_unique(r"^#endif /\* INCLUDE_UTAP_RANGE_H \*/", what="range.h: trailing #endif")
    sl = X.Slice("range.h:whole", src, s, e)
    # L1
    sl.sub("L1:if-constexpr", r"\bif constexpr\s*\(", "if (", required=True)
    sl.sub("L1:UnsupportedType-line", r"^\s*UnsupportedType<T> the_type_T_is_not_supported;\n", "", required=True)
    # L3
    sl.sub("L3:static_assert", r"^\s*static_assert\([^;]*\);\n", "", required=False)
    # L6
    sl.sub("L6:is_integral_v", r"std::is_integral_v<T>", "std::is_integral<T>::value", required=True)
    sl.sub("L6:is_floating_point_v", r"std::is_floating_point_v<T>", "std::is_floating_point<T>::value", required=True)
    sl.sub("L6:numeric_limits-fn", r"std::numeric_limits<T>::(max|min|lowest|infinity)\(\)", r"std::nl_\1<T>()", required=True)
    # L5 delegating ctor
    sl.sub("L5:delegating-ctor", r"explicit range_t\(const T& e\): range_t\{e, e\} \{\}",
           "explicit range_t(const T& e): start(e), finish(e) {}", required=True)
    # L4 brace init
    sl.sub("L4:ctor-init", r"\): start\{first\}, finish\{last\} \{\}", "): start(first), finish(last) {}", required=True)
    sl.sub("L4:member-init", r"^(\s*)T (start|finish)\{\};", r"\1T \2;", required=True)
    sl.sub("L4:make_empty", r"return range_t\{1, 0\};", "return range_t(1, 0);", required=True)
    sl.sub("L4:clear", r"\*this = range_t\{\};", "*this = range_t();", required=True)
    # default ctors: '= default' with default member initialisers is rejected -> explicit
    sl.sub("L4:default-ctor", r"constexpr range_t\(\) = default;", "range_t(): start(T(0)), finish(T(0)) {}", required=True)
    sl.sub("L4:copy-ctor", r"constexpr range_t\(const range_t&\) = default;",
           "range_t(const range_t& o): start(o.start), finish(o.finish) {}", required=True)
    # L2
    sl.sub("L2:constexpr", r"\bconstexpr\s+", "", required=True)
    sl.sub("L2:using-value_type", r"using value_type = T;", "typedef T value_type;", required=True)
    # L11: friend operator<<, free operator<<, deduction guides
    sl.sub("L11:friend-ostream", r"friend std::ostream& operator<<\(std::ostream& os, const range_t& range\)\s*\{[^}]*\}", "", required=True, flags=re.S)
    sl.sub("L11:deduction-guides", r"template <typename T>\s*range_t\([^)]*\) -> range_t<T>;\n", "", required=True)
    sl.sub("L11:free-ostream", r"template <typename T>\s*std::ostream& operator<<\(std::ostream& os, const range_t<T>& range\)\s*\{[^}]*\}", "", required=True, flags=re.S)
    return sl
