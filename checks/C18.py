"""C18 - interval operations of range_t agree with their set semantics (DESIGN 4, C18).

Route C++: the whole of include/utap/range.h is lowered mechanically (checks/c18_extract.py),
compiled by CBMC's C++ front end against stubs/std, and every operation is enforced against
its contract (contracts/C18/contracts_c18.h) with goto-instrument --dfcc (mode D).
"""
import os
import re
import shutil
import subprocess
import tempfile

from tools import framework as F
from tools import extract as X
from checks.c18_extract import lowered_range_h

CDIR = os.path.join(F.VERIF, "contracts", "C18")

OPS_COMMON = ["gt", "lt", "geq", "leq", "and_r", "intersect_r", "and_e", "intersect_e", "andc_r",
              "intersection_r", "andc_e", "intersection_e", "or_r", "add_r_", "or_e", "add_e_", "orc_r",
              "unite_r", "orc_e", "unite_e", "lower", "raise", "next_value", "prev_value", "contains",
              "andand_e", "intersects", "andand_r", "eq_r", "eq_e", "less", "greater", "lesseq",
              "greatereq", "empty", "singleton", "default", "clear"]
OPS_INT = ["plus_r", "minus_r", "times_r", "plusc_r", "minusc_r", "timesc_r", "plus_e", "minus_e",
           "times_e", "plusc_e", "minusc_e", "timesc_e", "stdmin", "stdmax", "size"]

REAL = {  # wrapper op -> real member(s) of range.h exercised
    "gt": "range_t::gt + next_value", "lt": "range_t::lt", "geq": "range_t::geq", "leq": "range_t::leq",
    "and_r": "range_t::operator&=(range)", "and_e": "range_t::operator&=(T)", "intersect_r": "range_t::intersect(range)",
    "intersect_e": "range_t::intersect(T)", "andc_r": "range_t::operator&(range)", "andc_e": "range_t::operator&(T)",
    "intersection_r": "range_t::intersection(range)", "intersection_e": "range_t::intersection(T)",
    "or_r": "range_t::operator|=(range)", "or_e": "range_t::operator|=(T)", "add_r_": "range_t::add(range)", "add_e_": "range_t::add(T)",
    "orc_r": "range_t::operator|(range)", "orc_e": "range_t::operator|(T)", "unite_r": "range_t::unite(range)", "unite_e": "range_t::unite(T)",
    "lower": "range_t::lower", "raise": "range_t::raise", "plus_r": "range_t::operator+=(range)", "plus_e": "range_t::operator+=(T)",
    "minus_r": "range_t::operator-=(range)", "minus_e": "range_t::operator-=(T)", "times_r": "range_t::operator*=(range)",
    "times_e": "range_t::operator*=(T)", "plusc_r": "range_t::operator+(range)", "plusc_e": "range_t::operator+(T)",
    "minusc_r": "range_t::operator-(range)", "minusc_e": "range_t::operator-(T)", "timesc_r": "range_t::operator*(range)",
    "timesc_e": "range_t::operator*(T)", "stdmin": "std::min(range,range)", "stdmax": "std::max(range,range)",
    "size": "range_t::size", "next_value": "UTAP::next_value", "prev_value": "UTAP::prev_value",
    "contains": "range_t::contains", "andand_e": "range_t::operator&&(T)", "intersects": "range_t::intersects",
    "andand_r": "range_t::operator&&(range)", "eq_r": "range_t::operator==(range)", "eq_e": "range_t::operator==(T)",
    "less": "range_t::operator<", "greater": "range_t::operator>", "lesseq": "range_t::operator<=", "greatereq": "range_t::operator>=",
    "empty": "range_t::empty", "singleton": "range_t::range_t(T)", "default": "range_t::range_t()", "clear": "range_t::clear",
}

INST = {"i8": ("r8", "INST_I8", "contracts_i8.c", "int8_t"), "i16": ("r16", "INST_I16", "contracts_i16.c", "int16_t"),
        "i32": ("r32", "INST_I32", "contracts_i32.c", "int32_t"), "d": ("rd", "INST_D", "contracts_d.c", "double")}

# multiplication of two symbolic 32-bit values is a known SAT wall: attempted in thorough only
HARD = {("i32", "times_r"), ("i32", "timesc_r"), ("i32", "times_e"), ("i32", "timesc_e"),
        ("i16", "times_r"), ("i16", "timesc_r"), ("i16", "times_e"), ("i16", "timesc_e")}


def build(tier, work, builder):
    sl = lowered_range_h()
    with open(os.path.join(work, "range_lowered.h"), "w") as f:
        f.write("/* GENERATED from /repo/include/utap/range.h by checks/c18_extract.py - do not edit */\n" + sl.text)
    insts = ["i8", "i32", "d"] if tier == "quick" else ["i8", "i16", "i32", "d"]
    jobs = []
    for ty in insts:
        pfx, define, cfile, tname = INST[ty]
        wobj = builder.cc(os.path.join(CDIR, "wrappers.cpp"), defines=[define], includes=[work], cpp=True)
        cobj = builder.cc(os.path.join(CDIR, cfile), includes=[CDIR])
        ops = OPS_COMMON + ([] if ty == "d" else OPS_INT)
        for op in ops:
            hard = (ty, op) in HARD
            if hard and tier == "quick":
                continue
            known = {}
            timeout = 300 if hard else (240 if tier == "thorough" else 120)
            jobs.append(F.Job(
                name=f"{pfx}_{op}", entry=f"h_{pfx}_{op}", objs=[wobj, cobj], enforce=f"{pfx}_{op}",
                timeout=timeout, level="proof", optional=hard, functions=[f"{REAL[op]} <{tname}>"], known=known,
                note="all arguments symbolic over the full domain of %s" % tname))
    plan = {
        "jobs": jobs,
        "slices": [sl.info()],
        "drops": ["friend/free operator<< and the three deduction guides (L11)", "static_assert lines (L3)",
                  "range_t::make_empty (static member function of a class template is never instantiated by CBMC's C++ front end; not under contract)",
                  "constexpr evaluation (the functions are verified as run-time code)"],
        "trusted_base": ["CBMC 6.11 (goto-cc C++ front end, goto-instrument --dfcc, SAT back end)",
                         "stubs/std: <limits> constants (static_asserted against the real <limits> by the replay build), std::min/max/swap by value",
                         "lowering rules L1-L6,L11 of checks/c18_extract.py (syntactic, must-fire)",
                         "double: libm std::nexttoward replaced by an assumed bit-level neighbour function (contracts_d.c); NaN operands excluded"],
        "assumptions": [
            "operands are non-empty (a<=b, c<=d) as the property states, except ==/empty which are checked on all inputs",
            "arithmetic contracts require the corner results to fit in T (property: 'results do not overflow the type'); the oracle is computed in a wider type",
            "double instantiation: non-NaN operands; + - * on double are not under contract (IEEE rounding: undecided with SAT in budget); nexttoward is an assumed contract",
            "make_empty() is not under contract (front-end limit)",
            "int16_t instantiation and 32-bit multiplication run in the thorough tier only",
        ],
        "explanation": "each wrapper runs the real range.h member on fully symbolic scalars; the ghost parameters e/x/y make each ensures a universally quantified membership statement",
    }
    return plan


def _native(cex_args, ty, op):
    td = tempfile.mkdtemp(prefix="verif_c18_")
    try:
        exe = os.path.join(td, "replay")
        cmd = ["g++", "-std=c++17", "-O0", "-fsanitize=undefined", "-fno-sanitize-recover=all",
               "-I", os.path.join(X.REPO, "include"), os.path.join(F.VERIF, "replay", "C18_replay.cpp"), "-o", exe]
        p = subprocess.run(cmd, stdout=subprocess.PIPE, stderr=subprocess.STDOUT, timeout=300)
        if p.returncode != 0:
            return None, "replay build failed: " + p.stdout.decode()[-1500:]
        p = subprocess.run([exe, ty, op] + [str(v) for v in cex_args], stdout=subprocess.PIPE, stderr=subprocess.STDOUT, timeout=60)
        out = p.stdout.decode(errors="replace")
        if p.returncode == 0 and "CONFIRMED" in out:
            return True, out.strip()
        if p.returncode == 3:
            return False, out.strip()
        if p.returncode < 0 or "runtime error" in out or "Assertion" in out:
            return True, f"real code aborted / undefined behaviour (exit {p.returncode}): " + out.strip()[-600:]
        return None, f"replay exit {p.returncode}: " + out[-600:]
    finally:
        shutil.rmtree(td, ignore_errors=True)


def _num(s):
    if s is None or str(s).startswith("0b"):
        return None
    return str(s)


def replay(rec):
    job = rec["job"]
    m = re.match(r"(r8|r16|r32|rd)_(\w+)$", job)
    if not m:
        return {"confirmed": None, "detail": "unknown job " + job}
    ty = {"r8": "i8", "r16": "i16", "r32": "i32", "rd": "d"}[m.group(1)]
    op = m.group(2)
    cex = {k: _num(v) for k, v in rec.get("counterexample", {}).items()}
    g = lambda k: cex.get(k) if cex.get(k) is not None else "0"
    a, b, c, d, e, x, y = g("a"), g("b"), g("c"), g("d"), g("e"), g("x"), g("y")
    if op in ("contains", "andand_e"):
        c = e
    if op == "eq_e":
        c = x
    if op in ("next_value", "prev_value"):
        a, b = g("v"), g("m")
    if op == "singleton":
        a = g("v")
    if op in ("plus_e", "minus_e", "times_e", "plusc_e", "minusc_e", "timesc_e"):
        x = e  # harness H6/H8 names the member ghost 'e'
    args = [a, b, c, d, e, x, y]
    ok, detail = _native(args, ty, op)
    return {"confirmed": ok, "detail": detail, "native_cmd": f"C18_replay {ty} {op} " + " ".join(map(str, args)),
            "real_code": "include/utap/range.h (unmodified, g++ -fsanitize=undefined)"}
