"""C14 - typing of commutative operators and inline-if is symmetric in its operands."""
import os
import re

from tools import framework as F
from tools import extract as X
from checks import tc_common as T
from checks import native

CDIR = os.path.join(F.VERIF, "contracts", "C14")
OPS = ["PLUS", "MULT", "MIN", "MAX", "EQ", "NEQ", "AND", "OR", "BIT_AND", "BIT_OR", "BIT_XOR", "INLINE_IF"]


def write(work, name, text):
    with open(os.path.join(work, name), "w") as f:
        f.write(text)


def l12(sl, fname, minimum):
    head, body = sl.text.split("{", 1)
    n = len(re.findall(r"\b%s\(" % fname, body))
    if n < minimum:
        raise X.ExtractionBroken(f"{sl.name}: expected >= {minimum} recursive self-calls, found {n}")
    sl.text = head + "{" + re.sub(r"\b%s\(" % fname, fname + "__contract(", body)
    sl.rules["L12:self-call->contract"] = n


def flat_funcs():
    src = X.Source(T.TC)
    cc = X.function(src, "channelCapability", r"^static int channelCapability\(type_t type\)")
    ae = X.function(src, "TypeChecker::areEquivalent", r"^bool TypeChecker::areEquivalent\(type_t a, type_t b\)")
    l12(ae, "areEquivalent", 2)
    ae.sub("L12b:isSameScalarType->contract", r"\bisSameScalarType\(", "isSameScalarType__contract(", required=True)
    aq = X.function(src, "TypeChecker::areEqCompatible", r"^bool TypeChecker::areEqCompatible\(type_t t1, type_t t2\) const")
    aa = X.function(src, "TypeChecker::areAssignmentCompatible", r"^bool TypeChecker::areAssignmentCompatible\(type_t lvalue, type_t rvalue, bool init\) const")
    ai = X.function(src, "TypeChecker::areInlineIfCompatible", r"^bool TypeChecker::areInlineIfCompatible\(type_t result_type, type_t t1, type_t t2\) const")
    gi = X.function(src, "TypeChecker::getInlineIfCommonType", r"^type_t TypeChecker::getInlineIfCommonType\(type_t t1, type_t t2\) const")
    gi.sub("L4:type_t{DOUBLE,{},0}", r"type_t\{DOUBLE, \{\}, 0\}", "type_t(DOUBLE, position_t(), 0)", required=True)
    gi.sub("L4:type_t{}", r"type_t\{\}", "type_t()", required=True)
    return [cc, ae, aq, aa, ai, gi]


def build(tier, work, builder):
    slices = []
    write(work, "kinds.h", T.kinds_header())
    tp = T.type_preds(); write(work, "type_preds.inc", tp.text)
    hp = T.helpers(); write(work, "helpers.inc", hp.text)
    slices += [tp, hp]
    fs = flat_funcs()
    write(work, "tc_funcs.inc", "\n".join(f.text for f in fs) + "\n")
    # modular variant for the inline-if job: the callers' calls of areEquivalent go to its top-level contract
    fm = flat_funcs()
    n = 0
    for f in fm:
        if f.name != "TypeChecker::areEquivalent" and f.name != "channelCapability":
            f.sub("L12c:areEquivalent->top-level contract", r"(?<![\w:])(?:TypeChecker::)?areEquivalent\(", "areEquivalent__top(", required=False)
            n += f.rules.get("L12c:areEquivalent->top-level contract", 0)
    if n < 4:
        raise X.ExtractionBroken(f"C14: expected >= 4 calls of areEquivalent in its callers, found {n}")
    write(work, "tc_funcs_mod.inc", "\n".join(f.text for f in fm) + "\n")
    mini, sl = T.mini_check_expression(["PLUS", "MULT", "EQ", "NEQ", "AND", "OR", "BIT_AND", "INLINE_IF"])
    write(work, "mini_ce.inc", mini)
    slices += sl
    write(work, "msg_ids.h", T.msg_header())
    tcobj = builder.cc(os.path.join(CDIR, "tc14.cpp"), includes=[work, os.path.join(X.REPO, "include")], cpp=True)
    hobj = builder.cc(os.path.join(CDIR, "h_c14.c"), includes=[work], defines=["EXCLUDE_KF"])
    hobj_kf = builder.cc(os.path.join(CDIR, "h_c14.c"), includes=[work])
    tcmod = builder.cc(os.path.join(CDIR, "tc14.cpp"), includes=[work, os.path.join(X.REPO, "include")], cpp=True, defines=["C14_MODULAR"])
    jobs = []
    for op in OPS:
        fns = [f"TypeChecker::checkExpression case {op} + epilogue"]
        if op in ("EQ", "NEQ"):
            fns += ["TypeChecker::areEqCompatible", "TypeChecker::areEquivalent (top level)"]
        if op == "INLINE_IF":
            fns += ["TypeChecker::getInlineIfCommonType", "TypeChecker::areInlineIfCompatible", "TypeChecker::areAssignmentCompatible", "TypeChecker::areEquivalent (top level)"]
        if op == "INLINE_IF":
            jobs.append(F.Job(f"c14_swap_{op}", f"h_c14_swap_{op}", [tcmod, hobj], timeout=900, unwind=3, object_bits=12, functions=fns[:-1],
                              note="both branch orders on the same pair of arbitrary flat types; modular: areEquivalent is used through its contract (S)(K)(P), which c14_equiv_contract proves on the real function"))
            continue
        jobs.append(F.Job(f"c14_swap_{op}", f"h_c14_swap_{op}", [tcobj, hobj], timeout=900, unwind=3, object_bits=12, functions=fns,
                          bound_note="record width <= 2 in areEquivalent's field loop; sub-structure pool of 4 abstract types",
                          note="both operand orders on the same pair of arbitrary flat types"))
    jobs.append(F.Job("c14_equiv_contract", "h_c14_equiv_contract", [tcobj, hobj], timeout=900, unwind=3, object_bits=12,
                      functions=["TypeChecker::areEquivalent (top level; recursion by symmetric contract)", "channelCapability"],
                      bound_note="record width <= 2 in areEquivalent's field loop; sub-structure pool of 4 abstract types",
                      note="callee obligation of the modular inline-if job: (S) symmetric, (K) same base kind, (P) primitive double"))
    # ---- part B: isSameScalarType on real type nodes ------------------------------------------
    from checks import type_common as TY
    tc = TY.type_class(); write(work, "type_class.inc", tc.text); slices.append(tc)
    st = TY.type_data_structs(); write(work, "type_structs.inc", "\n".join(s.text for s in st) + "\n"); slices += st
    ms = TY.type_members(l12=("type_t::is", "type_t::is_mutable", "type_t::is_constant", "type_t::get_sub()", "type_t::get_sub(i)"))
    write(work, "type_members.inc", "\n".join(s.text for s in ms) + "\n"); slices += ms
    src = X.Source(T.TC)
    ss = X.function(src, "isSameScalarType", r"^static bool isSameScalarType\(type_t t1, type_t t2\)")
    l12(ss, "isSameScalarType", 3)
    ss.sub("L19:get_range().first.equal", r"(\w+)\.get_range\(\)\.first\.equal\((\w+)\.get_range\(\)\.first\)", r"verif_range_equal(\1, \2, true)", required=True)
    ss.sub("L19:get_range().second.equal", r"(\w+)\.get_range\(\)\.second\.equal\((\w+)\.get_range\(\)\.second\)", r"verif_range_equal(\1, \2, false)", required=True)
    write(work, "same_scalar.inc", ss.text + "\n")
    slices.append(ss)
    tyobj = builder.cc(os.path.join(CDIR, "ty14.cpp"), includes=[work, os.path.join(X.REPO, "include")], cpp=True)
    hty = builder.cc(os.path.join(CDIR, "h_ty14.c"), includes=[work])
    jobs.append(F.Job("c14_same_scalar", "h_c14_same_scalar", [tyobj, hty], timeout=300, unwind=8,
                      functions=["isSameScalarType (typechecker.cpp, one level; recursion by symmetric contract)", "type_t::get_kind / operator[] / get_label / get_range (real)"],
                      bound_note="one level of nesting per side (induction step)"))
    jobs.append(F.Job("c14_kf1_swap_INLINE_IF", "h_c14_swap_INLINE_IF", [tcmod, hobj_kf], timeout=900, unwind=3, object_bits=12,
                      functions=["TypeChecker::getInlineIfCommonType"], known={r"c14\.swap\.result-kind-is-symmetric": "C14-KF1"},
                      note="same harness without the exclusion of the known-finding class"))
    return {
        "jobs": jobs, "slices": [s.info() for s in slices],
        "drops": ["all other clauses of checkExpression", "diagnostic text", "positions"],
        "trusted_base": ["CBMC 6.11 C++ front end + SAT", "flat type abstraction (TYPE-IS)", "symmetric contracts for the recursive calls of areEquivalent and for isSameScalarType on sub-structures (part B is their obligation)"],
        "assumptions": ["'kind of the resulting type' is read as the stripped (base) kind", "record width <= 2 at top level (loop unwinding with assertion)"],
        "explanation": "2-run symmetry harness: the real clause is executed on (A,B) and on (B,A) for arbitrary flat types A,B",
    }


KEXPR = {"INT": ("i", "j"), "BOOL": ("b2", "true"), "DOUBLE": ("d", "1.5"), "CLOCK": ("x", "y"), "RECORD": ("s", "s2"),
         "ARRAY": ("a", "a2"), "SCALAR": ("sc", "sc1"), "CHANNEL": ("ch", "bch")}
OPTXT = {"PLUS": "+", "MULT": "*", "MIN": "<?", "MAX": ">?", "EQ": "==", "NEQ": "!=", "AND": "&&", "OR": "||",
         "BIT_AND": "&", "BIT_OR": "|", "BIT_XOR": "^"}


REFMODEL = """typedef scalar[3] sc_t; sc_t v; const sc_t cv;
void f(sc_t& p) { }
void h(const sc_t& p) { }
process P() { state s0, s1; init s0; trans s0 -> s1 { assign %s; }; }
system P;
"""


def replay(rec):
    if rec["job"] == "c14_same_scalar":
        out = {}
        for upd in ("f(v)", "h(v)", "h(cv)"):
            out[upd] = native.parse_model(REFMODEL % upd).get("errors")
        bad = {u: e for u, e in out.items() if e}
        return {"confirmed": bool(bad) or None, "detail": {"calls": out, "why": "an argument whose scalar type is name-equivalent to the reference parameter's type is rejected (the wrapper sits on the parameter side)"},
                "real_code": "libUTAP built from /repo's working tree"}
    m = re.match(r"c14_(?:kf1_)?swap_(\w+)$", rec["job"])
    if not m:
        return {"confirmed": None, "detail": "no public-API input for this obligation"}
    op = m.group(1)
    names = T.kind_names()
    cex = rec.get("counterexample", {})
    try:
        ka, kb = names[int(cex["ka"])], names[int(cex["kb"])]
    except Exception:
        return {"confirmed": None, "detail": "counterexample lacks operand kinds"}
    pairs = [(ka, kb)] if (ka in KEXPR and kb in KEXPR) else []
    # concretisation fallback: the abstract operand kinds of the counterexample may have no
    # concrete expression in the replay table; look for a concrete pair that shows the same failure
    pairs += [(p, q) for p in KEXPR for q in KEXPR if (p, q) not in pairs]
    tried = 0
    for pa, pb in pairs:
        ea, eb = KEXPR[pa][0], KEXPR[pb][1 if pa == pb else 0]
        if op == "INLINE_IF":
            e1, e2 = f"b ? {ea} : {eb}", f"!b ? {eb} : {ea}"
        else:
            e1, e2 = f"{ea} {OPTXT[op]} {eb}", f"{eb} {OPTXT[op]} {ea}"
        r1, r2 = native.update_probe(e1), native.update_probe(e2)
        tried += 1
        acc1, acc2 = not r1["errors"], not r2["errors"]
        k1 = r1["updates"][0]["stripped_kind"] if r1.get("updates") else None
        k2 = r2["updates"][0]["stripped_kind"] if r2.get("updates") else None
        want_kind = "result-kind" in rec.get("description", "")
        differs = (acc1 and acc2 and k1 != k2) if want_kind else (acc1 != acc2)
        if differs:
            return {"confirmed": True, "detail": {"first": e1, "second": e2, "first_result": r1, "second_result": r2,
                                                  "from_counterexample_kinds": (pa, pb) == (ka, kb)},
                    "real_code": "libUTAP built from /repo's working tree; both operand orders parsed as an update expression"}
    return {"confirmed": None, "detail": f"counterexample kinds ({ka},{kb}) have no concrete expression and none of {tried} concrete pairs reproduces the failure"}
