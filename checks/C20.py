"""C20 (kernel) - the XML writer's template graph mirrors the document: the libxml2 events issued by
XMLWriter::location / init / transition / labels / taTempl."""
import os
import re

from tools import framework as F
from tools import extract as X
from checks import tc_common as T
from checks import native

CDIR = os.path.join(F.VERIF, "contracts", "C20")
FUNCS = [("XMLWriter::startElement", r"^void XMLWriter::startElement\(const char\* element\)"),
         ("XMLWriter::endElement", r"^void XMLWriter::endElement\(\)"),
         ("XMLWriter::writeElement", r"^void XMLWriter::writeElement\(const char\* name, const char\* content\)"),
         ("XMLWriter::writeString", r"^void XMLWriter::writeString\(const char\* data\)"),
         ("XMLWriter::xmlwriteString", r"^void XMLWriter::xmlwriteString\(const xmlChar\* data\)"),
         ("XMLWriter::writeAttribute", r"^void XMLWriter::writeAttribute\(const char\* name, const char\* value\)"),
         ("XMLWriter::label", r"^void XMLWriter::label\(const char\* kind, string data, int x, int y\)"),
         ("XMLWriter::name", r"^void XMLWriter::name\(const location_t& loc, int x, int y\)"),
         ("XMLWriter::writeStateAttributes", r"^void XMLWriter::writeStateAttributes\(const location_t& loc, int x, int y\)"),
         ("XMLWriter::location", r"^void XMLWriter::location\(const location_t& loc\)"),
         ("XMLWriter::init", r"^void XMLWriter::init\(const template_t& templ\)"),
         ("XMLWriter::source", r"^int XMLWriter::source\(const edge_t& edge\)"),
         ("XMLWriter::target", r"^int XMLWriter::target\(const edge_t& edge\)"),
         ("XMLWriter::selfLoop", r"^void XMLWriter::selfLoop\(const int loc, const double initialAngle, const edge_t& edge\)"),
         ("XMLWriter::nail", r"^void XMLWriter::nail\(int x, int y\)"),
         ("XMLWriter::transition", r"^void XMLWriter::transition\(const edge_t& edge\)"),
         ("XMLWriter::labels", r"^void XMLWriter::labels\(int x, int y, const edge_t& edge\)"),
         ("XMLWriter::taTempl", r"^void XMLWriter::taTempl\(const template_t& templ\)")]
NAMES = {"1": "ONE", "1 && ": "ONE_AND", "Err": "ERR", "lpmin": "LPMIN", "id": "ID", "": "EMPTY", " : ": "COLON"}
HARNESS_LITS = ["location", "id", "name", "label", "kind", "invariant", "exponentialrate", "committed", "urgent", "init", "ref", "transition", "source", "target",
                "select", "guard", "synchronisation", "assignment", "probability", "controllable", "false", "template", "1", "1 && ", "Err", "lpmin"]


def write(work, name, text):
    with open(os.path.join(work, name), "w") as f:
        f.write(text)


def build(tier, work, builder):
    write(work, "kinds.h", T.kinds_header())
    src = X.Source("src/xmlwriter.cpp")
    T.MSG.clear()
    fl = []
    # the REAL class XMLWriter (xmlwriter.h): its data members are the writer's state, so a member a change adds comes along
    hs = X.Source("include/utap/xmlwriter.h")
    cls = X.braced(hs, "class XMLWriter", r"^class XMLWriter\b")
    # result type of every member function (for `auto x = member(...)`, rule L15)
    rtypes = {m.group(2): m.group(1) for m in re.finditer(r"^\s*(?:\[\[nodiscard\]\]\s*)?((?:const )?[\w:]+(?:<[^<>]*>)?[\*&]?)\s+(\w+)\(", cls.text, re.M)}
    # member functions of xmlwriter.cpp beside the listed ones (a helper a change splits off): sliced with the same lowering
    NOT_KERNEL = {"XMLWriter", "startDocument", "endDocument", "declaration", "getChanPriority", "system_instantiation", "project"}
    listed = {n.split("::")[1] for n, _ in FUNCS}
    extra = []
    for m in re.finditer(r"^[\w:<>\*&\[\] ]+?\bXMLWriter::(\w+)\(", src.text, re.M):
        if src.mask[m.start()] == "c" and m.group(1) not in listed and m.group(1) not in NOT_KERNEL and m.group(1) not in [e[0].split("::")[1] for e in extra]:
            extra.append(("XMLWriter::" + m.group(1), r"^[\w:<>\*&\[\] ]+?\bXMLWriter::%s\(" % re.escape(m.group(1))))
    for name, rx in extra + FUNCS:
        sl = X.function(src, name, rx)
        def typed(mm):
            ty = rtypes.get(mm.group(3))
            return mm.group(0) if ty is None else "%s%s %s = %s(" % (mm.group(1) or "", ty, mm.group(2), mm.group(3))
        new, n_auto = re.subn(r"\b(const )?auto (\w+) = (\w+)\(", typed, sl.text)
        if new != sl.text:
            sl.rules["L15:auto x = member(...) -> the member's declared result type"] = n_auto
            sl.text = new
        T.lower_literals(sl)
        sl.sub("L2:constexpr->const", r"\bconstexpr\b", "const")
        sl.sub("L29:const T& local = accessor result -> const T copy (the stand-in accessors return by value and CBMC does not extend a temporary's lifetime; nothing in these functions modifies the referee)",
               r"\bconst (symbol_t|type_t|expression_t|std::string|string|location_t\*|frame_t)& (\w+) = ", r"const \1 \2 = ")
        sl.sub("glue:top-level const of a by-value parameter (CBMC matches declaration and definition literally)",
               r"(?<=[(,])\s*const (int|double|bool|int32_t|uint32_t|size_t) (\w+)(?=\s*[,)])", r" \1 \2", count=0)
        sl.sub("L9:throw->ghost flag", r"throw XMLWriterError\(verif_lit\(\d+, \"[^\"]*\"\)\);", "VERIF_THROW_VOID;")
        sl.sub("glue:const char* from a temporary->handle", r"const char\* name = loc\.uid\.get_name\(\)\.c_str\(\);", "std::string verif_name_s = loc.uid.get_name(); const char* name = verif_name_s.c_str();")
        sl.sub("L15:auto->explicit", r"const auto id = concat\(", "const std::string id = concat(")
        sl.sub("L15:auto->explicit", r"auto (src|dst) = (source|target)\(edge\);", r"int \1 = \2(edge);")
        sl.sub("L15:auto->explicit", r"const auto pi_8 =", "const double pi_8 =")
        sl.sub("L15:auto->explicit", r"auto (begin|end) =", r"double \1 =")
        fl.append(sl)
    # range-for over lists of objects: the stub list holds pointers, so `auto& x : list` becomes a pointer iteration
    txt = "\n".join(s.text for s in fl) + "\n"
    n1 = len(re.findall(r"for \(auto& loc : templ\.locations\) \{", txt))
    txt = re.sub(r"for \(auto& loc : templ\.locations\) \{",
                 "for (location_t** verif_itl = ((template_t&)templ).locations.begin(); verif_itl != ((template_t&)templ).locations.end(); ++verif_itl) { location_t& loc = **verif_itl;", txt)
    n2 = len(re.findall(r"for \(auto& e : templ\.edges\)", txt))
    txt = re.sub(r"for \(auto& e : templ\.edges\)\s*\n\s*transition\(e\);",
                 "for (edge_t** verif_ite = ((template_t&)templ).edges.begin(); verif_ite != ((template_t&)templ).edges.end(); ++verif_ite) { edge_t& e = **verif_ite; transition(e); }", txt)
    if "for (auto" in txt:
        raise X.ExtractionBroken("taTempl: a range-for the L7 rules of this check do not cover")
    fl[-1].rules["L7:range-for over the template's lists->pointer iteration"] = n1 + n2
    write(work, "xmlwriter_funcs.inc", txt)
    # literal ids
    lits = dict(T.MSG)
    nxt = max(lits.values() or [0]) + 1
    for h in HARNESS_LITS:
        if h not in lits:
            lits[h] = nxt  # a literal the code never writes: obligations that need it can only fail
            nxt += 1
    out = ["/* GENERATED: identities of the string literals of the sliced xmlwriter.cpp functions (rule L14) */"]
    seen = set()
    for text, i in sorted(lits.items(), key=lambda kv: kv[1]):
        nm = NAMES.get(text) or re.sub(r"[^A-Za-z0-9]", "_", text).upper()
        if not nm or nm in seen:
            continue
        seen.add(nm)
        out.append(f"#define LIT_{nm} {i} /* {text!r} */")
    out += ["#define LIT_UTF8 900", "#define LIT_ERRCOLOR 901"]
    write(work, "lit_ids.h", "\n".join(out) + "\n")
    slices = fl
    # the REAL class XMLWriter (xmlwriter.h): its data members are the writer's state, so a member a change adds comes along
    cls.sub("L17:std::map<int,int>->verif_intmap", r"std::map<int,\s*int>", "std::verif_intmap")
    cls.sub("glue:constructor/destructor declarations dropped (the harness owns one static writer)", r"^\s*(virtual\s+)?~?XMLWriter\([^;]*\);[^\n]*\n", "")
    cls.sub("L4:in-class member initialiser dropped (the harness sets every scalar member to an arbitrary value)",
            r"^([ \t]+[\w:]+[ \t]+\w+)[ \t]*(\{[^{}\n]*\}|=[^;\n]+);", r"\1;")
    write(work, "xmlwriter_class.inc", cls.text + "\n")
    slices = slices + [cls]
    # scalar data members (other than the libxml2 handle, the document pointer and the self-loop map): arbitrary in every job,
    # and part of the state the id of a location may depend on
    memb = [m.group(2) for m in re.finditer(r"^\s*(?:std::)?(int|int32_t|uint32_t|int64_t|size_t|unsigned|unsigned int|long|bool|short)\s+(\w+)\s*;", cls.text, re.M)]
    if len(memb) > 4:
        raise X.ExtractionBroken("class XMLWriter: more than 4 scalar data members (harness capacity)")
    mh = ["/* GENERATED: the scalar data members of the real class XMLWriter */", f"#define XW_NMEMB {len(memb)}"]
    write(work, "xw_members.h", "\n".join(mh) + "\n")
    mi = ["/* GENERATED */", "extern \"C\" void w20_member_set(int i, int v) { (void)v; switch (i) {"]
    mi += [f"    case {i}: W.{m} = v; break;" for i, m in enumerate(memb)] + ["    default: break; } }"]
    mi += ["extern \"C\" int w20_member_get(int i) { switch (i) {"]
    mi += [f"    case {i}: return (int)W.{m};" for i, m in enumerate(memb)] + ["    default: return 0; } }"]
    write(work, "xw_members.inc", "\n".join(mi) + "\n")
    obj = builder.cc(os.path.join(CDIR, "xw20.cpp"), includes=[work, os.path.join(X.REPO, "include")], cpp=True)
    kf = ["KF1_CLASS(e)=((e).prob != 0 && !((e).pf & 1))", "KF2_CLASS(e)=((e).nsel >= 2)", "KF3_CLASS(e)=(!(e).control)", "KF4_CLASS(e)=((e).src < 0 || (e).dst < 0)"]
    hobj = builder.cc(os.path.join(CDIR, "h_c20.c"), includes=[work], defines=["EXCLUDE_KF"] + kf)
    hobj_kf = builder.cc(os.path.join(CDIR, "h_c20.c"), includes=[work], defines=kf)
    # type_t::print_declaration: the printing chain after the kind switch
    ts = X.Source("src/type.cpp")
    pd = X.function(ts, "type_t::print_declaration", r"^std::ostream& type_t::print_declaration\(std::ostream& os\) const")
    # the chain reads the flags the kind switch sets; their names are taken from the switch itself (robust to renaming)
    head = ts.text[pd.start:pd.end]
    names = {}
    for role, lab in (("range", "RANGE"), ("array", "ARRAY"), ("label", "LABEL")):
        fm = re.search(r"case (?:Constants::)?%s:\s*(\w+) = true;" % lab, head)
        if not fm:
            raise X.ExtractionBroken("type_t::print_declaration: the flag set for %s is not found" % lab)
        names[role] = fm.group(1)
    fm = re.search(r"case (?:Constants::)?TYPEDEF:\s*(\w+) = \"typedef\";\s*(\w+) = true;", head)
    if not fm:
        raise X.ExtractionBroken("type_t::print_declaration: the TYPEDEF case changed shape")
    names["kind"], names["typedef"] = fm.group(1), fm.group(2)
    ch = X.if_chain(ts, "type_t::print_declaration: if (range) ... chain", r"if \(%s\) \{" % re.escape(names["range"]), (pd.start, pd.end))
    X.rename_self_calls(ch, "print_declaration", pattern=r"\)\s*\.\s*print_declaration\(", minimum=0)
    X.lower_structured_pair(ch, "expression_t", "expression_t", only_if=r"get_range\(\)")
    if re.search(r"if \(%s\) \{" % re.escape(names["range"]), ch.text) is None:
        raise X.ExtractionBroken("type_t::print_declaration: the chain does not start with the range flag")
    ch.text = ("std::ostream& type_t::print_declaration_tail(std::ostream& os, bool %s, bool %s, bool %s, bool %s, std::string %s) const\n{\n"
               % (names["range"], names["array"], names["label"], names["typedef"], names["kind"]) + ch.text + "\n    return os;\n}\n")
    write(work, "print_declaration_tail.inc", ch.text)
    write(work, "kinds.h", T.kinds_header())
    slices = slices + [ch]
    tdobj = builder.cc(os.path.join(CDIR, "td20.cpp"), includes=[work, os.path.join(X.REPO, "include")], cpp=True)
    jobs = []
    jobs.append(F.Job("c20_print_declaration", "h_c20_print_declaration", [tdobj, hobj], timeout=300, unwind=6,
                      functions=["type_t::print_declaration (range / array / label / typedef chain, reached from XMLWriter::declaration)"]))

    def J(name, entry, fns, h=hobj, **kw):
        jobs.append(F.Job(name, entry, [obj, h], timeout=600, unwind=100, functions=fns, bound_note="<= 2 locations, <= 2 edges, <= 2 selects per template", **kw))
    J("c20_location", "h_c20_location", ["XMLWriter::location", "writeStateAttributes", "name", "label", "startElement/endElement/writeAttribute/writeString"])
    J("c20_init", "h_c20_init", ["XMLWriter::init"])
    J("c20_transition", "h_c20_transition", ["XMLWriter::transition", "source", "target", "labels", "label", "selfLoop", "nail"], note="known-finding classes excluded: must pass")
    J("c20_transition_branchpoint", "h_c20_transition_branchpoint", ["XMLWriter::transition", "source", "target"], note="known-finding class excluded: must pass")
    J("c20_template", "h_c20_template", ["XMLWriter::taTempl", "location", "init", "transition"])
    J("c20_kf_transition", "h_c20_transition", ["XMLWriter::transition", "labels"], h=hobj_kf,
      known={r"probability-label": "C20-KF1", r"every-select-is-written|second-select-is-written": "C20-KF2", r"controllable-attribute": "C20-KF3"}, note="unrestricted: fails exactly inside the known-finding classes")
    J("c20_kf_transition_branchpoint", "h_c20_transition_branchpoint", ["XMLWriter::transition", "source", "target"], h=hobj_kf,
      known={r".*": "C20-KF4"}, note="unrestricted: null dereference for edges through branchpoints")
    return {
        "jobs": jobs, "slices": [s.info() for s in slices],
        "drops": ["strings are origin-tagged values; libxml2's writer is an event trace (well-formedness and escaping of the produced file are libxml2's: assumed)",
                  "coordinates (x, y, nails) are not constrained"],
        "trusted_base": ["CBMC 6.11 C++ front end + SAT", "contracts/C20/xw20.cpp: string table, libxml2 writer trace, stand-in document structs (same member names)"],
        "assumptions": ["expr.str() returns the text of the expression (printer: C03)", "location numbers are dense (C08) so id<nr> is unique",
                        "declaration(), system_instantiation(), queries and the file-level functions are not under contract"],
        "explanation": "",
    }


def replay(rec):
    rc, out = native.run_replay("c20_probe", [])
    import json
    try:
        res = json.loads(out[out.index("{"):])
    except Exception:
        return {"confirmed": None, "detail": {"rc": rc, "raw": out[-1500:]}}
    failed = [k for k, v in res.items() if v is not True and not k.startswith("kf.")]
    if failed:
        return {"confirmed": True, "detail": {"failed": failed, "report": res}, "real_code": "libUTAP built from /repo's working tree"}
    return {"confirmed": None, "detail": {"report": res}}
