"""C13 - sizes, bounds, initialisers and value arguments must be compile-time computable."""
import os
import re

from tools import framework as F
from tools import extract as X
from checks import tc_common as T
from checks import native

CDIR = os.path.join(F.VERIF, "contracts", "C13")
SET_ALL_OF = re.compile(r"return std::all_of\((\w+)\.begin\(\), \1\.end\(\), \[this\]\(const symbol_t& (\w+)\) \{\s*return (.*?);\s*\}\);", re.S)


def write(work, name, text):
    with open(os.path.join(work, name), "w") as f:
        f.write(text)


def build(tier, work, builder):
    slices = []
    write(work, "kinds.h", T.kinds_header())
    tp = T.type_preds(); write(work, "type_preds.inc", tp.text); slices.append(tp)
    hp = T.helpers(); write(work, "helpers.inc", hp.text); slices.append(hp)
    src = X.Source(T.TC)
    ic = X.function(src, "TypeChecker::isCompileTimeComputable", r"^bool TypeChecker::isCompileTimeComputable\(expression_t expr\) const")
    m = SET_ALL_OF.search(ic.text)
    if not m:
        raise X.ExtractionBroken("isCompileTimeComputable: the all_of(lambda) shape changed (rule L10 must fire)")
    ic.text = ic.text[:m.start()] + ("{ for (verif_symset_it verif_it = %s.begin(); verif_it != %s.end(); ++verif_it) { symbol_t %s = *verif_it; if (!(%s)) return false; } return true; }"
                                      % (m.group(1), m.group(1), m.group(2), m.group(3))) + ic.text[m.end():]
    ic.rules["L10:all_of(lambda)->loop"] = 1
    ic.sub("L17:std::set<symbol_t>->bitmask", r"std::set<symbol_t>", "verif_symset", required=True)
    ic.sub("L4:symbol_t{}", r"symbol_t\{\}", "symbol_t()", required=True)
    ic.sub("L12b:collect_possible_reads->contract", r"\.collect_possible_reads\(", ".collect_possible_reads__contract(", required=True)
    cv = []
    for name, rx in (("visitVariable", r"^void CompileTimeComputableValues::visitVariable\(variable_t& variable\)"),
                     ("visitInstance", r"^void CompileTimeComputableValues::visitInstance\(instance_t& temp\)"),
                     ("add_symbol", r"^void CompileTimeComputableValues::add_symbol\(symbol_t symbol\)"),
                     ("contains", r"^bool CompileTimeComputableValues::contains\(symbol_t symbol\) const")):
        sl = X.function(src, "CompileTimeComputableValues::" + name, rx)
        if name == "visitInstance":
            sl.sub("L7:range-for(const auto& param : temp.parameters)", r"for \(const auto& param : temp\.parameters\) \{",
                   "for (symbol_t* verif_it = temp.parameters.begin(); verif_it != temp.parameters.end(); ++verif_it) { const symbol_t& param = *verif_it;", required=True)
        cv.append(sl)
    vp = X.function(src, "TypeChecker::visitProcess", r"^void TypeChecker::visitProcess\(instance_t& process\)")
    T.lower_literals(vp)
    idi = X.function(src, "isDefaultInt", r"^bool isDefaultInt\(type_t type\)")
    idi.sub("stub:isDefaultInt-body", r"\{.*\}", "{ bool b; return b; } /* arbitrary: default-range detection is not part of C13 */", flags=re.S, required=True)
    # checkType: case RANGE
    ct = X.function(src, "TypeChecker::checkType", r"^void TypeChecker::checkType\(type_t type, bool initialisable, bool inStruct\)")
    rg = X.switch_clause(src, "checkType:case RANGE", ct, "RANGE")
    X.hoist_enclosing_lambdas(src, ct, rg)
    X.lower_local_lambdas(rg)
    T.lower_literals(rg)
    rg.sub("lower:std::tie(l,u)=get_range()", r"std::tie\(l, u\) = type\.get_range\(\);", "l = verif_range_lo(type); u = verif_range_hi(type);", required=True)
    rg.sub("L12b:isCompileTimeComputable->contract", r"\bisCompileTimeComputable\(", "isCompileTimeComputable__contract(", required=True)
    rtxt = "void TypeChecker::checkType_range(type_t type)\n{\n    expression_t l, u;\n    switch (type.get_kind_verif()) {\n" + rg.text + "\n    default: break;\n    }\n}\n"
    rtxt = rtxt.replace("switch (type.get_kind_verif())", "switch (RANGE)")
    write(work, "ctc_funcs.inc", "\n".join(s.text for s in [ic] + cv + [idi, vp]) + "\n" + rtxt)
    slices += [ic] + cv + [vp, rg]
    # gates reused: variable initialiser chain, instance argument region
    vv = X.function(src, "TypeChecker::visitVariable", r"^void TypeChecker::visitVariable\(variable_t& variable\)")
    g1 = X.if_chain(src, "visitVariable: initialiser chain", r"if \(!isCompileTimeComputable\(variable\.init\)\) \{", (vv.start, vv.end))
    T.lower_literals(g1)
    g1.sub("L12b:isCompileTimeComputable->contract", r"\bisCompileTimeComputable\(", "isCompileTimeComputable__contract(", required=True)
    vi = X.function(src, "TypeChecker::visitInstance", r"^void TypeChecker::visitInstance\(instance_t& instance\)")
    g2 = X.region(src, "visitInstance: argument rules", r"bool ref = parameter\.get_type\(\)\.is\(REF\);", r"checkParameterCompatible\(parameter\.get_type\(\), argument\);",
                  include_end=True, within=(vi.start, vi.end))
    T.lower_literals(g2)
    g2.sub("L12b:isCompileTimeComputable->contract", r"\bisCompileTimeComputable\(", "isCompileTimeComputable__contract(", required=True)
    slices += [g1, g2]
    write(work, "gates_decl.inc", "    void gate_variable_initialiser(variable_t& variable);\n    void gate_instance_reference_rule(symbol_t parameter, expression_t argument);\n")
    write(work, "gates.inc", "void TypeChecker::gate_variable_initialiser(variable_t& variable)\n{\n" + g1.text + "\n}\n"
          "void TypeChecker::gate_instance_reference_rule(symbol_t parameter, expression_t argument)\n{\n    for (int verif_once = 0; verif_once < 1; verif_once++) {\n" + g2.text + "\n    }\n}\n")
    write(work, "msg_ids.h", T.msg_header())
    tcobj = builder.cc(os.path.join(CDIR, "tc13.cpp"), includes=[work, os.path.join(X.REPO, "include")], cpp=True)
    hobj = builder.cc(os.path.join(CDIR, "h_c13.c"), includes=[work])
    jobs = []

    def J(name, entry, fns, **kw):
        jobs.append(F.Job(name, entry, [tcobj, hobj], timeout=300, unwind=10, functions=fns, **kw))
    J("c13_ctc", "h_c13_ctc", ["TypeChecker::isCompileTimeComputable"], bound_note="8 symbols")
    J("c13_ctcv_variable", "h_c13_ctcv_variable", ["CompileTimeComputableValues::visitVariable"])
    J("c13_ctcv_instance", "h_c13_ctcv_instance", ["CompileTimeComputableValues::visitInstance"], bound_note="<= 2 parameters")
    J("c13_ctcv_add_contains", "h_c13_ctcv_add_contains", ["CompileTimeComputableValues::add_symbol", "CompileTimeComputableValues::contains"])
    J("c13_range", "h_c13_range", ["TypeChecker::checkType case RANGE (array sizes, integer ranges, scalar-set sizes)"])
    J("c13_var_init", "h_c13_var_init", ["TypeChecker::visitVariable (initialiser chain)"])
    J("c13_instance_arg", "h_c13_instance_arg", ["TypeChecker::visitInstance (argument rules)"])
    J("c13_process", "h_c13_process", ["TypeChecker::visitProcess"], bound_note="<= 2 unbound parameters")
    # builder side: collectDependencies closure (bounded: 4 symbols)
    sb = X.Source("src/StatementBuilder.cpp")
    cd = X.function(sb, "StatementBuilder::collectDependencies(set&, expression_t)",
                    r"^void StatementBuilder::collectDependencies\(std::set<symbol_t>& dependencies, expression_t expr\)")
    X.lower_if_init(cd)
    cd.sub("L15:auto->void*", r"auto d = s\.get_data\(\)", "void* d = s.get_data()", required=True)
    cd.sub("L15:auto->type_t", r"auto t = s\.get_type\(\)", "type_t t = s.get_type()", required=True)
    cd.sub("L17:std::set<symbol_t>->bitmask", r"std::set<symbol_t>", "verif_symset", required=True)
    cd.sub("L12b:collect_possible_reads->contract", r"\.collect_possible_reads\(", ".collect_possible_reads__contract(", required=True)
    write(work, "collect_deps.inc", cd.text + "\n")
    # the propagation of `restricted` through an instantiation (DocumentBuilder::instantiation_end): the declaration of the
    # local set reference and the loop after it
    dbs = X.Source("src/DocumentBuilder.cpp")
    ie = X.function(dbs, "DocumentBuilder::instantiation_end", r"^void DocumentBuilder::instantiation_end\(const char\* name, size_t parameters, const char\* templ_name, size_t arguments\)")
    s0, _ = dbs.find_unique(r"^\s*(?:const\s+)?std::set<symbol_t>&\s*restricted\s*=", ie.start, ie.end, what="instantiation_end: the restricted set taken as the source")
    lp = X.statement(dbs, "instantiation_end: propagation loop", r"for \(size_t i = 0; i < expected; i\+\+\)", (s0, ie.end))
    pr = X.Slice("DocumentBuilder::instantiation_end (propagation of restricted)", dbs, s0, lp.end)
    pr.sub("L17:std::set<symbol_t>->bitmask", r"std::set<symbol_t>", "verif_symset", required=True)
    pr.sub("L12b:collectDependencies->contract (its closure property is c13_collect_dependencies)", r"\bcollectDependencies\(", "collectDependencies__contract(", required=True)
    write(work, "restricted_propagation.inc", "void StatementBuilder::propagate_restricted(instance_t* old_instance, instance_t& new_instance, expression_t* exprs, size_t expected)\n{\n" + pr.text + "\n}\n")
    slices.append(pr)
    slices.append(cd)
    cdobj = builder.cc(os.path.join(CDIR, "cd13.cpp"), includes=[work, os.path.join(X.REPO, "include")], cpp=True)
    hcd = builder.cc(os.path.join(CDIR, "h_cd13.c"), includes=[work])
    jobs.append(F.Job("c13_collect_dependencies", "h_c13_collect_dependencies", [cdobj, hcd], timeout=600, unwind=24, level="bounded",
                      functions=["StatementBuilder::collectDependencies(std::set<symbol_t>&, expression_t)"],
                      bound_note="universe of 4 symbols: the worklist loop is unwound 24 times with an unwinding assertion (complete for 4 symbols, not for more)"))
    jobs.append(F.Job("c13_restricted_propagation", "h_c13_restricted_propagation", [cdobj, hcd], unwind=8,
                      functions=["DocumentBuilder::instantiation_end (propagation of the restricted set to the new instance)"],
                      bound_note="<= 3 parameters, universe of 4 symbols",
                      note="the variables used in arguments to restricted parameters of the INSTANTIATED INSTANCE (not of its template) are restricted in the new instance"))
    # ---- checkType as a whole over real type trees (bounded shapes)
    from checks import type_common as TY
    tcl = TY.type_class(); write(work, "type_class.inc", tcl.text)
    st = TY.type_data_structs(); write(work, "type_structs.inc", "\n".join(s.text for s in st) + "\n")
    ms = TY.type_members(l12=())
    write(work, "type_members_real.inc", "\n".join(s.text for s in ms) + "\n")
    ctw = X.function(src, "TypeChecker::checkType (whole)", r"^void TypeChecker::checkType\(type_t type, bool initialisable, bool inStruct\)")
    X.lower_local_lambdas(ctw)
    T.lower_literals(ctw)
    ctw.sub("lower:std::tie(l,u)=get_range()", r"std::tie\(l, u\) = type\.get_range\(\);",
            "{ std::pair<expression_t, expression_t> verif_r = type.get_range(); l = verif_r.first; u = verif_r.second; }")
    write(work, "check_type.inc", ctw.text + "\n")
    write(work, "msg_ids.h", T.msg_header())
    slices += [tcl] + st + ms + [ctw]
    ctobj = builder.cc(os.path.join(CDIR, "ct13.cpp"), includes=[work, os.path.join(X.REPO, "include")], cpp=True)
    hct = builder.cc(os.path.join(CDIR, "h_ct13.c"), includes=[work])
    jobs.append(F.Job("c13_check_type", "h_c13_check_type", [ctobj, hct], timeout=600, unwind=8, level="bounded",
                      functions=["TypeChecker::checkType (whole function, real recursion)", "type_t::get_array_size / get_range / get / get_kind / is (real)"],
                      bound_note="eight concrete type shapes: 1-3 array dimensions, typedef label, const / meta / reference prefix, record field (depth <= 4)"))
    # ---- lemma shared with C11: function_t::depends is complete.  A call is compile-time computable when everything the
    # callee may read is; what the callee may read is function_t::depends, computed by the statement visitors of
    # statement.cpp over the body and the tail of TypeChecker::visitFunction - the C11 jobs, run here as lemmas of C13.
    from checks import C11
    w11 = os.path.join(work, "c11"); os.makedirs(w11, exist_ok=True)
    b11 = C11.build(tier, w11, builder)
    lemma = [j for j in b11["jobs"] if j.name.startswith("c11_stmt_") or j.name in ("c11_collect_dependencies", "c11_visit_function", "c11_collect_reads")]
    if len(lemma) < 14:
        raise X.ExtractionBroken("C13: the statement-visitor jobs of C11 are missing")
    for j in lemma:
        j.name = "c13_depends_" + j.name[len("c11_"):]
        j.note = (j.note + "; " if j.note else "") + "lemma of C13: function_t::depends (what a call may read) is complete (contracts/C11)"
        jobs.append(j)
    return {
        "jobs": jobs, "slices": [s.info() for s in slices] + [d for d in b11["slices"] if "statement.cpp" in str(d.get("file", "")) or "Visitor" in str(d.get("name", "")) or "visitFunction" in str(d.get("name", ""))],
        "drops": ["isDefaultInt's body (arbitrary result)"],
        "trusted_base": ["CBMC 6.11 C++ front end + SAT", "flat type abstraction", "bit-mask std::set<symbol_t>", "stubs/tc_env.h",
                         "collect_possible_reads answered by its contract (its one-level proof, c11_collect_reads, is run here as c13_depends_collect_reads)"],
        "assumptions": ["the builder-side computation of template_t::restricted (StatementBuilder::collectDependencies) is under a bounded check only (4 symbols)",
                        "checkType reaching the RANGE case of every array size / range bound of a declared type is under a BOUNDED check only (c13_check_type: eight type shapes, real recursion)"],
        "explanation": "",
    }


REPLAY_MODELS = {
    "array size reads a variable": "int v; int a[v]; process P() { state s; init s; } system P;",
    "range bound reads a variable": "int v; int[0,v] r; process P() { state s; init s; } system P;",
    "scalar set size reads a variable": "int v; typedef scalar[v] st; st x; process P() { state s; init s; } system P;",
    "global initialiser reads a variable": "int v; int w = v; process P() { state s; init s; } system P;",
    "initialiser through a function that reads a variable": "int v; int f() { return v; } int w = f(); process P() { state s; init s; } system P;",
    "initialiser through another initialiser": "int v; const int c1 = v; process P() { state s; init s; } system P;",
    "template-local initialiser reads a variable": "int v; process P() { int w = v; state s; init s; } system P;",
    "value argument reads a variable": "int v; process P(int q) { state s; init s; } Q = P(v); system Q;",
    "const-ref argument reads a variable": "int v; process P(const int& q) { state s; init s; } Q = P(v + 1); system Q;",
    "free parameter in array size (direct)": "process P(const int[0,3] p) { int arr[p+1]; state s; init s; } system P;",
    "free parameter in array size (chain 1)": "process P(const int[0,3] p) { const int c1 = p; int arr[c1+1]; state s; init s; } system P;",
    "free parameter in array size (chain 2)": "process P(const int[0,3] p) { const int c1 = p; const int c2 = c1; int arr[c2+1]; state s; init s; } system P;",
    "free parameter in array size (chain 3)": "process P(const int[0,3] p) { const int c1 = p; const int c2 = c1; const int c3 = c2; int arr[c3+1]; state s; init s; } system P;",
}


def replay(rec):
    for what, model in REPLAY_MODELS.items():
        r = native.parse_model(model)
        if not r.get("crashed") and not r.get("errors"):
            return {"confirmed": True, "detail": {"input": what, "model": model, "result": r, "why": "a model whose size/bound/initialiser/argument depends on a non-constant is accepted"},
                    "real_code": "libUTAP built from /repo's working tree"}
    return {"confirmed": None, "detail": {"tried": list(REPLAY_MODELS), "why": "no model of the replay table reproduces the failure"}}
