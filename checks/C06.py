"""C06 (kernel) - the position arithmetic between the lexer and error_t: position_index_t::add / find,
PositionTracker, Document::add_error / add_warning, error_t::str's column arithmetic."""
import os
import re

from tools import framework as F
from tools import extract as X
from checks import native

CDIR = os.path.join(F.VERIF, "contracts", "C06")


def write(work, name, text):
    with open(os.path.join(work, name), "w") as f:
        f.write(text)


LOOP_CONTRACT = """
        __CPROVER_assigns(first, last)
        __CPROVER_loop_invariant(verif_first0 <= first && first < last && last <= verif_last0)
        __CPROVER_loop_invariant(first == verif_first0 || lines[first].position <= position)
        __CPROVER_loop_invariant(last == verif_last0 || position < lines[last].position)
        __CPROVER_decreases(last - first)
"""


def find_to_c():
    """Route C: both find overloads as C functions over (lines, n); logs every rewrite."""
    src = X.Source("src/position.cpp")
    f3 = X.function(src, "position_index_t::find(position, first, last)",
                    r"^const position_index_t::line_t& position_index_t::find\(uint32_t position, uint32_t first, uint32_t last\) const")
    f3.sub("C1:signature->C (vector = pointer + size, reference result = index)",
           r"const position_index_t::line_t& position_index_t::find\(uint32_t position, uint32_t first, uint32_t last\) const\s*\{",
           "uint32_t c06_find3(const struct line_t* lines, uint32_t n, uint32_t position, uint32_t first, uint32_t last)\n{\n    uint32_t verif_first0 = first, verif_last0 = last; /* ghost: entry values */",
           required=True)
    f3.sub("C2:loop contract injected at loop 1", r"while \(first \+ 1 < last\) \{", "while (first + 1 < last)" + LOOP_CONTRACT + "    {", required=True)
    f3.sub("C3:return lines[first]->return first", r"return lines\[first\];", "return first;", required=True)
    if len(re.findall(r"\b(while|for|do)\b", f3.text)) != 1:
        raise X.ExtractionBroken("position_index_t::find: expected exactly one loop (the loop contract is keyed to loop ordinal 1)")
    f1 = X.function(src, "position_index_t::find(position)", r"^const position_index_t::line_t& position_index_t::find\(uint32_t position\) const")
    f1.sub("C1:signature->C", r"const position_index_t::line_t& position_index_t::find\(uint32_t position\) const", "uint32_t c06_find(const struct line_t* lines, uint32_t n, uint32_t position)", required=True)
    f1.sub("C4:lines.empty()->n == 0", r"lines\.empty\(\)", "(n == 0)", required=True)
    f1.sub("L9:throw->ghost flag", r"throw std::logic_error\(\"[^\"]*\"\);", "{ verif_thrown = 1; return 0; }", required=True)
    f1.sub("C5:find(position, 0, lines.size())->c06_find3(lines, n, position, 0, n)", r"return find\(position, 0, lines\.size\(\)\);", "return c06_find3(lines, n, position, 0, n);", required=True)
    return f3, f1


def build(tier, work, builder):
    slices = []
    f3, f1 = find_to_c()
    write(work, "find_extracted.inc", f3.text + "\n\n" + f1.text + "\n")
    slices += [f3, f1]
    cobj = builder.cc(os.path.join(CDIR, "find_c.c"), includes=[work, CDIR])
    jobs = []
    uo = ["--unsigned-overflow-check"]
    jobs.append(F.Job("c06_find3", "h_c06_find3", [cobj], enforce="c06_find3", loop_contracts=True, cbmc_args=uo, timeout=300,
                      functions=["position_index_t::find(uint32_t, uint32_t, uint32_t)"],
                      note="unbounded: loop invariant + decreases clause, table of symbolic length <= 2^31"))
    jobs.append(F.Job("c06_find", "h_c06_find", [cobj], enforce="c06_find", replace=["c06_find3"], cbmc_args=uo, timeout=300,
                      functions=["position_index_t::find(uint32_t)"]))
    jobs.append(F.Job("c06_find_unique", "h_c06_find_unique", [cobj], replace=["c06_find"], cbmc_args=uo, timeout=300,
                      functions=["lemma over the contract of position_index_t::find"], bound_note="table length <= 64 in the lemma harness only"))
    # ---- part B: C++ route
    pos_h = X.Source("include/utap/position.h")
    lt = X.braced(pos_h, "position_index_t::line_t", r"^\s*struct line_t\b")
    lt.sub("L19:shared_ptr<string>->path identity", r"std::shared_ptr<std::string>", "verif_path", required=True)
    lt.sub("L4:member{init}", r"path\{std::move\(path\)\}", "path(std::move(path))", required=True)
    psrc = X.Source("src/position.cpp")
    add = X.function(psrc, "position_index_t::add", r"^void position_index_t::add\(uint32_t position, uint32_t offset, uint32_t line, std::shared_ptr<string> path\)")
    add.sub("L19:shared_ptr<string>->path identity", r"std::shared_ptr<string>", "verif_path", required=True)
    add.sub("L9:throw->ghost flag", r"throw std::logic_error\(\"[^\"]*\"\);", "{ verif_thrown = 1; return; }", required=True)
    add.sub("L21:v.emplace_back(...)->verif_emplace_back(v, ...)", r"lines\.emplace_back\(", "verif_emplace_back(lines, ", required=True)
    est = X.function(psrc, "error_t::str", r"^std::string UTAP::error_t::str\(\) const")
    # keep only the guard of the unknown-position branch and the four column/line operands: the rest is string formatting
    m = re.search(r"if \((position\.start < start\.position \|\| position\.end < end\.position)\)\s*return msg \+ \" \(Unknown position in document\)\";", est.text)
    cols = re.findall(r"std::to_string\(([^()]*)\)", est.text)
    # one group of four operands per printed form (with / without a path), or one shared group when the common part is built once
    if not m or len(cols) not in (4, 8) or any(cols[i:i + 4] != cols[:4] for i in range(0, len(cols), 4)):
        raise X.ExtractionBroken("error_t::str: shape changed (guard + identical groups of four to_string operands expected)")
    est_text = ("void verif_error_str(const error_t& verif_e, int* unknown, uint32_t* out)\n{\n"
                "    const position_t& position = verif_e.position; const line_t& start = verif_e.start; const line_t& end = verif_e.end;\n"
                f"    if ({m.group(1)}) {{ *unknown = 1; return; }}\n    *unknown = 0;\n"
                + "".join(f"    out[{i}] = {c};\n" for i, c in enumerate(cols[:4])) + "}\n")
    est.rules["C6:string formatting dropped, operands of std::to_string kept in order"] = len(cols)
    lp = X.Source("src/libparser.h")
    pt = X.braced(lp, "struct PositionTracker", r"^struct PositionTracker")
    pt.sub("L4:member{}", r"uint32_t (line|offset|position)\{\};", r"uint32_t \1;", required=True)
    pt.sub("L19:shared_ptr<string>->path identity", r"std::shared_ptr<std::string>", "verif_path", required=True)
    pt.sub("L19:make_shared<string>(s)->path identity of s", r"std::make_shared<std::string>\(s\)", "verif_make_path(s)", required=True)
    pt.sub("glue:UTAP::ParserBuilder", r"UTAP::ParserBuilder\*", "ParserBuilder*", required=True)
    pt.sub("glue:const std::string&->path text identity", r"const std::string& s", "const verif_string& s", required=True)
    dsrc = X.Source("src/document.cpp")
    dfun = []
    for name, rx in (("Document::add_position", r"^void Document::add_position\(uint32_t position, uint32_t offset, uint32_t line, std::shared_ptr<std::string> path\)"),
                     ("Document::find_position", r"^const position_index_t::line_t& Document::find_position\(uint32_t position\) const"),
                     ("Document::add_error", r"^void Document::add_error\(position_t position, std::string msg, std::string context\)"),
                     ("Document::add_warning", r"^void Document::add_warning\(position_t position, const std::string& msg, const std::string& context\)")):
        sl = X.function(dsrc, name, rx)
        sl.sub("L19:shared_ptr<string>->path identity", r"std::shared_ptr<std::string>", "verif_path")
        sl.sub("glue:std::string->message identity", r"(const )?std::string(&)? (msg|context)", r"verif_string \3")
        sl.sub("L15:auto x = positions.find(...)->explicit type", r"(const\s+)?auto\s*&?\s*(\w+) = positions\.find\(", r"const position_index_t::line_t& \2 = positions.find(")
        if "emplace_back" in sl.text:
            sl.sub("L21:v.emplace_back(...)->verif_emplace_back(v, ...)", r"\b(errors|warnings)\.emplace_back\(", r"verif_emplace_back(\1, ", required=True)
        dfun.append(sl)
    eb = X.Source("src/ExpressionBuilder.cpp")
    ebp = X.function(eb, "ExpressionBuilder::add_position", r"^void ExpressionBuilder::add_position\(uint32_t position, uint32_t offset, uint32_t line,\s*std::shared_ptr<std::string> path\)")
    ebp.sub("L19:shared_ptr<string>->path identity", r"std::shared_ptr<std::string>", "verif_path", required=True)
    ab = X.Source("src/abstractbuilder.cpp")
    abp = X.function(ab, "AbstractBuilder::set_position", r"^void AbstractBuilder::set_position\(uint32_t start, uint32_t end\)")
    # the find overloads again, this time as C++ members (real text) over the vector stub
    f3r = X.function(psrc, "position_index_t::find(position, first, last) [C++]", r"^const position_index_t::line_t& position_index_t::find\(uint32_t position, uint32_t first, uint32_t last\) const")
    f1r = X.function(psrc, "position_index_t::find(position) [C++]", r"^const position_index_t::line_t& position_index_t::find\(uint32_t position\) const")
    f1r.sub("L9:throw->ghost flag", r"throw std::logic_error\(\"[^\"]*\"\);", "{ verif_thrown = 1; return lines.verif_dummy(); }", required=True)
    write(work, "line_t.inc", lt.text + "\n")
    write(work, "tracker.inc", pt.text + "\n")
    write(work, "position_funcs.inc", "\n".join(s.text for s in [add, f3r, f1r]) + "\n")
    write(work, "document_funcs.inc", "\n".join(s.text for s in dfun + [ebp, abp]) + "\n")
    write(work, "error_str.inc", est_text)
    slices += [lt, add, est, pt] + dfun + [ebp, abp, f3r, f1r]
    # lexer.l: YY_USER_ACTION and the newline rules (generator input, checked textually)
    lx = X.Source("src/lexer.l")
    ua = re.search(r"^#define YY_USER_ACTION (.*)$", lx.text, re.M)
    if not ua or re.sub(r"\s+", " ", ua.group(1)).strip() != "yylloc.start = tracker.position; tracker.increment(ch, yyleng); yylloc.end = tracker.position;":
        raise X.ExtractionBroken("lexer.l: YY_USER_ACTION is no longer `yylloc.start = tracker.position; tracker.increment(ch, yyleng); yylloc.end = tracker.position;`")
    write(work, "user_action.inc", "    " + ua.group(1).strip() + "\n")
    cppobj = builder.cc(os.path.join(CDIR, "pos06.cpp"), includes=[work, os.path.join(X.REPO, "include")], cpp=True)
    hobj = builder.cc(os.path.join(CDIR, "h_c06.c"), includes=[work])

    def J(name, entry, fns, **kw):
        kw.setdefault("unwind", 10)
        jobs.append(F.Job(name, entry, [cppobj, hobj], timeout=300, functions=fns, cbmc_args=kw.pop("cbmc_args", []), **kw))
    J("c06_add", "h_c06_add", ["position_index_t::add"], bound_note="table of <= 6 entries (symbolic content)")
    J("c06_tracker_setpath", "h_c06_tracker_setpath", ["PositionTracker::setPath (both overloads)", "ExpressionBuilder::add_position", "Document::add_position", "position_index_t::add"])
    J("c06_tracker_increment", "h_c06_tracker_increment", ["PositionTracker::increment", "AbstractBuilder::set_position"])
    J("c06_tracker_newline", "h_c06_tracker_newline", ["PositionTracker::newline", "ExpressionBuilder::add_position", "Document::add_position", "position_index_t::add"])
    J("c06_user_action", "h_c06_user_action", ["YY_USER_ACTION (lexer.l) over PositionTracker::increment"])
    J("c06_add_error", "h_c06_add_error", ["Document::add_error", "Document::add_warning", "Document::find_position", "position_index_t::find (both overloads, real recursion-free code)"],
      bound_note="table of <= 6 entries: find's loop unwound (the unbounded proof of find is c06_find3)")
    J("c06_error_str", "h_c06_error_str", ["error_t::str (column arithmetic)"], cbmc_args=["--unsigned-overflow-check"])
    J("c06_block_lemma", "h_c06_block_lemma", ["PositionTracker::setPath/increment/newline + Document::add_error (composition)"],
      bound_note="one block: <= 2 line breaks and <= 3 tokens after an arbitrary history summarised by the invariant; table <= 6 entries", level="bounded", unwind=12)
    # ---- part D: line counting of the scanner's newline rules (bounded)
    lx = X.Source("src/lexer.l")
    body = lx.text[lx.text.index("\n%%\n") + 4:]
    body = body[:body.index("\n%%\n")] if "\n%%\n" in body else body
    rules = []
    for rm in re.finditer(r"^[ \t]*(\S(?:[^\n{]|\{[a-z]+\})*?)[ \t]+\{", body, re.M):
        # rule = pattern at line start followed by an action block that mentions tracker.newline
        b0 = lx.text.index(body) + rm.end() - 1
        try:
            b1 = lx.match_brace(b0)
        except Exception:
            continue
        act = lx.text[b0:b1]
        pat = rm.group(1).strip()
        if "tracker.newline(" in act and not pat.startswith("<") and not pat.endswith("{"):
            rules.append((pat, act, b0))

    def flex_to_re(pat):
        """flex pattern -> python regex, for the constructs the newline rules use (quoted literals, escapes, classes, groups, + * ?)"""
        out, i = "", 0
        while i < len(pat):
            c = pat[i]
            if c == '"':
                j = i + 1
                lit = ""
                while pat[j] != '"':
                    if pat[j] == "\\":
                        lit += {"n": "\n", "r": "\r", "t": "\t", "\\": "\\"}.get(pat[j + 1], pat[j + 1]); j += 2
                    else:
                        lit += pat[j]; j += 1
                out += re.escape(lit); i = j + 1
            elif c == "\\":
                out += {"n": "\n", "r": "\r", "t": "\t"}.get(pat[i + 1], re.escape(pat[i + 1])); i += 2
            elif c == "[":
                j = pat.index("]", i)
                out += pat[i:j + 1]; i = j + 1
            elif c in "()+*?|":
                out += c; i += 1
            elif c == " ":
                raise X.ExtractionBroken("lexer.l newline rule: unquoted blank in pattern " + pat)
            else:
                out += re.escape(c); i += 1
        return out
    import itertools
    alpha = ["\r", "\n", "\\", " ", "\t", "x"]
    cases, gen = 0, ["/* GENERATED from src/lexer.l: the rules whose action calls tracker.newline, their REAL action text, and every text of", "   <= 5 characters over {CR, LF, backslash, blank, tab, x} their pattern matches in full */"]
    if len(rules) < 2:
        raise X.ExtractionBroken("lexer.l: fewer than two newline-counting rules found")
    for k, (pat, act, b0) in enumerate(rules):
        rx = re.compile(flex_to_re(pat))
        gen.append("/* rule %d: %s */" % (k, pat.replace("*/", "* /")))
        gen.append("static int rule_%d(const char* utap_text, int yyleng)\n{\n    %s\n    return 0;\n}" % (k, act))
        slices.append(X.Slice("lexer.l newline rule: " + pat, lx, b0, b0 + len(act)))
    gen.append("static void run_all_cases(void)\n{")
    for k, (pat, act, b0) in enumerate(rules):
        rx = re.compile(flex_to_re(pat))
        for n in range(1, (8 if tier == "thorough" else 6)):
            for tup in itertools.product(alpha, repeat=n):
                s = "".join(tup)
                if rx.fullmatch(s):
                    lit = "".join({"\r": "\\r", "\n": "\\n", "\\": "\\\\", "\t": "\\t"}.get(c, c) for c in s)
                    gen.append('    { g_lines = 0; g_calls = 0; rule_%d("%s", %d); __CPROVER_assert(g_lines == %d, "c06.lexer.newline-rule-reports-as-many-lines-as-the-matched-text-has-line-terminators"); }'
                               % (k, lit, len(s), s.count("\n")))
                    cases += 1
    gen.append("}")
    if cases < 8:
        raise X.ExtractionBroken("lexer.l: the newline rules match almost nothing")
    write(work, "lexer_newline_cases.inc", "\n".join(gen) + "\n")
    nlobj = builder.cc(os.path.join(CDIR, "nl06.cpp"), includes=[work], cpp=True)
    jobs.append(F.Job("c06_lexer_newlines", "h_c06_lexer_newlines", [nlobj], level="bounded", unwind=2,
                      functions=["lexer.l rules whose action calls tracker.newline (actions on every matching text of <= 5 characters: %d cases)" % cases],
                      bound_note="matched texts of <= 5 characters over {CR, LF, backslash, blank, tab, x}"))
    # ---- part E: the sibling index in an XPath step (Path::str / count in xmlreader.cpp)
    xsrc = X.Source("src/xmlreader.cpp")
    te = X.braced(xsrc, "enum class tag_t", r"^enum class tag_t \{")
    write(work, "xr_tag_enum.inc", te.text + "\n")
    ps = X.function(xsrc, "Path::str", r"^(\[\[nodiscard\]\] )?std::string Path::str\(tag_t tag\) const")
    body = re.sub(r"/\*.*?\*/|//[^\n]*", "", ps.text, flags=re.S)
    steps = re.findall(r"case tag_t::(\w+):\s*str << \"(/\w+)(\[?)\"([^;]*);\s*break;", body)
    if len(steps) < 20 or len(steps) != len(re.findall(r"\bcase tag_t::", body)):
        raise X.ExtractionBroken("Path::str: the switch is no longer one `case tag_t::X: str << \"/x[\" << ... ; break;` per tag")
    helper = None
    struct_bad = []
    for tg, text, br, rest in steps:
        if not br:
            continue
        m = re.fullmatch(r"\s*<< (\w+)\(level, tag_t::(\w+)\) << \"\]\"", rest)
        if not m:
            raise X.ExtractionBroken(f"Path::str: indexed step {text} does not have the form << f(level, tag_t::X) << \"]\"")
        if helper not in (None, m.group(1)):
            raise X.ExtractionBroken("Path::str: more than one index helper")
        helper = m.group(1)
        if m.group(2) != tg:
            struct_bad.append(f"{text}[...] counts tag_t::{m.group(2)} siblings instead of tag_t::{tg}")
    must_index = {"TEMPLATE", "LOCATION", "BRANCHPOINT", "TRANSITION", "LABEL", "NAIL", "LSC", "INSTANCE", "MESSAGE", "CONDITION", "UPDATE", "ANCHOR", "QUERY"}
    for tg, text, br, rest in steps:
        if tg in must_index and not br:
            struct_bad.append(f"the step for the repeatable element {text} carries no sibling index")
    if helper is None:
        raise X.ExtractionBroken("Path::str: no indexed step")
    hc = X.function(xsrc, "count (Path::str's sibling index)", r"^static (inline )?size_t %s\(const std::vector<tag_t>& level, tag_t tag\)" % re.escape(helper))
    hc.sub("glue:helper name", r"\b%s\(const std::vector<tag_t>& level" % re.escape(helper), "count(const std::vector<tag_t>& level")
    X.lower_inline_lambdas(hc)
    hc.sub("L15:auto it = reverse search", r"\b(?:const )?auto (\w+) = (std::find(?:_if)?\(std::rbegin\()", r"std::verif_rit \1 = \2")
    hc.sub("L15:auto it = forward search", r"\b(?:const )?auto (\w+) = (std::find(?:_if)?\((?:std::begin\(|\w+\.begin\())", r"tag_t* \1 = \2")
    write(work, "path_count.inc", hc.text + "\n")
    write(work, "path_struct.inc", "static void verif_path_struct(void)\n{\n" + "".join(
        '    __CPROVER_assert(0, "c06.path.every-indexed-XPath-step-counts-the-siblings-with-its-own-tag: %s");\n' % b.replace('"', "'") for b in struct_bad) + "}\n")
    slices += [ps, hc]
    pobj = builder.cc(os.path.join(CDIR, "path06.cpp"), includes=[work], cpp=True)
    jobs.append(F.Job("c06_path_count", "h_c06_path_count", [pobj], timeout=300, unwind=8,
                      functions=["count(const std::vector<tag_t>&, tag_t) (xmlreader.cpp)", "Path::str (structure of the switch: each indexed step prints count(level, its own tag))"],
                      bound_note="levels of <= 6 siblings over three tags (the helper is generic in the tag)"))
    # ---- part C: under which XPath the XML reader hands a text block to the grammar (the scripts of C04's kernel K1, with
    #      the c06.reader.* obligations switched on instead of the c04.* ones)
    from checks import C04
    w4 = os.path.join(work, "c04"); os.makedirs(w4, exist_ok=True)
    xj, xs = C04.reader_jobs(w4, builder, for_c06=True, tier=tier)
    jobs += xj
    slices += xs
    return {
        "jobs": jobs, "slices": [s.info() for s in slices],
        "checker_cmd": "part A: goto-cc; goto-instrument --dfcc <h> --enforce-contract <f> [--replace-call-with-contract g] --apply-loop-contracts; cbmc (unbounded). part B: assume/call/assert harnesses, cbmc --unwind 10 --unwinding-assertions",
        "drops": ["route C for find(): the std::vector<line_t> is its data pointer + size, the reference result is the index (rewrites C1-C5 logged per slice)",
                  "error_t::str: string formatting dropped, the unknown-position guard and the four operands of std::to_string kept in order (C6)",
                  "paths (shared_ptr<std::string>) and message strings are identities"],
        "trusted_base": ["CBMC 6.11 (C front end + dfcc loop contracts; C++ front end for part B)", "stubs in contracts/C06/pos06.cpp: fixed-capacity std::vector<line_t>/std::vector<error_t>, path/message identities, ParserBuilder dispatch to the sliced ExpressionBuilder::add_position / AbstractBuilder::set_position"],
        "assumptions": ["flex calls YY_USER_ACTION once per matched token and the newline rules of lexer.l call tracker.newline once per consumed line break (generated scanner: not under contract; YY_USER_ACTION's text is checked to be the expected three statements)",
                        "XML reader: that a label's text is parsed under the path state of that label element, and that location / branchpoint diagnostics are attributed to their element, IS under contract (c06_xpath_*: Path as a per-level (tag, sibling index) ghost); of the text Path::str prints for a path state only the sibling index is (c06_path_count: the real count helper + the structure of the switch; the ghost's index is that count); Path::push/pop on the real list of vectors and the per-block calls for declarations / parameters / system / queries are not",
                        "the type checker attaching the right expression position to each diagnostic (TypeChecker::handleError) is not under contract",
                        "sortedness of the table is maintained by add() (c06_add) and used in c06_find_unique by instantiation at the two needed index pairs; the step from adjacent to global monotonicity is the usual induction (meta)",
                        "tracker.position does not wrap (no unsigned overflow in ++position / position += n): history dependent, belongs to C15",
                        "the fault-injection half of the statement (an error is reported inside the faulty block; undeclared identifiers are covered exactly) is not decided here"],
        "explanation": "",
    }


def replay(rec):
    rc, out = native.run_replay("c06_probe", [])
    import json
    try:
        res = json.loads(out[out.index("{"):])
    except Exception:
        return {"confirmed": None, "detail": {"rc": rc, "raw": out[-1500:]}}
    failed = [k for k, v in res.items() if v is not True]
    if failed:
        return {"confirmed": True, "detail": {"failed": failed, "report": res, "why": "diagnostic positions of the native probe models are wrong"},
                "real_code": "libUTAP built from /repo's working tree"}
    return {"confirmed": None, "detail": {"report": res, "why": "no position of the native probe table is wrong"}}
