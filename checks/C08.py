"""C08 (kernel) - the document constructors keep the structural invariants clients rely on."""
import os
import re

from tools import framework as F
from tools import extract as X
from checks import tc_common as T
from checks import native
from checks import C19

CDIR = os.path.join(F.VERIF, "contracts", "C08")

FUNCS = [("declarations_t::add_function", r"^bool declarations_t::add_function\(type_t type, string name, position_t pos, function_t\*& fun\)"),
         ("template_t::add_location", r"^location_t& template_t::add_location\(const string& name, expression_t inv, expression_t er, position_t pos\)"),
         ("template_t::add_branchpoint", r"^branchpoint_t& template_t::add_branchpoint\(const string& name, position_t pos\)"),
         ("template_t::add_edge", r"^edge_t& template_t::add_edge\(symbol_t src, symbol_t dst, bool control, string actname\)"),
         ("Document::add_template", r"^template_t& Document::add_template\(const string& name, frame_t params, position_t position, const bool is_TA,\s*const string& typeLSC, const string& mode\)"),
         ("Document::add_dynamic_template", r"^template_t& Document::add_dynamic_template\(const std::string& name, frame_t params, position_t pos\)"),
         ("Document::add_instance", r"^instance_t& Document::add_instance\(const string& name, instance_t& inst, frame_t params,\s*const vector<expression_t>& arguments, position_t pos\)"),
         ("Document::add_LSC_instance", r"^instance_t& Document::add_LSC_instance\(const string& name, instance_t& inst, frame_t params,\s*const vector<expression_t>& arguments, position_t pos\)"),
         ("Document::add_process", r"^void Document::add_process\(instance_t& instance, position_t pos\)"),
         ("Document::add_variable(declarations_t*)", r"^variable_t\* Document::add_variable\(declarations_t\* context, type_t type, const string& name, expression_t initial,\s*position_t pos\)"),
         ("Document::add_variable_to_function", r"^variable_t\* Document::add_variable_to_function\(function_t\* function, frame_t frame, type_t type, const string& name,\s*expression_t initial, position_t pos\)"),
         ("Document::add_variable(list&)", r"^variable_t\* Document::add_variable\(list<variable_t>& variables, frame_t frame, type_t type, const string& name,\s*position_t pos\)")]


def write(work, name, text):
    with open(os.path.join(work, name), "w") as f:
        f.write(text)


def build(tier, work, builder):
    slices = C19.expr_core(work)
    src = X.Source("src/document.cpp")
    fl = []
    main = [X.function(src, name, rx) for name, rx in FUNCS]
    # file-local static helpers the constructors call (a refactoring may split the shared part off): sliced with the same lowering
    used = "".join(s.text for s in main)
    helpers = [h for h in X.static_helpers(src) if re.search(r"\b%s\(" % re.escape(h.name.split()[-1]), used)]
    for sl in helpers + main:
        name = sl.name
        sl.sub("glue:name spelling->identity", r"(const )?(std::)?string&? (name)\b", "verif_name name")
        sl.sub("glue:string value->identity", r"(const )?(std::)?string&? (typeLSC|mode|actname)\b", r"verif_str \3")
        # a move out of an object that lives on (a member of another object) leaves it in an unspecified state: keep that
        sl.sub("L23b:x = std::move(y.m) -> x = y.m; y.m is left unspecified", r"([\w\.\->]+) = std::move\((\w+(?:\.|->)[\w\.\->]+)\);", r"\1 = \2; verif_moved_from(\2);")
        sl.sub("L23:std::move(x)->x", r"std::move\((\w+)\)", r"\1")
        sl.sub("L15:auto&->explicit type", r"auto& loc = locations\.emplace_back\(\);", "location_t& loc = locations.emplace_back();")
        sl.sub("L15:auto&->explicit type", r"auto& branchpoint = branchpoints\.emplace_back\(\);", "branchpoint_t& branchpoint = branchpoints.emplace_back();")
        sl.sub("L8a:if (auto i = frame.get_index_of(n)) -> if (optional i = ...; i.has_value())",
               r"\bif \((?:const )?auto (\w+) = ([^;{}]*?\.get_index_of\([^()]*\))\)", r"if (verif_opt_index \1 = \2; \1.has_value())")
        sl.sub("L15:auto i = frame.get_index_of(n)", r"\b(?:const )?auto (\w+) = ([^;{}]*?\.get_index_of\()", r"verif_opt_index \1 = \2")
        X.lower_if_init(sl, required=False)
        sl.sub("glue:list<T>->std::list<T>", r"\blist<variable_t>&", "std::list<variable_t>&")
        sl.sub("glue:vector<T>->std::vector<T>", r"const vector<expression_t>&", "const std::vector<expression_t>&")
        sl.sub("glue:type constructors over frames", r"type_t::create_(instance|LSC_instance|process|process_set)\(", r"verif_create_\1(")
        # L9: throw DuplicateDefinitionError(name) -> ghost flag + the function's normal result
        m = re.search(r"return ([^;]+);\s*\}\s*$", sl.text)
        if "throw DuplicateDefinitionError" in sl.text:
            if not m:
                raise X.ExtractionBroken(f"{name}: no final return statement to pair with the throw")
            sl.sub("L9:throw->ghost flag", r"throw DuplicateDefinitionError\(name\);", "{ verif_thrown = 1; return %s; }" % m.group(1), required=True)
        fl.append(sl)
    write(work, "document_ctors.inc", "\n".join(s.text for s in fl) + "\n")
    # DocumentBuilder::process, from the resolved symbol on: marks the template as used and appends the process
    bsrc = X.Source("src/DocumentBuilder.cpp")
    bp = X.function(bsrc, "DocumentBuilder::process", r"^void DocumentBuilder::process\(const char\* name\)")
    pt = X.region(bsrc, "DocumentBuilder::process (from the resolved instance to add_process)", r"^\s*(auto|instance_t)&\s*\w+ = \*static_cast<instance_t\*>\(symbol\.get_data\(\)\);",
                  r"^\s*proc_priority\(name\);", within=(bp.start, bp.end))
    pt.sub("L15:auto&->instance_t&", r"\bauto& (\w+) = \*static_cast<instance_t\*>", r"instance_t& \1 = *static_cast<instance_t*>")
    write(work, "builder_process.inc", "void DocumentBuilder::process_tail(symbol_t symbol)\n{\n" + pt.text + "\n}\n")
    fl = fl + [pt]
    write(work, "kinds.h", T.kinds_header())
    slices += fl
    obj = builder.cc(os.path.join(CDIR, "doc08.cpp"), includes=[work, os.path.join(X.REPO, "include")], cpp=True)
    hobj = builder.cc(os.path.join(CDIR, "h_c08.c"), includes=[work])
    jobs = []
    for nm, fns in (("location", ["template_t::add_location"]), ("branchpoint", ["template_t::add_branchpoint"]), ("edge", ["template_t::add_edge"]),
                    ("function", ["declarations_t::add_function"]), ("variable", ["Document::add_variable (3 overloads)", "Document::add_variable_to_function"]),
                    ("template", ["Document::add_template", "Document::add_dynamic_template"]), ("instance", ["Document::add_instance"]),
                    ("lsc_instance", ["Document::add_LSC_instance"]), ("process", ["Document::add_process"])):
        jobs.append(F.Job("c08_" + nm, "h_c08_" + nm, [obj, hobj], timeout=300, unwind=14, functions=fns,
                          bound_note="containers of <= 4 elements, frames of <= 3 symbols"))
    # for C17 (run there, not here): the system line marks the template of every process as instantiated
    marks = F.Job("c17_process_marks_template", "h_c08_process_marks_template", [obj, hobj], timeout=300, unwind=14,
                  functions=["DocumentBuilder::process (from the resolved instance on)", "Document::add_process"],
                  bound_note="containers of <= 4 elements, frames of <= 3 symbols")
    return {
        "jobs": jobs, "lemma_jobs": [marks], "slices": [s.info() for s in slices],
        "drops": ["the struct declarations of document.h are trusted stand-ins with the same member names (only the members the constructors touch)"],
        "trusted_base": ["CBMC 6.11 C++ front end + SAT", "stubs/scope_env.h arena frames/symbols (behaviour = the contracts proved for the real frame_t in C07)",
                         "std::list/std::deque never move their elements (pointer stability: the reason the real containers were chosen)",
                         "type constructors over frames (type_t::create_instance etc.): the arity of the result is the size of the frame"],
        "assumptions": ["that no later code overwrites uid / the user pointer, and that edge end points handed to add_edge belong to the edge's own template (decided by resolve at the call site in the builders) are not under contract",
                        "'an accepted TA template has an initial location' is not under contract (add_process / add_LSC_instance are, since round 11)",
                        "the invariants are shown to be established/preserved by each constructor; that parses only ever go through these constructors is the builders' business"],
        "explanation": "",
    }


def replay(rec):
    rc, out = native.run_replay("c08_probe", [])
    import json
    try:
        res = json.loads(out[out.index("{"):])
    except Exception:
        return {"confirmed": None, "detail": {"rc": rc, "raw": out[-1500:]}}
    failed = [k for k, v in res.items() if v is not True]
    if failed:
        return {"confirmed": True, "detail": {"failed": failed, "report": res}, "real_code": "libUTAP built from /repo's working tree"}
    return {"confirmed": None, "detail": {"report": res}}
