"""C11 - expressions that must be side-effect free are rejected if they can write state."""
import os
import re

from tools import framework as F
from tools import extract as X
from checks import tc_common as T
from checks import native

CDIR = os.path.join(F.VERIF, "contracts", "C11")
EX = "src/expression.cpp"


def write(work, name, text):
    with open(os.path.join(work, name), "w") as f:
        f.write(text)


def expr_set_functions():
    """REAL get_symbols / collect_possible_writes / collect_possible_reads / changes_* / depends_on."""
    src = X.Source(EX)
    out = []
    gs = X.function(src, "expression_t::get_symbols", r"^void expression_t::get_symbols\(std::set<symbol_t>& symbols\) const")
    X.rename_self_calls(gs, "get_symbols", pattern=r"\.get_symbols\(", minimum=0)
    cw = X.function(src, "expression_t::collect_possible_writes", r"^void expression_t::collect_possible_writes\(set<symbol_t>& symbols\) const")
    X.rename_self_calls(cw, "collect_possible_writes", pattern=r"\.collect_possible_writes\(", minimum=0)
    X.rename_self_calls(cw, "get_symbols", pattern=r"\.get_symbols\(", minimum=0, rule="L12b:callee->contract")
    cr = X.function(src, "expression_t::collect_possible_reads", r"^void expression_t::collect_possible_reads\(set<symbol_t>& symbols, bool collectRandom\) const")
    X.rename_self_calls(cr, "collect_possible_reads", pattern=r"\.collect_possible_reads\(", minimum=0)
    def lower_autos(sl):
        """Rule L15 by the shape of the initialiser (the collectors use the same few accessors)."""
        X.lower_if_init(sl, required=False)
        sl.sub("L15:auto->symbol_t", r"\bauto (\w+) = ([^;]*?\.get_symbol\(\))", r"symbol_t \1 = \2")
        sl.sub("L15:auto->type_t", r"\bauto (\w+) = ([^;]*?\.get_type\(\))", r"type_t \1 = \2")
        sl.sub("L15:auto->T*", r"\bauto\*? (\w+) = static_cast<(\w+)\*>", r"\2* \1 = static_cast<\2*>")
        sl.sub("L15:auto*->void*", r"\bauto\* (\w+) = ([^;]*?\.get_data\(\))", r"void* \1 = \2")
        if re.search(r"\bauto\b", sl.text):
            raise X.ExtractionBroken(f"slice {sl.name}: an `auto` declaration rule L15 cannot type")
    lower_autos(cr)
    lower_autos(cw)
    cv = X.function(src, "expression_t::changes_variable", r"^bool expression_t::changes_variable\(const std::set<symbol_t>& symbols\) const")
    ca = X.function(src, "expression_t::changes_any_variable", r"^bool expression_t::changes_any_variable\(\) const")
    ca.sub("glue:rename-definition(real vs ghost stub)", r"expression_t::changes_any_variable\(\)", "expression_t::changes_any_variable_real()", required=True)
    do = X.function(src, "expression_t::depends_on", r"^bool expression_t::depends_on\(const std::set<symbol_t>& symbols\) const")
    for f in (cv, ca):
        f.sub("L4:auto x = std::set<symbol_t>{}", r"auto changes = std::set<symbol_t>\{\};", "verif_symset changes;", required=True)
        f.sub("L12b:collect_possible_writes(*this)->contract", r"\bcollect_possible_writes\(changes\)", "collect_possible_writes__contract(changes)", required=True)
    do.sub("L12b:collect_possible_reads(*this)->contract", r"\bcollect_possible_reads\(dependencies\)", "collect_possible_reads__contract(dependencies)", required=True)
    # file-local static helpers a refactoring may have split off the three collectors come along, with the same lowering
    # (calls on a sub-expression go to the callee's contract)
    helpers = []
    used = "".join(f.text for f in (gs, cw, cr))
    for h in X.static_helpers(src):
        hname = h.name.split()[-1]
        if re.search(r"\b%s\(" % re.escape(hname), used) and re.search(r"set<symbol_t>", h.text):
            for fn in ("get_symbols", "collect_possible_writes", "collect_possible_reads"):
                X.rename_self_calls(h, fn, pattern=r"\.%s\(" % fn, minimum=0, rule="L12b:callee->contract")
            h.sub("L15:auto*->explicit pointer", r"auto\* (\w+) = \((\w+)\*\)", r"\2* \1 = (\2*)")
            h.sub("L15:auto*->explicit pointer", r"auto\* (\w+) = static_cast<(\w+)\*>", r"\2* \1 = static_cast<\2*>")
            h.sub("L17:std::set<symbol_t>->bitmask", r"(std::)?set<symbol_t>", "verif_symset")
            helpers.append(h)
    for f in (gs, cw, cr, cv, ca, do):
        f.sub("L17:std::set<symbol_t>->bitmask", r"(std::)?set<symbol_t>", "verif_symset", required=(f is not ca))
    return helpers + [gs, cw, cr, cv, ca, do]


VE = r"^void TypeChecker::visitEdge\(edge_t& edge\)"
VIO = r"^void TypeChecker::visitIODecl\(iodecl_t& iodecl\)"
VDA = r"^void TypeChecker::visitDocAfter\(Document& doc\)"

# name, enclosing function, anchor of the if-chain, parameter list of the generated member, C++ set-up + call, options
GATES = [
    dict(name="guard", fn=VE, anchor=r"if \(!is_guard\(edge\.guard\)\) \{", params="edge_t& edge",
         call="edge_t edge; edge.guard = X; tc.gate_guard(edge);"),
    dict(name="sync", fn=VE, anchor=r"if \(!channel\.is_channel\(\)\) \{", params="edge_t& edge, type_t channel", trunc=True,
         call="edge_t edge; edge.sync = X; tc.gate_sync(edge, type_t::verif_any_type());"),
    dict(name="probability", fn=VE, anchor=r"if \(!is_probability\(edge\.prob\)\) \{", params="edge_t& edge",
         call="edge_t edge; edge.prob = X; tc.gate_probability(edge);"),
    dict(name="invariant", fn=r"^void TypeChecker::visitLocation\(location_t& loc\)", anchor=r"if \(!isInvariantWR\(inv\)\) \{",
         params="location_t& loc, expression_t& inv", trunc=True, call="location_t loc; loc.invariant = X; tc.gate_invariant(loc, loc.invariant);"),
    dict(name="variable_initialiser", fn=r"^void TypeChecker::visitVariable\(variable_t& variable\)",
         anchor=r"if \(!isCompileTimeComputable\(variable\.init\)\) \{", params="variable_t& variable",
         call="variable_t variable; variable.uid = symbol_t(0); variable.init = X; tc.gate_variable_initialiser(variable);"),
    dict(name="hybrid_clock", fn=r"^void TypeChecker::visitHybridClock\(expression_t e\)", anchor=r"if \(!is_clock\(e\)\) \{", params="expression_t e",
         call="tc.gate_hybrid_clock(X);"),
    dict(name="iodecl_parameter", fn=VIO, anchor=r"if \(!is_integer\(e\)\) \{", params="expression_t e", call="tc.gate_iodecl_parameter(X);"),
    dict(name="iodecl_input_index", fn=VIO, within=r"for \(auto expr : iodecl\.inputs\)", anchor=r"if \(!isCompileTimeComputable\(expr\[1\]\)\) \{",
         params="expression_t expr", call="tc.gate_iodecl_input_index(X);", array_node=True),
    dict(name="iodecl_output_index", fn=VIO, within=r"for \(auto expr : iodecl\.outputs\)", anchor=r"if \(!isCompileTimeComputable\(expr\[1\]\)\) \{",
         params="expression_t expr", call="tc.gate_iodecl_output_index(X);", array_node=True),
    dict(name="chan_priority_head_index", fn=VDA, within_if=r"if \(!i_default && checkExpression\(i\.head\)\) \{", anchor=r"if \(!isCompileTimeComputable\(expr\[1\]\)\) \{",
         params="chan_priority_t& i, expression_t expr", call="chan_priority_t i; i.head = X; tc.gate_chan_priority_head_index(i, X);", array_node=True),
    dict(name="chan_priority_tail_index", fn=VDA, within_if=r"if \(!j_default && checkExpression\(j\.second\)\) \{", anchor=r"if \(!isCompileTimeComputable\(expr\[1\]\)\) \{",
         params="verif_entry& j, expression_t expr", call="verif_entry j; j.second = X; tc.gate_chan_priority_tail_index(j, X);", array_node=True),
    dict(name="message", fn=r"^void TypeChecker::visitMessage\(message_t& message\)", anchor=r"if \(!channel\.is_channel\(\)\) \{", params="message_t& message, type_t channel",
         call="message_t message; message.label = X; tc.gate_message(message, type_t::verif_any_type());"),
    dict(name="condition", fn=r"^void TypeChecker::visitCondition\(condition_t& condition\)", anchor=r"if \(!is_guard\(condition\.label\)\) \{", params="condition_t& condition",
         call="condition_t condition; condition.label = X; tc.gate_condition(condition);"),
    dict(name="instance_argument", fn=r"^void TypeChecker::visitInstance\(instance_t& instance\)", anchor=r"if \(argument\.changes_any_variable\(\)\) \{", params="expression_t argument",
         call="tc.gate_instance_argument(X);"),
    dict(name="property", fn=r"^void TypeChecker::visitProperty\(expression_t expr\)", anchor=r"if \(expr\.changes_any_variable\(\)\) \{", params="expression_t expr",
         call="tc.gate_property(X);"),
    dict(name="assert_statement", fn=r"^int32_t TypeChecker::visitAssertStatement\(AssertStatement\* stat\)",
         anchor=r"if \(checkExpression\(stat->expr\) && stat->expr\.changes_any_variable\(\)\) \{", params="AssertStatement* stat",
         call="AssertStatement st; st.expr = X; tc.gate_assert_statement(&st);"),
    dict(name="local_variable_initialiser", fn=r"^int32_t TypeChecker::visitBlockStatement\(BlockStatement\* stat\)", anchor=r"if \(var->init\.changes_any_variable\(\)\) \{",
         params="variable_t* var, symbol_t symbol", call="variable_t v; v.init = X; tc.gate_local_variable_initialiser(&v, symbol_t(0));"),
]
FUNCS = [("checkPredicate", r"^bool TypeChecker::checkPredicate\(const expression_t& predicate\)"),
         ("checkMonitoredExpr", r"^bool TypeChecker::checkMonitoredExpr\(const expression_t& expr\)")]
# quantifier / query clauses of checkExpression: (case label, node set-up)
# The query-only clauses (SIMULATE, SUP_VAR, MIN_EXP) are deliberately NOT gated here: queries are covered by
# visitProperty's root gate (changes_any_variable is recursive), so a per-clause obligation would demand more
# than the property states (a first version raised a false alarm on SUP_VAR's clock-typed list elements).
CLAUSES = ["FORALL", "EXISTS", "SUM"]


STMT_MEMBERS = ["ExprStatement", "AssertStatement", "ForStatement", "WhileStatement", "DoWhileStatement", "BlockStatement",
                "SwitchStatement", "CaseStatement", "DefaultStatement", "IfStatement", "ReturnStatement"]
ABS_MEMBERS = ["Statement", "EmptyStatement", "ExprStatement", "AssertStatement", "ForStatement", "IterationStatement", "WhileStatement",
               "DoWhileStatement", "BlockStatement", "SwitchStatement", "CaseStatement", "DefaultStatement", "IfStatement", "BreakStatement",
               "ContinueStatement", "ReturnStatement"]


def stmt_visitors():
    src = X.Source("src/statement.cpp")
    out = []
    for m in ABS_MEMBERS:
        sl = X.function(src, f"AbstractStatementVisitor::visit{m}", r"^int32_t AbstractStatementVisitor::visit%s\(%s\* stat\)" % (m, m))
        if m == "BlockStatement":
            sl.sub("L7:range-for(auto& statement : *stat)", r"for \(auto& statement : \*stat\) \{",
                   "for (Statement** verif_it = stat->begin(); verif_it != stat->end(); ++verif_it) { Statement*& statement = *verif_it;", required=True)
        out.append(sl)
    for m in STMT_MEMBERS:
        sl = X.function(src, f"ExpressionVisitor::visit{m}", r"^int32_t ExpressionVisitor::visit%s\(%s\* stat\)" % (m, m))
        if m == "BlockStatement":
            sl.sub("L7:range-for(symbol_t& symbol : stat->get_frame())", r"for \(symbol_t& symbol : stat->get_frame\(\)\) \{",
                   "frame_t verif_frame = stat->get_frame(); for (symbol_t* verif_it = verif_frame.begin(); verif_it != verif_frame.end(); ++verif_it) { symbol_t& symbol = *verif_it;", required=True)
            sl.sub("L7:range-for(std::unique_ptr<Statement>& s : *stat)", r"for \(std::unique_ptr<Statement>& s : \*stat\) \{",
                   "for (Statement** verif_it2 = stat->begin(); verif_it2 != stat->end(); ++verif_it2) { Statement*& s = *verif_it2;", required=True)
            X.lower_if_init(sl)
            sl.sub("L15:auto*->void*", r"auto\* data = symbol\.get_data\(\)", "void* data = symbol.get_data()", required=True)
        out.append(sl)
    cc = X.function(src, "CollectChangesVisitor::visitExpression", r"^void CollectChangesVisitor::visitExpression\(expression_t expr\)")
    cc.sub("L12b:collect_possible_writes->contract", r"\.collect_possible_writes\(", ".collect_possible_writes__contract(", required=True)
    cd = X.function(src, "CollectDependenciesVisitor::visitExpression", r"^void CollectDependenciesVisitor::visitExpression\(expression_t expr\)")
    cd.sub("L12b:collect_possible_reads->contract", r"\.collect_possible_reads\(", ".collect_possible_reads__contract(", required=True)
    out += [cc, cd]
    return out


def truncate_final_else(sl):
    """Rule L18: the trailing plain `else { ... }` block of a gate chain (code that runs only when no
    error branch fired) is replaced by an empty block."""
    ts = X.Source("<slice>", text=sl.text)
    # find the last top-level 'else' that is not followed by 'if'
    depth = 0
    last = None
    for m in re.finditer(r"\belse\b", ts.text):
        if ts.mask[m.start()] != "c":
            continue
        # top-level: brace depth 0 relative to the chain
        d = 0
        for i in range(m.start()):
            if ts.mask[i] == "c":
                d += ts.text[i] == "{"
                d -= ts.text[i] == "}"
        if d == 0:
            last = m
    if last is None:
        raise X.ExtractionBroken(f"{sl.name}: L18 requested but the chain has no top-level else")
    j = last.end()
    while ts.text[j] in " \t\n":
        j += 1
    if ts.text.startswith("if", j):
        raise X.ExtractionBroken(f"{sl.name}: L18 requested but the chain ends in else-if")
    be = ts.match_brace(j)
    sl.text = ts.text[:j] + "{ /* L18: accepting branch dropped */ }" + ts.text[be:]
    sl.rules["L18:final-else-block-dropped"] = 1


def gate_slices():
    src = X.Source(T.TC)
    out = []
    for g in GATES:
        fn = X.function(src, "fn:" + g["name"], g["fn"])
        rng = (fn.start, fn.end)
        if g.get("within"):
            # the enclosing loop tells two textually equal gates of one function apart; when a refactoring has merged them
            # (one shared helper / local lambda) the loop anchor is gone and the gate is unique in the function
            try:
                st = X.statement(src, g["name"] + ":enclosing-loop", g["within"], rng)
                rng = (st.start, st.end)
            except X.ExtractionBroken:
                pass
        if g.get("within_if"):
            try:
                st = X.if_chain(src, g["name"] + ":enclosing-if", g["within_if"], rng)
                rng = (st.start, st.end)
            except X.ExtractionBroken:
                pass  # as above: merged into one shared helper / lambda
        sl = X.if_chain(src, "typechecker.cpp gate:" + g["name"], g["anchor"], rng)
        if g.get("trunc"):
            truncate_final_else(sl)
        T.lower_literals(sl)
        g["slice"] = sl
        out.append(sl)
    return out


def build(tier, work, builder):
    slices = []
    write(work, "kinds.h", T.kinds_header())
    tp = T.type_preds(); write(work, "type_preds.inc", tp.text); slices.append(tp)
    fs = expr_set_functions()
    write(work, "expr_sets.inc", "\n".join(f.text for f in fs) + "\n")
    slices += fs
    exobj = builder.cc(os.path.join(CDIR, "ex11.cpp"), includes=[work, os.path.join(X.REPO, "include")], cpp=True)
    hobj = builder.cc(os.path.join(CDIR, "h_c11.c"), includes=[work])
    jobs = []

    def J(name, entry, fns, **kw):
        jobs.append(F.Job(name, entry, [exobj, hobj], timeout=300, unwind=9, functions=fns,
                          bound_note="arity <= 4; 8 symbols (set = 8-bit mask)", **kw))
    J("c11_get_symbols", "h_c11_get_symbols", ["expression_t::get_symbols (one level)"])
    J("c11_collect_writes", "h_c11_collect_writes", ["expression_t::collect_possible_writes (one level)"])
    J("c11_changes_any", "h_c11_changes_any", ["expression_t::changes_any_variable"])
    J("c11_changes_variable", "h_c11_changes_variable", ["expression_t::changes_variable"])
    J("c11_collect_reads", "h_c11_collect_reads", ["expression_t::collect_possible_reads (one level)"])
    J("c11_depends_on", "h_c11_depends_on", ["expression_t::depends_on"])

    # ---- part 2: the gates ------------------------------------------------------------
    hp = T.helpers(); write(work, "helpers.inc", hp.text); slices.append(hp)
    gs = gate_slices()
    slices += gs
    src = X.Source(T.TC)
    decl, defs, wrap, harn = [], [], [], []
    for g in GATES:
        decl.append(f"    void gate_{g['name']}({g['params']});")
        # locals of the enclosing function that the sliced chain mentions (declared before it): arbitrary values
        fn = X.function(src, "fn:" + g["name"], g["fn"])
        before = src.text[fn.start:g["slice"].start]
        locs = []
        for lm in re.finditer(r"^\s*(bool|int|int32_t|uint32_t|size_t)\s+(\w+)\s*(?:=[^;]*)?;", before, re.M):
            if re.search(r"\b%s\b" % re.escape(lm.group(2)), g["slice"].text) and lm.group(2) not in g["params"]:
                locs.append("    %s %s; /* local of the enclosing function: arbitrary */\n" % (lm.group(1), lm.group(2)))
        # the gate sits in a local lambda (a refactoring merged duplicated code): the lambda's expression parameter is the gate's
        # subject under another name
        fts = X.Source("<fn>", text=src.text[fn.start:fn.end])
        rel = g["slice"].start - fn.start
        for lm in re.finditer(r"\[[^\]]*\]\s*\(([^)]*)\)\s*(?:mutable\s*)?\{", fts.text):
            b = lm.end() - 1
            if fts.mask[lm.start()] != "c" or not (b < rel < fts.match_brace(b)):
                continue
            subj = re.findall(r"expression_t&?\s+(\w+)", g["params"])
            for pm in re.finditer(r"(?:const\s+)?expression_t\s*&?\s*(\w+)", lm.group(1)):
                pn = pm.group(1)
                if subj and pn not in re.findall(r"\b(\w+)\b", g["params"]) and re.search(r"\b%s\b" % re.escape(pn), g["slice"].text):
                    locs.append("    expression_t %s = %s; /* parameter of the enclosing lambda: the gate's subject */\n" % (pn, subj[-1]))
        defs.append(f"void TypeChecker::gate_{g['name']}({g['params']})\n{{\n" + "".join(locs) + "    for (int verif_once = 0; verif_once < 1; verif_once++) {\n"
                    + g["slice"].text + "\n    }\n}\n")
        setup = "    setup_X(changes, %d);\n" % (1 if g.get("array_node") else 0)
        wrap.append(f'extern "C" void w_c11_gate_{g["name"]}(int changes, int* nerr, int* se)\n{{\n{setup}    TypeChecker tc; expression_t X(0);\n    {g["call"]}\n    *nerr = verif_err_count; *se = verif_side_effect_errors;\n}}\n')
    for name, rx in FUNCS:
        f = X.function(src, "TypeChecker::" + name, rx)
        T.lower_literals(f)
        slices.append(f)
        decl.append(f"    bool {name}(const expression_t&);")
        defs.append(f.text + "\n")
        wrap.append(f'extern "C" void w_c11_gate_{name}(int changes, int* nerr, int* se)\n{{\n    setup_X(changes, 0);\n    TypeChecker tc; expression_t X(0);\n    bool r = tc.{name}(X);\n    *nerr = verif_err_count + (r ? 0 : 0); *se = verif_side_effect_errors;\n}}\n')
    mini, sl = T.mini_check_expression(CLAUSES)
    slices += sl
    for c in CLAUSES:
        wrap.append(f'extern "C" void w_c11_gate_clause_{c}(int changes, int which, int* nerr, int* se)\n{{\n    setup_clause({c}, changes, which);\n    TypeChecker tc;\n    tc.checkExpression_clauses(expression_t(0));\n    *nerr = verif_err_count; *se = verif_side_effect_errors;\n}}\n')
    write(work, "gates_decl.inc", "\n".join(decl) + "\n")
    write(work, "gates.inc", "\n".join(defs) + "\n" + mini)
    write(work, "gate_wrappers.inc", "\n".join(wrap))
    write(work, "msg_ids.h", T.msg_header())
    names = [g["name"] for g in GATES] + [n for n, _ in FUNCS]
    h = ['#include "kinds.h"', '#define REACH __CPROVER_assert(0, "reach")']
    for n in names:
        h.append(f"void w_c11_gate_{n}(int changes, int* nerr, int* se);")
        h.append(f"void h_c11_gate_{n}(void) {{ int changes, nerr, se; __CPROVER_assume(changes == 0 || changes == 1); w_c11_gate_{n}(changes, &nerr, &se);"
                 f' __CPROVER_assert(!changes || nerr > 0, "c11.gate.{n}.an-expression-that-can-write-is-rejected"); REACH; }}')
    for c in CLAUSES:
        h.append(f"void w_c11_gate_clause_{c}(int changes, int which, int* nerr, int* se);")
        h.append(f"void h_c11_gate_clause_{c}(void) {{ int changes, which, nerr, se; __CPROVER_assume((changes == 0 || changes == 1) && which >= 0 && which < 3); w_c11_gate_clause_{c}(changes, which, &nerr, &se);"
                 f' __CPROVER_assert(!changes || nerr > 0, "c11.gate.clause_{c}.a-quantified-or-monitored-expression-that-can-write-is-rejected"); REACH; }}')
    write(work, "h_gates.c", "\n".join(h) + "\n")
    gobj = builder.cc(os.path.join(CDIR, "gates11.cpp"), includes=[work, os.path.join(X.REPO, "include")], cpp=True, defines=["VERIF_MAXSUB=6"])
    hgobj = builder.cc(os.path.join(work, "h_gates.c"), includes=[work])
    for n in names:
        jobs.append(F.Job(f"c11_gate_{n}", f"h_c11_gate_{n}", [gobj, hgobj], timeout=300, unwind=8,
                          functions=[f"TypeChecker gate: {n} (typechecker.cpp, sliced if-chain)"], bound_note="index chains / argument lists <= 6"))
    for c in CLAUSES:
        jobs.append(F.Job(f"c11_gate_clause_{c}", f"h_c11_gate_clause_{c}", [gobj, hgobj], timeout=300, unwind=10,
                          functions=[f"TypeChecker::checkExpression case {c}"], bound_note="arity <= 6"))
    # ---- part 3: statement visitors ------------------------------------------------------
    sv = stmt_visitors()
    write(work, "stmt_visitors.inc", "\n".join(s.text for s in sv) + "\n")
    slices += sv
    sobj = builder.cc(os.path.join(CDIR, "st11.cpp"), includes=[work, os.path.join(X.REPO, "include")], cpp=True)
    shobj = builder.cc(os.path.join(CDIR, "h_st11.c"), includes=[work])
    for n in ("expr", "assert", "for", "while", "dowhile", "if", "return", "iteration", "block", "switch", "case", "default"):
        jobs.append(F.Job(f"c11_stmt_{n}", f"h_c11_stmt_{n}", [sobj, shobj], timeout=300, unwind=6,
                          functions=[f"ExpressionVisitor / AbstractStatementVisitor visit of a {n} statement (statement.cpp)"],
                          bound_note="block width <= 3 statements / 3 local variables"))
    jobs.append(F.Job("c11_collect_changes", "h_c11_collect_changes", [sobj, shobj], timeout=120, unwind=6, functions=["CollectChangesVisitor::visitExpression"]))
    jobs.append(F.Job("c11_collect_dependencies", "h_c11_collect_dependencies", [sobj, shobj], timeout=120, unwind=6, functions=["CollectDependenciesVisitor::visitExpression"]))
    # part 4: the tail of TypeChecker::visitFunction (function_t::changes / depends)
    tsrc = X.Source(T.TC)
    vf = X.function(tsrc, "TypeChecker::visitFunction", r"^void TypeChecker::visitFunction\(function_t& fun\)")
    s0, _ = tsrc.find_unique(r"^\s*CollectChangesVisitor visitor\(fun\.changes\);", vf.start, vf.end, what="visitFunction: CollectChangesVisitor")
    tail = X.Slice("TypeChecker::visitFunction (tail: changes / depends)", tsrc, s0, vf.end - 1)
    X.lower_local_lambdas(tail)
    X.lower_range_for(tail, "variable_t")
    tail.sub("L15:auto it = begin()", r"auto (\w+) = ([\w.]+)\.(begin|find)\(", r"verif_symset_it \1 = \2.\3(")
    tail.sub("L17:std::set<symbol_t>->bitmask", r"std::set<symbol_t>", "verif_symset")
    tail.sub("glue:std::next(it)", r"std::next\(it\)", "verif_next(it)")
    X.lower_ternary_assign(tail)
    tail.sub("L15:body.get()->body", r"fun\.body\.get\(\)", "fun.body")
    write(work, "visit_function_tail.inc", "void TypeChecker::visitFunction_tail(function_t& fun)\n{\n" + tail.text + "\n}\n")
    slices.append(tail)
    vfobj = builder.cc(os.path.join(CDIR, "vf11.cpp"), includes=[work, os.path.join(X.REPO, "include")], cpp=True)
    jobs.append(F.Job("c11_visit_function", "h_c11_visit_function", [vfobj, shobj], timeout=300, unwind=9,
                      functions=["TypeChecker::visitFunction (computation of function_t::changes and function_t::depends)"],
                      bound_note="<= 3 parameters, <= 3 locals, 8 symbols"))
    return {
        "jobs": jobs, "slices": [s.info() for s in slices],
        "drops": ["L18: the accepting else-branch of the sync / invariant gate chains", "everything around the sliced if-chains (loops over declarations, the DocumentVisitor traversal)"],
        "trusted_base": ["CBMC 6.11 C++ front end + SAT", "std::set<symbol_t> as a bit mask over 8 symbol ids (insert/find/begin/end/find_first_of)",
                         "flat type abstraction", "induction over tree height (meta-step)",
                         "stubs/tc_env.h: checkExpression / isCompileTimeComputable / changes_any_variable answered by ghost contracts; other callees arbitrary"],
        "assumptions": ["arity <= 4 (walkers), <= 6 (query clauses)", "well-formed nodes (arity of assignment / ++ / call / inline-if kinds as in expression_t::get_size)",
                        "statement visitors: each visit* body is under contract over flattened statement structs; the override table (which visit* runs for which statement class) is not; TypeChecker::visitFunction's computation of changes/depends from the walkers' result is (c11_visit_function)",
                        "that every side-effect-free context of the statement reaches one of the listed gates is the traversal's property (not under contract); array sizes / range bounds (checkType) have no gate at all - see known finding"],
        "explanation": "part 1: one-level induction steps for the set-collecting walkers; part 2: every `changes_any_variable()` gate of typechecker.cpp executed with the gated expression's W != {} ghost: an error must be recorded",
    }


WRITE_FORMS = {  # kind -> an integral-valued expression of that kind that writes the global `i`
    "ASSIGN": "(i = 1)", "ASS_PLUS": "(i += 1)", "ASS_MINUS": "(i -= 1)", "ASS_DIV": "(i /= 1)", "ASS_MOD": "(i %= 2)", "ASS_MULT": "(i *= 2)",
    "ASS_AND": "(i &= 1)", "ASS_OR": "(i |= 1)", "ASS_XOR": "(i ^= 1)", "ASS_LSHIFT": "(i <<= 1)", "ASS_RSHIFT": "(i >>= 1)",
    "POST_INCREMENT": "(i++)", "POST_DECREMENT": "(i--)", "PRE_INCREMENT": "(++i)", "PRE_DECREMENT": "(--i)",
    "FUN_CALL": "wr()", "COMMA": "(i = 1, 2)", "INLINE_IF": "((b ? i : j) = 1)", "ARRAY": "(a[0] = 1)", "DOT": "(s.f = 1)",
}
DECLS = "int i; int j; bool b; int a[3]; typedef struct { int f; } S; S s; chan ch[3]; clock x; int wr() { i = 1; return 1; } int viaref(int& p) { p = 1; return 1; }\n"
CTX_MODEL = DECLS.replace("{", "{{").replace("}", "}}") + """{extra}
process P({params}) {{
  {ldecl}
  state s0 {inv}, s1;
  init s0;
  trans s0 -> s1 {{ guard {guard}; {sync} assign {assign}; }};
}}
system {system};
"""


def ctx(guard="true", inv="", sync="", assign="j = 0", extra="", ldecl="", params="", system="P"):
    return native.parse_model(CTX_MODEL.format(guard=guard, inv=inv, sync=sync, assign=assign, extra=extra, ldecl=ldecl, params=params, system=system))


def contexts(w):
    """context name -> model with the writing expression w in that side-effect-free context"""
    return {
        "guard": dict(guard=f"{w} > 0"), "invariant": dict(inv="{ " + f"{w} > 0" + " }"), "sync": dict(sync=f"sync ch[{w}]!;"),
        "variable_initialiser": dict(extra=f"int v = {w};"), "assert_statement": dict(extra=f"void fa() {{ assert({w} > 0); }}"),
        "local_variable_initialiser": dict(extra=f"void fl() {{ int t = {w}; }}"),
        "instance_argument": dict(params="int q", system=f"Q", extra="", ldecl="", guard="true", inv="", sync="", assign="j = 0"),
        "clause_FORALL": dict(assign=f"b = forall (q : int[0,1]) ({w} > 0)"), "clause_EXISTS": dict(assign=f"b = exists (q : int[0,1]) ({w} > 0)"),
        "clause_SUM": dict(assign=f"j = sum (q : int[0,1]) {w}"),
    }


def replay(rec):
    names = T.kind_names()
    cex = rec.get("counterexample", {})
    job = rec["job"]
    tried = []
    if job.startswith("c11_stmt_"):
        bodies = {
            "expr": ["i++;"], "for": ["for (i = 0; j < 1; j++) {}", "int k; for (k = 0; i++ < 1; k++) {}", "int k; for (k = 0; k < 1; k++, i++) {}", "int k; for (k = 0; k < 1; k++) { i++; }"],
            "while": ["while (i++ < 1) {}", "int k = 0; while (k < 1) { k++; i++; }"], "dowhile": ["do {} while (i++ < 1);", "int k = 0; do { k++; i++; } while (k < 1);"],
            "if": ["if (i++ > 0) {}", "if (b) { i++; }", "if (b) {} else { i++; }"], "return": ["return i++;"], "iteration": ["for (q : int[0,1]) { i++; }"],
            "block": ["{ i++; }", "{ int t = i++; }"], "switch": [], "case": [], "default": [], "assert": [],
        }
        form = job[len("c11_stmt_"):]
        for body in bodies.get(form, []):
            r = ctx(guard="fs() > 0", extra="int fs() { " + body + " return 1; }")
            tried.append(body)
            if not r.get("crashed") and not r.get("errors"):
                return {"confirmed": True, "detail": {"function_body": body, "context": "guard fs() > 0", "result": r,
                                                      "why": "a guard calling a function that writes a global inside this statement form is accepted"}}
        return {"confirmed": None, "detail": {"tried": tried, "why": "no concrete model reproduces the failure"}}
    if job.startswith("c11_gate_"):
        gate = job[len("c11_gate_"):]
        cands = [(gate, w) for w in ("(i++)", "(i = 1)", "wr()", "viaref(i)")]
    else:
        k = None
        for key in ("x.kind", "kind"):
            try:
                k = names[int(cex[key])]
            except Exception:
                pass
        forms = [WRITE_FORMS[k]] if k in WRITE_FORMS else []
        forms += [w for w in ("(i ^= 1)", "(i++)", "wr()", "viaref(i)", "(a[0] = 1)", "(s.f = 1)", "((b ? i : j) = 1)") if w not in forms]
        cands = [("guard", w) for w in forms]
    for gate, w in cands:
        c = contexts(w).get(gate)
        if c is None:
            continue
        if gate == "instance_argument":
            r = native.parse_model(DECLS + "process P(int q) { state s0; init s0; }\nQ = P(" + w + ");\nsystem Q;\n")
        else:
            r = ctx(**c)
        tried.append(f"{gate}: {w}")
        if r.get("crashed"):
            continue
        if not r.get("errors"):
            return {"confirmed": True, "detail": {"context": gate, "write": w, "result": r, "why": "model with a write in a side-effect-free context is accepted"}}
    return {"confirmed": None, "detail": {"tried": tried, "why": "no concrete model reproduces the failure (other checks may reject the same input)"}}
