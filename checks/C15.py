"""C15 (kernel) - per-call re-initialisation of the parser/lexer globals: setStartToken, the static entry
prologues parse_XTA / parseProperty, utap_lex's start-token hand-off, PositionTracker::setPath."""
import os
import re

from tools import framework as F
from tools import extract as X
from checks import native

CDIR = os.path.join(F.VERIF, "contracts", "C15")


def write(work, name, text):
    with open(os.path.join(work, name), "w") as f:
        f.write(text)


def tracker_slice():
    lp = X.Source("src/libparser.h")
    pt = X.braced(lp, "struct PositionTracker", r"^struct PositionTracker")
    pt.sub("L4:member{}", r"uint32_t (line|offset|position)\{\};", r"uint32_t \1;", required=True)
    pt.sub("L19:shared_ptr<string>->path identity", r"std::shared_ptr<std::string>", "verif_path", required=True)
    pt.sub("L19:make_shared<string>(s)->path identity of s", r"std::make_shared<std::string>\(s\)", "verif_make_path(s)", required=True)
    pt.sub("glue:UTAP::ParserBuilder", r"UTAP::ParserBuilder\*", "ParserBuilder*", required=True)
    pt.sub("glue:const std::string&->path text identity", r"const std::string& s", "const verif_string& s", required=True)
    return pt


def build(tier, work, builder):
    slices = []
    py = X.Source("src/parser.y")
    # tokens: distinct ids in declaration order (what bison does)
    toks = []
    for m in re.finditer(r"^%token\s+(.*)$", py.text, re.M):
        for t in re.sub(r"<\w+>", " ", m.group(1)).split():
            if re.match(r"^T_\w+$", t) and t not in toks:
                toks.append(t)
    if len(toks) < 150:
        raise X.ExtractionBroken("parser.y: fewer %token declarations than expected")
    # start production: first symbol of every alternative of `Uppaal`
    m = re.search(r"^Uppaal:\s*(.*?)^\s*;", py.text, re.M | re.S)
    if not m:
        raise X.ExtractionBroken("parser.y: start production Uppaal not found")
    body = re.sub(r"/\*.*?\*/", "", m.group(1), flags=re.S)
    body = re.sub(r"\{[^{}]*\}", "", body)
    starts = []
    for alt in body.split("|"):
        sy = alt.split()
        if sy:
            if sy[0] not in toks:
                raise X.ExtractionBroken(f"parser.y: start alternative does not begin with a token: {sy[0]}")
            starts.append(sy[0])
    th = ["/* GENERATED from src/parser.y (%token declarations, start production) */", "enum {"]
    th += [f"    {t} = {258 + i}," for i, t in enumerate(toks)] + ["};"]
    th.append("#define IS_START_TOKEN(t) (" + " || ".join(f"(t) == {s}" for s in starts) + ")")
    write(work, "tokens.h", "\n".join(th) + "\n")
    # xta_part_t / syntax_t
    ch_ = X.Source("include/utap/common.h")
    xp = X.braced(ch_, "enum xta_part_t", r"^enum xta_part_t \{")
    names = [n.strip() for n in re.sub(r"/\*.*?\*/|//[^\n]*", "", xp.text[xp.text.index("{") + 1:xp.text.rindex("}")], flags=re.S).split(",") if n.strip()]
    if "S_PROPERTY" not in names or any(not re.match(r"^S_\w+$", n) for n in names):
        raise X.ExtractionBroken("xta_part_t: unexpected enumerators")
    lp = X.Source("src/libparser.h")
    st = X.braced(lp, "enum class syntax_t", r"^enum class syntax_t")
    env = {}
    for mm in re.finditer(r"(\w+)\s*=\s*([^,}]+)", st.text[st.text.index("{"):]):
        expr = re.sub(r"(\d+)u", r"\1", mm.group(2))
        env[mm.group(1)] = eval(expr, {}, dict(env))
    ph = ["/* GENERATED from include/utap/common.h (xta_part_t) and src/libparser.h (syntax_t) */",
          f"#define VALID_PART(p) ((p) >= 0 && (p) <= {len(names) - 1})", f"#define PART_S_PROPERTY {names.index('S_PROPERTY')}"]
    ph += [f"#define SYNTAX_{k} {v}u" for k, v in env.items()]
    write(work, "parts.h", "\n".join(ph) + "\n")
    write(work, "syntax_t.inc", st.text + "\n")
    pt = tracker_slice()
    write(work, "tracker.inc", pt.text + "\n")
    # %code block: globals + utap_lex
    g0 = X.region(py, "parser.y:%code globals (ch, syntax, syntax_token)", r"^static ParserBuilder \*ch;", r"^static int utap_lex\(\)")
    ul = X.function(py, "utap_lex", r"^static int utap_lex\(\)")
    g1 = X.region(py, "parser.y:%code globals (rootTransId, types)", r"^static char rootTransId\[MAXLEN\];", r"^#define CALL\(")
    write(work, "parser_globals.inc", g0.text + "\n" + ul.text + "\n" + g1.text + "\n")
    sst = X.function(py, "setStartToken", r"^static void setStartToken\(xta_part_t part, bool newxta\)")
    px = X.function(py, "static parse_XTA(builder, newxta, part, xpath)", r"^static int32_t parse_XTA\(ParserBuilder \*aParserBuilder,\s*bool newxta, xta_part_t part, std::string xpath\)")
    px.sub("glue:std::string->path text identity", r"std::string xpath", "verif_string xpath", required=True)
    pp = X.function(py, "static parseProperty(builder, xpath)", r"^static int32_t parseProperty\(ParserBuilder \*aParserBuilder, const std::string& xpath\)")
    pp.sub("glue:std::string->path text identity", r"const std::string& xpath", "const verif_string& xpath", required=True)
    write(work, "parser_entry.inc", "\n".join(s.text for s in (sst, px, pp)) + "\n")
    slices += [xp, st, pt, g0, ul, g1, sst, px, pp]
    # the public wrappers must do nothing but buffer management around the static entries (checked textually)
    for sig in (r"^int32_t parse_XTA\(const char \*str, ParserBuilder \*builder,\s*bool newxta, xta_part_t part, std::string xpath\)",
                r"^int32_t parseProperty\(const char \*str, ParserBuilder \*aParserBuilder, const std::string& xpath\)"):
        w = X.function(py, "public wrapper", sig)
        b = re.sub(r"\s+", " ", w.text[w.text.index("{"):])
        if not re.match(r"^\{ utap__scan_string\(str\); int32_t res = (parse_XTA\(builder, newxta, part, xpath\)|parseProperty\(aParserBuilder, xpath\)); utap__delete_buffer\(YY_CURRENT_BUFFER\); return res; \}$", b):
            raise X.ExtractionBroken("public parse wrapper is no longer `scan_string; static entry; delete_buffer; return`: " + b[:200])
        slices.append(w)
    # ---- the grammar actions that use the process-global array-dimension counter `types`: replayed as bison runs them
    r1, a1 = X.yacc_rule(py, "ArrayDecl")
    r2, a2 = X.yacc_rule(py, "ArrayDecl2")
    slices += [r1, r2]

    def lower_action(a):
        a = re.sub(r"CALL\(\s*@\d+\s*,\s*@\d+\s*,", "VERIF_CALL(", a)
        if "$" in a or "@" in a:
            raise X.ExtractionBroken("ArrayDecl action uses semantic values/locations the replayer does not model: " + a[:80])
        return a
    gen = ["/* GENERATED from the rules ArrayDecl / ArrayDecl2 of src/parser.y: the action blocks are the REAL text, in the order",
           "   bison executes them (mid-rule actions before the symbols that follow, end actions after the last symbol) */",
           "static void nt_ArrayDecl2(int depth);", "static void nt_ArrayDecl(void)\n{"]
    if len(a1) != 1:
        raise X.ExtractionBroken("rule ArrayDecl: expected a single alternative")
    for kind, txt in a1[0]:
        if kind == "act":
            gen.append("    " + lower_action(txt))
        elif kind == "sym" and txt == "ArrayDecl2":
            gen.append("    nt_ArrayDecl2(0);")
        elif kind == "sym":
            raise X.ExtractionBroken("rule ArrayDecl: unexpected symbol " + txt)
    gen.append("}\nstatic void nt_ArrayDecl2(int depth)\n{\n    int alt = depth < MAXDIM ? verif_choice[depth] : 0;")
    empty_seen = False
    for k, alt in enumerate(a2):
        if not alt:
            empty_seen = True
            gen.append(f"    if (alt == {k}) return; /* empty */")
            continue
        gen.append(f"    if (alt == {k}) {{")
        for kind, txt in alt:
            if kind == "act":
                gen.append("        " + lower_action(txt))
            elif kind == "sym" and txt == "ArrayDecl2":
                gen.append("        nt_ArrayDecl2(depth + 1);")
            elif kind == "sym" and txt in ("Expression", "Type", "error") or txt.startswith("'"):
                gen.append(f"        /* {txt}: does not touch the counter (assumption: no array declarator nested in a dimension) */")
            elif kind == "sym":
                raise X.ExtractionBroken("rule ArrayDecl2: unexpected symbol " + txt)
        gen.append("        return;\n    }")
    gen.append("}")
    if not empty_seen:
        raise X.ExtractionBroken("rule ArrayDecl2: no empty alternative")
    gen.append(f"#define N_ALT {len(a2)}\n#define EMPTY_ALT {[i for i, a in enumerate(a2) if not a][0]}")
    write(work, "array_decl_actions.inc", "\n".join(gen) + "\n")
    aobj = builder.cc(os.path.join(CDIR, "arr15.c"), includes=[work])
    # ---- rootTransId: the file-static buffer that carries the source of the `, -> target` shorthand of a transition list.
    #      The actions of Transition / TransitionOpt (and the old-syntax twins) are replayed in bison's order.
    fam = []
    inside = 0
    for pre in ("", "Old"):
        rT, aT = X.yacc_rule(py, pre + "Transition")
        rO, aO = X.yacc_rule(py, pre + "TransitionOpt")
        rL, aL = X.yacc_rule(py, pre + "TransitionList")
        slices += [rL, rT, rO]
        inside += rT.text.count("rootTransId") + rO.text.count("rootTransId") + rL.text.count("rootTransId")
        fam.append((pre, aT, aO, aL))
    total = len(re.findall(r"\brootTransId\b", py.text))
    if total != inside + 1:
        raise X.ExtractionBroken(f"parser.y: rootTransId is used outside the transition-list rules ({total - 1} uses, {inside} inside them)")

    def lower_taction(a):
        a = re.sub(r"CALL\(\s*@\d+\s*,\s*@\d+\s*,\s*(.*?)\)\s*;", r"\1;", a, flags=re.S)
        a = re.sub(r"\$(\d+)", r"VAL(inst, \1)", a)
        if "@" in a or "$" in a:
            raise X.ExtractionBroken("transition action uses values/locations the replayer does not model: " + a[:80])
        return a
    PASSIVE = {"NonTypeId", "T_ARROW", "T_UNCONTROL_ARROW", "Select", "Guard", "Sync", "Assign", "Probability", "OldGuard", "error"}
    gen = ["/* GENERATED from the transition-list rules of src/parser.y: the action blocks are the REAL text (CALL(@a, @b, f(...)) -> f(...),",
           "   $k -> the identity of the k-th symbol's text), in the order bison executes them.  The label non-terminals (Select, Guard,",
           "   Sync, Assign, Probability) do not touch rootTransId: it occurs nowhere else in parser.y (checked by the generator). */"]
    for pre, aT, aO, aL in fam:
        if [[s for k, s in alt if k == "sym"] for alt in aL] != [[pre + "Transition"], [pre + "TransitionList", "','", pre + "TransitionOpt"]]:
            raise X.ExtractionBroken(f"rule {pre}TransitionList changed shape")
        for nm, alts in ((pre + "Transition", aT), (pre + "TransitionOpt", aO)):
            gen.append(f"static void nt_{nm}(int inst, int alt)\n{{")
            for k, alt in enumerate(alts):
                gen.append(f"    if (alt == {k}) {{")
                for kind, txt in alt:
                    if kind == "act":
                        gen.append("        " + lower_taction(txt))
                    elif kind == "sym" and txt == pre + "Transition" and nm.endswith("Opt"):
                        gen.append(f"        nt_{pre}Transition(inst, verif_sub[inst]);")
                    elif kind == "sym" and (txt in PASSIVE or txt.startswith("'")):
                        pass
                    else:
                        raise X.ExtractionBroken(f"rule {nm}: unexpected item {txt[:40]}")
                gen.append("        return;\n    }")
            gen.append("}")
            gen.append(f"#define N_ALT_{nm} {len(alts)}")
    write(work, "transition_actions.inc", "\n".join(gen) + "\n")
    tobj = builder.cc(os.path.join(CDIR, "tr15.c"), includes=[work])
    # ---- lexer.l: actions of the rules that switch the flex start condition, and of the two <<EOF>> rules
    lx = X.Source("src/lexer.l")
    cb_s, cb_e = lx.find_unique(r"^<comment>\{", what="lexer.l: <comment> block")
    cb_end = lx.match_brace(cb_e - 1)
    acts = {}
    def rule_action(name, rx, lo, hi):
        s, e = lx.find_unique(rx, lo, hi, what="lexer.l rule " + name)
        b = lx.text.index("{", e - 1) if lx.text[e - 1] != "{" else e - 1
        be = lx.match_brace(b)
        acts[name] = X.Slice("lexer.l rule action: " + name, lx, b, be)
    rule_action("comment_close", r'^\s*"\*/"\s*\{', cb_e, cb_end)
    rule_action("comment_eof", r"^\s*<<EOF>>\s*\{", cb_e, cb_end)
    rule_action("comment_open", r'^"/\*"\s*\{', cb_end, None)
    rule_action("initial_eof", r"^<<EOF>>\s*\{", cb_end, None)
    txt = ""
    for nm in ("comment_open", "comment_close", "comment_eof", "initial_eof"):
        txt += "static int act_%s(void)\n%s\n" % (nm, acts[nm].text[:-1] + " return -1; }")
    write(work, "lexer_state_actions.inc", txt)
    slices += list(acts.values())
    obj = builder.cc(os.path.join(CDIR, "ps15.cpp"), includes=[work, os.path.join(X.REPO, "include")], cpp=True)
    kf = ["KF1_CLASS(h)=((h).position == 0xffffffffu)"]
    hobj = builder.cc(os.path.join(CDIR, "h_c15.c"), includes=[work], defines=["EXCLUDE_KF"] + kf)
    hobj_kf = builder.cc(os.path.join(CDIR, "h_c15.c"), includes=[work], defines=kf)
    jobs = []

    def J(name, entry, fns, obj2=hobj, **kw):
        jobs.append(F.Job(name, entry, [obj, obj2], timeout=300, unwind=4, functions=fns, **kw))
    J("c15_start_token", "h_c15_start_token", ["setStartToken"])
    J("c15_entry_xta", "h_c15_entry_xta", ["static parse_XTA(ParserBuilder*, bool, xta_part_t, std::string)", "setStartToken", "PositionTracker::setPath"])
    J("c15_entry_property", "h_c15_entry_property", ["static parseProperty(ParserBuilder*, const std::string&)", "setStartToken", "PositionTracker::setPath"])
    J("c15_lex", "h_c15_lex", ["utap_lex"])
    J("c15_start_condition_xta", "h_c15_start_condition_xta", ["static parse_XTA prologue", "lexer.l rules \"/*\", \"*/\", <comment><<EOF>>, <<EOF>> (actions)"], bound_note="<= 3 comment openings/closings per scan")
    J("c15_start_condition_property", "h_c15_start_condition_property", ["static parseProperty prologue", "lexer.l rules \"/*\", \"*/\", <comment><<EOF>>, <<EOF>> (actions)"], bound_note="<= 3 comment openings/closings per scan")
    jobs.append(F.Job("c15_array_counter", "h_c15_array_counter", [aobj], timeout=300, unwind=12,
                      functions=["parser.y rules ArrayDecl / ArrayDecl2 (actions on the global counter `types`)"], bound_note="array declarators of <= 4 dimensions"))
    for pre in ("", "Old"):
        jobs.append(F.Job("c15_transition_source" + ("_old" if pre else ""), "h_c15_transition_source" + ("_old" if pre else ""), [tobj], unwind=8,
                          functions=[f"parser.y rules {pre}TransitionList / {pre}Transition / {pre}TransitionOpt (actions on the file-static rootTransId)"], bound_note="transition lists of <= 3 edges"))
    J("c15_position_wrap", "h_c15_position_wrap", ["PositionTracker::setPath (counter monotonicity across calls)"], note="run with the known-finding class excluded: must pass")
    J("c15_kf1_position_wrap", "h_c15_position_wrap", ["PositionTracker::setPath (counter monotonicity across calls)"], obj2=hobj_kf,
      known={r"position-counter-stays-monotone": "C15-KF1"}, note="unrestricted: fails exactly inside the known-finding class")
    return {
        "jobs": jobs, "slices": [s.info() for s in slices],
        "drops": ["utap_parse (bison) and lexer_flex (flex) are stubs: the grammar and scanner are generated code outside the verifier",
                  "std::string xpath is an identity; MAXLEN shortened (only rootTransId[0] is observed)"],
        "trusted_base": ["CBMC 6.11 C++ front end + SAT", "token ids generated from the %token list (distinct, as bison assigns them)", "stubs in contracts/C15/ps15.cpp"],
        "assumptions": ["the flex start condition is under contract for complete scans (c15_start_condition_*: the rule actions that switch it and the two <<EOF>> rules, extracted from lexer.l); an exception thrown while the scanner is inside a comment would still leave it in the comment condition; flex's buffer stack and bison's own state are not under contract",
                        "rootTransId is not re-initialised by the prologues; that the grammar writes it before every use in a transition list is under contract since round 10 (c15_transition_source*: the rule actions replayed in bison's order from two arbitrary histories); the counter `types` is covered by c15_array_counter (actions of ArrayDecl/ArrayDecl2 replayed in bison's order; dimensions are assumed not to nest another array declarator)",
                        "the public wrappers are checked textually to be scan_string / static entry / delete_buffer only",
                        "everything after the prologue (the parse itself) is outside this kernel: the whole-history statement is NOT decided"],
        "explanation": "",
    }


def replay(rec):
    rc, out = native.run_replay("c15_probe", [])
    import json
    try:
        res = json.loads(out[out.index("{"):])
    except Exception:
        return {"confirmed": None, "detail": {"rc": rc, "raw": out[-1500:]}}
    wrap = "position-counter" in ((rec.get("description") or "") + (rec.get("obligation") or ""))
    # the 4 GiB probe demonstrates the recorded known finding C15-KF1 only; it confirms nothing else
    failed = [k for k, v in res.items() if v is not True and (wrap or "4GiB" not in k)]
    if failed:
        return {"confirmed": True, "detail": {"failed": failed, "report": res, "why": "the same call gives a different result after the recorded history than in a fresh state"},
                "real_code": "libUTAP built from /repo's working tree"}
    return {"confirmed": None, "detail": {"report": res}}
