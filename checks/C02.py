"""C02 (kernel) - builder callbacks pop operands in order and build the prescribed node kinds; the grammar's
precedence declarations and production->callback map agree with the UPPAAL operator table."""
import json
import os
import re

from tools import framework as F
from tools import extract as X
from checks import tc_common as T
from checks import native
from checks import C19

CDIR = os.path.join(F.VERIF, "contracts", "C02")

CALLBACKS = [("expr_true", r"^void ExpressionBuilder::expr_true\(\)"), ("expr_false", r"^void ExpressionBuilder::expr_false\(\)"),
             ("expr_double", r"^void ExpressionBuilder::expr_double\(double d\)"), ("expr_deadlock", r"^void ExpressionBuilder::expr_deadlock\(\)"),
             ("expr_nat", r"^void ExpressionBuilder::expr_nat\(int32_t n\)"), ("expr_array", r"^void ExpressionBuilder::expr_array\(\)"),
             ("expr_post_increment", r"^void ExpressionBuilder::expr_post_increment\(\)"), ("expr_pre_increment", r"^void ExpressionBuilder::expr_pre_increment\(\)"),
             ("expr_post_decrement", r"^void ExpressionBuilder::expr_post_decrement\(\)"), ("expr_pre_decrement", r"^void ExpressionBuilder::expr_pre_decrement\(\)"),
             ("expr_builtin_function1", r"^void ExpressionBuilder::expr_builtin_function1\(kind_t kind\)"),
             ("expr_builtin_function2", r"^void ExpressionBuilder::expr_builtin_function2\(kind_t kind\)"),
             ("expr_builtin_function3", r"^void ExpressionBuilder::expr_builtin_function3\(kind_t kind\)"),
             ("expr_assignment", r"^void ExpressionBuilder::expr_assignment\(kind_t op\)"), ("expr_unary", r"^void ExpressionBuilder::expr_unary\(kind_t unaryop\)"),
             ("expr_binary", r"^void ExpressionBuilder::expr_binary\(kind_t binaryop\)"), ("expr_nary", r"^void ExpressionBuilder::expr_nary\(kind_t kind, uint32_t num\)"),
             ("expr_ternary", r"^void ExpressionBuilder::expr_ternary\(kind_t ternaryop, bool firstMissing\)"),
             ("expr_inline_if", r"^void ExpressionBuilder::expr_inline_if\(\)"), ("expr_comma", r"^void ExpressionBuilder::expr_comma\(\)"),
             ("expr_call_end", r"^void ExpressionBuilder::expr_call_end\(uint32_t n\)")]


def write(work, name, text):
    with open(os.path.join(work, name), "w") as f:
        f.write(text)


def build(tier, work, builder):
    slices = C19.expr_core(work)
    hpp = X.Source("include/utap/ExpressionBuilder.hpp")
    fc = X.braced(hpp, "class ExpressionBuilder::ExpressionFragments", r"^\s*class ExpressionFragments\b")
    write(work, "fragments_class.inc", fc.text + "\n")
    eb = X.Source("src/ExpressionBuilder.cpp")
    fl = []
    cands = {}
    for h in X.static_helpers(eb):
        cands[h.name.split()[-1]] = h
    for m in re.finditer(r"^inline static [^\n]*?\b(\w+)\(", eb.text, re.M):
        cands[m.group(1)] = X.function(eb, "static helper " + m.group(1), r"^inline static [^\n]*?\b%s\(" % re.escape(m.group(1)))
    fl.append(X.function(eb, "ExpressionFragments::pop(n)", r"^void ExpressionBuilder::ExpressionFragments::pop\(uint32_t n\)"))
    fl.append(X.function(eb, "ExpressionBuilder::make_constant(int)", r"^expression_t ExpressionBuilder::make_constant\(int value\) const"))
    for name, rx in CALLBACKS:
        sl = X.function(eb, "ExpressionBuilder::" + name, rx)
        sl.sub("L4:T{...}", r"TypeException\{[^}]*\}", "TypeException()")
        fl.append(sl)
    used, changed = set(), True
    while changed:
        changed = False
        text_all = "\n".join(s.text for s in fl) + "\n".join(cands[u].text for u in used)
        for name in cands:
            if name not in used and re.search(r"\b%s\(" % re.escape(name), text_all):
                used.add(name); changed = True
    helpers = sorted((cands[u] for u in used), key=lambda s: s.start)
    fl = helpers + fl
    write(work, "builder_funcs.inc", "\n".join(s.text for s in fl) + "\n")
    slices += [fc] + fl
    obj = builder.cc(os.path.join(CDIR, "eb02.cpp"), includes=[work, os.path.join(X.REPO, "include")], cpp=True)
    hobj = builder.cc(os.path.join(CDIR, "h_c02.c"), includes=[work])
    jobs = []
    for name, fns in (("binary", ["ExpressionBuilder::expr_binary", "isMITL", "toMITLAtom"]), ("assignment", ["ExpressionBuilder::expr_assignment"]),
                      ("unary", ["ExpressionBuilder::expr_unary"]), ("inline_if", ["ExpressionBuilder::expr_inline_if"]), ("comma", ["ExpressionBuilder::expr_comma"]),
                      ("array", ["ExpressionBuilder::expr_array"]), ("post_increment", ["ExpressionBuilder::expr_post_increment"]),
                      ("pre_increment", ["ExpressionBuilder::expr_pre_increment"]), ("post_decrement", ["ExpressionBuilder::expr_post_decrement"]),
                      ("pre_decrement", ["ExpressionBuilder::expr_pre_decrement"]), ("builtin1", ["ExpressionBuilder::expr_builtin_function1"]),
                      ("builtin2", ["ExpressionBuilder::expr_builtin_function2"]), ("builtin3", ["ExpressionBuilder::expr_builtin_function3"]),
                      ("call_end", ["ExpressionBuilder::expr_call_end (function calls and process-set lookups)"]), ("nary", ["ExpressionBuilder::expr_nary"]), ("ternary", ["ExpressionBuilder::expr_ternary", "ExpressionBuilder::make_constant"]),
                      ("literals", ["ExpressionBuilder::expr_nat", "expr_true", "expr_false", "expr_double", "expr_deadlock", "ExpressionBuilder::make_constant"])):
        jobs.append(F.Job("c02_" + name, "h_c02_" + name, [obj, hobj], timeout=300, unwind=10,
                          functions=fns + ["ExpressionFragments::operator[]/push/pop", "expression_t::create_*"], bound_note="fragment stack of depth <= 6"))
    # ---- part (ii), bounded: the integer-literal action of lexer.l
    lx = X.Source("src/lexer.l")
    s, e = lx.find_unique(r"^\{num\}\s*\{", what="lexer.l: {num} rule")
    be = lx.match_brace(e - 1)
    act = X.Slice("lexer.l: {num} rule action", lx, e - 1, be)
    # the action is compiled as C: C++ spellings of the same libc calls are lowered (rule L28)
    act.sub("L28:std::f -> f (C extraction)", r"\bstd::(?=\w)", "")
    act.sub("L28:static_cast<T>(e) -> ((T)(e))", r"\bstatic_cast<([\w\s]+)>\(", r"(\1)(")
    act.sub("L28:auto x = strtol(...) -> long x", r"\b(const\s+)?auto\s+(\w+)\s*=\s*(strtol|strtoll|atol)\b", r"\1long \2 = \3")
    act.sub("L28:auto x = atoi(...) -> int x", r"\b(const\s+)?auto\s+(\w+)\s*=\s*atoi\b", r"\1int \2 = atoi")
    if re.search(r"\bauto\b", act.text):
        raise X.ExtractionBroken("lexer.l {num} action: an `auto` declaration rule L28 cannot type")
    write(work, "lex_num_action.inc", act.text + "\n")
    slices.append(act)
    lobj = builder.cc(os.path.join(CDIR, "lex02.c"), includes=[work])
    jobs.append(F.Job("c02_lex_num", "h_c02_lex_num", [lobj], timeout=600, unwind=16, level="bounded", functions=["lexer.l {num} rule action (integer literals)"],
                      bound_note="digit strings of length <= 12; atoi/strtol/snprintf by assumed contracts over an abstract value VAL (facts A1-A3 in contracts/C02/lex02.c)"))
    # ---- part (iii): grammar tables against the operator table
    tab = grammar_tables(work)
    slices.append(tab["slice"])
    tobj = builder.cc(os.path.join(CDIR, "tables02.c"), includes=[work])
    jobs.append(F.Job("c02_tables", "h_c02_tables", [tobj], timeout=120, unwind=80, functions=["parser.y precedence declarations and Expression productions (generated tables)"],
                      note="finite table identity decided by CBMC over tables generated from parser.y on every run; the oracle is contracts/C02/operator_table.json"))
    return {
        "jobs": jobs, "slices": [s.info() for s in slices],
        "drops": ["identifier binding (resolve) and the callbacks with type-dependent behaviour (expr_call_end, expr_dot, quantifier begin/end) are not in this kernel"],
        "trusted_base": ["CBMC 6.11 C++ front end + SAT", "stubs/expr_tree.h", "contracts/C02/operator_table.json (written from the UPPAAL language reference and the property statement)"],
        "assumptions": ["bison's LALR tables realise the declared precedences and associativities (bison trusted; %expect 2 conflicts not analysed)",
                        "the scanner maps operator spellings to the tokens named in the table (lexer.l keyword/operator rules: not under contract except the aliases checked textually)",
                        "integer literals: the {num} action of lexer.l is under a BOUNDED check (<= 12 digits) with libc models for atoi/strtol/snprintf/strcmp (trusted); floating literals go through atof (glibc correct rounding: assumed)",
                        "identifier binding is C07's subject"],
        "explanation": "",
    }


def grammar_tables(work):
    """Generates C tables from parser.y: precedence level/associativity of each operator token, and for each binary/unary
    Expression production the (token, callback, kind) triple; and from operator_table.json the expected ones."""
    py = X.Source("src/parser.y")
    s, _ = py.find_unique(r"^%left T_LEADS_TO", what="first precedence declaration")
    e, _ = py.find_unique(r"^%union", what="%union")
    decl = X.Slice("parser.y:precedence declarations", py, s, e)
    level = {}
    lv = 0
    for line in decl.text.splitlines():
        m = re.match(r"^%(left|right|nonassoc)\s+(.*)$", line.strip())
        if not m:
            continue
        lv += 1
        for tok in m.group(2).split():
            level[tok] = (lv, m.group(1))
    # Expression productions: `Expression TOKEN Expression { CALL(..., expr_binary(KIND)); }`
    m = re.search(r"^Expression:(.*?)^\s*;\s*$", py.text, re.M | re.S)
    if not m:
        raise X.ExtractionBroken("parser.y: Expression rule not found")
    body = m.group(1)
    prods = []
    for pm in re.finditer(r"\|\s*Expression\s+(T_\w+|'.')\s+Expression\s*\{\s*CALL\([^;]*?,\s*expr_binary\((\w+)\)\);\s*\}", body):
        prods.append((pm.group(1), "binary", pm.group(2)))
    # imply: Expression T_KW_IMPLY { expr_unary(NOT) } Expression { expr_binary(OR) }
    im = re.search(r"Expression\s+T_KW_IMPLY\s*\{\s*CALL\([^;]*expr_unary\(NOT\)\);\s*\}\s*Expression\s*\{\s*CALL\([^;]*expr_binary\(OR\)\);", body)
    unary_tokens = dict(re.findall(r"(T_\w+)\s*\{\s*\$\$\s*=\s*(\w+);\s*\}", re.search(r"^UnaryOp:(.*?)^\s*;", py.text, re.M | re.S).group(1)))
    assign_tokens = dict(re.findall(r"(T_\w+)\s*\{\s*\$\$\s*=\s*(\w+);\s*\}", re.search(r"^AssignOp:(.*?)^\s*;", py.text, re.M | re.S).group(1)))
    with open(os.path.join(CDIR, "operator_table.json")) as f:
        want = json.load(f)
    lines = ["/* GENERATED from src/parser.y and contracts/C02/operator_table.json */", "#include \"kinds.h\""]
    toks = sorted(set(list(level) + [w["token"] for w in want["binary"]] + list(unary_tokens) + list(assign_tokens)))
    tid = {t: i for i, t in enumerate(toks)}
    lines.append("enum { " + ", ".join("TOK_%d /* %s */" % (i, t.replace("*/", "")) for t, i in tid.items()) + ", NTOK };")
    lines.append("static const int G_LEVEL[NTOK] = {" + ", ".join(str(level.get(t, (0, ""))[0]) for t in toks) + "};")
    lines.append("static const int G_ASSOC[NTOK] = {" + ", ".join({"left": "1", "right": "2", "nonassoc": "3", "": "0"}[level.get(t, (0, ""))[1]] for t in toks) + "}; /* 1 left 2 right */")
    lines.append(f"#define N_GPROD {len(prods)}")
    lines.append("static const int G_PROD_TOK[N_GPROD] = {" + ", ".join(str(tid[p[0]]) if p[0] in tid else "-1" for p in prods) + "};")
    lines.append("static const int G_PROD_KIND[N_GPROD] = {" + ", ".join("K_" + p[2] for p in prods) + "};")
    lines.append(f"#define G_IMPLY_IS_NOT_OR {1 if im else 0}")
    # precedence of the inline-if and assignment PRODUCTIONS (their %prec annotation, else the last terminal of the rule)
    iif = re.search(r"Expression '\?' Expression ':' Expression\s*\{[^}]*\}(\s*%prec\s+(\S+))?", body)
    if not iif:
        raise X.ExtractionBroken("parser.y: inline-if production not found")
    iif_tok = iif.group(2) if iif.group(2) else "':'"
    asg = re.search(r"Expression AssignOp Expression\s*\{[^}]*\}(\s*%prec\s+(\S+?))?;", py.text)
    if not asg:
        raise X.ExtractionBroken("parser.y: Assignment production not found")
    asg_tok = asg.group(2) if asg.group(2) else "T_ASSIGNMENT"
    lines.append(f"#define G_INLINE_IF_RULE_LEVEL {level.get(iif_tok, (0, ''))[0]}")
    lines.append(f"#define G_ASSIGN_RULE_LEVEL {level.get(asg_tok, (0, ''))[0]}")
    wb = want["binary"]
    lines.append(f"#define N_WANT {len(wb)}")
    lines.append("static const int W_TOK[N_WANT] = {" + ", ".join(str(tid[w["token"]]) for w in wb) + "};")
    lines.append("static const int W_KIND[N_WANT] = {" + ", ".join("K_" + w["kind"] for w in wb) + "};")
    lines.append("static const int W_LEVEL[N_WANT] = {" + ", ".join(str(w["level"]) for w in wb) + "}; /* 1 = binds tightest */")
    lines.append("static const int W_ASSOC[N_WANT] = {" + ", ".join("1" if w["assoc"] == "left" else "2" for w in wb) + "};")
    lines.append(f"#define N_WUN {len(want['unary'])}")
    lines.append("static const int WU_PRESENT[N_WUN] = {" + ", ".join("1" if unary_tokens.get(w["token"]) == w["kind"] else "0" for w in want["unary"]) + "};")
    lines.append(f"#define N_WAS {len(want['assign'])}")
    lines.append("static const int WA_PRESENT[N_WAS] = {" + ", ".join("1" if assign_tokens.get(w["token"]) == w["kind"] else "0" for w in want["assign"]) + "};")
    lines.append("static const int WA_TOK[N_WAS] = {" + ", ".join(str(tid[w["token"]]) for w in want["assign"]) + "};")
    # the scanner's spelling -> token map: lexer.l rules `"spelling" { return TOKEN; }` and the keyword table of keywords.cpp
    lx = X.Source("src/lexer.l")
    scan = {}
    for sm in re.finditer(r'^"((?:[^"\\\n]|\\.)+)"\s*\{\s*return\s+(T_\w+|\'(?:[^\'\\]|\\.)\')\s*;\s*\}', lx.text, re.M):
        sp = re.sub(r"\\(.)", r"\1", sm.group(1))
        scan.setdefault(sp, sm.group(2))
    kw = X.Source("src/keywords.cpp")
    for km in re.finditer(r'\{"(\w+)",\s*Keyword\{(T_\w+),', kw.text):
        scan.setdefault(km.group(1), km.group(2))
    if len(scan) < 60 or "<=" not in scan or "and" not in scan:
        raise X.ExtractionBroken("lexer.l / keywords.cpp: cannot read the spelling -> token rules")
    tokname = lambda tkn: "'&'" if tkn == "'&'" else tkn

    def spell_ok(w):
        sps = [s.strip() for s in w["spelling"].split(" and ")] if " and " in w["spelling"] and w["spelling"] not in scan else [w["spelling"]]
        return all(scan.get(s) == tokname(w["token"]) for s in sps)
    lines.append("static const int WS_OK[N_WANT] = {" + ", ".join("1" if spell_ok(w) else "0" for w in wb) + "}; /* scanner maps the operator's spelling to its token */")
    lines.append("static const int WUS_OK[N_WUN] = {" + ", ".join("1" if spell_ok(w) else "0" for w in want["unary"]) + "};")
    lines.append("static const int WAS_OK[N_WAS] = {" + ", ".join("1" if spell_ok(w) else "0" for w in want["assign"]) + "};")
    for name in ("unary_level_token", "assign_level_token", "inline_if_token"):
        lines.append(f"#define TOK_{name.upper()} {tid[want[name]]}")
    write(work, "grammar_tables.h", "\n".join(lines) + "\n")
    write(work, "kinds.h", T.kinds_header())
    return {"slice": decl}


def replay(rec):
    rc, out = native.run_replay("c02_probe", [])
    try:
        res = json.loads(out[out.index("{"):])
    except Exception:
        return {"confirmed": None, "detail": {"rc": rc, "raw": out[-1500:]}}
    failed = [k for k, v in res.items() if v is not True]
    if failed:
        return {"confirmed": True, "detail": {"failed": failed, "report": res, "why": "parsed trees of the native probe expressions do not have the prescribed shape"},
                "real_code": "libUTAP built from /repo's working tree"}
    return {"confirmed": None, "detail": {"report": res}}
