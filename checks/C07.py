"""C07 (kernel) - identifiers bind to the innermost preceding declaration: frame_t / symbol_t members and the
scope push/pop pairing of the quantifier callbacks and expr_dot."""
import os
import re

from tools import framework as F
from tools import extract as X
from checks import native

CDIR = os.path.join(F.VERIF, "contracts", "C07")


def write(work, name, text):
    with open(os.path.join(work, name), "w") as f:
        f.write(text)


def symbols_slices():
    src = X.Source("src/symbols.cpp")
    out = []
    sd = X.braced(src, "struct symbol_t::symbol_data", r"^struct symbol_t::symbol_data")
    sd.sub("L19:drop enable_shared_from_this base", r" : public std::enable_shared_from_this<symbol_t::symbol_data>", "")
    sd.sub("L4:member = default-init", r"frame_t::frame_data\* frame = nullptr;", "frame_t::frame_data* frame;")
    sd.sub("L4:member = default-init", r"void\* user = nullptr;", "void* user;")
    sd.sub("L4:ctor-init braces", r"frame\{frame\}, type\{std::move\(type\)\}, user\{user\}, name\{std::move\(name\)\}, position\{position\}",
           "frame(frame), type(std::move(type)), user(user), name(std::move(name)), position(position)", required=True)
    sd.sub("L23:std::move(x)->(x) (a cast; the environment's types are copyable)", r"std::move\((\w+)\)", r"\1")
    fd = X.braced(src, "struct frame_t::frame_data", r"^struct frame_t::frame_data")
    fd.sub("L19:drop enable_shared_from_this base", r" : public std::enable_shared_from_this<frame_t::frame_data>", "", required=True)
    fd.sub("L19:map<string,int32_t>->last-writer table", r"map<string, int32_t> mapping;", "std::verif_name_map mapping;", required=True)
    fd.sub("L4:ctor-init braces", r"parent\{p\}", "parent(p)", required=True)
    out += [fd, sd]  # frame_data first: symbol_data holds a frame_data*
    fns = [("symbol_t::symbol_t", r"^symbol_t::symbol_t\(frame_t\* frame, type_t type, string name, position_t position, void\* user\)"),
           ("symbol_t::operator==", r"^bool symbol_t::operator==\(const symbol_t& symbol\) const"),
           ("symbol_t::operator!=", r"^bool symbol_t::operator!=\(const symbol_t& symbol\) const"),
           ("symbol_t::get_type", r"^type_t symbol_t::get_type\(\) const"),
           ("symbol_t::get_name", r"^const string& symbol_t::get_name\(\) const"),
           ("frame_t::frame_t(frame_data*)", r"^frame_t::frame_t\(frame_data\* frame\)"),
           ("frame_t::get_size", r"^uint32_t frame_t::get_size\(\) const"),
           ("frame_t::add_symbol", r"^symbol_t frame_t::add_symbol\(const string& name, type_t type, position_t position, void\* user\)"),
           ("frame_t::add(symbol_t)", r"^void frame_t::add\(symbol_t symbol\)"),
           ("frame_t::add(frame_t)", r"^void frame_t::add\(frame_t frame\)"),
           ("frame_t::move_to", r"^void frame_t::move_to\(frame_t frame\)"),
           ("frame_t::begin", r"^frame_t::iterator frame_t::begin\(\)"),
           ("frame_t::end", r"^frame_t::iterator frame_t::end\(\)"),
           ("frame_t::get_index_of(name)", r"^std::optional<uint32_t> frame_t::get_index_of\(const string& name\) const"),
           ("frame_t::resolve", r"^bool frame_t::resolve\(const string& name, symbol_t& symbol\) const"),
           ("frame_t::get_parent", r"^frame_t frame_t::get_parent\(\) const"),
           ("frame_t::has_parent", r"^bool frame_t::has_parent\(\) const"),
           ("frame_t::create()", r"^frame_t frame_t::create\(\)"),
           ("frame_t::create(parent)", r"^frame_t frame_t::create\(const frame_t& parent\)")]
    for name, rx in fns:
        sl = X.function(src, name, rx)
        sl.sub("L19:make_shared<T>(...)->new T(...)", r"std::make_shared<(\w+)>\(", r"new \1(")
        sl.sub("L23:std::move(x)->(x)", r"std::move\((\w+)\)", r"\1")
        sl.sub("L15:auto x = new T->T* x = new T", r"auto (\w+) = new (\w+)\(", r"\2* \1 = new \2(")
        sl.sub("L19:shared_ptr.get()->raw pointer", r"(\bdata|frame->data|parent\.data)\.get\(\)", r"\1")
        sl.sub("L19:shared_from_this()->this node", r"frame->shared_from_this\(\)", "frame")
        sl.sub("L4:auto x = T{...}", r"auto (\w+) = symbol_t\{([^{}]*)\};", r"symbol_t \1(\2);")
        sl.sub("L4:auto x = optional{}", r"auto res = std::optional<uint32_t>\{\};", "std::verif_opt_u32 res;")
        sl.sub("L4:return T{...}", r"return frame_t\{([^{}]*)\};", r"return frame_t(\1);")
        sl.sub("L19:optional<uint32_t>", r"std::optional<uint32_t>", "std::verif_opt_u32")
        sl.sub("L9:throw->ghost flag", r"throw NoParentException\(\);", "{ verif_thrown = 1; return frame_t(); }")
        sl.sub("glue:frame_t::iterator->symbol_t*", r"frame_t::iterator frame_t::(begin|end)\(\)", r"symbol_t* frame_t::\1()")
        sl.sub("glue:std::begin/end(v)->v.begin()/end()", r"std::(begin|end)\(data->symbols\)", r"data->symbols.\1()")
        sl.sub("L15:const auto x = size()", r"const auto offset = data->symbols\.size\(\);", "const size_t offset = data->symbols.size();")
        X.lower_range_for_map(sl, "string", "int32_t")
        X.lower_range_for(sl, "symbol_t")
        if "if (auto" in sl.text:
            X.lower_if_init(sl)
            sl.sub("L15:auto it", r"auto it = data->mapping\.find\(name\)", "std::verif_map_it it = data->mapping.find(name)", required=True)
        if name == "frame_t::resolve":
            X.rename_self_calls(sl, "resolve", pattern=r"get_parent\(\)\s*\.\s*resolve\(", minimum=0)
            sl.sub("L15:auto idx", r"auto idx = get_index_of\(name\);", "std::verif_opt_u32 idx = get_index_of(name);")
        out.append(sl)
    return out


def scope_slices(work):
    """Part 2: scope callbacks of ExpressionBuilder + the PROCESS_VAR branch of expr_dot."""
    from checks import C19
    from checks import tc_common as T
    slices = C19.expr_core(work)
    hpp = X.Source("include/utap/ExpressionBuilder.hpp")
    fc = X.braced(hpp, "class ExpressionBuilder::ExpressionFragments", r"^\s*class ExpressionFragments\b")
    tf = X.braced(hpp, "class ExpressionBuilder::TypeFragments", r"^\s*class TypeFragments\b")
    write(work, "fragments_class.inc", fc.text + "\n")
    write(work, "typefragments_class.inc", tf.text + "\n")
    eb = X.Source("src/ExpressionBuilder.cpp")
    fl = [X.function(eb, "ExpressionFragments::pop(n)", r"^void ExpressionBuilder::ExpressionFragments::pop\(uint32_t n\)"),
          X.function(eb, "ExpressionBuilder::make_constant(int)", r"^expression_t ExpressionBuilder::make_constant\(int value\) const"),
          X.function(eb, "ExpressionBuilder::push_frame", r"^void ExpressionBuilder::push_frame\(frame_t frame\)"),
          X.function(eb, "ExpressionBuilder::popFrame", r"^void ExpressionBuilder::popFrame\(\)"),
          X.function(eb, "ExpressionBuilder::resolve", r"^bool ExpressionBuilder::resolve\(const std::string& name, symbol_t& uid\) const"),
          X.function(eb, "ExpressionBuilder::expr_false", r"^void ExpressionBuilder::expr_false\(\)")]
    for nm in ("forall", "exists", "sum"):
        for be in ("begin", "end"):
            fl.append(X.function(eb, f"ExpressionBuilder::expr_{nm}_{be}", r"^void ExpressionBuilder::expr_%s_%s\(const char\* name\)" % (nm, be)))
    for sl in fl:
        sl.sub("glue:name spelling->name identity", r"const char\* name|const std::string& name", "verif_name name")
        sl.sub("L23:std::move(x)->x", r"std::move\((\w+)\)", r"\1")
        sl.sub("L4:T{...}", r"TypeException\{[^}]*\}", "TypeException()")
    # expr_dot: the PROCESS_VAR branch
    ed = X.function(eb, "ExpressionBuilder::expr_dot", r"^void ExpressionBuilder::expr_dot\(const char\* id\)")
    s, e = eb.find_unique(r"\} else if \(type\.is\(PROCESS_VAR\)\) \{", ed.start, ed.end, what="expr_dot: PROCESS_VAR branch")
    be = eb.match_brace(e - 1)
    br = X.Slice("ExpressionBuilder::expr_dot: PROCESS_VAR branch", eb, e, be - 1)
    br.sub("L9:throw->ghost flag", r"throw UnknownIdentifierError\([^;]*\);", "VERIF_THROW;", required=False)
    br.sub("L4:{a, b}->vector of two", r"\{identifier, expr\}", "verif_vec2(identifier, expr)")
    br.sub("L20:c ? a : b on class objects->select function", r"identifier\.get_type\(\)\.is_location\(\)\s*\?\s*type_t::create_primitive\(Constants::BOOL, position\)\s*:\s*identifier\.get_type\(\)",
           "verif_select_type(identifier.get_type().is_location(), type_t::create_primitive(Constants::BOOL, position), identifier.get_type())")
    br.text = "void ExpressionBuilder::expr_dot_process_var(verif_name id, expression_t& expr)\n{" + br.text + "}\n"
    # expr_dot: the is_process() branch (process-qualified names: P.x with P's arguments substituted)
    s, e = eb.find_unique(r"\} else if \(type\.is_process\(\)\) \{", ed.start, ed.end, what="expr_dot: process branch")
    be = eb.match_brace(e - 1)
    bp = X.Slice("ExpressionBuilder::expr_dot: is_process() branch", eb, e, be - 1)
    bp.sub("L15:auto* x = static_cast<T*>", r"auto\* process = static_cast<instance_t\*>", "instance_t* process = static_cast<instance_t*>", required=True)
    bp.sub("L15:auto i = find_index_of", r"auto i = type\.find_index_of\(id\);", "type_t::verif_optidx i = type.find_index_of(id);", required=True)
    bp.sub("glue:name + \"::\"->qualifier identity", r"([\w\.\->]+get_name\(\)) \+ \"::\"", r"verif_qual(\1)", required=True)
    X.lower_range_for_map(bp, "symbol_t", "expression_t", required="auto& [" in bp.text or "auto [" in bp.text)
    bp.text = "void ExpressionBuilder::expr_dot_process(verif_name id, expression_t& expr, type_t type)\n{" + bp.text + "}\n"
    fl.append(br)
    fl.append(bp)
    write(work, "scope_funcs.inc", "\n".join(s.text for s in fl) + "\n")
    write(work, "kinds.h", T.kinds_header())
    return slices + [fc, tf] + fl


def stmt_scope_slices(work):
    """Part 3: StatementBuilder::iteration_begin/end, block_begin/end, get_block + ExpressionBuilder::push_frame/popFrame."""
    sb = X.Source("src/StatementBuilder.cpp")
    eb = X.Source("src/ExpressionBuilder.cpp")
    fl = [X.function(eb, "ExpressionBuilder::push_frame", r"^void ExpressionBuilder::push_frame\(frame_t frame\)"),
          X.function(eb, "ExpressionBuilder::popFrame", r"^void ExpressionBuilder::popFrame\(\)"),
          X.function(sb, "StatementBuilder::get_block", r"^BlockStatement& StatementBuilder::get_block\(\)"),
          X.function(sb, "StatementBuilder::iteration_begin", r"^void StatementBuilder::iteration_begin\(const char\* name\)"),
          X.function(sb, "StatementBuilder::iteration_end", r"^void StatementBuilder::iteration_end\(const char\* name\)"),
          X.function(sb, "StatementBuilder::block_begin", r"^void StatementBuilder::block_begin\(\)"),
          X.function(sb, "StatementBuilder::block_end", r"^void StatementBuilder::block_end\(\)")]
    for sl in fl:
        sl.sub("glue:the scope stack lives in the base class ExpressionBuilder", r"void ExpressionBuilder::(push_frame|popFrame)\(", r"void StatementBuilder::\1(")
        sl.sub("glue:name spelling->name identity", r"const char\* name", "verif_name name")
        sl.sub("L19:make_unique<T>(...)->new T(...)", r"std::make_unique<(\w+)>\(", r"new \1(")
        sl.sub("L19:unique_ptr<T>->T*", r"std::unique_ptr<(\w+)>", r"\1*")
        sl.sub("L23:std::move(x)->x", r"std::move\(([^()]*(?:\([^()]*\))?[^()]*)\)", r"\1")
        sl.sub("L15:auto x = pop_stat()", r"auto statement = get_block\(\)\.pop_stat\(\);", "Statement* statement = get_block().pop_stat();")
        sl.sub("L20:return c ? *a : *b -> if/else", r"return blocks\.empty\(\) \? \*currentFun->body : \*blocks\.back\(\);",
               "if (blocks.empty()) return *currentFun->body; return *blocks.back();")
    write(work, "stmt_scope_funcs.inc", "\n".join(s.text for s in fl) + "\n")
    return fl


def build(tier, work, builder):
    slices = symbols_slices()
    write(work, "symbols_funcs.inc", "namespace UTAP {\n" + "\n".join(s.text for s in slices).replace("using namespace UTAP;", "") + "\n}\n")
    obj = builder.cc(os.path.join(CDIR, "sym07.cpp"), includes=[work], cpp=True)
    hobj = builder.cc(os.path.join(CDIR, "h_c07.c"), includes=[work])
    jobs = []

    def J(name, entry, fns, **kw):
        jobs.append(F.Job(name, entry, [obj, hobj], timeout=300, unwind=8, functions=fns, bound_note="frames of <= 3 symbols over 3 names + the empty name", **kw))
    J("c07_index_of", "h_c07_index_of", ["frame_t::get_index_of(const string&)", "frame_t::add_symbol"])
    J("c07_add_symbol", "h_c07_add_symbol", ["frame_t::add_symbol", "symbol_t::symbol_t", "frame_t::get_index_of(const string&)"])
    J("c07_resolve", "h_c07_resolve", ["frame_t::resolve (one frame; the parent's answer by contract)", "frame_t::get_parent", "frame_t::has_parent"])
    J("c07_add_frame", "h_c07_add_frame", ["frame_t::add(frame_t)", "frame_t::add(symbol_t)", "frame_t::begin/end"])
    J("c07_move_to", "h_c07_move_to", ["frame_t::move_to", "frame_t::add(symbol_t)"])
    J("c07_create", "h_c07_create", ["frame_t::create()", "frame_t::create(const frame_t&)", "frame_t::get_parent"])
    sc = scope_slices(work)
    slices = slices + sc
    sobj = builder.cc(os.path.join(CDIR, "eb07.cpp"), includes=[work, os.path.join(X.REPO, "include")], cpp=True)
    shobj = builder.cc(os.path.join(CDIR, "h_sc07.c"), includes=[work])
    for nm in ("forall", "exists", "sum"):
        jobs.append(F.Job("c07_scope_" + nm, "h_c07_scope_" + nm, [sobj, shobj], timeout=300, unwind=10,
                          functions=[f"ExpressionBuilder::expr_{nm}_begin", f"ExpressionBuilder::expr_{nm}_end", "push_frame", "popFrame", "resolve"], bound_note="frame stack depth <= 4"))
    jobs.append(F.Job("c07_scope_dot_process_var", "h_c07_scope_dot_process_var", [sobj, shobj], timeout=300, unwind=10,
                      functions=["ExpressionBuilder::expr_dot (PROCESS_VAR branch)", "push_frame", "popFrame", "resolve", "expr_false"], bound_note="frame stack depth <= 4"))
    jobs.append(F.Job("c07_scope_dot_process", "h_c07_scope_dot_process", [sobj, shobj], timeout=300, unwind=14,
                      functions=["ExpressionBuilder::expr_dot (is_process() branch)"], bound_note="process types of <= 3 members, <= 3 bound parameters",
                      note="type_t::find_index_of / get_sub / rename / subst by ghost (a derived type remembers how it was derived)"))
    # the bindings substituted by expr_dot are the instance's mapping: its completeness (new bindings keyed by the instantiated
    # instance's own parameters, inherited bindings kept) is the obligation of Document::add_instance - the C08 job, run here too
    from checks import C08
    w8 = os.path.join(work, "c08"); os.makedirs(w8, exist_ok=True)
    b8 = C08.build(tier, w8, builder)
    inst = [j for j in b8["jobs"] if j.name == "c08_instance"]
    if len(inst) != 1:
        raise X.ExtractionBroken("C07: the add_instance job of C08 is missing")
    inst[0].name = "c07_instance_mapping"
    inst[0].note = "Document::add_instance (contracts/C08): the mapping P.x is substituted with is exactly the inherited bindings plus the new ones"
    jobs.append(inst[0])
    slices = slices + [type("S", (), {"info": (lambda self, d=d: d)})() for d in b8["slices"] if "add_instance" in str(d.get("name", ""))]
    # type_t::subst / type_t::rename (one level on the real type node): what expr_dot applies to the member's type
    from checks import type_common as TY
    from checks import tc_common as TCM
    wt = os.path.join(work, "ty"); os.makedirs(wt, exist_ok=True)
    tcl = TY.type_class(); write(wt, "type_class.inc", tcl.text)
    tst = TY.type_data_structs(); write(wt, "type_structs.inc", "\n".join(s.text for s in tst) + "\n")
    tm = TY.type_members(names=("type_t::type_t", "type_t::unknown", "type_t::size", "type_t::get", "type_t::operator[]", "type_t::get_label", "type_t::get_kind", "type_t::get_expression",
                                "type_t::get_position", "type_t::rename", "type_t::subst"))
    for sl in tm:
        if sl.name == "type_t::subst":
            sl.sub("L12:recursive call on a child->contract", r"get\(i\)\.subst\(", "get(i).subst__contract(", required=True)
            sl.sub("L12b:expression_t::subst->contract (C19)", r"data->expr\.subst\(symbol, expr\)", "verif_expr_subst(data->expr, symbol, expr)", required=True)
        if sl.name == "type_t::rename":
            sl.sub("L12:recursive call on a child->contract", r"get\(i\)\.rename\(", "get(i).rename__contract(", required=True)
    write(wt, "type_subst_members.inc", "\n".join(s.text for s in tm) + "\n")
    write(wt, "kinds.h", TCM.kinds_header())
    slices = slices + [tcl] + tst + tm
    tyobj = builder.cc(os.path.join(CDIR, "ty07.cpp"), includes=[wt, os.path.join(X.REPO, "include")], cpp=True)
    tyh = builder.cc(os.path.join(CDIR, "h_ty07.c"), includes=[wt])
    for nm in ("subst", "rename"):
        jobs.append(F.Job("c07_type_" + nm, "h_c07_type_" + nm, [tyobj, tyh], unwind=10, functions=["type_t::" + nm + " (one level; children by contract)"],
                          bound_note="type nodes of arity <= 3"))
    # the select binder of an edge (DocumentBuilder::proc_select / addSelectSymbolToFrame): the C04 builder job, run as a lemma of C07
    from checks import C04
    w4 = os.path.join(work, "c04"); os.makedirs(w4, exist_ok=True)
    b4 = C04.build(tier, w4, builder)
    sel = [j for j in b4["jobs"] if j.name == "c04_builder_select"]
    if len(sel) != 1:
        raise X.ExtractionBroken("C07: the select-binder job of C04 is missing")
    sel[0].name = "c07_scope_select"
    sel[0].note = "DocumentBuilder::proc_select (contracts/C04): the select binder is declared in the edge's select scope and is what its name denotes inside the edge, also when it shadows an outer declaration"
    jobs.append(sel[0])
    st = stmt_scope_slices(work)
    slices = slices + [s.info() if hasattr(s, "info") else s for s in []]
    stobj = builder.cc(os.path.join(CDIR, "sb07.cpp"), includes=[work, os.path.join(X.REPO, "include")], cpp=True)
    for nm, fns in (("iteration", ["StatementBuilder::iteration_begin", "StatementBuilder::iteration_end"]), ("block", ["StatementBuilder::block_begin", "StatementBuilder::block_end"])):
        jobs.append(F.Job("c07_scope_" + nm, "h_c07_scope_" + nm, [stobj, shobj], timeout=300, unwind=10,
                          functions=fns + ["StatementBuilder::get_block", "push_frame", "popFrame"], bound_note="frame stack depth <= 4, <= 1 open nested block"))
    slices = slices + st
    return {
        "jobs": jobs, "slices": [s.info() for s in slices],
        "drops": ["names are identities (string comparison is identity comparison)", "reference counting of shared_ptr"],
        "trusted_base": ["CBMC 6.11 C++ front end + SAT", "contracts/C07/sym07.cpp: std::map<string,int32_t> as a last-writer table over 4 names, fixed-capacity std::vector<symbol_t>, std::optional<uint32_t> as a flag + value"],
        "assumptions": ["induction over the length of the parent chain (meta-step): resolve on the parent frame is answered by its contract",
                        "which frame is on top of the builder's frame stack at each use site is decided by the grammar-driven callbacks (only the quantifier callbacks and expr_dot are under contract, c07_scope_*)",
                        "process-qualified names: expr_dot's process branch, add_instance's mapping and type_t::rename / type_t::subst (one level each; by induction over the type tree every occurrence inside the member's type is rewritten) are under contract; expression_t::subst by its contract (C19)"],
        "explanation": "",
    }


def replay(rec):
    rc, out = native.run_replay("c07_probe", [])
    import json
    try:
        res = json.loads(out[out.index("{"):])
    except Exception:
        return {"confirmed": None, "detail": {"rc": rc, "raw": out[-1500:]}}
    failed = [k for k, v in res.items() if v is not True]
    if failed:
        return {"confirmed": True, "detail": {"failed": failed, "report": res}, "real_code": "libUTAP built from /repo's working tree"}
    return {"confirmed": None, "detail": {"report": res}}
