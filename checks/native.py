"""Native replay support: builds libUTAP from /repo's working tree in a scratch directory
outside /repo and /verif (removed at exit) and runs small programs against the real API."""
import atexit
import json
import os
import shutil
import subprocess
import tempfile

from tools import extract as X
from tools import framework as F

_BUILD = None


def libutap():
    """Returns (builddir, libpath); builds once per process."""
    global _BUILD
    if _BUILD:
        return _BUILD
    bd = tempfile.mkdtemp(prefix="verif_utap_")
    atexit.register(shutil.rmtree, bd, True)
    env = dict(os.environ)
    cfg = subprocess.run(["cmake", "-G", "Ninja", "-S", X.REPO, "-B", bd, "-DCMAKE_BUILD_TYPE=Debug", "-DUTAP_WITH_TESTS=OFF"],
                         stdout=subprocess.PIPE, stderr=subprocess.STDOUT, env=env, timeout=600)
    if cfg.returncode != 0:
        raise RuntimeError("cmake configure failed: " + cfg.stdout.decode()[-1500:])
    b = subprocess.run(["cmake", "--build", bd, "--target", "UTAP", "-j16"], stdout=subprocess.PIPE, stderr=subprocess.STDOUT, env=env, timeout=1800)
    if b.returncode != 0:
        raise RuntimeError("libUTAP build failed: " + b.stdout.decode()[-2500:])
    lib = None
    for root, _, files in os.walk(bd):
        for f in files:
            if f in ("libUTAP.a", "libUTAP.so"):
                lib = os.path.join(root, f)
    if not lib:
        raise RuntimeError("libUTAP not found after build")
    _BUILD = (bd, lib)
    return _BUILD


def compile_against(cpp_path, exe_name, extra=()):
    bd, lib = libutap()
    exe = os.path.join(bd, exe_name)
    cmd = ["g++", "-std=c++17", "-g", "-O0", "-I", os.path.join(X.REPO, "include"), "-I", os.path.join(X.REPO, "src"),
           "-I", os.path.join(bd, "src", "include"), cpp_path, lib, "-lxml2", "-ldl", "-Wl,-rpath," + os.path.dirname(lib), "-o", exe] + list(extra)
    p = subprocess.run(cmd, stdout=subprocess.PIPE, stderr=subprocess.STDOUT, timeout=600)
    if p.returncode != 0:
        raise RuntimeError("replay program build failed: " + p.stdout.decode()[-2500:])
    return exe


_EXES = {}


def run_replay(name, args, stdin=None, timeout=60):
    if name not in _EXES:
        _EXES[name] = compile_against(os.path.join(F.VERIF, "replay", name + ".cpp"), name)
    p = subprocess.run([_EXES[name]] + [str(a) for a in args], input=stdin.encode() if stdin else None,
                       stdout=subprocess.PIPE, stderr=subprocess.STDOUT, timeout=timeout)
    return p.returncode, p.stdout.decode(errors="replace")


MODEL = """clock x, y; int i; bool b; double d; const int c = 3; int a[3];
process P() {{
  state s0 {inv}, s1;
  init s0;
  trans s0 -> s1 {{ guard {guard}; }};
}}
system P;
"""


def parse_model(text):
    rc, out = run_replay("xta_verdict", [], stdin=text)
    try:
        return json.loads(out[out.index("{"):])
    except Exception:
        return {"rc": rc, "raw": out[-800:], "errors": ["<unparsable output>"], "crashed": True}


def guard_verdict(expr):
    g = parse_model(MODEL.format(inv="", guard=expr))
    i = parse_model(MODEL.format(inv="{ " + expr + " }", guard="true"))
    return {"guard_accepted": not g.get("errors"), "guard_errors": g.get("errors"),
            "invariant_accepted": not i.get("errors"), "invariant_errors": i.get("errors")}


DECLS = """clock x, y; int i; int j; bool b; bool b2; double d; const int c = 3; int a[3]; int a2[3];
typedef struct {{ int f; }} S; S s; S s1; typedef struct {{ int f; int g; }} S2; S2 s2; chan ch; broadcast chan bch;
typedef scalar[3] sc_t; sc_t sc; sc_t sc1; int[0,5] ri;
"""
UPD_MODEL = DECLS + """process P() {{
  state s0, s1;
  init s0;
  trans s0 -> s1 {{ assign {upd}; }};
}}
system P;
"""


def update_probe(upd):
    """Type of an update expression in the standard declaration context."""
    rc, out = run_replay("expr_probe", [], stdin=UPD_MODEL.format(upd=upd))
    try:
        return json.loads(out[out.index("{"):])
    except Exception:
        return {"rc": rc, "raw": out[-800:], "errors": ["<unparsable output>"], "updates": []}
