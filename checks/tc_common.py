"""Shared slicing of src/typechecker.cpp and include/utap/type.h for the clause-level
proofs (C10, C14, C11, C12, C13).  Everything returned here is REAL text from /repo with
only the lowering rules of DESIGN 3.2 applied (logged in Slice.rules)."""
import os
import re

from tools import extract as X

TC = "src/typechecker.cpp"


def type_preds():
    """inline predicates of type.h (is_range() ... is_formula())."""
    src = X.Source("include/utap/type.h")
    sl = X.region(src, "type.h:inline-predicates", r"^\s*/\*\* Shortcut for is\(RANGE\)\. \*/", r"^\s*type_t strip\(\) const;")
    sl.sub("L13:local-using-namespace", r"^\s*using namespace Constants;\n", "", required=True)
    # the trailing doc comment of strip() is cut in the middle by the region end: close it
    if sl.text.count("/*") != sl.text.count("*/"):
        raise X.ExtractionBroken("type.h predicate region has an unbalanced comment")
    return sl


def helpers():
    """static helper predicates typechecker.cpp:36-152 (isCost ... isInvariantWR)."""
    src = X.Source(TC)
    sl = X.region(src, "typechecker.cpp:static-helpers", r"^static bool isCost\(expression_t expr\)",
                  r"^static bool isAssignable\(type_t type\)")
    return sl


def check_expression(src=None):
    src = src or X.Source(TC)
    return src, X.function(src, "TypeChecker::checkExpression", r"^bool TypeChecker::checkExpression\(expression_t expr\)")


def ce_head_tail(src, fn):
    """head: recursion over the children; tail: the type.unknown() epilogue."""
    s, e = src.find_unique(r"^\s*type_t type, arg1, arg2, arg3;\n", fn.start, fn.end, what="checkExpression: locals")
    head = X.Slice("checkExpression:head", src, fn.start, s)
    ts, te = src.find_unique(r"^    if \(type\.unknown\(\)\) \{", fn.start, fn.end, what="checkExpression: epilogue")
    tail = X.Slice("checkExpression:tail", src, ts, fn.end)
    return head, tail


def clause(src, fn, label, name=None):
    return X.switch_clause(src, name or f"checkExpression:case {label}", fn, label)


def mini_check_expression(labels, cls="TypeChecker", fname="checkExpression_clauses"):
    """Builds `bool TypeChecker::checkExpression_clauses(expression_t expr)` from the REAL
    clause texts for the given case labels + the REAL epilogue.  Returns (text, slices)."""
    src, fn = check_expression()
    head, tail = ce_head_tail(src, fn)
    slices = [head, tail]
    body = []
    seen = set()
    for lab in labels:
        cl = clause(src, fn, lab)
        if (cl.start, cl.end) in seen:
            continue
        seen.add((cl.start, cl.end))
        lower_literals(cl)
        slices.append(cl)
        body.append(cl.text)
    # the head must be exactly: empty check, children loop, ok check (children are visited first)
    h = re.sub(r"/\*.*?\*/", "", head.text, flags=re.S)
    h = re.sub(r"\s+", " ", h)
    want = ("bool TypeChecker::checkExpression(expression_t expr) { if (expr.empty()) return true; bool ok = true; "
            "for (uint32_t i = 0; i < expr.get_size(); i++) ok &= checkExpression(expr[i]); if (!ok) return false; ")
    if h.strip() != want.strip():
        raise X.ExtractionBroken("checkExpression prologue changed: children are no longer (provably) visited first: " + h[:300])
    lower_literals(tail)
    text = (f"bool {cls}::{fname}(expression_t expr)\n{{\n    bool ok = true;\n    type_t type, arg1, arg2, arg3;\n"
            "    switch (expr.get_kind()) {\n" + "\n".join(body) + "\n    default: return true;\n    }\n" + tail.text + "\n")
    return text, slices


def member_function(name, sig_regex, rename=None):
    src = X.Source(TC)
    sl = X.function(src, name, sig_regex)
    return sl


def gate(name, start_regex, end_regex, include_end=True):
    src = X.Source(TC)
    return X.region(src, name, start_regex, end_regex, include_end=include_end)


_KINDS = None


def kind_names():
    """kind_t enumerators of the REAL include/utap/common.h, in order."""
    global _KINDS
    if _KINDS is None:
        src = X.Source("include/utap/common.h")
        sl = X.braced(src, "common.h:enum kind_t", r"^enum kind_t \{")
        body = sl.text[sl.text.index("{") + 1:sl.text.rindex("}")]
        body = re.sub(r"/\*.*?\*/", "", body, flags=re.S)
        body = re.sub(r"//[^\n]*", "", body)
        names = [n.strip() for n in body.split(",") if n.strip()]
        for n in names:
            if not re.match(r"^[A-Z_0-9a-z]+$", n):
                raise X.ExtractionBroken("kind_t enumerator with explicit value or odd syntax: " + n)
        _KINDS = names
    return _KINDS


WRAPPERS = ["URGENT", "COMMITTED", "BROADCAST", "CONSTANT", "HYBRID", "SYSTEM_META", "RANGE", "REF", "LABEL"]


def kinds_header():
    names = kind_names()
    out = ["/* GENERATED from include/utap/common.h (enum kind_t) */"]
    for i, n in enumerate(names):
        out.append(f"#define K_{n} {i}")
    out.append(f"#define K__LAST {len(names) - 1}")
    out.append("#define IS_WRAPPER(k) (" + " || ".join(f"(k) == K_{w}" for w in WRAPPERS) + ")")
    out.append("#define VALID_KIND(k) ((k) >= 0 && (k) <= K__LAST)")
    out.append("#define VALID_BASE(k) (VALID_KIND(k) && !IS_WRAPPER(k))")
    return "\n".join(out) + "\n"


# ---- rule L14: string literals -> verif_lit(id, "text") ---------------------------------
MSG = {}


def lower_literals(sl):
    """Replace every string literal of the slice by verif_lit(<id>, literal)."""
    text = sl.text
    out = []
    i = 0
    n = len(text)
    count = 0
    while i < n:
        ch = text[i]
        if ch == "/" and text[i:i + 2] == "//":
            j = text.find("\n", i)
            j = n if j < 0 else j
            out.append(text[i:j]); i = j
        elif ch == "/" and text[i:i + 2] == "/*":
            j = text.find("*/", i + 2)
            j = n if j < 0 else j + 2
            out.append(text[i:j]); i = j
        elif ch == "'":
            j = i + 1
            while j < n and text[j] != "'":
                j += 2 if text[j] == "\\" else 1
            out.append(text[i:j + 1]); i = j + 1
        elif ch == '"':
            j = i + 1
            while j < n and text[j] != '"':
                j += 2 if text[j] == "\\" else 1
            lit = text[i:j + 1]
            # adjacent literal concatenation ("a" "b") is joined
            k = j + 1
            while True:
                m = re.match(r'\s*"', text[k:])
                if not m:
                    break
                k2 = k + m.end()
                while k2 < n and text[k2] != '"':
                    k2 += 2 if text[k2] == "\\" else 1
                lit = lit[:-1] + text[k + m.end():k2 + 1]
                k = k2 + 1
            key = lit[1:-1]
            if key not in MSG:
                MSG[key] = len(MSG) + 1
            out.append(f"verif_lit({MSG[key]}, {lit})")
            count += 1
            i = k
        else:
            out.append(ch); i += 1
    sl.text = "".join(out)
    sl.rules["L14:string-literal->verif_lit"] = sl.rules.get("L14:string-literal->verif_lit", 0) + count
    return sl


def msg_header():
    out = ["/* GENERATED: ids of the string literals of the slices (rule L14) */"]
    fam = {"SIDE_EFFECT": [], "NOT_GUARD": [], "NOT_INVARIANT": [], "TYPE_ERROR": [], "LHS_EXPECTED": [], "INCOMPATIBLE_ARG": [],
           "NOT_COMPUTABLE": [], "INLINE_IF": [], "BOOLEAN_EXPECTED": []}
    for lit, i in sorted(MSG.items(), key=lambda kv: kv[1]):
        out.append(f"/* {i}: {lit!r} */")
        if lit.endswith("side-effect_free"):
            fam["SIDE_EFFECT"].append(i)
        if lit == " $cannot_be_used_as_a_guard":
            fam["NOT_GUARD"].append(i)
        if lit == " $cannot_be_used_as_an_invariant":
            fam["NOT_INVARIANT"].append(i)
        if lit == "$Type_error":
            fam["TYPE_ERROR"].append(i)
        if lit == "$Left_hand_side_value_expected":
            fam["LHS_EXPECTED"].append(i)
        if lit == "$Incompatible_argument":
            fam["INCOMPATIBLE_ARG"].append(i)
        if lit == "$Must_be_computable_at_compile_time":
            fam["NOT_COMPUTABLE"].append(i)
        if lit == "$Incompatible_arguments_to_inline_if":
            fam["INLINE_IF"].append(i)
        if lit == "$Boolean_expected":
            fam["BOOLEAN_EXPECTED"].append(i)
    for f, ids in fam.items():
        cond = " || ".join(f"(m) == {i}" for i in ids) or "0"
        out.append(f"#define MSG_IS_{f}(m) ({cond})")
    return "\n".join(out) + "\n"
