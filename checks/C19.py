"""C19 - expression cloning, substitution and equality obey their algebraic laws."""
import os
import re

from tools import framework as F
from tools import extract as X
from checks import tc_common as T
from checks import native

CDIR = os.path.join(F.VERIF, "contracts", "C19")
EX = "src/expression.cpp"


def write(work, name, text):
    with open(os.path.join(work, name), "w") as f:
        f.write(text)


RANGE_FOR = re.compile(r"for \(const auto& s : data->sub\)\s*\n\s*expr\.data->sub\.push_back\(s\.(clone_deeper(?:__contract)?)\(([^)]*)\)\);")


def lower_common(sl):
    sl.sub("L4:auto x = T{a, b}", r"auto expr = expression_t\{([^{}]*)\};", r"expression_t expr = expression_t(\1);")
    return sl


def grammar_arities():
    """(factory arity, kind) pairs the grammar passes to expr_unary/binary/ternary/nary with a literal kind."""
    src = X.Source("src/parser.y")
    text = src.text
    out = {"unary": set(), "binary": set(), "ternary": set(), "nary": set()}
    for m in re.finditer(r"\bexpr_(unary|binary|ternary|nary)\(\s*([A-Z_0-9a-z]+)\s*[,)]", text):
        if src.mask[m.start()] != "c":
            continue
        out[m.group(1)].add(m.group(2))
    # token-valued kinds ($1): the productions `X: T_TOK { $$ = KIND; }` of UnaryOp / BuiltinFunction1..3 / AssignOp
    groups = {"UnaryOp": "unary", "BuiltinFunction1": "unary", "BuiltinFunction2": "binary", "BuiltinFunction3": "ternary", "AssignOp": "binary"}
    for nt, ar in groups.items():
        m = re.search(r"^%s\s*:(.*?)^\s*;" % nt, text, re.M | re.S)
        if not m:
            raise X.ExtractionBroken(f"parser.y: non-terminal {nt} not found")
        ks = re.findall(r"\$\$\s*=\s*([A-Z_0-9a-z]+)\s*;", m.group(1))
        if not ks:
            raise X.ExtractionBroken(f"parser.y: no `$$ = KIND` actions in {nt}")
        out[ar].update(ks)
    if len(out["binary"]) < 30 or len(out["unary"]) < 10:
        raise X.ExtractionBroken("parser.y: fewer expr_unary/expr_binary call sites than expected (%d/%d)" % (len(out["unary"]), len(out["binary"])))
    return out


def expr_core(work):
    """Slices struct expression_data, the node constructor, ValueTypeEquality, clone/clone_deeper/subst/equal/get_size/
    accessors and the create_* factories into expr_data.inc / expr_value_eq.inc / expr_funcs.inc (shared with C02)."""
    slices = []
    src = X.Source(EX)
    write(work, "kinds.h", T.kinds_header())
    # --- struct expression_data + private constructor
    ed = X.braced(src, "struct expression_t::expression_data", r"^struct expression_t::expression_data")
    ed.sub("L19:drop enable_shared_from_this base", r" : public std::enable_shared_from_this<expression_t::expression_data>", "", required=True)
    ed.sub("L19:std::variant<...>->tagged struct", r"std::variant<int32_t, synchronisation_t, double, StringIndex> value;", "verif_variant value;", required=True)
    ed.sub("L4:member{}", r"std::vector<expression_t> sub\{\};", "std::vector<expression_t> sub;", required=True)
    ed.sub("L4:ctor-init braces", r"position\{p\}, kind\{kind\}, value\{value\} \{\}", "position(p), kind(kind), value(value) {}", required=True)
    ctor = X.function(src, "expression_t::expression_t(kind, pos)", r"^expression_t::expression_t\(kind_t kind, const position_t& pos\)")
    ctor.sub("L19:std::make_shared<T>(...)->new T(...)", r"std::make_shared<expression_data>\(", "new expression_data(", required=True)
    write(work, "expr_data.inc", ed.text + "\n" + ctor.text + "\n")
    slices += [ed, ctor]
    # --- ValueTypeEquality
    vte = X.braced(src, "struct ValueTypeEquality", r"^struct ValueTypeEquality")
    m = re.search(r"struct ValueTypeEquality\s*\{\s*template <typename T1, typename T2>\s*bool operator\(\)\(const T1& a, const T2& b\) const\s*\{(.*)\}\s*\};", vte.text, re.S)
    if not m:
        raise X.ExtractionBroken("ValueTypeEquality: shape changed (rule L18 must fire)")
    body = m.group(1)
    # Rule L18: the member-template operator() becomes sixteen free functions, one per pair of alternatives of the value
    # variant, with T1 / T2 replaced by the concrete types and every `if constexpr` decided by the generator from the
    # <type_traits> facts of the four alternatives (so a discarded branch need not compile, exactly as in C++).
    ALTS = [("int32_t", dict(arithmetic=True, integral=True, floating_point=False, enum=False)),
            ("synchronisation_t", dict(arithmetic=False, integral=False, floating_point=False, enum=True)),
            ("double", dict(arithmetic=True, integral=False, floating_point=True, enum=False)),
            ("StringIndex", dict(arithmetic=False, integral=False, floating_point=False, enum=False))]

    def decide(cond, t1, f1, t2, f2):
        c = cond
        c = re.sub(r"std::is_same_v<\s*T1\s*,\s*T2\s*>|std::is_same_v<\s*T2\s*,\s*T1\s*>", str(t1 == t2), c)
        for tr in ("arithmetic", "integral", "floating_point", "enum"):
            c = re.sub(r"std::is_%s_v<\s*T1\s*>" % tr, str(f1[tr]), c)
            c = re.sub(r"std::is_%s_v<\s*T2\s*>" % tr, str(f2[tr]), c)
        c = c.replace("&&", " and ").replace("||", " or ").replace("!", " not ")
        if not re.fullmatch(r"[\s()]*(?:(?:True|False|and|or|not)[\s()]*)+", c):
            raise X.ExtractionBroken("ValueTypeEquality: an `if constexpr` condition rule L18 cannot decide: " + cond.strip())
        return bool(eval(c))

    def resolve(txt, t1, f1, t2, f2):
        """statement text -> the statement that survives the if-constexpr chain"""
        ts = X.Source("<vte>", text=txt)
        mm = re.match(r"\s*if constexpr\s*\(", txt)
        if not mm:
            return txt
        p = mm.end() - 1
        pe = ts.match_brace(p)
        cond = txt[p + 1:pe - 1]
        then_end = X._statement_end(ts, pe)
        then_txt = txt[pe:then_end]
        rest = txt[then_end:]
        em = re.match(r"\s*else\b", rest)
        else_txt = rest[em.end():] if em else ""
        if decide(cond, t1, f1, t2, f2):
            return resolve(then_txt, t1, f1, t2, f2)
        return resolve(else_txt, t1, f1, t2, f2) if else_txt.strip() else ""
    out = ["namespace UTAP {"]
    n_branches = 0
    for t1, f1 in ALTS:
        for t2, f2 in ALTS:
            stmt = resolve(body, t1, f1, t2, f2).strip()
            if not stmt:
                raise X.ExtractionBroken("ValueTypeEquality: no statement survives for <%s, %s>" % (t1, t2))
            stmt = re.sub(r"\bT1\b", t1, stmt)
            stmt = re.sub(r"\bT2\b", t2, stmt)
            stmt = re.sub(r"std::numeric_limits<\s*double\s*>::epsilon\(\)", "2.220446049250313e-16", stmt)
            out.append("inline bool ValueTypeEquality__call(const %s& a, const %s& b)\n{\n    %s\n}" % (t1, t2, stmt))
            n_branches += 1
    out.append("}")
    vte.text = "\n".join(out) + "\n"
    vte.rules["L18:member-template operator()->one free function per pair of variant alternatives, if constexpr decided per pair"] = n_branches
    write(work, "expr_value_eq.inc", vte.text)
    slices.append(vte)
    # --- functions
    fl = []
    cl = lower_common(X.function(src, "expression_t::clone", r"^expression_t expression_t::clone\(\) const"))
    fl.append(cl)
    for name, rx in (("expression_t::clone_deeper()", r"^expression_t expression_t::clone_deeper\(\) const"),
                     ("expression_t::clone_deeper(symbol_t, symbol_t)", r"^expression_t expression_t::clone_deeper\(symbol_t from, symbol_t to\) const"),
                     ("expression_t::clone_deeper(frame_t, frame_t)", r"^expression_t expression_t::clone_deeper\(frame_t frame, frame_t select\) const")):
        sl = lower_common(X.function(src, name, rx))
        X.rename_self_calls(sl, "clone_deeper", pattern=r"[\w\]\)]\s*(?:\.|->)\s*clone_deeper\(", minimum=0)
        X.lower_range_for(sl, "expression_t")
        if "symbol_t from" in rx:
            sl.sub("L20:x = c ? a : b (class-typed) -> if/else", r"expr\.data->symbol = \(data->symbol == from\) \? to : data->symbol;",
                   "if (data->symbol == from) expr.data->symbol = to; else expr.data->symbol = data->symbol;", required="? to : data->symbol" in sl.text)
        fl.append(sl)
    su = X.function(src, "expression_t::subst", r"^expression_t expression_t::subst\(symbol_t symbol, expression_t expr\) const")
    X.rename_self_calls(su, "subst", pattern=r"[\w\]\)]\s*\.\s*subst\(", minimum=0)
    su.sub("L15:auto x = <expression>.subst(...) -> expression_t x", r"\b(const\s+)?auto(\s*&)?\s+(\w+)\s*=\s*([^;]*subst__contract\()", r"\1expression_t \3 = \4")
    su.sub("L15:auto x = clone() -> expression_t x", r"\b(const\s+)?auto\s+(\w+)\s*=\s*(clone\(\))", r"\1expression_t \2 = \3")
    X.lower_range_for(su, "expression_t")
    su.sub("L12b:get_size->contract", r"\bget_size\(\)", "get_size__contract()")
    fl.append(su)
    eq = X.function(src, "expression_t::equal", r"^bool expression_t::equal\(const expression_t& e\) const")
    X.rename_self_calls(eq, "equal", pattern=r"[\w\]\)]\s*\.\s*equal\(", minimum=0)
    X.lower_range_for(eq, "expression_t")
    eq.sub("L19:std::visit(ValueTypeEquality{}, a, b)->16-way dispatch", r"std::visit\(ValueTypeEquality\{\}, ", "verif_visit2(", required="std::visit" in eq.text)
    eq.sub("L12b:get_size->contract", r"\bget_size\(\)", "get_size__contract()")
    fl.append(eq)
    gsz = X.function(src, "expression_t::get_size", r"^size_t expression_t::get_size\(\) const")
    gsz.sub("L19:std::get<int32_t>", r"std::get<int32_t>\(data->value\)", "verif_get_int(data->value)", required=True)
    fl.append(gsz)
    for name, rx in (("expression_t::get_kind", r"^kind_t expression_t::get_kind\(\) const"),
                     ("expression_t::get_type", r"^type_t expression_t::get_type\(\) const"),
                     ("expression_t::set_type", r"^void expression_t::set_type\(type_t type\)"),
                     ("expression_t::empty", r"^bool expression_t::empty\(\) const"),
                     ("expression_t::operator[]", r"^expression_t& expression_t::operator\[\]\(uint32_t i\)"),
                     ("expression_t::operator[] const", r"^const expression_t expression_t::operator\[\]\(uint32_t i\) const"),
                     ("expression_t::get", r"^expression_t& expression_t::get\(uint32_t i\)"),
                     ("expression_t::get const", r"^const expression_t& expression_t::get\(uint32_t i\) const")):
        sl = X.function(src, name, rx)
        if "get_size()" in sl.text:
            sl.sub("L12b:get_size->contract", r"\bget_size\(\)", "get_size__contract()", required=True)
        fl.append(sl)
    gsy = X.function(src, "expression_t::get_symbol const", r"^const symbol_t expression_t::get_symbol\(\) const")
    X.rename_self_calls(gsy, "get_symbol", pattern=r"\)\.get_symbol\(", minimum=0)
    fl.append(gsy)
    facts = []
    for name, rx in (("create_constant", r"^expression_t expression_t::create_constant\(int32_t value, position_t pos\)"),
                     ("create_var_index", r"^expression_t expression_t::create_var_index\(int32_t value, position_t pos\)"),
                     ("create_exit", r"^expression_t expression_t::create_exit\(position_t pos\)"),
                     ("create_double", r"^expression_t expression_t::create_double\(double value, position_t pos\)"),
                     ("create_string", r"^expression_t expression_t::create_string\(StringIndex str, position_t pos\)"),
                     ("create_identifier", r"^expression_t expression_t::create_identifier\(symbol_t symbol, position_t pos\)"),
                     ("create_nary", r"^expression_t expression_t::create_nary\(kind_t kind, vector<expression_t> sub, position_t pos, type_t type\)"),
                     ("create_unary", r"^expression_t expression_t::create_unary\(kind_t kind, expression_t sub, position_t pos, type_t type\)"),
                     ("create_binary", r"^expression_t expression_t::create_binary\(kind_t kind, expression_t left, expression_t right, position_t pos,\s*type_t type\)"),
                     ("create_ternary", r"^expression_t expression_t::create_ternary\(kind_t kind, expression_t e1, expression_t e2, expression_t e3,\s*position_t pos, type_t type\)"),
                     ("create_dot", r"^expression_t expression_t::create_dot\(expression_t e, int32_t idx, position_t pos, type_t type\)"),
                     ("create_sync", r"^expression_t expression_t::create_sync\(expression_t e, synchronisation_t s, position_t pos\)"),
                     ("create_deadlock", r"^expression_t expression_t::create_deadlock\(position_t pos\)")):
        sl = lower_common(X.function(src, "expression_t::" + name, rx))
        if "auto expr" in sl.text:
            raise X.ExtractionBroken(f"{name}: `auto expr = expression_t{{...}}` lowering (L4) did not fire")
        facts.append(sl)
    text = "\n".join(s.text for s in fl + facts) + "\n"
    write(work, "expr_funcs.inc", text)
    slices += fl + facts
    return slices


def build(tier, work, builder):
    slices = expr_core(work)
    # --- the REAL ExpressionBuilder::expr_unary (maps the grammar's unary operator kinds to node kinds)
    eb = X.Source("src/ExpressionBuilder.cpp")
    eu = X.function(eb, "ExpressionBuilder::expr_unary", r"^void ExpressionBuilder::expr_unary\(kind_t unaryop\)")
    eu.sub("glue:member->free function", r"void ExpressionBuilder::expr_unary\(kind_t unaryop\)", "static void verif_expr_unary(kind_t unaryop)", required=True)
    eu.sub("glue:fragments[0]->the operand on top of the fragment stack", r"fragments\[0\]", "verif_frag0", required=True)
    write(work, "builder_unary.inc", eu.text + "\n")
    slices.append(eu)
    # --- generated table: kinds the grammar hands to each factory
    ar = grammar_arities()
    kn = T.kind_names()
    tab = ["/* GENERATED from src/parser.y: literal kinds passed to expr_unary/binary/ternary/nary, and the kinds of the token groups UnaryOp, BuiltinFunction1..3, AssignOp */"]
    for a in ("unary", "binary", "ternary", "nary"):
        ks = sorted(k for k in ar[a] if k in kn)
        unknown = sorted(k for k in ar[a] if k not in kn)
        if unknown:
            raise X.ExtractionBroken(f"parser.y passes unknown kinds to expr_{a}: {unknown}")
        tab.append(f"#define N_{a.upper()} {len(ks)}")
        tab.append(f"static const int KINDS_{a.upper()}[] = {{" + ", ".join("K_" + k for k in ks) + "};")
    write(work, "arity_table.h", "\n".join(tab) + "\n")
    exobj = builder.cc(os.path.join(CDIR, "ex19.cpp"), includes=[work, os.path.join(X.REPO, "include")], cpp=True)
    exobj_assume = builder.cc(os.path.join(CDIR, "ex19.cpp"), includes=[work, os.path.join(X.REPO, "include")], cpp=True,
                              defines=["VERIF_ASSERT_AS_ASSUME", "NKID=8", "VERIF_VEC_CAP=8", "NTREE=1", "VERIF_SMALL_POOL"])
    exobj_small = builder.cc(os.path.join(CDIR, "ex19.cpp"), includes=[work, os.path.join(X.REPO, "include")], cpp=True, defines=["NTREE=1", "VERIF_SMALL_POOL"])
    hobj = builder.cc(os.path.join(CDIR, "h_c19.c"), includes=[work])
    hobj8 = builder.cc(os.path.join(CDIR, "h_c19.c"), includes=[work], defines=["NKID=8", "NTREE=1"])
    hobj_small = builder.cc(os.path.join(CDIR, "h_c19.c"), includes=[work], defines=["NTREE=1"])
    jobs = []

    def J(name, entry, fns, obj=exobj, **kw):
        kw.setdefault("unwind", 14)
        jobs.append(F.Job(name, entry, [obj, hobj8 if obj is exobj_assume else hobj_small if obj is exobj_small else hobj], timeout=600, functions=fns, bound_note=kw.pop("bound_note", "arity <= 4"), **kw))
    J("c19_clone", "h_c19_clone", ["expression_t::clone", "expression_t::expression_t(kind_t, const position_t&)"])
    J("c19_clone_deeper", "h_c19_clone_deeper", ["expression_t::clone_deeper()", "expression_t::equal"])
    J("c19_clone_deeper_sym", "h_c19_clone_deeper_sym", ["expression_t::clone_deeper(symbol_t, symbol_t)"])
    J("c19_clone_deeper_frame", "h_c19_clone_deeper_frame", ["expression_t::clone_deeper(frame_t, frame_t)"])
    J("c19_subst", "h_c19_subst", ["expression_t::subst", "expression_t::clone", "expression_t::operator[]"])
    J("c19_subst_identity", "h_c19_subst_identity", ["expression_t::subst", "expression_t::equal"])
    J("c19_equal_spec", "h_c19_equal_spec", ["expression_t::equal", "ValueTypeEquality::operator()"])
    J("c19_equal_equivalence", "h_c19_equal_equivalence", ["expression_t::equal", "ValueTypeEquality::operator()"])
    J("c19_equal_total", "h_c19_equal_total", ["expression_t::equal"])
    J("c19_factories", "h_c19_factories", ["expression_t::create_constant", "create_var_index", "create_exit", "create_double", "create_string", "create_identifier",
                                           "create_nary", "create_unary", "create_binary", "create_ternary", "create_dot", "create_sync", "create_deadlock"])
    J("c19_get_size_grammar", "h_c19_get_size_grammar", ["expression_t::get_size", "ExpressionBuilder::expr_unary", "create_unary", "create_binary", "create_ternary", "create_nary"], obj=exobj_small)
    J("c19_get_size_spec", "h_c19_get_size_spec", ["expression_t::get_size"], obj=exobj_assume, unwind=26, bound_note="arity <= 8")
    return {
        "jobs": jobs, "slices": [s.info() for s in slices],
        "drops": ["positions are an opaque identity", "reference counting of shared_ptr (nodes are never freed in the slice)", "print/str (\"equal implies equal text\" is not decided)"],
        "trusted_base": ["CBMC 6.11 C++ front end + SAT", "stubs/expr_tree.h (vector capacity 4, tagged-struct variant, raw-pointer shared_ptr, identities for type_t/symbol_t/StringIndex/position_t, table-driven frame_t::resolve)"],
        "assumptions": ["induction over tree height (meta-step): recursive calls on children are answered by the contracts clone_deeper__contract / subst__contract / equal__contract",
                        "children of parsed trees are never empty expressions (no builder callback installs one)",
                        "double constants are not NaN (the lexer's atof on a decimal literal never yields NaN); == on double is the comparison equal() uses",
                        "kinds handed to the factories by builder callbacks other than expr_unary/binary/ternary/nary with a literal or token-group kind (e.g. expr_proba_*, expr_simulate, MITL) are not in the generated table: for them get_size is covered only by the general statement c19_get_size_spec",
                        "\"equal implies equal text\" (print) is not under contract"],
        "explanation": "",
    }


def replay(rec):
    ob = (rec.get("description") or "") + " " + (rec.get("obligation") or "")
    rc, out = native.run_replay("c19_probe", [])
    import json
    try:
        res = json.loads(out[out.index("{"):])
    except Exception:
        return {"confirmed": None, "detail": {"rc": rc, "raw": out[-1500:], "why": "replay program crashed or produced no report"}}
    failed = [k for k, v in res.items() if v is not True]
    if failed:
        return {"confirmed": True, "detail": {"failed_laws": failed, "report": res, "failed_obligation": ob,
                                              "why": "the algebraic laws listed fail on expressions parsed by the real library"},
                "real_code": "libUTAP built from /repo's working tree"}
    return {"confirmed": None, "detail": {"report": res, "why": "no law of the native probe table fails"}}
