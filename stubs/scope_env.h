/* Environment for the scope callbacks of the builders (C07 part 2, reused by C08): on top of stubs/expr_tree.h,
   frames and symbols live in small arenas (TRUSTED; their behaviour is the contract proved for the real frame_t
   in c07_add_symbol / c07_resolve: add_symbol appends and binds the name, resolve answers with the nearest frame
   on the parent chain), names are small identities, types carry a base kind + a CONSTANT flag. */
#ifndef VERIF_SCOPE_ENV_H
#define VERIF_SCOPE_ENV_H
#define VERIF_FRAME_ARENA
#include "expr_tree.h"

namespace std {
/* std::stack<T> */
template <typename T>
class stack
{
public:
    T elems[8];
    size_t n;
    stack(): n(0) {}
    void push(const T& x) { __CPROVER_assert(n < 8, "stub: frame stack capacity"); elems[n] = x; n++; }
    void pop() { __CPROVER_assert(n > 0, "stub: pop() on a non-empty stack"); n--; }
    T& top() { __CPROVER_assert(n > 0, "stub: top() on a non-empty stack"); return elems[n - 1]; }
    T top() const { __CPROVER_assert(n > 0, "stub: top() on a non-empty stack"); return elems[n - 1]; } /* by value: CBMC mis-types const T& returns */
    bool empty() const { return n == 0; }
    size_t size() const { return n; }
};
}  // namespace std
#endif
