/* Abstract environment for slices of typechecker.cpp / expression.cpp / featurechecker.cpp
   (DESIGN 3.3).  Everything in this file is TRUSTED (assumed contracts of the
   dependencies); everything #included from the work directory (*.inc) is REAL code sliced
   from /repo on every run.

   -DVERIF_TYPE_FLAT : type_t is the flat abstraction justified by lemma TYPE-IS:
                       a base kind + the set of wrapper kinds on the prefix chain.
   -DVERIF_TYPE_TREE : type_t is a pointer into a node pool; the REAL type_t members from
                       type.cpp are included (type_members.inc).                          */
#ifndef VERIF_UTAP_ABS_H
#define VERIF_UTAP_ABS_H

#include <cstdint>
#include <cassert>
#include <algorithm>
#include "utap/common.h" /* the REAL include/utap/common.h (kind_t) */

/* ---- ghost state shared with the C harness (scalars only) --------------------------- */
extern "C" {
extern int verif_err_count;      /* number of handleError calls                         */
extern int verif_warn_count;     /* number of handleWarning calls                       */
extern int verif_last_err;       /* message id of the last error (see verif_msg_id)     */
extern int verif_thrown;         /* L9: a `throw` was executed                          */
}

namespace std {
/* minimal std::string: only what the slices use (construction from a literal, +=, ==) */
struct string
{
    const char* p;
    int id;  /* id of the (last appended) literal, 0 = none */
    int cat;
    string(): p(""), id(0), cat(0) {}
    string(const char* s): p(s), id(0), cat(0) {}
    string& operator+=(const string& o) { cat++; if (o.id != 0) id = o.id; return *this; }
    string& operator+=(const char* o) { cat++; return *this; }
    bool empty() const { return p[0] == 0 && cat == 0; }
};
inline bool operator==(const string& a, const string& b) { return a.id == b.id && a.p == b.p; }
inline bool operator!=(const string& a, const string& b) { return !(a == b); }
template <typename A, typename B>
struct pair
{
    A first;
    B second;
    pair(): first(), second() {}
    pair(const A& a, const B& b): first(a), second(b) {}
};
template <typename A, typename B>
inline pair<A, B> make_pair(const A& a, const B& b) { return pair<A, B>(a, b); }
}  // namespace std

/* rule L14: every string literal in a slice is replaced by verif_lit(<id>, "<text>") where
   the id is assigned per distinct literal by the extractor (msg_ids.h is generated on every
   run), so diagnostics can be identified without string loops. */
inline std::string verif_lit(int id, const char* p)
{
    std::string s(p);
    s.id = id;
    return s;
}

namespace UTAP {
using Constants::kind_t;
using namespace Constants; /* type.h's members say `using namespace Constants;` locally (L13) */

struct position_t
{
    int v;
    position_t(): v(0) {}
};

class expression_t;
class symbol_t;
class frame_t;

#ifndef VERIF_NSID
#define VERIF_NSID 4
#endif
enum {
    VW_URGENT = 1, VW_COMMITTED = 2, VW_BROADCAST = 4, VW_CONSTANT = 8, VW_HYBRID = 16,
    VW_SYSTEM_META = 32, VW_RANGE = 64, VW_REF = 128, VW_LABEL = 256, VW_ALL = 511
};
inline unsigned verif_wrap_bit(kind_t k)
{
    switch (k) {
    case Constants::URGENT: return VW_URGENT;
    case Constants::COMMITTED: return VW_COMMITTED;
    case Constants::BROADCAST: return VW_BROADCAST;
    case Constants::CONSTANT: return VW_CONSTANT;
    case Constants::HYBRID: return VW_HYBRID;
    case Constants::SYSTEM_META: return VW_SYSTEM_META;
    case Constants::RANGE: return VW_RANGE;
    case Constants::REF: return VW_REF;
    case Constants::LABEL: return VW_LABEL;
    default: return 0;
    }
}
#ifdef VERIF_TYPE_TREE
}  // namespace UTAP
/* ---- tree type stub: the REAL class type_t (type.h) over a raw node pointer ----------- */
namespace std {
struct ostream;
template <typename T> struct optional { bool has; T v; optional(): has(false) {} };
#ifndef VERIF_VEC_CAP
#define VERIF_VEC_CAP 3
#endif
/* fixed-capacity std::vector: only what type.cpp uses on `children` */
template <typename T>
class vector
{
public:
    T elems[VERIF_VEC_CAP];
    size_t n;
    vector(): n(0) {}
    void resize(size_t k) { __CPROVER_assert(k <= VERIF_VEC_CAP, "stub: vector capacity (type arity bound)"); n = k; }
    size_t size() const { return n; }
    T& operator[](size_t i) { __CPROVER_assert(i < n, "stub: vector index < size()"); return elems[i]; }
    const T& operator[](size_t i) const { __CPROVER_assert(i < n, "stub: vector index < size()"); return elems[i]; }
};
template <typename T, typename A, typename B>
inline T* make_shared(A a, B b) { return new T(a, b); }
template <typename T> inline T move(T x) { return x; }
}  // namespace std
namespace UTAP {
using std::string;
#include "type_class.inc" /* REAL: class type_t from include/utap/type.h (lowered: raw pointer, explicit default ctor) */
#endif
#ifdef VERIF_TYPE_FLAT
/* ---- flat type abstraction (lemma TYPE-IS) ------------------------------------------
   t.is(K)  <=>  K is the base kind, or K is one of the wrapper kinds on the chain.
   Wrapper kinds that occur in documents: the prefixes URGENT COMMITTED BROADCAST CONSTANT
   HYBRID SYSTEM_META and RANGE REF LABEL.  konst/mut abstract is_constant()/is_mutable(). */
/* abstract range-bound expression: identity only (equal() is an equivalence relation) */
struct verif_rng
{
    int id;
    verif_rng(): id(0) {}
    bool equal(const verif_rng& o) const { return id == o.id; }
};
class type_t
{
public:
    kind_t base;
    unsigned wrap;
    bool konst, mut;
    mutable std::pair<verif_rng, verif_rng> range; /* abstract identities of the two range-bound expressions */
    int nrec;     /* number of record fields (abstract)                                  */
    int sid0, sid1, sid2, sid3;   /* (no array member: CBMC cannot synthesise operator= for it) abstract identities (0..VERIF_NSID-1) of the sub-structures: field 0, field 1, array element, array size */
    int lab0, lab1; /* abstract identities of the first two record labels                */
    type_t(): base(Constants::UNKNOWN), wrap(0), konst(false), mut(true), nrec(0), lab0(0), lab1(0), self(0), tag(0), sid0(0), sid1(0), sid2(0), sid3(0), nchild(0) {}
    type_t(kind_t k, const position_t&, size_t): base(k), wrap(0), konst(false), mut(true), nrec(0), lab0(0), lab1(0), self(0), tag(1), sid0(0), sid1(0), sid2(0), sid3(0), nchild(0) {}
    /* deep structure is abstract in the flat stub: sub-types are arbitrary (callers that
       recurse into them are answered by a contract, rule L12) */
    /* returns a reference: CBMC's front end cannot call a member on an rvalue's member */
    const std::pair<verif_rng, verif_rng>& get_range() const { return range; }
    uint32_t get_record_size() const { return (uint32_t)nrec; }
    int get_record_label(size_t i) const { return i == 0 ? lab0 : lab1; }
    /* sub-structures live in a pool of arbitrary flat types (set up once by the wrapper), so
       they are deterministic functions of the parent */
    type_t get_sub(uint32_t i) const;
    type_t get_sub() const;
    type_t get_array_size() const;
    /* children of constructed types (FUNCTION: [0] return type, [i] parameter i): pool slots sid0..sid3 */
    int nchild;
    size_t size() const { return (size_t)nchild; }
    type_t operator[](uint32_t i) const;
    type_t get(uint32_t i) const { return (*this)[i]; }
    int self;     /* abstract identity of this type as a sub-structure (contracts of recursive callees depend only on it) */
    int tag;      /* abstract identity of a top-level operand type: 0 = type_t(), 1 = type_t(kind, pos, 0) (a primitive), >= 2 given by the harness; copies keep it */
    static type_t verif_any_type()
    {
        type_t t;
        kind_t k; unsigned w; bool c, m; int a, b, n, l0, l1, s0, s1, s2, s3;
        __CPROVER_assume(k >= 0 && k <= Constants::DOUBLE_INV_GUARD && verif_wrap_bit(k) == 0);
        __CPROVER_assume(w <= VW_ALL && n >= 0 && n <= 2);
        __CPROVER_assume(s0 >= 0 && s0 < VERIF_NSID && s1 >= 0 && s1 < VERIF_NSID && s2 >= 0 && s2 < VERIF_NSID && s3 >= 0 && s3 < VERIF_NSID);
        t.sid0 = s0; t.sid1 = s1; t.sid2 = s2; t.sid3 = s3;
        int nc;
        __CPROVER_assume(nc >= 0 && nc <= 4);
        t.nchild = nc;
        t.base = k; t.wrap = w; t.konst = c; t.mut = m; t.range.first.id = a; t.range.second.id = b; t.nrec = n; t.lab0 = l0; t.lab1 = l1;
        return t;
    }
    bool is(kind_t k) const { return k == base || (wrap & verif_wrap_bit(k)) != 0; }
    /* the outermost kind: the base kind of an unwrapped type, otherwise one of the wrappers that are present (which one
       is outermost is not part of the flat abstraction: arbitrary) */
    kind_t get_kind() const
    {
        if (wrap == 0) return base;
        kind_t k;
        __CPROVER_assume(k >= 0 && k <= Constants::DOUBLE_INV_GUARD && verif_wrap_bit(k) != 0 && (wrap & verif_wrap_bit(k)) != 0);
        return k;
    }
    bool unknown() const { return base == Constants::UNKNOWN && wrap == 0; }
    bool is_constant() const { return konst; }
    bool is_mutable() const { return mut; }
    static type_t create_primitive(kind_t k, position_t p = position_t()) { return type_t(k, p, 0); }
    std::string str() const { return std::string("<type>"); }
    position_t get_position() const { return position_t(); }
#include "type_preds.inc" /* REAL: include/utap/type.h inline predicates is_range() .. is_formula() */
};
extern type_t verif_tpool[VERIF_NSID];
inline type_t type_t::get_sub(uint32_t i) const { int s = (i == 0) ? sid0 : sid1; type_t t = verif_tpool[s]; t.self = s; return t; }
inline type_t type_t::get_sub() const { type_t t = verif_tpool[sid2]; t.self = sid2; return t; }
inline type_t type_t::operator[](uint32_t i) const
{
    __CPROVER_assert(i < (uint32_t)nchild && i < 4, "stub: type child index < size()");
    int s = i == 0 ? sid0 : i == 1 ? sid1 : i == 2 ? sid2 : sid3;
    type_t t = verif_tpool[s];
    t.self = s;
    return t;
}
inline type_t type_t::get_array_size() const { type_t t = verif_tpool[sid3]; t.self = sid3; return t; }
inline void verif_tpool_havoc()
{
    /* unrolled (VERIF_NSID == 4): keeps the harnesses free of environment loops */
    verif_tpool[0] = type_t::verif_any_type(); verif_tpool[1] = type_t::verif_any_type();
    verif_tpool[2] = type_t::verif_any_type(); verif_tpool[3] = type_t::verif_any_type();
}
#endif /* VERIF_TYPE_FLAT */

/* ---- symbols: small integer ids with side tables ------------------------------------ */
#ifndef VERIF_NSYM
#define VERIF_NSYM 8
#endif
struct verif_sym
{
    type_t type;
    void* data;
    int frame;
    int name;
};
extern verif_sym verif_syms[VERIF_NSYM];
class symbol_t
{
public:
    int id;
    symbol_t(): id(-1) {}
    explicit symbol_t(int i): id(i) {}
    type_t get_type() const { __CPROVER_assert(id >= 0 && id < VERIF_NSYM, "stub: symbol id in range"); return verif_syms[id].type; }
    void* get_data() const { return verif_syms[id].data; }
    bool operator==(const symbol_t& o) const { return id == o.id; }
    bool operator!=(const symbol_t& o) const { return id != o.id; }
    bool operator<(const symbol_t& o) const { return id < o.id; }
    frame_t get_frame() const; /* defined by the TU that needs it (the frame the symbol is declared in) */
};

/* std::set<symbol_t> as a bit mask over symbol ids */
struct verif_symset_it
{
    int pos; /* -1 = the null symbol symbol_t(); VERIF_NSYM == end */
    unsigned mask;
    bool operator==(const verif_symset_it& o) const { return pos == o.pos; }
    bool operator!=(const verif_symset_it& o) const { return pos != o.pos; }
    symbol_t operator*() const { return symbol_t(pos); }
    verif_symset_it& operator++()
    {
        pos++;
        while (pos < VERIF_NSYM && !((mask >> pos) & 1)) pos++;
        return *this;
    }
};
struct verif_symset
{
    unsigned mask;
    bool has_null; /* the null symbol symbol_t() is a member (collect_possible_reads' random marker) */
    verif_symset(): mask(0), has_null(false) {}
    void insert(const symbol_t& s) { if (s.id >= 0 && s.id < VERIF_NSYM) mask |= (1u << s.id); else has_null = true; }
    /* range insert of a whole set: insert(o.begin(), o.end()) */
    void insert(const verif_symset_it& b, const verif_symset_it& e)
    {
        __CPROVER_assert(e.pos == VERIF_NSYM, "stub: range insert takes [begin, end) of a whole set");
        mask |= b.mask;
    }
    void erase(const symbol_t& s) { if (s.id >= 0 && s.id < VERIF_NSYM) mask &= ~(1u << s.id); else has_null = false; }
    verif_symset_it end() const { verif_symset_it i; i.pos = VERIF_NSYM; i.mask = mask; return i; }
    verif_symset_it begin() const
    {
        verif_symset_it i;
        i.mask = mask;
        if (has_null) { i.pos = -1; return i; }
        i.pos = 0;
        while (i.pos < VERIF_NSYM && !((mask >> i.pos) & 1)) i.pos++;
        return i;
    }
    verif_symset_it find(const symbol_t& s) const
    {
        verif_symset_it i = end();
        if (s.id >= 0 && s.id < VERIF_NSYM && ((mask >> s.id) & 1)) i.pos = s.id;
        if (s.id < 0 && has_null) i.pos = -1;
        return i;
    }
    /* erase(iterator): removes the element, returns the iterator to the next one */
    verif_symset_it erase(const verif_symset_it& it)
    {
        if (it.pos >= 0 && it.pos < VERIF_NSYM) mask &= ~(1u << it.pos); else has_null = false;
        verif_symset_it r = it;
        r.mask = mask;
        ++r;
        return r;
    }
    bool empty() const { return mask == 0 && !has_null; }
    size_t size() const { size_t n = has_null ? 1 : 0; for (int i = 0; i < VERIF_NSYM; i++) n += (mask >> i) & 1; return n; }
};

namespace std_next { }
inline verif_symset_it verif_next(verif_symset_it it) { ++it; return it; }
inline verif_symset_it find_first_of(const verif_symset_it& b1, const verif_symset_it& e1, const verif_symset_it& b2, const verif_symset_it& e2)
{
    verif_symset_it r = e1;
    unsigned m = b1.mask & b2.mask;
    for (int i = VERIF_NSYM - 1; i >= 0; i--)
        if ((m >> i) & 1) r.pos = i;
    return r;
}

/* ---- expressions: handles into an arena of nodes ------------------------------------- */
#ifndef VERIF_NNODES
#define VERIF_NNODES 8
#endif
#ifndef VERIF_MAXSUB
#define VERIF_MAXSUB 4
#endif
struct verif_node
{
    kind_t kind;
    type_t type;
    int nsub;
    int sub[VERIF_MAXSUB];
    symbol_t symbol; /* as in the real expression_data */
    int value;
    double dvalue;
    /* ghost summaries (the callee's contract for everything below this node) */
    bool g_changes; /* changes_any_variable()                                   */
    unsigned g_writes; /* W(e): symbols possibly written                          */
    unsigned g_reads;  /* R(e): symbols possibly read                             */
    unsigned g_lv;     /* LV(e): symbols e may refer to as an lvalue (get_symbols)  */
    bool g_rnd;        /* R(e) contains the random marker                          */
    bool g_a, g_b, g_c, g_d, g_e, g_f; /* property specific                         */
};
extern verif_node verif_nodes[VERIF_NNODES];

class expression_t
{
public:
    /* as in the real class, `data` is the (shared) pointer to the node; a raw pointer here
       (the slices never name shared_ptr).  data == nullptr is the empty expression. */
    verif_node* data;
    expression_t(): data(nullptr) {}
    explicit expression_t(int i): data(i >= 0 ? &verif_nodes[i] : nullptr) {}
    verif_node& N() const
    {
        __CPROVER_assert(data != nullptr, "stub: expression is non-empty (the real accessor asserts data)");
        return *data;
    }
    bool empty() const { return data == nullptr; }
    kind_t get_kind() const { return N().kind; }
    type_t get_type() const { return N().type; }
    void set_type(type_t t) { N().type = t; }
    size_t get_size() const { return (size_t)N().nsub; }
    position_t get_position() const { return position_t(); }
    expression_t operator[](uint32_t i) const
    {
        __CPROVER_assert(i < (uint32_t)N().nsub, "stub: child index < get_size()");
        return expression_t(N().sub[i]);
    }
    expression_t get(uint32_t i) const { return (*this)[i]; }
    symbol_t get_symbol() const { return N().symbol; }
    /* the REAL accessors assert the variant alternative they read (expression.cpp get_value /
       get_double_value); the stub carries those asserts verbatim as code obligations */
    int32_t get_value() const
    {
        __CPROVER_assert(data && data->kind == Constants::CONSTANT && (data->type.is_integral() || data->kind == Constants::VAR_INDEX),
                         "code-assert: get_value(): data && data->kind == CONSTANT && (data->type.is_integral() || data->kind == VAR_INDEX)");
        return N().value;
    }
    double get_double_value() const
    {
        __CPROVER_assert(data && data->kind == Constants::CONSTANT && data->type.is(Constants::DOUBLE),
                         "code-assert: get_double_value(): data->kind == CONSTANT && data->type.is(DOUBLE)");
        return N().dvalue;
    }
    bool changes_any_variable() const { return N().g_changes; }
    bool operator==(const expression_t& o) const { return data == o.data; }
    /* abstract structural equality: identity of the handle (an equivalence relation) */
    bool equal(const expression_t& o) const { return data == o.data; }

    /* REAL members sliced from src/expression.cpp (defined in the TU that includes them) */
    void get_symbols(verif_symset& symbols) const;
    void collect_possible_writes(verif_symset& symbols) const;
    void collect_possible_reads(verif_symset& symbols, bool collectRandom = false) const;
    bool changes_variable(const verif_symset& symbols) const;
    bool changes_any_variable_real() const;
    bool depends_on(const verif_symset& symbols) const;
    void get_symbols__contract(verif_symset& s) const { if (data) s.mask |= data->g_lv; }
    void collect_possible_writes__contract(verif_symset& s) const { if (data) s.mask |= data->g_writes; }
    void collect_possible_reads__contract(verif_symset& s, bool collectRandom = false) const { if (data) { s.mask |= data->g_reads; if (data->g_rnd) s.has_null = true; } }
    bool uses_fp() const;
    bool uses_clock() const;
    bool uses_hybrid() const;
    /* contracts of the same members on a child (rule L12): the child's ghost summary */
    bool uses_fp__contract() const { return data != nullptr && data->g_a; }
    bool uses_hybrid__contract() const { return data != nullptr && data->g_b; }
    bool uses_clock__contract() const { return data != nullptr && data->g_c; }
};

/* handleError / handleWarning of TypeChecker: ghost counters + message id.  Overloads
   instead of the real member templates (CBMC cannot combine template deduction with the
   char[] -> std::string conversion). */
#define VERIF_HANDLER(T)                                                                              \
    void handleError(T, const std::string& m) { verif_err_count++; verif_last_err = m.id; }           \
    void handleError(T, const char* m) { verif_err_count++; verif_last_err = 0; }                      \
    void handleWarning(T, const std::string& m) { verif_warn_count++; }                                \
    void handleWarning(T, const char* m) { verif_warn_count++; }
#define VERIF_HANDLERS VERIF_HANDLER(expression_t) VERIF_HANDLER(type_t) VERIF_HANDLER(symbol_t)

}  // namespace UTAP
#endif
