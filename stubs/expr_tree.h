/* Environment for the slices of src/expression.cpp that construct, copy and compare
   expression nodes (property C19).  TRUSTED: everything in this file.  REAL (sliced from
   /repo on every run, included from the work directory): struct expression_data, the
   expression_t(kind, pos) constructor, clone, the three clone_deeper overloads, subst, equal,
   ValueTypeEquality's comparison, get_size, the create_* factories.

   What the stub fixes:
     - std::shared_ptr<expression_data>  ->  raw pointer, std::make_shared<T>(a,b,c) -> new T(a,b,c)
       (no reference counting: nodes are never freed, so "shares no node" is pointer inequality)
     - std::vector<expression_t>         ->  fixed capacity VERIF_VEC_CAP (arity bound)
     - std::variant<int32_t, synchronisation_t, double, StringIndex> -> tagged struct; std::visit of a
       binary visitor -> 16-way dispatch on the two tags (definition of std::visit)
     - StringIndex                        ->  its index (long long), == on the index
     - type_t / symbol_t / position_t     ->  opaque identities with ==                     */
#ifndef VERIF_EXPR_TREE_H
#define VERIF_EXPR_TREE_H
#include <cstdint>
#include <cassert>
#include "utap/common.h" /* REAL include/utap/common.h */

#ifndef VERIF_VEC_CAP
#define VERIF_VEC_CAP 4
#endif

extern "C" {
extern int verif_frameA_has[4], verif_frameA_to[4], verif_frameB_has[4], verif_frameB_to[4];
}
#ifndef VERIF_TYPETEXT_DEFINED
#define VERIF_TYPETEXT_DEFINED
struct verif_typetext { int fmt; }; /* the text of a type: 50 = diagnostic format (type_t::str), 51 = declaration syntax (type_t::declaration) */
#endif
namespace UTAP {
using Constants::kind_t;
using Constants::synchronisation_t;
typedef long long StringIndex;

struct position_t
{
    int v;
    position_t(): v(0) {}
    explicit position_t(int x): v(x) {}
};
class symbol_t;
class expression_t;
/* std::optional<uint32_t> as frame_t::get_index_of returns it */
struct verif_opt_index
{
    bool has;
    uint32_t v;
    verif_opt_index(): has(false), v(0) {}
    bool has_value() const { return has; }
    uint32_t operator*() const { __CPROVER_assert(has, "stub: optional dereferenced only when it has a value"); return v; }
    uint32_t value() const { __CPROVER_assert(has, "stub: optional dereferenced only when it has a value"); return v; }
};
class frame_t;
class type_t
{
public:
    int id;
    type_t(): id(0) {}
    explicit type_t(int i): id(i) {}
    bool operator==(const type_t& o) const { return id == o.id; }
    bool operator!=(const type_t& o) const { return id != o.id; }
#ifdef VERIF_FRAME_ARENA
    /* identity = base kind * 2 + CONSTANT flag */
    static type_t create_primitive(kind_t k, position_t = position_t()) { return type_t((int)k * 2); }
#ifdef VERIF_TYPE_PREFIX_FLAGS
    /* C04: additionally the URGENT / COMMITTED prefixes, as bits 20 / 21 above the base identity */
    bool is(kind_t k) const
    {
        if (k == Constants::CONSTANT) return (id & 1) != 0;
        if (k == Constants::URGENT) return ((id >> 20) & 1) != 0;
        if (k == Constants::COMMITTED) return ((id >> 21) & 1) != 0;
        if (k == Constants::RANGE) return ((id >> 22) & 1) != 0; /* ghost: the type is a range over its base kind */
        return ((id & 0xFFFFF) >> 1) == (int)k;
    }
    type_t create_prefix(kind_t k, position_t = position_t()) const
    {
        __CPROVER_assert(k == Constants::CONSTANT || k == Constants::URGENT || k == Constants::COMMITTED, "stub: only the CONSTANT, URGENT and COMMITTED prefixes are modelled");
        return type_t(id | (k == Constants::CONSTANT ? 1 : k == Constants::URGENT ? (1 << 20) : (1 << 21)));
    }
    bool is_branchpoint() const { return is(Constants::BRANCHPOINT); }
#define VERIF_BASE_KIND(id) (((id) & 0xFFFFF) >> 1)
#else
#define VERIF_BASE_KIND(id) ((id) >> 1)
    bool is(kind_t k) const { return k == Constants::CONSTANT ? (id & 1) != 0 : (id >> 1) == (int)k; }
    type_t create_prefix(kind_t k) const { __CPROVER_assert(k == Constants::CONSTANT, "stub: only the CONSTANT prefix is modelled"); return type_t(id | 1); }
#endif
#ifdef VERIF_TYPE_PREDS
#include "type_preds.inc" /* REAL: the inline predicates of include/utap/type.h (is_integer() ... is_formula()) */
#else
    bool is_integer() const { return VERIF_BASE_KIND(id) == (int)Constants::INT; }
    bool is_scalar() const { return VERIF_BASE_KIND(id) == (int)Constants::SCALAR; }
    bool is_location() const { return VERIF_BASE_KIND(id) == (int)Constants::LOCATION; }
    bool is_record() const { return VERIF_BASE_KIND(id) == (int)Constants::RECORD; }
    bool is_process() const { return VERIF_BASE_KIND(id) == (int)Constants::PROCESS; }
#endif
#ifdef VERIF_TYPE_PROCESS
    /* C07: the members of a process/record type, and types derived from a member type by rename / subst, live in ghost
       tables of the TU; a derived type remembers what it was derived from and how */
    struct verif_optidx { bool has; uint32_t v; bool operator!() const { return !has; } uint32_t operator*() const { return v; } };
    verif_optidx find_index_of(int member_name) const;
    type_t get_sub(uint32_t i) const;
    type_t rename(int from_qualifier, int to_qualifier) const;
    type_t subst(const symbol_t& s, const expression_t& e) const;
#endif
    /* constructed types record the frame they are built over and its size AT CONSTRUCTION (= the arity of the type):
       10000 + 1024 * kind-code + 16 * frame + arity */
    static type_t verif_over_frame(int code, int frame_which, int arity) { return type_t(10000 + 1024 * code + 16 * frame_which + arity); }
#else
    static type_t create_primitive(kind_t k) { return type_t(1000 + (int)k); }
#endif
    /* identities 3000..3999 are array types; the element type of array type i is identity i + 10000 */
#ifndef VERIF_TYPE_PREDS
    bool is_array() const { return id >= 3000 && id < 4000; }
#endif
    type_t get_sub() const { return type_t(id + 10000); }
#ifdef VERIF_TYPE_CALL
    /* C02 (expr_call_end): what a call needs of the callee's type - by ghost functions of the type identity, defined by the TU */
    kind_t get_kind() const;
    size_t size() const;
    type_t operator[](uint32_t i) const;
    static type_t create_process(const frame_t& f);
    static type_t create_array(type_t sub, type_t size);
#endif
#ifdef VERIF_VALUE_LOG
    /* C03: the two textual forms of a type (struct verif_typetext is defined by the TU's stream stub) */
    ::verif_typetext str() const;
    ::verif_typetext declaration() const;
#endif
};
#ifdef VERIF_FRAME_ARENA
typedef int verif_name; /* identity of an identifier spelling */
#ifndef VERIF_NSYMS
#define VERIF_NSYMS 8
#endif
#ifndef VERIF_NFRAMES
#define VERIF_NFRAMES 8
#endif
struct verif_symrec { verif_name name; int type; int frame; void* user; };
extern verif_symrec verif_symtab[VERIF_NSYMS];
extern int verif_nsyms;
#endif
class symbol_t
{
public:
    int id;
    symbol_t(): id(-1) {}
    explicit symbol_t(int i): id(i) {}
    bool operator==(const symbol_t& o) const { return id == o.id; }
    bool operator!=(const symbol_t& o) const { return id != o.id; }
#ifdef VERIF_FRAME_ARENA
    verif_name get_name() const { __CPROVER_assert(id >= 0 && id < VERIF_NSYMS, "stub: symbol id in range"); return verif_symtab[id].name; }
    type_t get_type() const { __CPROVER_assert(id >= 0 && id < VERIF_NSYMS, "stub: symbol id in range"); return type_t(verif_symtab[id].type); }
    void* get_data() const { return verif_symtab[id].user; }
    void set_type(type_t t) { __CPROVER_assert(id >= 0 && id < VERIF_NSYMS, "stub: symbol id in range"); verif_symtab[id].type = t.id; }
#else
    int get_name() const { return id; }  /* names are identities here */
    type_t get_type() const { return type_t(2000 + id); }
#ifdef VERIF_TYPE_CALL
    void* get_data() const; /* defined by the TU */
#endif
#endif
};
/* frame_t: resolve(name, out) is a partial map name -> symbol given by ghost tables */
#ifdef VERIF_FRAME_ARENA
#ifndef VERIF_FRAME_CAP
#define VERIF_FRAME_CAP 3
#endif
struct verif_framerec { int parent; int nsym; int sym[VERIF_FRAME_CAP]; };
extern verif_framerec verif_frames[VERIF_NFRAMES];
extern int verif_nframes;
#endif
class frame_t
{
public:
    int which; /* 0 = null frame; without the arena: 1 = A, 2 = B; with it: 1 + index into verif_frames */
#ifdef VERIF_FRAME_ARENA
    static frame_t create(const frame_t& parent)
    {
        __CPROVER_assert(verif_nframes < VERIF_NFRAMES, "stub: frame arena capacity");
        verif_frames[verif_nframes].parent = parent.which; verif_frames[verif_nframes].nsym = 0;
        verif_nframes++;
        return frame_t(verif_nframes);
    }
    symbol_t add_symbol(verif_name name, type_t type, position_t, void* user = nullptr)
    {
        __CPROVER_assert(which > 0 && verif_nsyms < VERIF_NSYMS && verif_frames[which - 1].nsym < VERIF_FRAME_CAP, "stub: symbol arena capacity");
        verif_symtab[verif_nsyms].name = name; verif_symtab[verif_nsyms].type = type.id; verif_symtab[verif_nsyms].frame = which; verif_symtab[verif_nsyms].user = user;
        verif_frames[which - 1].sym[verif_frames[which - 1].nsym] = verif_nsyms;
        verif_frames[which - 1].nsym++;
        verif_nsyms++;
        return symbol_t(verif_nsyms - 1);
    }
    symbol_t operator[](uint32_t i) const
    {
        __CPROVER_assert(which > 0 && i < (uint32_t)verif_frames[which - 1].nsym, "stub: frame index < get_size()");
        return symbol_t(verif_frames[which - 1].sym[i]);
    }
    uint32_t get_size() const { return (uint32_t)verif_frames[which - 1].nsym; }
    /* real: the name -> index mapping of this frame only; a later symbol of the same name overwrites the entry (add()) */
    verif_opt_index get_index_of(verif_name name) const
    {
        verif_opt_index r;
        for (int i = 0; i < VERIF_FRAME_CAP; i++) {
            if (i < verif_frames[which - 1].nsym && verif_symtab[verif_frames[which - 1].sym[i]].name == name) { r.has = true; r.v = (uint32_t)i; }
        }
        return r;
    }
    bool contains(verif_name name) const /* this frame only (real: get_index_of(name).has_value()) */
    {
        for (int i = 0; i < VERIF_FRAME_CAP; i++) {
            if (i < verif_frames[which - 1].nsym && verif_symtab[verif_frames[which - 1].sym[i]].name == name) return true;
        }
        return false;
    }
    void add(symbol_t s)
    {
        __CPROVER_assert(which > 0 && verif_frames[which - 1].nsym < VERIF_FRAME_CAP, "stub: frame capacity");
        verif_frames[which - 1].sym[verif_frames[which - 1].nsym] = s.id;
        verif_frames[which - 1].nsym++;
    }
    void add(frame_t f)
    {
        for (int i = 0; i < VERIF_FRAME_CAP; i++) {
            if (i < verif_frames[f.which - 1].nsym) add(symbol_t(verif_frames[f.which - 1].sym[i]));
        }
    }
    /* contract proved for the real frame_t (c07_resolve + induction over the chain): the nearest frame wins, the last declaration in it */
    bool verif_resolve(verif_name name, symbol_t& out) const
    {
        int f = which;
        for (int depth = 0; depth < VERIF_NFRAMES && f > 0; depth++) {
            for (int i = VERIF_FRAME_CAP - 1; i >= 0; i--) {
                if (i < verif_frames[f - 1].nsym && verif_symtab[verif_frames[f - 1].sym[i]].name == name) { out = symbol_t(verif_frames[f - 1].sym[i]); return true; }
            }
            f = verif_frames[f - 1].parent;
        }
        return false;
    }
#endif
    frame_t(): which(0) {}
    explicit frame_t(int w): which(w) {}
    bool operator==(const frame_t& o) const { return which == o.which; }
    bool operator!=(const frame_t& o) const { return which != o.which; }
    bool resolve(int name, symbol_t& out) const
    {
#ifdef VERIF_FRAME_ARENA
        return verif_resolve(name, out);
#endif
        __CPROVER_assert(which != 0, "stub: resolve on a non-null frame");
        if (name < 0 || name >= 4) return false;
        if (which == 1) { if (!verif_frameA_has[name]) return false; out = symbol_t(verif_frameA_to[name]); return true; }
        if (!verif_frameB_has[name]) return false;
        out = symbol_t(verif_frameB_to[name]);
        return true;
    }
};

inline int verif_tid(const int32_t&) { return 0; }
inline int verif_tid(const synchronisation_t&) { return 1; }
inline int verif_tid(const double&) { return 2; }
inline int verif_tid(const StringIndex&) { return 3; }
/* <type_traits> on the four alternatives of the value variant (rule L6): tid 0 int32_t, 1 synchronisation_t (an enum:
   not arithmetic), 2 double, 3 StringIndex */
template <typename A> inline bool verif_is_arithmetic(const A& a) { return verif_tid(a) == 0 || verif_tid(a) == 2; }
template <typename A> inline bool verif_is_integral(const A& a) { return verif_tid(a) == 0; }
template <typename A> inline bool verif_is_floating_point(const A& a) { return verif_tid(a) == 2; }
template <typename A> inline bool verif_is_enum(const A& a) { return verif_tid(a) == 1; }
/* std::is_same_v<T1, T2> for the four alternatives of the variant */
template <typename A, typename B>
inline bool verif_same_type(const A& a, const B& b) { return verif_tid(a) == verif_tid(b); }

struct verif_variant
{
    int tag; /* index() of the variant */
    int32_t i;
    synchronisation_t s;
    double d;
    StringIndex si;
    verif_variant(int32_t v): tag(0), i(v), s(Constants::SYNC_QUE), d(0), si(0) {}
    verif_variant& operator=(int32_t v) { tag = 0; i = v; return *this; }
    verif_variant& operator=(synchronisation_t v) { tag = 1; s = v; return *this; }
    verif_variant& operator=(double v) { tag = 2; d = v; return *this; }
    verif_variant& operator=(StringIndex v) { tag = 3; si = v; return *this; }
};
/* std::get<int32_t>(v): the real call throws bad_variant_access on another alternative */
inline int32_t verif_get_int(const verif_variant& v)
{
    __CPROVER_assert(v.tag == 0, "code-assert: std::get<int32_t>(data->value) holds an int32_t");
    return v.i;
}
}  // namespace UTAP

namespace std {
inline double fabs(double x) { return x < 0 ? -x : x; }
template <typename T>
class vector
{
public:
    T elems[VERIF_VEC_CAP];
    size_t n;
    vector(): n(0) {}
    explicit vector(size_t k): n(k) { __CPROVER_assert(k <= VERIF_VEC_CAP, "stub: vector capacity (arity bound)"); }
    T& back() { __CPROVER_assert(n > 0, "stub: back() on a non-empty vector"); return elems[n - 1]; }
    void pop_back() { __CPROVER_assert(n > 0, "stub: pop_back() on a non-empty vector"); n--; }
    /* explicit copy operations: CBMC cannot synthesise them for a class with an array member */
    vector(const vector& o): n(o.n)
    {
        for (size_t i = 0; i < VERIF_VEC_CAP; i++) elems[i] = o.elems[i];
    }
    vector& operator=(const vector& o)
    {
        n = o.n;
        for (size_t i = 0; i < VERIF_VEC_CAP; i++) elems[i] = o.elems[i];
        return *this;
    }
    size_t size() const { return n; }
    bool empty() const { return n == 0; }
    void reserve(size_t k) { __CPROVER_assert(k <= VERIF_VEC_CAP, "stub: vector capacity (arity bound)"); }
    void push_back(const T& x) { __CPROVER_assert(n < VERIF_VEC_CAP, "stub: vector capacity (arity bound)"); elems[n] = x; n++; }
    T* begin() { return &elems[0]; }
    T* end() { return &elems[0] + n; }
    void assign(const T* b, const T* e)
    {
        n = 0;
        for (const T* p = b; p != e; ++p) push_back(*p);
    }
    T& operator[](size_t i) { __CPROVER_assert(i < n, "stub: vector index < size()"); return elems[i]; }
    T operator[](size_t i) const { __CPROVER_assert(i < n, "stub: vector index < size()"); return elems[i]; } /* by value: CBMC mis-types const T& returns */
};
template <typename T, typename A, typename B, typename C>
inline T* make_shared(A a, B b, C c) { return new T(a, b, c); }
template <typename T> inline T move(T x) { return x; }
}  // namespace std

namespace std { struct ostream; }
namespace UTAP {
using std::vector;
class expression_t
{
public:
    struct expression_data;
    expression_data* data; /* real: std::shared_ptr<expression_data> data = nullptr */
    expression_t(Constants::kind_t, const position_t&);
    expression_t(): data(nullptr) {}

    /* REAL members (sliced) */
    expression_t clone() const;
    expression_t clone_deeper() const;
    expression_t clone_deeper(symbol_t from, symbol_t to) const;
    expression_t clone_deeper(frame_t frame, frame_t select = frame_t()) const;
    expression_t subst(symbol_t, expression_t) const;
    bool equal(const expression_t&) const;
    size_t get_size() const;
    kind_t get_kind() const;
    type_t get_type() const;
    void set_type(type_t);
    bool empty() const;
    const symbol_t get_symbol() const;
    expression_t& operator[](uint32_t);
    const expression_t operator[](uint32_t) const;
    expression_t& get(uint32_t);
    const expression_t& get(uint32_t) const;
    static expression_t create_constant(int32_t, position_t = position_t());
    static expression_t create_var_index(int32_t, position_t = position_t());
    static expression_t create_exit(position_t = position_t());
    static expression_t create_double(double, position_t = position_t());
    static expression_t create_string(StringIndex, position_t = position_t());
    static expression_t create_identifier(symbol_t, position_t = position_t());
    static expression_t create_nary(kind_t, vector<expression_t> sub, position_t = position_t(), type_t = type_t());
    static expression_t create_unary(kind_t, expression_t, position_t = position_t(), type_t = type_t());
    static expression_t create_binary(kind_t, expression_t, expression_t, position_t = position_t(), type_t = type_t());
    static expression_t create_ternary(kind_t, expression_t, expression_t, expression_t, position_t = position_t(), type_t = type_t());
    static expression_t create_dot(expression_t, int32_t, position_t = position_t(), type_t = type_t());
    static expression_t create_sync(expression_t, synchronisation_t, position_t = position_t());
    static expression_t create_deadlock(position_t = position_t());

#ifdef VERIF_VALUE_LOG
    /* value accessors (C03 K2): they carry the REAL assertions of src/expression.cpp and log which node they are applied to */
    int32_t get_value() const;
    double get_double_value() const;
    bool is_true() const;
    std::ostream& print__contract(std::ostream& os, bool old = false) const;
    std::ostream& print_bound_type(std::ostream& os, expression_t e) const;
    std::ostream& print_query_clauses(std::ostream& os, bool old) const;
    std::ostream& print_constant_clause(std::ostream& os, bool old) const; /* C03 K3: the CONSTANT clause of print */
    std::ostream& print_quantifier_clauses(std::ostream& os, bool old) const; /* C03 K4: FORALL / EXISTS / SUM */
    const char* get_string_value() const { return "<string>"; }
#endif
    /* contracts of the recursive callees on a child (rule L12), defined in the TU */
    expression_t clone_deeper__contract() const;
    expression_t clone_deeper__contract(symbol_t from, symbol_t to) const;
    expression_t clone_deeper__contract(frame_t frame, frame_t select) const;
    expression_t subst__contract(symbol_t, expression_t) const;
    bool equal__contract(const expression_t&) const;
    /* contract of get_size on a well-formed node (proved by c19_get_size): the number of children */
    size_t get_size__contract() const;
    const symbol_t get_symbol__contract() const;
};
}  // namespace UTAP
#endif
