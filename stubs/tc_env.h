/* Stub TypeChecker environment for gate-level slices of typechecker.cpp (C11/C12/C13).
   Callees that are under contract elsewhere are answered here by their contracts over the
   ghost fields of the argument node:
     checkExpression(e)          returns e.g_ok; a rejection records an error (C10: reject-records-error)
     isCompileTimeComputable(e)  returns e.g_ctc                     (C13)
     changes_any_variable()      returns e.g_changes  (= W(e) != {})  (C11 part 1)
   TRUSTED. */
#ifndef VERIF_TC_ENV_H
#define VERIF_TC_ENV_H
#define VERIF_TYPE_FLAT
#include "utap_abs.h"

extern "C" {
int verif_err_count, verif_warn_count, verif_last_err, verif_thrown;
int verif_side_effect_errors; /* number of errors whose message belongs to the side-effect family */
}
#include "msg_ids.h"
namespace UTAP {
verif_node verif_nodes[VERIF_NNODES];
verif_sym verif_syms[VERIF_NSYM];
type_t verif_tpool[VERIF_NSID];

struct edge_t { expression_t guard, sync, assign, prob; bool control; };
struct location_t { symbol_t uid; expression_t invariant, exp_rate, cost_rate; };
struct variable_t { symbol_t uid; expression_t init; };
struct message_t { expression_t label; };
struct condition_t { expression_t label; };
struct AssertStatement { expression_t expr; };
struct chan_priority_t { expression_t head; };
struct verif_entry { char first; expression_t second; };
struct RateDecomposer
{
    expression_t costRate, invariant;
    bool hasStrictInvariant, hasClockRates;
    size_t countCostRates;
    RateDecomposer(): hasStrictInvariant(false), hasClockRates(false), countCostRates(0) {}
    void decompose(expression_t e, bool inforall = false) { invariant = e; }
};
struct Document
{
    void record_stop_watch() {}
    void record_strict_invariant() {}
    void record_strict_lower_bound_on_controllable_edges() {}
    void set_urgent_transition() {}
    void clock_guard_recv_broadcast() {}
};
class frame_t
{
public:
    symbol_t syms[4];
    int n;
    uint32_t get_size() const { return (uint32_t)n; }
    symbol_t& operator[](uint32_t i) { __CPROVER_assert(i < (uint32_t)n, "stub: frame index in range"); return syms[i]; }
    symbol_t* begin() { return &syms[0]; }
    symbol_t* end() { return &syms[0] + n; }
};
struct instance_t
{
    symbol_t uid;
    frame_t parameters;
    size_t arguments, unbound;
    verif_symset restricted;
};
#ifdef VERIF_REAL_C13
struct CompileTimeComputableValues
{
    verif_symset variables;
    void visitVariable(variable_t&);
    void visitInstance(instance_t&);
    void add_symbol(symbol_t);
    bool contains(symbol_t) const;
};
#else
struct CompileTimeComputableValues
{
    verif_symset variables;
    void add_symbol(symbol_t s) { variables.insert(s); }
    bool contains(symbol_t s) const { return variables.find(s) != variables.end(); }
};
#endif
class TypeChecker
{
public:
    Document document;
    CompileTimeComputableValues compileTimeComputableValues;
    bool refinementWarnings;
#define VERIF_ERR(T)                                                                                       \
    void handleError(T, const std::string& m) { verif_err_count++; verif_last_err = m.id; if (MSG_IS_SIDE_EFFECT(m.id)) verif_side_effect_errors++; } \
    void handleWarning(T, const std::string& m) { verif_warn_count++; }
    VERIF_ERR(expression_t) VERIF_ERR(type_t) VERIF_ERR(symbol_t)
    bool checkExpression(expression_t e)
    {
        if (e.empty()) return true;
        if (!e.data->g_e) verif_err_count++; /* contract: rejection records an error */
        return e.data->g_e;
    }
#ifdef VERIF_REAL_C13
    bool isCompileTimeComputable(expression_t expr) const;            /* REAL (ctc_funcs.inc) */
    bool isCompileTimeComputable__contract(expression_t e) const { return e.empty() || e.data->g_f; }
    void visitProcess(instance_t& process);                           /* REAL */
    void checkType_range(type_t type);                                /* REAL: case RANGE of checkType */
#else
    bool isCompileTimeComputable(expression_t e) const { return e.empty() || e.data->g_f; }
#endif
    expression_t checkInitialiser(type_t, expression_t init) { return init; }
    void checkType(type_t, bool initialisable = false, bool inStruct = false) {}
    bool checkAssignmentExpression(expression_t) { bool b; return b; }
#ifdef VERIF_REAL_C12
    /* REAL definitions are included by the TU (lvalue_funcs.inc); recursion by contract:
       g_a = isModifiableLValue, g_c = isLValue, g_d = isUniqueReference of the child */
    bool isModifiableLValue(expression_t) const;
    bool isLValue(expression_t) const;
    bool isUniqueReference(expression_t expr) const;
    bool isParameterCompatible(type_t param, expression_t arg);
    bool checkParameterCompatible(type_t param, expression_t arg);
    bool isModifiableLValue__contract(expression_t e) const { return !e.empty() && e.data->g_a; }
    bool isLValue__contract(expression_t e) const { return !e.empty() && e.data->g_c; }
    bool isUniqueReference__contract(expression_t e) const { return !e.empty() && e.data->g_d; }
    static bool areEquivalent(type_t, type_t) { bool b; return b; }
#else
    bool isUniqueReference(expression_t) const { bool b; return b; }
    bool checkParameterCompatible(type_t, expression_t) { bool b; if (!b) verif_err_count++; return b; }
    bool isModifiableLValue(expression_t) const { bool b; return b; }
#endif
    bool areEqCompatible(type_t, type_t) const { bool b; return b; }
    bool areAssignmentCompatible(type_t, type_t, bool init = false) const { bool b; return b; }
    bool areInlineIfCompatible(type_t, type_t, type_t) const { bool b; return b; }
    type_t getInlineIfCommonType(type_t, type_t) const { return type_t::verif_any_type(); }
    bool checkExpression_clauses(expression_t expr);
#include "gates_decl.inc"
};
}  // namespace UTAP
using namespace UTAP;
using namespace Constants;
#endif
