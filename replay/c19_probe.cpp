// Native probe for C19: parses a fixed model with the REAL library and evaluates the algebraic
// laws of clone_deeper / subst / equal / get_size on every guard, update, invariant and
// sub-expression of it.  Prints one JSON object {law: true|false}.  A crash (e.g. a null
// dereference in equal) ends the process with a signal; the fork-based guard reports it as false.
#include "utap/utap.h"

#include <functional>
#include <iostream>
#include <map>
#include <set>
#include <string>
#include <vector>
#include <sys/wait.h>
#include <unistd.h>

using namespace UTAP;

static const char* MODEL = R"(
clock x, y; int i, j; bool b; double d; const int c = 3; int a[3]; chan ch;
typedef struct { int f; int g; } S; S s;
int f(int p, int& q) { q = p + 1; return p * 2; }
process P(int[0,3] id) {
  int loc;
  state s0 { x <= 5 + c && y <= 7 }, s1;
  init s0;
  trans s0 -> s1 { select k : int[0,2]; guard x >= 1 && (i == j || b) && a[k] < 2 && forall (q : int[0,2]) a[q] >= 0; sync ch!;
                   assign i = f(j, loc) + (b ? 1 : -c), a[k] = s.f, x = 0, d = 1.5 * d + fabs(d); },
        s1 -> s0 { guard i != 2; sync ch?; assign j++, s.g = a[i % 3] - -i; };
}
system P;
)";

static std::map<std::string, bool> law;
static void note(const std::string& k, bool ok)
{
    auto it = law.find(k);
    if (it == law.end()) law[k] = ok; else it->second = it->second && ok;
}

static void subs(const expression_t& e, std::vector<expression_t>& out)
{
    if (e.empty()) return;
    out.push_back(e);
    for (size_t i = 0; i < e.get_size(); ++i) subs(e.get(i), out);
}

// in a child process: true iff fn returns true without crashing
static bool guarded(const std::function<bool()>& fn)
{
    std::cout.flush();
    pid_t p = fork();
    if (p == 0) { bool r = false; try { r = fn(); } catch (...) { r = false; } _exit(r ? 0 : 1); }
    int st = 0;
    waitpid(p, &st, 0);
    return WIFEXITED(st) && WEXITSTATUS(st) == 0;
}

int main()
{
    Document doc;
    parse_XTA(MODEL, &doc, true);
    bool parsed = doc.get_errors().empty();
    note("model-parses", parsed);
    std::vector<expression_t> roots, all;
    for (auto& t : doc.get_templates()) {
        for (auto& e : t.edges) { roots.push_back(e.guard); roots.push_back(e.assign); roots.push_back(e.sync); }
        for (auto& l : t.locations) roots.push_back(l.invariant);
    }
    for (auto& r : roots) subs(r, all);
    note("found-expressions", all.size() > 40);
    std::set<symbol_t> syms;
    for (auto& e : all) if (e.get_kind() == Constants::IDENTIFIER) syms.insert(e.get_symbol());
    for (auto& e : all) {
        note("equal.reflexive", e.equal(e));
        expression_t cl = e.clone_deeper();
        note("clone_deeper.equal-to-source", cl.equal(e) && e.equal(cl));
        note("clone_deeper.same-text", cl.str() == e.str());
        note("get_size.children-accessible", guarded([&] { for (size_t i = 0; i < e.get_size(); ++i) (void)e.get(i).get_kind(); return true; }));
        std::string before = e.str();
        for (auto& s : syms) {
            expression_t id = expression_t::create_identifier(s);
            expression_t r = e.subst(s, id);
            note("subst.by-itself-is-identity", r.equal(e));
            expression_t r7 = e.subst(s, expression_t::create_constant(7));
            bool occurs = false;
            std::vector<expression_t> ss;
            subs(e, ss);
            for (auto& q : ss) if (q.get_kind() == Constants::IDENTIFIER && q.get_symbol() == s) occurs = true;
            note("subst.changes-iff-symbol-occurs", occurs != r7.equal(e));
            // exactly the identifier occurrences are replaced: none is left, and the result differs from e in nothing else
            std::vector<expression_t> rs;
            subs(r7, rs);
            size_t left = 0, before_n = 0;
            for (auto& q : rs) if (q.get_kind() == Constants::IDENTIFIER && q.get_symbol() == s) left++;
            for (auto& q : ss) if (q.get_kind() == Constants::IDENTIFIER && q.get_symbol() == s) before_n++;
            note("subst.replaces-every-occurrence", left == 0);
            note("subst.keeps-the-tree-shape", rs.size() == ss.size());
            (void)before_n;
            note("subst.source-unchanged", e.str() == before);
        }
        for (auto& o : all) {
            bool ab = e.equal(o), ba = o.equal(e);
            note("equal.symmetric", ab == ba);
            if (ab) note("equal.implies-same-text", e.str() == o.str());
        }
    }
    // equality against the empty expression (e.g. an edge without a guard label has an empty guard)
    if (!all.empty()) {
        expression_t leaf;
        for (auto& e : all) if (e.get_size() == 0) { leaf = e; break; }
        note("equal.total-against-empty-expression", guarded([&] { return !leaf.equal(expression_t()) && !expression_t().equal(leaf); }));
    }
    std::cout << "{";
    bool first = true;
    for (auto& kv : law) { std::cout << (first ? "" : ", ") << "\"" << kv.first << "\": " << (kv.second ? "true" : "false"); first = false; }
    std::cout << "}" << std::endl;
    return 0;
}
