// Native probe for C02: for every ordered pair of binary operators of the UPPAAL operator table, parses
// `r = a OP1 b OP2 c` with the REAL library and checks the nesting, operand order and node kinds; plus literal
// boundary values, keyword aliases, unary plus and `:=`.  JSON {check: true|false}.
#include "utap/utap.h"

#include <climits>
#include <iostream>
#include <map>
#include <string>
#include <vector>

using namespace UTAP;
using namespace UTAP::Constants;

struct Op { const char* sp; kind_t kind; int level; };
static const Op OPS[] = {
    {"*", MULT, 3}, {"/", DIV, 3}, {"%", MOD, 3}, {"+", PLUS, 4}, {"-", MINUS, 4}, {"<<", BIT_LSHIFT, 5}, {">>", BIT_RSHIFT, 5},
    {"<?", MIN, 6}, {">?", MAX, 6}, {"<", LT, 7}, {"<=", LE, 7}, {">=", GE, 7}, {">", GT, 7}, {"==", EQ, 8}, {"!=", NEQ, 8},
    {"&", BIT_AND, 9}, {"^", BIT_XOR, 10}, {"|", BIT_OR, 11}, {"&&", AND, 12}, {"and", AND, 12}, {"||", OR, 13}, {"or", OR, 13}, {"xor", XOR, 13}};

static std::map<std::string, bool> res;
static void note(const std::string& k, bool ok) { auto it = res.find(k); if (it == res.end()) res[k] = ok; else it->second = it->second && ok; }

static expression_t parse_update(const std::string& upd, bool* ok)
{
    static std::vector<std::unique_ptr<Document>> keep;
    keep.emplace_back(new Document());
    Document& doc = *keep.back();
    std::string m = "int a; int b; int c; int r; double d;\nprocess P() { state s0, s1; init s0; trans s0 -> s1 { assign " + upd + "; }; }\nsystem P;\n";
    *ok = true;
    try { parse_XTA(m.c_str(), &doc, true); } catch (...) { *ok = false; return expression_t(); }
    for (auto& t : doc.get_templates())
        for (auto& e : t.edges) return e.assign;
    *ok = false;
    return expression_t();
}
static bool is_id(const expression_t& e, const char* n) { return !e.empty() && e.get_kind() == IDENTIFIER && e.get_symbol().get_name() == n; }

int main()
{
    for (const Op& o1 : OPS)
        for (const Op& o2 : OPS) {
            bool ok;
            expression_t e = parse_update(std::string("r = a ") + o1.sp + " b " + o2.sp + " c", &ok);
            std::string key = "nesting";
            if (!ok || e.empty() || e.get_kind() != ASSIGN || e.get_size() != 2) { note(key + ".parsed", false); continue; }
            expression_t v = e.get(1);
            bool left_first = o1.level <= o2.level;  // tighter or equal (all left-associative) groups to the left
            bool shape;
            if (left_first)
                shape = v.get_kind() == o2.kind && v.get_size() == 2 && v.get(0).get_kind() == o1.kind && is_id(v.get(0).get(0), "a") && is_id(v.get(0).get(1), "b") && is_id(v.get(1), "c");
            else
                shape = v.get_kind() == o1.kind && v.get_size() == 2 && is_id(v.get(0), "a") && v.get(1).get_kind() == o2.kind && is_id(v.get(1).get(0), "b") && is_id(v.get(1).get(1), "c");
            if (!shape) std::cerr << "wrong shape: a " << o1.sp << " b " << o2.sp << " c  parsed as " << v.str() << "\n";
            note(key + ".operator-pair-groups-by-the-table", shape);
        }
    bool ok;
    expression_t e = parse_update("r = +a", &ok);
    note("unary-plus-is-identity", ok && is_id(e.get(1), "a"));
    e = parse_update("r = -a * b", &ok);
    note("unary-minus-binds-tighter-than-*", ok && e.get(1).get_kind() == MULT && e.get(1).get(0).get_kind() == UNARY_MINUS);
    e = parse_update("r = !a && b", &ok);
    note("not-binds-tighter-than-&&", ok && e.get(1).get_kind() == AND && e.get(1).get(0).get_kind() == NOT);
    e = parse_update("r = not a and b", &ok);
    note("keyword-not-and-like-!-&&", ok && e.get(1).get_kind() == AND && e.get(1).get(0).get_kind() == NOT);
    e = parse_update("r = a imply b", &ok);
    note("imply-is-(not-a)-or-b", ok && e.get(1).get_kind() == OR && e.get(1).get(0).get_kind() == NOT && is_id(e.get(1).get(0).get(0), "a") && is_id(e.get(1).get(1), "b"));
    e = parse_update("r := a", &ok);
    note("colon-equals-is-assignment", ok && e.get_kind() == ASSIGN && is_id(e.get(0), "r") && is_id(e.get(1), "a"));
    e = parse_update("r = a = b", &ok);
    note("assignment-is-right-associative", ok && e.get_kind() == ASSIGN && is_id(e.get(0), "r") && e.get(1).get_kind() == ASSIGN);
    e = parse_update("r = a ? b : c ? a : b", &ok);
    note("inline-if-is-right-associative", ok && e.get(1).get_kind() == INLINE_IF && e.get(1).get(2).get_kind() == INLINE_IF);
    e = parse_update("r = a - b - c", &ok);
    note("minus-is-left-associative", ok && e.get(1).get_kind() == MINUS && e.get(1).get(0).get_kind() == MINUS);
    e = parse_update("r = 2147483647", &ok);
    note("int-max-literal-exact", ok && e.get(1).get_kind() == CONSTANT && e.get(1).get_value() == INT_MAX);
    e = parse_update("r = -2147483648", &ok);
    note("int-min-literal-exact", ok && e.get(1).get_kind() == CONSTANT && e.get(1).get_value() == INT_MIN);
    {
        Document doc;
        parse_XTA("int r = 2147483648;\nprocess P() { state s0; init s0; }\nsystem P;\n", &doc, true);
        note("int-max-plus-1-literal-rejected", !doc.get_errors().empty());
        Document doc2;
        parse_XTA("int r = 99999999999;\nprocess P() { state s0; init s0; }\nsystem P;\n", &doc2, true);
        note("huge-literal-rejected", !doc2.get_errors().empty());
    }
    e = parse_update("d = 0.1", &ok);
    note("double-literal-nearest", ok && e.get(1).get_kind() == CONSTANT && e.get(1).get_double_value() == 0.1);
    e = parse_update("d = 1.7976931348623157e308", &ok);
    note("double-max-literal", ok && e.get(1).get_kind() == CONSTANT && e.get(1).get_double_value() == 1.7976931348623157e308);
    std::cout << "{";
    bool first = true;
    for (auto& kv : res) { std::cout << (first ? "" : ", ") << "\"" << kv.first << "\": " << (kv.second ? "true" : "false"); first = false; }
    std::cout << "}" << std::endl;
    return 0;
}
