// Native probe for C20: writes parsed models with the REAL XML writer and inspects the produced text.
// Keys starting with "kf." demonstrate the recorded known findings (C20-KF1..KF4) and are not counted as new failures.
#include "utap/utap.h"

#include <cstdio>
#include <fstream>
#include <iostream>
#include <map>
#include <sstream>
#include <string>
#include <sys/wait.h>
#include <unistd.h>

using namespace UTAP;
static std::map<std::string, bool> res;
static void note(const std::string& k, bool ok) { auto it = res.find(k); if (it == res.end()) res[k] = ok; else it->second = it->second && ok; }
static size_t count(const std::string& s, const std::string& what) { size_t n = 0, p = 0; while ((p = s.find(what, p)) != std::string::npos) { n++; p += what.size(); } return n; }

static std::string write_model(const char* xta, bool* crashed)
{
    *crashed = false;
    std::string path = "/tmp/c20_probe_" + std::to_string(getpid()) + ".xml";
    std::remove(path.c_str());
    std::cout.flush();
    pid_t p = fork();
    if (p == 0) {
        Document doc;
        parse_XTA(xta, &doc, true);
        write_XML_file(path.c_str(), &doc);
        _exit(0);
    }
    int st = 0;
    waitpid(p, &st, 0);
    if (!WIFEXITED(st) || WEXITSTATUS(st) != 0) *crashed = true;
    std::ifstream f(path);
    std::stringstream ss;
    ss << f.rdbuf();
    std::remove(path.c_str());
    return ss.str();
}

int main()
{
    bool crashed;
    std::string x = write_model("clock x; int i; chan c;\nprocess P() { state s0 { x <= 5 }, s1, s2; init s1;\n"
                                " trans s0 -> s1 { guard x >= 2 && i == 0; sync c!; assign i = 1, x = 0; }, s1 -> s1 { guard i < 3; }, s2 -> s0 { };\n}\nsystem P;\n", &crashed);
    note("plain.no-crash", !crashed);
    note("plain.three-locations-with-unique-ids", count(x, "<location id=\"id0\"") == 1 && count(x, "<location id=\"id1\"") == 1 && count(x, "<location id=\"id2\"") == 1);
    note("plain.location-names", x.find(">s0</name>") != std::string::npos && x.find(">s2</name>") != std::string::npos);
    note("plain.invariant-label", x.find("kind=\"invariant\"") != std::string::npos && x.find("x &lt;= 5") != std::string::npos);
    note("plain.one-init-ref-to-initial-location", count(x, "<init ref=") == 1 && x.find("<init ref=\"id1\"") != std::string::npos);
    note("plain.three-transitions", count(x, "<transition") == 3);
    size_t t0 = x.find("<transition");
    note("plain.first-transition-endpoints", t0 != std::string::npos && x.find("<source ref=\"id0\"", t0) < x.find("</transition>", t0) && x.find("<target ref=\"id1\"", t0) < x.find("</transition>", t0));
    note("plain.guard-sync-assignment-labels", x.find("x &gt;= 2 &amp;&amp; i == 0") != std::string::npos && x.find("kind=\"synchronisation\"") != std::string::npos && x.find("c!") != std::string::npos && x.find("i = 1, x = 0") != std::string::npos);
    // known findings
    std::string s2 = write_model("int a[3]; int b[3];\nprocess P() { state s0, s1; init s0; trans s0 -> s1 { select i : int[0,2], j : int[0,2]; guard a[i] == b[j]; }; }\nsystem P;\n", &crashed);
    note("kf.second-select-written", !crashed && s2.find("j") != std::string::npos && s2.find("j :") != std::string::npos);
    std::string s3 = write_model("process P() { state s0, s1; init s0; trans s0 -u-> s1 { }; }\nsystem P;\n", &crashed);
    note("kf.controllable-attribute-written", !crashed && s3.find("controllable") != std::string::npos);
    std::string s4 = write_model("process P() { state s0, s1; branchpoint b; init s0; trans s0 -> b { }, b -> s1 { probability 1; }, b -> s0 { probability 2; }; }\nsystem P;\n", &crashed);
    note("kf.branchpoint-edges-do-not-crash", !crashed);
    note("kf.probability-label-written", !crashed && s4.find("probability") != std::string::npos);
    std::cout << "{";
    bool first = true;
    for (auto& kv : res) { std::cout << (first ? "" : ", ") << "\"" << kv.first << "\": " << (kv.second ? "true" : "false"); first = false; }
    std::cout << "}" << std::endl;
    return 0;
}
