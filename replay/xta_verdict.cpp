// Reads an XTA model on stdin, parses it with the REAL library (parse_XTA + type checker +
// feature checker) and prints a JSON verdict: errors, warnings, supported methods.
#include "utap/utap.h"
#include "utap/typechecker.h"
#include "utap/featurechecker.h"

#include <iostream>
#include <iterator>
#include <sstream>
#include <string>

static std::string esc(const std::string& s)
{
    std::string o;
    for (char c : s) {
        if (c == '"' || c == '\\') { o += '\\'; o += c; }
        else if (c == '\n') o += "\\n";
        else if ((unsigned char)c < 32) o += ' ';
        else o += c;
    }
    return o;
}

int main(int argc, char** argv)
{
    std::string text((std::istreambuf_iterator<char>(std::cin)), std::istreambuf_iterator<char>());
    bool newxta = !(argc > 1 && std::string(argv[1]) == "old");
    UTAP::Document doc;
    std::string exc;
    try {
        parse_XTA(text.c_str(), &doc, newxta);
    } catch (std::exception& e) {
        exc = e.what();
    }
    std::cout << "{\"errors\": [";
    bool first = true;
    for (const auto& e : doc.get_errors()) {
        std::cout << (first ? "" : ", ") << "\"" << esc(e.msg) << "\"";
        first = false;
    }
    if (!exc.empty()) std::cout << (first ? "" : ", ") << "\"EXCEPTION " << esc(exc) << "\"";
    std::cout << "], \"warnings\": [";
    first = true;
    for (const auto& e : doc.get_warnings()) {
        std::cout << (first ? "" : ", ") << "\"" << esc(e.msg) << "\"";
        first = false;
    }
    auto m = doc.get_supported_methods();
    std::cout << "], \"symbolic\": " << (m.symbolic ? "true" : "false") << ", \"stochastic\": " << (m.stochastic ? "true" : "false")
              << ", \"concrete\": " << (m.concrete ? "true" : "false") << "}" << std::endl;
    return 0;
}
