// Native probe for C04: XML models read by the REAL library; the document must mirror them.  Keys starting with "kf." demonstrate
// recorded known findings and are not counted as new failures.
#include "utap/utap.h"
#include <iostream>
#include <map>
#include <string>
using namespace UTAP;
static std::map<std::string, bool> res;
static void note(const std::string& k, bool ok) { auto it = res.find(k); if (it == res.end()) res[k] = ok; else it->second = it->second && ok; }
static std::string model(const std::string& loc0_labels, const std::string& trans)
{
    return std::string("<?xml version=\"1.0\" encoding=\"utf-8\"?><nta><declaration>clock x; int n; chan c;</declaration><template><name>P</name>"
                       "<location id=\"id0\"><name>L0</name>") + loc0_labels + "</location><location id=\"id1\"><name>L1</name><committed/></location>"
           "<location id=\"id2\"><urgent/></location><branchpoint id=\"id3\"/><init ref=\"id1\"/>" + trans + "</template><system>system P;</system></nta>";
}
int main()
{
    const std::string inv = "<label kind=\"invariant\">x &lt;= 5</label>", rate = "<label kind=\"exponentialrate\">3</label>";
    const std::string tr = "<transition controllable=\"false\"><source ref=\"id0\"/><target ref=\"id1\"/><label kind=\"guard\">n &gt; 1</label><label kind=\"synchronisation\">c!</label><label kind=\"assignment\">n = 2</label></transition>"
                           "<transition><source ref=\"id1\"/><target ref=\"id3\"/></transition><transition><source ref=\"id3\"/><target ref=\"id2\"/><label kind=\"probability\">7</label></transition>";
    for (int rate_first = 0; rate_first < 2; ++rate_first) {
        Document doc;
        bool ok = true;
        try { parse_XML_buffer(model(rate_first ? rate + inv : inv + rate, tr).c_str(), &doc, true); } catch (...) { ok = false; }
        ok = ok && doc.get_errors().empty() && doc.get_templates().size() == 1;
        if (ok) {
            const template_t& t = doc.get_templates().front();
            ok = t.locations.size() == 3 && t.branchpoints.size() == 1 && t.edges.size() == 3;
            if (ok) {
                auto it = t.locations.begin();
                ok = ok && it->uid.get_name() == "L0" && it->invariant.str() == "1 && x <= 5" && it->exp_rate.str() == "3";
                ++it; ok = ok && it->uid.get_name() == "L1" && it->uid.get_type().is(Constants::COMMITTED) && t.init == it->uid;
                ++it; ok = ok && it->uid.get_name() == "_id2" && it->uid.get_type().is(Constants::URGENT);
                auto e = t.edges.begin();
                ok = ok && e->src && e->src->uid.get_name() == "L0" && e->dst && e->dst->uid.get_name() == "L1" && !e->control && e->guard.str() == "n > 1" && e->assign.str() == "n = 2" && e->sync.str() == "c!";
                ++e; ok = ok && e->src && e->src->uid.get_name() == "L1" && e->dstb && !e->dst && e->control && e->sync.empty();
                ++e; ok = ok && e->srcb && !e->src && e->dst && e->dst->uid.get_name() == "_id2" && e->prob.str() == "7";
            }
        }
        note(rate_first ? "kf.location-rate-label-before-invariant-label" : "document-mirrors-the-xml-model", ok);
    }
    std::cout << "{";
    bool first = true;
    for (auto& kv : res) { std::cout << (first ? "" : ", ") << "\"" << kv.first << "\": " << (kv.second ? "true" : "false"); first = false; }
    std::cout << "}" << std::endl;
    return 0;
}
