// Native probe for C06: parses models with one fault at a known place with the REAL library and checks
// that the diagnostic's path, line and column range point at the faulty token.  JSON {check: true|false}.
#include "utap/utap.h"

#include <iostream>
#include <map>
#include <string>

using namespace UTAP;

static std::map<std::string, bool> res;
static void note(const std::string& k, bool ok) { auto it = res.find(k); if (it == res.end()) res[k] = ok; else it->second = it->second && ok; }

static std::string model(const std::string& decl, const std::string& guard, const std::string& guard2 = "true")
{
    return "<?xml version=\"1.0\" encoding=\"utf-8\"?>\n<nta>\n<declaration>" + decl + "</declaration>\n"
           "<template><name>P</name><location id=\"id0\"><name>a</name></location><location id=\"id1\"><name>b</name></location><init ref=\"id0\"/>"
           "<transition><source ref=\"id0\"/><target ref=\"id1\"/><label kind=\"guard\">" + guard + "</label></transition>"
           "<transition><source ref=\"id1\"/><target ref=\"id0\"/><label kind=\"guard\">" + guard2 + "</label></transition>"
           "</template>\n<system>system P;</system>\n</nta>\n";
}

struct Want { std::string name, xml, path; uint32_t line, col_start, col_end; };

int main()
{
    std::vector<Want> wants = {
        // undeclared identifier `zz` on line 3 of the global declarations, columns 8..10
        {"decl-line3", model("int i;\nint j;\nint k = zz + 1;\n", "i == 0"), "/nta/declaration", 3, 8, 10},
        // CRLF line ends and a leading blank line
        {"decl-crlf", model("\r\nint i;\r\nint k = zz;\r\n", "i == 0"), "/nta/declaration", 3, 8, 10},
        // comment with line breaks before the fault
        {"decl-comment", model("int i; /* a\n b\n c */ int k = zz;\n", "i == 0"), "/nta/declaration", 3, 14, 16},
        // guard of the first transition, second line of the label
        {"guard-1", model("int i;", "i == 0 &amp;&amp;\n  zz &gt; 1"), "/nta/template[1]/transition[1]/label[1]", 2, 2, 4},
        // guard of the second transition
        {"guard-2", model("int i;", "i == 0", "i &lt; zz"), "/nta/template[1]/transition[2]/label[1]", 1, 4, 6},
    };
    for (auto& w : wants) {
        Document doc;
        try { parse_XML_buffer(w.xml.c_str(), &doc, true); } catch (std::exception& e) { note(w.name + ".no-exception", false); continue; }
        bool found = false;
        for (auto& e : doc.get_errors()) {
            if (e.msg.find("zz") == std::string::npos && e.msg.find("nknown") == std::string::npos) continue;
            found = true;
            std::string p = e.start.path ? *e.start.path : std::string("<null>");
            uint32_t cs = e.position.start - e.start.position, ce = e.position.end - e.end.position;
            bool ok = p == w.path && e.start.line == w.line && e.end.line == w.line && cs == w.col_start && ce == w.col_end && cs <= ce;
            if (!ok) std::cerr << w.name << ": got path=" << p << " line=" << e.start.line << ".." << e.end.line << " cols=" << cs << ".." << ce << " msg=" << e.msg << "\n";
            note(w.name + ".path-line-columns", ok);
            break;
        }
        note(w.name + ".error-reported", found);
    }
    std::cout << "{";
    bool first = true;
    for (auto& kv : res) { std::cout << (first ? "" : ", ") << "\"" << kv.first << "\": " << (kv.second ? "true" : "false"); first = false; }
    std::cout << "}" << std::endl;
    return 0;
}
