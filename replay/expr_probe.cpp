// Reads an XTA model on stdin, parses + type checks it with the REAL library and prints, for
// every edge of every template, the update expression: text, kind, type kind (top and
// stripped), plus all diagnostics.  JSON on stdout.
#include "utap/utap.h"
#include "utap/typechecker.h"

#include <iostream>
#include <iterator>
#include <string>

static std::string esc(const std::string& s)
{
    std::string o;
    for (char c : s) {
        if (c == '"' || c == '\\') { o += '\\'; o += c; }
        else if (c == '\n') o += "\\n";
        else if ((unsigned char)c < 32) o += ' ';
        else o += c;
    }
    return o;
}

int main()
{
    std::string text((std::istreambuf_iterator<char>(std::cin)), std::istreambuf_iterator<char>());
    UTAP::Document doc;
    std::string exc;
    try {
        parse_XTA(text.c_str(), &doc, true);
    } catch (std::exception& e) {
        exc = e.what();
    }
    std::cout << "{\"errors\": [";
    bool first = true;
    for (const auto& e : doc.get_errors()) {
        std::cout << (first ? "" : ", ") << "\"" << esc(e.msg) << "\"";
        first = false;
    }
    if (!exc.empty()) std::cout << (first ? "" : ", ") << "\"EXCEPTION " << esc(exc) << "\"";
    std::cout << "], \"updates\": [";
    first = true;
    for (auto& t : doc.get_templates()) {
        for (auto& e : t.edges) {
            auto a = e.assign;
            if (a.empty()) continue;
            std::cout << (first ? "" : ", ") << "{\"text\": \"" << esc(a.str()) << "\", \"kind\": " << (int)a.get_kind();
            auto ty = a.get_type();
            std::cout << ", \"type_kind\": " << (int)ty.get_kind() << ", \"stripped_kind\": " << (int)ty.strip().get_kind() << "}";
            first = false;
        }
    }
    std::cout << "]}" << std::endl;
    return 0;
}
