// Native probe for C15: the same parse call in a fresh state and after a history that leaves the
// process-global character counter UTAP::tracker.position near 2^32 (set directly, as the property allows).
#include "utap/utap.h"
#include "libparser.h"

#include <iostream>
#include <map>
#include <string>

using namespace UTAP;

static const char* MODEL = "int i;\nclock x;\nprocess P() {\n  state a, b;\n  init a;\n  trans a -> b { guard x > 1 && zz == 0; };\n}\nsystem P;\n";

static std::string run()
{
    Document doc;
    std::string r;
    try {
        int32_t rc = parse_XTA(MODEL, &doc, true);
        r = "rc=" + std::to_string(rc);
    } catch (std::exception& e) {
        return std::string("exception: ") + e.what();
    }
    for (auto& e : doc.get_errors())
        r += " | " + e.msg + " line " + std::to_string(e.start.line) + " col " + std::to_string(e.position.start - e.start.position) + ".." + std::to_string(e.position.end - e.end.position);
    return r;
}

int main()
{
    std::map<std::string, bool> res;
    std::string fresh = run();
    std::string again = run();
    res["second-call-equals-first"] = fresh == again;
    {   // history: a query parse, a block parse that reports errors, an unterminated comment
        Document d2;
        parse_XTA(MODEL, &d2, true);
        const char* xml = "<?xml version=\"1.0\" encoding=\"utf-8\"?><nta><declaration>int i; clock x; chan ch; /* never closed</declaration>"
                          "<template><name>P</name><location id=\"id0\"/><location id=\"id1\"/><init ref=\"id0\"/>"
                          "<transition><source ref=\"id0\"/><target ref=\"id1\"/><label kind=\"guard\">x &gt; </label>"
                          "<label kind=\"synchronisation\">ch</label><label kind=\"assignment\">i = 1, </label></transition></template>"
                          "<system>system P</system></nta>";
        Document d3;
        try { parse_XML_buffer(xml, &d3, true); } catch (...) {}
    }
    std::string after = run();
    res["call-after-mixed-block-parses-equals-fresh-call"] = fresh == after;
    UTAP::tracker.position = 0xFFFFFF00u;  // history: ~4 GiB of input parsed before
    std::string late = run();
    res["call-after-4GiB-history-equals-fresh-call"] = fresh == late;
    UTAP::tracker.position = 0x7FFFFF00u;  // history: ~2 GiB (crosses INT_MAX, the 'unknown position' value)
    std::string mid = run();
    res["call-after-2GiB-history-equals-fresh-call"] = fresh == mid;
    std::cerr << "fresh: " << fresh << "\nlate:  " << late << "\nmid:   " << mid << "\n";
    std::cout << "{";
    bool first = true;
    for (auto& kv : res) { std::cout << (first ? "" : ", ") << "\"" << kv.first << "\": " << (kv.second ? "true" : "false"); first = false; }
    std::cout << "}" << std::endl;
    return 0;
}
