// Native probe for C08: structural invariants of documents parsed by the REAL library (valid, with diagnostics).
#include "utap/utap.h"

#include <iostream>
#include <map>
#include <string>

using namespace UTAP;
static std::map<std::string, bool> res;
static void note(const std::string& k, bool ok) { auto it = res.find(k); if (it == res.end()) res[k] = ok; else it->second = it->second && ok; }

static void check(Document& doc, const std::string& tag)
{
    for (auto& v : doc.get_globals().variables) note(tag + ".variable-is-user-object-of-its-symbol", v.uid.get_data() == &v);
    for (auto& f : doc.get_globals().functions) note(tag + ".function-is-user-object-of-its-symbol", f.uid.get_data() == &f);
    for (auto& t : doc.get_templates()) {
        note(tag + ".template-is-user-object-of-its-symbol", t.uid.get_data() == static_cast<instance_t*>(&t));
        int n = 0;
        for (auto& l : t.locations) { note(tag + ".location-link", l.uid.get_data() == &l); note(tag + ".location-numbers-dense", l.nr == n++); }
        n = 0;
        for (auto& b : t.branchpoints) { note(tag + ".branchpoint-link", b.uid.get_data() == &b); note(tag + ".branchpoint-numbers-dense", b.bpNr == n++); }
        n = 0;
        for (auto& e : t.edges) {
            note(tag + ".edge-numbers-dense", e.nr == n++);
            note(tag + ".edge-one-source-one-target", (e.src != nullptr) != (e.srcb != nullptr) && (e.dst != nullptr) != (e.dstb != nullptr));
            bool own = true;
            if (e.src) { bool f = false; for (auto& l : t.locations) f |= (&l == e.src); own &= f; }
            if (e.dst) { bool f = false; for (auto& l : t.locations) f |= (&l == e.dst); own &= f; }
            note(tag + ".edge-endpoints-belong-to-the-edge's-template", own);
        }
        for (auto& v : t.variables) note(tag + ".local-variable-link", v.uid.get_data() == &v);
    }
    frame_t gf = doc.get_globals().frame;
    for (uint32_t k = 0; k < gf.get_size(); ++k) {
        symbol_t s = gf[k];
        if (s.get_type().get_kind() != Constants::INSTANCE) continue;
        auto* i = static_cast<instance_t*>(s.get_data());
        note(tag + ".instance-link", i != nullptr && i->uid == s);
        if (!i) continue;
        note(tag + ".instance-type-arity-equals-unbound", s.get_type().size() == i->unbound);
        note(tag + ".instance-lists-unbound-parameters-first", i->parameters.get_size() >= i->unbound);
        note(tag + ".instance-maps-exactly-its-bound-parameters", i->mapping.size() == i->parameters.get_size() - i->unbound);
    }
    for (auto& p : doc.get_processes()) note(tag + ".process-link", p.uid.get_data() == &p);
}

int main()
{
    {
        Document doc;
        parse_XTA("int g; int f(int a) { return a; }\nprocess P(int[0,3] p, int[0,3] q) { int l; state s0, s1, s2; branchpoint bp; init s0;\n"
                  " trans s0 -> s1 { guard g == 0; }, s1 -> bp { }, bp -> s2 { probability 1; }, bp -> s0 { probability 2; }, s2 -> s2 { }; }\n"
                  "Q = P(1, 2); R(const int[0,3] z) = P(z, 3); system Q, R, P;\n", &doc, true);
        for (auto& e : doc.get_errors()) std::cerr << "valid model error: " << e.msg << " line " << e.start.line << "\n";
        note("valid.parses", doc.get_errors().empty());
        check(doc, "valid");
    }
    {
        Document doc;  // duplicate names, unknown endpoints: constructors run on their error paths
        try {
            parse_XTA("int g; int g; int f() { return 1; } int f() { return 2; }\nprocess P() { int l; int l; state s0, s0, s1; init s0;\n"
                      " trans s0 -> s1 { }, s1 -> nowhere { }, s0 -> s0 { guard zz; }; }\nsystem P;\n", &doc, true);
        } catch (...) {}
        note("invalid.reports-errors", !doc.get_errors().empty());
        check(doc, "invalid");
    }
    std::cout << "{";
    bool first = true;
    for (auto& kv : res) { std::cout << (first ? "" : ", ") << "\"" << kv.first << "\": " << (kv.second ? "true" : "false"); first = false; }
    std::cout << "}" << std::endl;
    return 0;
}
