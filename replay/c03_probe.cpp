// Native probe for C03: parse -> str -> parse again -> compare, for update expressions of all operator pairs, with the
// REAL library.  Keys starting with "kf." demonstrate recorded known findings and are not counted as new failures.
#include "utap/utap.h"

#include <iostream>
#include <map>
#include <memory>
#include <string>
#include <vector>

using namespace UTAP;
static std::map<std::string, bool> res;
static void note(const std::string& k, bool ok) { auto it = res.find(k); if (it == res.end()) res[k] = ok; else it->second = it->second && ok; }

static expression_t parse_update(const std::string& upd, bool* ok)
{
    static std::vector<std::unique_ptr<Document>> keep;
    keep.emplace_back(new Document());
    Document& doc = *keep.back();
    std::string m = "int a; int b; int c; int r; bool p; bool q;\nprocess P() { state s0, s1; init s0; trans s0 -> s1 { assign " + upd + "; }; }\nsystem P;\n";
    *ok = true;
    try { parse_XTA(m.c_str(), &doc, true); } catch (...) { *ok = false; return expression_t(); }
    for (auto& t : doc.get_templates())
        for (auto& e : t.edges) return e.assign;
    *ok = false;
    return expression_t();
}
// structural comparison that does not depend on symbols being the same objects (two separate documents)
static bool same(const expression_t& x, const expression_t& y)
{
    if (x.empty() || y.empty()) return x.empty() == y.empty();
    if (x.get_kind() != y.get_kind() || x.get_size() != y.get_size()) return false;
    if (x.get_kind() == Constants::IDENTIFIER && x.get_symbol().get_name() != y.get_symbol().get_name()) return false;
    if (x.get_kind() == Constants::CONSTANT && x.str() != y.str()) return false;
    for (size_t i = 0; i < x.get_size(); ++i) if (!same(x.get(i), y.get(i))) return false;
    return true;
}
static bool roundtrip(const std::string& upd, std::string* printed)
{
    bool ok1, ok2;
    expression_t e = parse_update(upd, &ok1);
    if (!ok1 || e.empty()) return false;
    *printed = e.str();
    expression_t f = parse_update(*printed, &ok2);
    return ok2 && !f.empty() && same(e, f) && f.str() == *printed;
}

int main()
{
    const char* ops[] = {"*", "/", "%", "+", "-", "<<", ">>", "<?", ">?", "<", "<=", ">=", ">", "==", "!=", "&", "^", "|", "&&", "||"};
    std::string pr;
    for (const char* o1 : ops)
        for (const char* o2 : ops) {
            for (int shape = 0; shape < 2; ++shape) {
                std::string e = shape == 0 ? std::string("r = (a ") + o1 + " b) " + o2 + " c" : std::string("r = a ") + o1 + " (b " + o2 + " c)";
                bool ok = roundtrip(e, &pr);
                if (!ok) std::cerr << "round trip fails: " << e << "  printed: " << pr << "\n";
                note("binary-pairs.print-parse-roundtrip", ok);
            }
        }
    note("unary.roundtrip", roundtrip("r = -(a + b) * c", &pr) && roundtrip("r = -(-a)", &pr) && roundtrip("p = !(p && q) || q", &pr));
    note("inline-if.roundtrip", roundtrip("r = (a > b ? a : b) + c", &pr) && roundtrip("r = a > b ? (p ? a : b) : c", &pr) && roundtrip("r = (p ? a : b) > c ? a : b", &pr));
    note("assignment-right-nested.roundtrip", roundtrip("r = a = b", &pr) && roundtrip("r = (a += b)", &pr));
    note("kf.assignment-as-left-operand-of-assignment", roundtrip("(r = a) = b", &pr));
    note("kf.inline-if-as-left-operand-of-assignment", roundtrip("(p ? a : b) = c", &pr));
    std::cout << "{";
    bool first = true;
    for (auto& kv : res) { std::cout << (first ? "" : ", ") << "\"" << kv.first << "\": " << (kv.second ? "true" : "false"); first = false; }
    std::cout << "}" << std::endl;
    return 0;
}
