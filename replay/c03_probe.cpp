// Native probe for C03: parse -> str -> parse again -> compare, for update expressions of all operator pairs, with the
// REAL library.  Keys starting with "kf." demonstrate recorded known findings and are not counted as new failures.
#include "utap/utap.h"
#include "utap/property.h"
#include <sys/wait.h>
#include <unistd.h>

#include <iostream>
#include <map>
#include <memory>
#include <string>
#include <vector>

using namespace UTAP;
static std::map<std::string, bool> res;
static void note(const std::string& k, bool ok) { auto it = res.find(k); if (it == res.end()) res[k] = ok; else it->second = it->second && ok; }

static expression_t parse_update(const std::string& upd, bool* ok)
{
    static std::vector<std::unique_ptr<Document>> keep;
    keep.emplace_back(new Document());
    Document& doc = *keep.back();
    std::string m = "int a; int b; int c; int r; bool p; bool q; double d; int arr[4]; typedef int[0,3] idx_t;\nprocess P() { state s0, s1; init s0; trans s0 -> s1 { assign " + upd + "; }; }\nsystem P;\n";
    *ok = true;
    try { parse_XTA(m.c_str(), &doc, true); } catch (...) { *ok = false; return expression_t(); }
    for (auto& t : doc.get_templates())
        for (auto& e : t.edges) return e.assign;
    *ok = false;
    return expression_t();
}
// structural comparison that does not depend on symbols being the same objects (two separate documents)
static bool same(const expression_t& x, const expression_t& y)
{
    if (x.empty() || y.empty()) return x.empty() == y.empty();
    if (x.get_kind() != y.get_kind() || x.get_size() != y.get_size()) return false;
    if (x.get_kind() == Constants::IDENTIFIER && x.get_symbol().get_name() != y.get_symbol().get_name()) return false;
    if (x.get_kind() == Constants::CONSTANT && x.str() != y.str()) return false;
    if (x.get_kind() == Constants::CONSTANT && x.get_type().is(Constants::DOUBLE) != y.get_type().is(Constants::DOUBLE)) return false;
    if (x.get_kind() == Constants::CONSTANT && x.get_type().is(Constants::DOUBLE) && x.get_double_value() != y.get_double_value()) return false;
    for (size_t i = 0; i < x.get_size(); ++i) if (!same(x.get(i), y.get(i))) return false;
    return true;
}
static bool roundtrip(const std::string& upd, std::string* printed)
{
    bool ok1, ok2;
    expression_t e = parse_update(upd, &ok1);
    if (!ok1 || e.empty()) return false;
    *printed = e.str();
    expression_t f = parse_update(*printed, &ok2);
    return ok2 && !f.empty() && same(e, f) && f.str() == *printed;
}

int main()
{
    const char* ops[] = {"*", "/", "%", "+", "-", "<<", ">>", "<?", ">?", "<", "<=", ">=", ">", "==", "!=", "&", "^", "|", "&&", "||"};
    std::string pr;
    for (const char* o1 : ops)
        for (const char* o2 : ops) {
            for (int shape = 0; shape < 2; ++shape) {
                std::string e = shape == 0 ? std::string("r = (a ") + o1 + " b) " + o2 + " c" : std::string("r = a ") + o1 + " (b " + o2 + " c)";
                bool ok = roundtrip(e, &pr);
                if (!ok) std::cerr << "round trip fails: " << e << "  printed: " << pr << "\n";
                note("binary-pairs.print-parse-roundtrip", ok);
            }
        }
    note("unary.roundtrip", roundtrip("r = -(a + b) * c", &pr) && roundtrip("r = -(-a)", &pr) && roundtrip("p = !(p && q) || q", &pr));
    note("inline-if.roundtrip", roundtrip("r = (a > b ? a : b) + c", &pr) && roundtrip("r = a > b ? (p ? a : b) : c", &pr) && roundtrip("r = (p ? a : b) > c ? a : b", &pr));
    note("assignment-right-nested.roundtrip", roundtrip("r = a = b", &pr) && roundtrip("r = (a += b)", &pr));
    note("kf.assignment-as-left-operand-of-assignment", roundtrip("(r = a) = b", &pr));
    note("kf.inline-if-as-left-operand-of-assignment", roundtrip("(p ? a : b) = c", &pr));
    // quantifiers: the binder's type must be printed in the syntax the parser reads
    for (const char* qe : {"p = forall (i : int[0,3]) arr[i] > 0", "p = exists (i : int[0,3]) arr[i] > 0 && q", "r = sum (i : int[0,3]) arr[i]", "r = (sum (i : idx_t) arr[i]) + 1", "p = (forall (i : idx_t) arr[i] > 0) && q"}) {
        bool ok = roundtrip(qe, &pr);
        if (!ok) std::cerr << "quantifier round trip fails: " << qe << "  printed: " << pr << "\n";
        note("quantifiers.print-parse-roundtrip", ok);
    }
    // floating-point constants: every bit survives, and the text is a floating-point literal again
    for (const char* lit : {"0.1234567891", "2.0", "1e-7", "1e300", "123456789.125", "0.1", "3.0e10", "4503599627370497.5"}) {
        bool ok = roundtrip(std::string("d = ") + lit, &pr);
        if (!ok) std::cerr << "double constant round trip fails: " << lit << "  printed: " << pr << "\n";
        note("double-constants.print-parse-roundtrip", ok);
    }
    // SMC queries: parse -> str -> parse -> str must be a fixpoint and must not crash (checked in a child process)
    {
        const char* queries[] = {"Pr[<=10](<> a > 1)", "Pr[<=10; 100]([] a > 1)", "Pr[#<=5](<> p)", "Pr[<=10](<> a > 1) >= 0.5", "Pr[<=10]([] p) <= 0.25",
                                 "Pr[<=10](p U a > 1)", "Pr[<=10](<> a > 1) >= 0.123456789", "Pr[<=10](<> a > 1) >= 1.0", "Pr[#<=20](<> p) >= Pr[<=5]([] a > 1)", "Pr[<=20]([] p) >= Pr[#<=5](<> a > 1)", "E[<=10; 50](max: a)", "E[<=10; 50](min: a + b)"};
        for (const char* q : queries) {
            std::cout.flush();
            pid_t pid = fork();
            if (pid == 0) {
                auto doc = std::make_unique<Document>();
                parse_XTA("int a; int b; bool p;\nprocess P() { state s0; init s0; }\nsystem P;\n", doc.get(), true);
                TigaPropertyBuilder pb(*doc);
                int rc = 0;
                try {
                    if (parseProperty(q, &pb) != 0 || !doc->get_errors().empty() || pb.getProperties().empty()) _exit(3);
                    std::string s1 = pb.getProperties().back().intermediate.str();
                    TigaPropertyBuilder pb2(*doc);
                    if (parseProperty(s1.c_str(), &pb2) != 0 || !doc->get_errors().empty() || pb2.getProperties().empty()) { std::cerr << "query " << q << " printed as " << s1 << " does not parse\n"; _exit(4); }
                    std::string s2 = pb2.getProperties().back().intermediate.str();
                    if (s1 != s2 || !pb.getProperties().back().intermediate.equal(pb2.getProperties().back().intermediate)) { std::cerr << "query " << q << ": " << s1 << " vs " << s2 << "\n"; rc = 5; }
                } catch (...) { rc = 6; }
                _exit(rc);
            }
            int st = 0;
            waitpid(pid, &st, 0);
            bool ok = WIFEXITED(st) && WEXITSTATUS(st) == 0;
            if (!ok) std::cerr << "query round trip fails: " << q << " (status " << (WIFEXITED(st) ? WEXITSTATUS(st) : -1) << ")\n";
            note("smc-queries.print-parse-roundtrip-without-crash", ok);
        }
    }
    std::cout << "{";
    bool first = true;
    for (auto& kv : res) { std::cout << (first ? "" : ", ") << "\"" << kv.first << "\": " << (kv.second ? "true" : "false"); first = false; }
    std::cout << "}" << std::endl;
    return 0;
}
