// Native probe for C07: scoping of identifiers with the REAL library.  JSON {check: true|false}.
#include "utap/utap.h"

#include <iostream>
#include <map>
#include <string>

using namespace UTAP;
static std::map<std::string, bool> res;
static void note(const std::string& k, bool ok) { auto it = res.find(k); if (it == res.end()) res[k] = ok; else it->second = it->second && ok; }

static std::string dyn_model(const std::string& guard)
{
    return "<?xml version=\"1.0\" encoding=\"utf-8\"?><nta><declaration>dynamic Child(); int g;</declaration>"
           "<template><name>Child</name><declaration>int v;</declaration><location id=\"id2\"/><init ref=\"id2\"/></template>"
           "<template><name>Parent</name><location id=\"id0\"/><location id=\"id1\"/><init ref=\"id1\"/>"
           "<transition><source ref=\"id1\"/><target ref=\"id0\"/><label kind=\"guard\">" + guard + "</label>"
           "<label kind=\"assignment\">spawn Child()</label></transition></template>"
           "<system>Process = Parent(); system Process;</system></nta>";
}
static int count_msg(Document& doc, const std::string& what)
{
    int n = 0;
    for (auto& e : doc.get_errors()) if (e.msg.find(what) != std::string::npos) n++;
    return n;
}
static bool has_unknown(Document& doc, const std::string& id)
{
    for (auto& e : doc.get_errors()) if (e.msg.find("nknown") != std::string::npos && e.msg.find(id) != std::string::npos) return true;
    return false;
}

int main()
{
    // plain scoping
    {
        Document doc;
        parse_XTA("int x = 1; process P(int x) { int y = x; state s { forall (x : int[0,1]) x >= 0 }; init s; } system P;", &doc, true);
        (void)doc;
        Document d2;
        parse_XTA("int a = b; int b = 1; process P() { state s; init s; } system P;", &d2, true);
        note("use-before-declaration-is-unknown", has_unknown(d2, "b"));
        Document d3;
        parse_XTA("process P() { state s { forall (q : int[0,1]) q >= 0 }; init s; trans s -> s { guard q == 0; }; } system P;", &d3, true);
        note("binder-not-visible-after-quantifier", has_unknown(d3, "q"));
    }
    // member lookup on a process variable of a dynamic template
    {
        Document ok;
        try { parse_XML_buffer(dyn_model("forall (p : Child) (p.v == 0)").c_str(), &ok, true); } catch (...) {}
        note("dynamic-member-known", !has_unknown(ok, "v"));
        // unknown member, then a name that only exists inside Child: it must be unknown in Parent's guard
        Document bad;
        bool threw = false;
        try { parse_XML_buffer(dyn_model("forall (p : Child) (p.nosuch == 0) &amp;&amp; v == 0").c_str(), &bad, true); } catch (...) { threw = true; }
        note("unknown-member-reported", has_unknown(bad, "nosuch"));
        note("name-local-to-the-dynamic-template-is-not-visible-after-a-failed-member-lookup", !threw && has_unknown(bad, "v"));
        for (auto& e : bad.get_errors()) std::cerr << "bad: " << e.msg << "\n";
        // after the quantifier its bound process variable must be out of scope again
        Document bad2;
        threw = false;
        try { parse_XML_buffer(dyn_model("forall (p : Child) (p.nosuch == 0) &amp;&amp; forall (q : Child) (p.v == 0)").c_str(), &bad2, true); } catch (...) { threw = true; }
        for (auto& e : bad2.get_errors()) std::cerr << "bad2: " << e.msg << "\n";
        note("bound-process-variable-is-out-of-scope-after-its-quantifier-(also-after-a-failed-member-lookup)", !threw && has_unknown(bad2, "p"));
        // the quantifier node must bind its own variable p, not a declaration of the dynamic template
        {
            Document b3;
            try { parse_XML_buffer(dyn_model("forall (p : Child) (p.nosuch == 0)").c_str(), &b3, true); } catch (...) {}
            bool okb = false;
            for (auto& t : b3.get_templates())
                for (auto& e : t.edges)
                    if (!e.guard.empty() && e.guard.get_size() == 3 && e.guard.get(0).get_kind() == Constants::IDENTIFIER)
                        okb = e.guard.get(0).get_symbol().get_name() == "p";
            note("quantifier-over-a-dynamic-template-binds-its-own-variable-after-a-failed-member-lookup", okb);
        }
        Document ctl;
        try { parse_XML_buffer(dyn_model("forall (p : Child) (p.v == 0) &amp;&amp; forall (q : Child) (p.v == 0)").c_str(), &ctl, true); } catch (...) {}
        note("control:bound-process-variable-is-out-of-scope-after-its-quantifier", has_unknown(ctl, "p"));
    }
    std::cout << "{";
    bool first = true;
    for (auto& kv : res) { std::cout << (first ? "" : ", ") << "\"" << kv.first << "\": " << (kv.second ? "true" : "false"); first = false; }
    std::cout << "}" << std::endl;
    return 0;
}
