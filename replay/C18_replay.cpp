// Native replay of a C18 counterexample against the REAL include/utap/range.h.
// usage: C18_replay <type: i8|i16|i32|d> <op> a b c d e x y u v m     (decimal; unused = 0)
// exit 0 + "CONFIRMED ..." if the real code disagrees with the set semantics for these
// values (or aborts / UBSan reports: handled by the caller through the exit status),
// exit 3 + "NOT-REPRODUCED" if the real code agrees.
#include "utap/range.h"

#include <cstdio>
#include <cstdlib>
#include <cstring>
#include <string>
#include <limits>

using UTAP::range_t;

template <typename T> struct Wide { using type = long long; };
template <> struct Wide<double> { using type = long double; };

static bool bad(const char* what) { std::printf("CONFIRMED %s\n", what); return true; }

template <typename T>
int go(const std::string& op, T a, T b, T c, T d, T e, T x, T y)
{
    using W = typename Wide<T>::type;
    auto in = [](W v, W lo, W hi) { return lo <= v && v <= hi; };
    T u = c, v = a;  // bounds ops use c as the bound; next/prev use a
    bool wrong = false;
    range_t<T> r(a, b), o(c, d);
    range_t<T> q = r;
    bool copy_form = false;
    if (op == "gt") { q.gt(u); wrong = in(e, q.first(), q.last()) != (in(e, a, b) && e > u); }
    else if (op == "lt") { q.lt(u); wrong = in(e, q.first(), q.last()) != (in(e, a, b) && e < u); }
    else if (op == "geq") { q.geq(u); wrong = in(e, q.first(), q.last()) != (in(e, a, b) && e >= u); }
    else if (op == "leq") { q.leq(u); wrong = in(e, q.first(), q.last()) != (in(e, a, b) && e <= u); }
    else if (op == "and_r" || op == "intersect_r" || op == "andc_r" || op == "intersection_r") {
        if (op == "and_r") q &= o; else if (op == "intersect_r") q.intersect(o); else if (op == "andc_r") { q = r & o; copy_form = true; } else { q = r.intersection(o); copy_form = true; }
        wrong = in(e, q.first(), q.last()) != (in(e, a, b) && in(e, c, d));
    } else if (op == "and_e" || op == "intersect_e" || op == "andc_e" || op == "intersection_e") {
        if (op == "and_e") q &= c; else if (op == "intersect_e") q.intersect(c); else if (op == "andc_e") { q = r & c; copy_form = true; } else { q = r.intersection(c); copy_form = true; }
        wrong = in(e, q.first(), q.last()) != (in(e, a, b) && e == c);
    } else if (op == "or_r" || op == "add_r_" || op == "orc_r" || op == "unite_r") {
        if (op == "or_r") q |= o; else if (op == "add_r_") q.add(o); else if (op == "orc_r") { q = r | o; copy_form = true; } else { q = r.unite(o); copy_form = true; }
        wrong = q.first() != std::min(a, c) || q.last() != std::max(b, d) || ((in(e, a, b) || in(e, c, d)) && !in(e, q.first(), q.last()));
    } else if (op == "or_e" || op == "add_e_" || op == "orc_e" || op == "unite_e") {
        if (op == "or_e") q |= c; else if (op == "add_e_") q.add(c); else if (op == "orc_e") { q = r | c; copy_form = true; } else { q = r.unite(c); copy_form = true; }
        wrong = q.first() != std::min(a, c) || q.last() != std::max(b, c) || ((in(e, a, b) || e == c) && !in(e, q.first(), q.last()));
    } else if (op == "lower") { q.lower(c); wrong = q.first() != std::min(a, c) || q.last() != b; }
    else if (op == "raise") { q.raise(c); wrong = q.first() != a || q.last() != std::max(b, c); }
    else if (op == "plus_r" || op == "plusc_r") { if (op == "plus_r") q += o; else { q = r + o; copy_form = true; }
        wrong = (W)q.first() != (W)a + (W)c || (W)q.last() != (W)b + (W)d || (in(x, a, b) && in(y, c, d) && !in((W)x + (W)y, q.first(), q.last())); }
    else if (op == "minus_r" || op == "minusc_r") { if (op == "minus_r") q -= o; else { q = r - o; copy_form = true; }
        wrong = (W)q.first() != (W)a - (W)d || (W)q.last() != (W)b - (W)c || (in(x, a, b) && in(y, c, d) && !in((W)x - (W)y, q.first(), q.last())); }
    else if (op == "times_r" || op == "timesc_r") { if (op == "times_r") q *= o; else { q = r * o; copy_form = true; }
        W k[4] = {(W)a * c, (W)a * d, (W)b * c, (W)b * d};
        bool lo_ok = false, hi_ok = false;
        for (W z : k) { lo_ok |= (W)q.first() == z; hi_ok |= (W)q.last() == z; }
        wrong = !lo_ok || !hi_ok || (in(x, a, b) && in(y, c, d) && !in((W)x * (W)y, q.first(), q.last())); }
    else if (op == "plus_e" || op == "plusc_e") { if (op == "plus_e") q += c; else { q = r + c; copy_form = true; }
        wrong = (W)q.first() != (W)a + (W)c || (W)q.last() != (W)b + (W)c || (in(x, a, b) && !in((W)x + (W)c, q.first(), q.last())); }
    else if (op == "minus_e" || op == "minusc_e") { if (op == "minus_e") q -= c; else { q = r - c; copy_form = true; }
        wrong = (W)q.first() != (W)a - (W)c || (W)q.last() != (W)b - (W)c || (in(x, a, b) && !in((W)x - (W)c, q.first(), q.last())); }
    else if (op == "times_e" || op == "timesc_e") { if (op == "times_e") q *= c; else { q = r * c; copy_form = true; }
        W k[2] = {(W)a * c, (W)b * c};
        bool lo_ok = false, hi_ok = false;
        for (W z : k) { lo_ok |= (W)q.first() == z; hi_ok |= (W)q.last() == z; }
        wrong = !lo_ok || !hi_ok || (in(x, a, b) && !in((W)x * (W)c, q.first(), q.last())); }
    else if (op == "stdmin") { q = std::min(r, o); wrong = q.first() != std::min(a, c) || q.last() != std::min(b, d); }
    else if (op == "stdmax") { q = std::max(r, o); wrong = q.first() != std::max(a, c) || q.last() != std::max(b, d); }
    else if (op == "size") { W n = (W)b - (W)a + 1; wrong = (W)r.size() != n; }
    else if (op == "next_value") { T n = UTAP::next_value<T>(v); if (std::numeric_limits<T>::is_integer) wrong = (W)n != (W)v + 1; else wrong = !(n > v) || (v < b && b < n); }
    else if (op == "prev_value") { T n = UTAP::prev_value<T>(v); if (std::numeric_limits<T>::is_integer) wrong = (W)n != (W)v - 1; else wrong = !(n < v) || (n < b && b < v); }
    else if (op == "contains") { wrong = r.contains(c) != in(c, a, b); }
    else if (op == "andand_e") { wrong = (r && c) != in(c, a, b); }
    else if (op == "intersects" || op == "andand_r") { bool res = op == "intersects" ? r.intersects(o) : (r && o);
        bool truth = std::max(a, c) <= std::min(b, d); wrong = res != truth; }
    else if (op == "eq_r") { bool truth = (a > b && c > d) || (a <= b && c <= d && a == c && b == d); wrong = (r == o) != truth; }
    else if (op == "eq_e") { wrong = (r == c) != (a == c && b == c); }
    else if (op == "less") { wrong = (r < o) != (b < c); }
    else if (op == "greater") { wrong = (r > o) != (a > d); }
    else if (op == "lesseq") { wrong = (r <= o) != !(a > d); }
    else if (op == "greatereq") { wrong = (r >= o) != !(b < c); }
    else if (op == "empty") { wrong = r.empty() != (a > b); }
    else if (op == "singleton") { range_t<T> s(a); wrong = s.first() != a || s.last() != a; }
    else if (op == "default") { range_t<T> s; wrong = s.first() != 0 || s.last() != 0; }
    else if (op == "clear") { q.clear(); wrong = q.first() != 0 || q.last() != 0; }
    else { std::printf("UNKNOWN-OP %s\n", op.c_str()); return 4; }
    if (copy_form && (r.first() != a || r.last() != b)) wrong = true;
    if (wrong) {
        std::printf("CONFIRMED op=%s result=[%Lg,%Lg] this=[%Lg,%Lg]\n", op.c_str(), (long double)q.first(), (long double)q.last(), (long double)r.first(), (long double)r.last());
        return 0;
    }
    std::printf("NOT-REPRODUCED op=%s result=[%Lg,%Lg]\n", op.c_str(), (long double)q.first(), (long double)q.last());
    return 3;
}

int main(int argc, char** argv)
{
    if (argc < 10) { std::printf("usage\n"); return 4; }
    std::string ty = argv[1], op = argv[2];
    // the stub constants of stubs/std/limits must equal the real <limits>
    static_assert(std::numeric_limits<int8_t>::max() == 127 && std::numeric_limits<int8_t>::min() == -128, "");
    static_assert(std::numeric_limits<int16_t>::max() == 32767 && std::numeric_limits<int16_t>::min() == -32768, "");
    static_assert(std::numeric_limits<int32_t>::max() == 2147483647 && std::numeric_limits<int32_t>::lowest() == -2147483647 - 1, "");
    static_assert(std::numeric_limits<double>::max() == 1.7976931348623157e308 && std::numeric_limits<double>::lowest() == -1.7976931348623157e308, "");
    static_assert(std::numeric_limits<double>::has_infinity && !std::numeric_limits<int32_t>::has_infinity, "");
    if (ty == "d") {
        double v[7];
        for (int i = 0; i < 7; i++) v[i] = std::strtod(argv[3 + i], nullptr);
        return go<double>(op, v[0], v[1], v[2], v[3], v[4], v[5], v[6]);
    }
    long long v[7];
    for (int i = 0; i < 7; i++) v[i] = std::strtoll(argv[3 + i], nullptr, 10);
    if (ty == "i8") return go<int8_t>(op, v[0], v[1], v[2], v[3], v[4], v[5], v[6]);
    if (ty == "i16") return go<int16_t>(op, v[0], v[1], v[2], v[3], v[4], v[5], v[6]);
    if (ty == "i32") return go<int32_t>(op, v[0], v[1], v[2], v[3], v[4], v[5], v[6]);
    return 4;
}
